(* Proofs/BindProofs.v — C01: a successful hard-binding verification pins the protected bytes. *)
From Coq Require Import List NArith Bool Lia Arith ZifyBool ZifyNat ZifyN.
From C2PA Require Import Base.Bytes Model.RangeHash Model.Bind Proofs.BytesProofs Proofs.RangeHashProofs.
Import ListNotations.
Open Scope N_scope.
Arguments N.add : simpl never.
Arguments N.sub : simpl never.
Arguments N.eqb : simpl never.
Arguments N.ltb : simpl never.
Arguments N.leb : simpl never.

(* an explicit collision of the digest function *)
Definition collision (H : bytes -> bytes) : Prop := exists x y : bytes, x <> y /\ H x = H y.

Lemma bytes_eq_dec (a b : bytes) : {a = b} + {a <> b}.
Proof. apply list_eq_dec. apply N.eq_dec. Qed.

Lemma hash_eq_inv (H : bytes -> bytes) x y : H x = H y -> x = y \/ collision H.
Proof. intro E. destruct (bytes_eq_dec x y) as [->|Hne]; [left; reflexivity|right; exists x, y; auto]. Qed.

Lemma vec_compare_eq a : forall b, vec_compare a b = true -> a = b.
Proof.
  induction a as [|x a IH]; intros [|y b] E; cbn [vec_compare] in E; try discriminate; [reflexivity|].
  apply andb_true_iff in E. destruct E as [E1 E2]. apply N.eqb_eq in E1. subst. f_equal. auto.
Qed.

Lemma vec_compare_refl a : vec_compare a a = true.
Proof. induction a as [|x a IH]; [reflexivity|]. cbn [vec_compare]. rewrite N.eqb_refl, IH. reflexivity. Qed.

(* ------------------------------------------------------------------ the combinatorial core *)

Lemma sel_length_indep hr : forall (a b : bytes) p,
  length a = length b -> length (sel hr p a) = length (sel hr p b).
Proof.
  induction a as [|x a IH]; intros [|y b] p E; cbn [length] in E; try discriminate; [reflexivity|].
  cbn [sel]. rewrite !app_length. rewrite (IH b (p + 1)) by lia.
  destruct (covered hr p); reflexivity.
Qed.

Lemma sel_app hr : forall (a b : bytes) p, sel hr p (a ++ b) = sel hr p a ++ sel hr (p + len a) b.
Proof.
  induction a as [|x a IH]; intros b p.
  - cbn [app sel]. rewrite len_nil, N.add_0_r. reflexivity.
  - cbn [app sel]. rewrite IH, len_cons. rewrite <- app_assoc.
    replace (p + 1 + len a) with (p + (len a + 1)) by lia. reflexivity.
Qed.

Lemma sel_uncovered hr : forall (b : bytes) p, (forall q, p <= q -> covered hr q = false) -> sel hr p b = b.
Proof.
  induction b as [|x b IH]; intros p Hq; [reflexivity|].
  cbn [sel]. rewrite (Hq p) by lia. cbn [app]. f_equal. apply IH. intros q Hle. apply Hq. lia.
Qed.

Lemma covered_false_beyond hr n p : Forall (in_bounds n) hr -> n <= p -> covered hr p = false.
Proof.
  intros Hb Hp. unfold covered. induction Hb as [|r t Hr _ IH]; [reflexivity|].
  cbn [existsb]. rewrite IH. unfold covers, in_bounds in *. lia.
Qed.

Lemma sel_len_le hr (a b : bytes) :
  (length a <= length b)%nat -> Forall (in_bounds (len a)) hr ->
  length (sel hr 0 b) = (length (sel hr 0 a) + (length b - length a))%nat.
Proof.
  intros Hle Hb.
  rewrite <- (firstn_skipn (length a) b) at 1.
  rewrite sel_app.
  assert (Hf : length (firstn (length a) b) = length a) by (apply firstn_length_le; exact Hle).
  rewrite app_length. rewrite (sel_length_indep hr _ a 0 Hf).
  rewrite (sel_uncovered hr (skipn (length a) b)).
  - rewrite skipn_length. reflexivity.
  - intros q Hq. apply (covered_false_beyond hr (len a)); [exact Hb|]. unfold len in *. lia.
Qed.

Lemma sel_eq_length hr (f f' : bytes) :
  Forall (in_bounds (len f)) hr -> Forall (in_bounds (len f')) hr ->
  sel hr 0 f' = sel hr 0 f -> length f' = length f.
Proof.
  intros Hb Hb' E. apply (f_equal (@length N)) in E.
  destruct (Nat.le_ge_cases (length f) (length f')) as [Hle|Hle].
  - rewrite (sel_len_le hr f f' Hle Hb) in E. lia.
  - rewrite (sel_len_le hr f' f Hle Hb') in E. lia.
Qed.

Lemma sel_pointwise hr : forall (f f' : bytes) p,
  length f' = length f -> sel hr p f' = sel hr p f ->
  forall i, (i < length f)%nat -> covered hr (p + N.of_nat i) = false -> nth i f' 0 = nth i f 0.
Proof.
  induction f as [|x f IH]; intros [|x' f'] p Hl E i Hi Hc; cbn [length] in *; try discriminate; try lia.
  cbn [sel] in E.
  assert (Ht : sel hr (p + 1) f' = sel hr (p + 1) f /\ (covered hr p = false -> x' = x)).
  { destruct (covered hr p); cbn [app] in E; [split; [exact E|discriminate]|].
    injection E as E1 E2. split; [exact E2|intros _; exact E1]. }
  destruct Ht as [Ht Hx].
  destruct i as [|i].
  - cbn [nth]. apply Hx. rewrite <- Hc. f_equal. lia.
  - cbn [nth]. apply (IH f' (p + 1)); [lia|exact Ht|lia|].
    rewrite <- Hc. f_equal. lia.
Qed.

Lemma sel_ext_pointwise hr : forall (f f' : bytes) p, length f' = length f ->
  (forall i, (i < length f)%nat -> covered hr (p + N.of_nat i) = false -> nth i f' 0 = nth i f 0) ->
  sel hr p f' = sel hr p f.
Proof.
  induction f as [|x f IH]; intros [|x' f'] p Hl Hp; cbn [length] in Hl; try discriminate; [reflexivity|].
  cbn [sel]. f_equal.
  - destruct (covered hr p) eqn:Ec; [reflexivity|]. f_equal.
    apply (Hp 0%nat); [cbn [length]; lia|]. rewrite <- Ec. f_equal. lia.
  - apply IH; [lia|]. intros i Hi Hc. apply (Hp (S i)); [cbn [length]; lia|].
    rewrite <- Hc. f_equal. lia.
Qed.

(* equal selected streams with the same exclusion set, in bounds of both files, force equal lengths and
   position-wise agreement outside the exclusions *)
Theorem sel_agree hr (f f' : bytes) :
  Forall (in_bounds (len f)) hr -> Forall (in_bounds (len f')) hr ->
  sel hr 0 f' = sel hr 0 f ->
  length f' = length f /\
  forall p, p < len f -> covered hr p = false -> nth (N.to_nat p) f' 0 = nth (N.to_nat p) f 0.
Proof.
  intros Hb Hb' E.
  pose proof (sel_eq_length hr f f' Hb Hb' E) as Hl.
  split; [exact Hl|].
  intros p Hp Hc. apply (sel_pointwise hr f f' 0 Hl E).
  - unfold len in Hp. lia.
  - rewrite N2Nat.id, N.add_0_l. exact Hc.
Qed.

(* ------------------------------------------------------------------ data hash *)

Section Data.
  Variable H : bytes -> bytes.
  Variable buf : N.
  Variable debug : bool.

  Lemma excl_no_marker E : Forall no_marker (excl_ranges E).
  Proof. unfold excl_ranges. apply Forall_forall. intros r Hr. apply in_map_iff in Hr. destruct Hr as (e & <- & _). reflexivity. Qed.

  Lemma in_bounds_dec n hr : {Forall (in_bounds n) hr} + {Exists (fun r => n < hstart r + hlen r) hr}.
  Proof.
    induction hr as [|r t IH]; [left; constructor|].
    destruct (hstart r + hlen r <=? n) eqn:Hle.
    - assert (in_bounds n r) by (unfold in_bounds; lia).
      destruct IH as [IH|IH]; [left; constructor; assumption|right; apply Exists_cons_tl; exact IH].
    - right. apply Exists_cons_hd. lia.
  Qed.

  (* a digest in exclusion mode exists only for in-bounds ranges over a non-empty stream, and is the digest of
     exactly the bytes outside the exclusions *)
  Lemma digest_excl_ok f E d :
    len f < U64 -> (debug = false \/ len f < U32) -> 1 <= buf ->
    digest H buf debug f (excl_ranges E) true = Ok d ->
    Forall (in_bounds (len f)) (excl_ranges E) /\ 1 <= len f /\ d = H (sel (excl_ranges E) 0 f).
  Proof.
    intros H64 Hdbg Hbuf Hd. unfold digest in Hd.
    destruct (in_bounds_dec (len f) (excl_ranges E)) as [Hb|Hx].
    - assert (H1 : 1 <= len f).
      { destruct f as [|x t]; [rewrite empty_stream in Hd; discriminate|rewrite len_cons; lia]. }
      destruct (exclusion_spec debug f (excl_ranges E) buf H1 H64 Hdbg Hbuf (excl_no_marker E) Hb) as (r & Er & Ei).
      rewrite Er in Hd. injection Hd as <-. rewrite Ei. auto.
    - destruct (past_end_rejected debug f (excl_ranges E) true buf Hx) as (e & Ee).
      rewrite Ee in Hd. discriminate.
  Qed.

  (* C01, data hash: the signer recorded h over f with exclusions E; verification of f' against (E, h) succeeds *)
  Theorem data_tamper f f' E h :
    len f < U64 -> len f' < U64 -> (debug = false \/ (len f < U32 /\ len f' < U32)) -> 1 <= buf ->
    sign_data H buf debug f E = Ok h ->
    verify_data H buf debug f' E h = VOk ->
    (length f' = length f /\
     forall p, p < len f -> covered (excl_ranges E) p = false -> nth (N.to_nat p) f' 0 = nth (N.to_nat p) f 0)
    \/ collision H.
  Proof.
    intros H64 H64' Hdbg Hbuf Hs Hv.
    unfold sign_data in Hs.
    destruct (digest_excl_ok f E h H64 ltac:(destruct Hdbg as [->|[? ?]]; auto) Hbuf Hs) as (Hb & _ & ->).
    unfold verify_data in Hv.
    destruct (digest H buf debug f' (excl_ranges E) true) as [d| |] eqn:Ed; try discriminate.
    destruct (vec_compare (H (sel (excl_ranges E) 0 f)) d) eqn:Ev; [|discriminate].
    apply vec_compare_eq in Ev.
    destruct (digest_excl_ok f' E d H64' ltac:(destruct Hdbg as [->|[? ?]]; auto) Hbuf Ed) as (Hb' & _ & ->).
    destruct (hash_eq_inv H _ _ Ev) as [Es|Hc]; [left|right; exact Hc].
    apply sel_agree; auto.
  Qed.

  (* the corollary in the property's words: any position where a file that verifies differs from the signed
     file lies inside a signed exclusion (and nothing was inserted, deleted, appended or truncated) *)
  Corollary excluded_only f f' E h :
    len f < U64 -> len f' < U64 -> (debug = false \/ (len f < U32 /\ len f' < U32)) -> 1 <= buf ->
    sign_data H buf debug f E = Ok h ->
    verify_data H buf debug f' E h = VOk ->
    (length f' = length f /\
     forall p, p < len f -> nth (N.to_nat p) f' 0 <> nth (N.to_nat p) f 0 ->
               exists e, In e E /\ fst e <= p < fst e + snd e)
    \/ collision H.
  Proof.
    intros H64 H64' Hdbg Hbuf Hs Hv.
    destruct (data_tamper f f' E h H64 H64' Hdbg Hbuf Hs Hv) as [[Hl Hp]|Hc]; [left|right; exact Hc].
    split; [exact Hl|]. intros p Hlt Hne.
    destruct (covered (excl_ranges E) p) eqn:Ec; [|exfalso; apply Hne; apply Hp; assumption].
    unfold covered in Ec. apply existsb_exists in Ec. destruct Ec as (r & Hr & Hcov).
    unfold excl_ranges in Hr. apply in_map_iff in Hr. destruct Hr as (e & <- & He).
    exists e. split; [exact He|]. unfold covers in Hcov. cbn [hstart hlen] in Hcov. lia.
  Qed.

  (* completeness direction (no false alarm): an untouched file verifies *)
  Theorem data_untouched f E h :
    sign_data H buf debug f E = Ok h -> verify_data H buf debug f E h = VOk.
  Proof.
    unfold sign_data, verify_data. intros ->. rewrite vec_compare_refl. reflexivity.
  Qed.

  (* and a change inside the exclusions does not disturb verification *)
  Theorem data_excluded_change_ok f f' E h :
    1 <= len f -> len f < U64 -> (debug = false \/ len f < U32) -> 1 <= buf ->
    Forall (in_bounds (len f)) (excl_ranges E) ->
    sign_data H buf debug f E = Ok h ->
    length f' = length f ->
    (forall p, p < len f -> covered (excl_ranges E) p = false -> nth (N.to_nat p) f' 0 = nth (N.to_nat p) f 0) ->
    verify_data H buf debug f' E h = VOk.
  Proof.
    intros H1 H64 Hdbg Hbuf Hb Hs Hl Hp.
    assert (Hlen : len f' = len f) by (unfold len; lia).
    assert (Esel : sel (excl_ranges E) 0 f' = sel (excl_ranges E) 0 f).
    { apply sel_ext_pointwise; [exact Hl|]. intros i Hi Hc.
      specialize (Hp (N.of_nat i)). rewrite Nat2N.id in Hp. apply Hp; [unfold len; lia|].
      rewrite N.add_0_l in Hc. exact Hc. }
    unfold sign_data in Hs.
    destruct (digest_excl_ok f E h H64 Hdbg Hbuf Hs) as (_ & _ & ->).
    unfold verify_data, digest.
    rewrite <- Hlen in *.
    destruct (exclusion_spec debug f' (excl_ranges E) buf H1 H64 Hdbg Hbuf (excl_no_marker E) Hb) as (r & Er & Ei).
    rewrite Er, Ei, Esel, vec_compare_refl. reflexivity.
  Qed.
End Data.

(* ------------------------------------------------------------------ box hash *)

Definition box_slice (f : bytes) (s : srcbox) : bytes := slice f (N.to_nat (sb_start s)) (N.to_nat (sb_len s)).
Definition pieces (f : bytes) (src : list srcbox) : list bytes := map (box_slice f) src.

(* the boxes are contiguous from offset o and end exactly at n *)
Fixpoint tiles (o : N) (src : list srcbox) (n : N) : Prop :=
  match src with
  | [] => o = n
  | s :: t => sb_start s = o /\ tiles (o + sb_len s) t n
  end.

Lemma tiles_le o src n : tiles o src n -> o <= n.
Proof. revert o. induction src as [|s t IH]; intros o Ht; cbn [tiles] in Ht; [lia|]. destruct Ht as [_ Ht]. apply IH in Ht. lia. Qed.

Lemma skipn_add {A} (l : list A) : forall a b, skipn a (skipn b l) = skipn (b + a) l.
Proof.
  induction l as [|x l IH]; intros a b.
  - rewrite !skipn_nil. reflexivity.
  - destruct b as [|b]; [reflexivity|]. cbn [skipn Nat.add]. apply IH.
Qed.

Lemma tiles_concat (f : bytes) : forall src o, tiles o src (len f) -> concat (pieces f src) = skipn (N.to_nat o) f.
Proof.
  induction src as [|s t IH]; intros o Ht; cbn [tiles] in Ht.
  - subst o. cbn [pieces map concat]. unfold len. rewrite Nat2N.id. symmetry. apply skipn_all.
  - destruct Ht as [Hs Ht]. pose proof (tiles_le _ _ _ Ht) as Hle.
    cbn [pieces map concat]. fold (pieces f t). rewrite (IH _ Ht).
    unfold box_slice, slice. rewrite Hs.
    replace (N.to_nat (o + sb_len s)) with (N.to_nat o + N.to_nat (sb_len s))%nat by lia.
    rewrite <- skipn_add. apply firstn_skipn.
Qed.

Section Box.
  Variable H : bytes -> bytes.
  Variable buf : N.
  Variable debug : bool.

  (* digest of one inclusion range: defined only when the range lies inside the stream; the digest of its bytes *)
  Lemma digest_incl_single f s l d :
    len f < U64 -> 1 <= buf ->
    digest H buf debug f [HR s l None] false = Ok d ->
    s + l <= len f /\ d = H (slice f (N.to_nat s) (N.to_nat l)).
  Proof.
    intros H64 Hbuf Hd. unfold digest in Hd.
    destruct (N.leb_spec (s + l) (len f)) as [Hle|Hgt].
    - split; [exact Hle|].
      assert (H1 : 1 <= len f).
      { destruct f as [|x t]; [rewrite empty_stream in Hd; discriminate|rewrite len_cons; lia]. }
      destruct (inclusion_spec debug f [HR s l None] buf H1 H64 Hbuf) as (r & Er & Ei).
      + discriminate.
      + constructor; [|constructor]. unfold in_bounds. cbn [hstart hlen]. exact Hle.
      + destruct debug; [right|left; reflexivity].
        unfold sort_by. cbn [fold_right insert_by]. unfold incl_vec. cbn [map concat]. unfold incl_vec1. cbn [hlen hmark hstart].
        destruct (l =? 0); cbn [app total_ticks fold_left]; unfold total_ticks; cbn [fold_left].
        * unfold U32. lia.
        * rewrite N.add_0_l. unfold ticks_of. apply N.mod_lt. unfold U32. lia.
      + intros (r & Hin & _ & Hm). unfold incl_marks in Hm. cbn [map concat] in Hm. unfold incl_marks1 in Hm.
        cbn [hlen hmark] in Hm. destruct (l =? 0); cbn [app] in Hm; exact Hm.
      + rewrite Er in Hd. injection Hd as <-. rewrite Ei.
        unfold sel_incl, sort_by. cbn [fold_right insert_by map concat]. unfold incl_piece. cbn [hlen hmark hstart].
        rewrite app_nil_r. destruct (l =? 0) eqn:E0; [|reflexivity].
        replace l with 0 by lia. rewrite slice_0_0. reflexivity.
    - destruct (past_end_rejected debug f [HR s l None] false buf) as (e & Ee).
      + apply Exists_cons_hd. cbn [hstart hlen]. lia.
      + rewrite Ee in Hd. discriminate.
  Qed.

  (* the inclusion computed by the inner loop over the names of one signed entry *)
  Definition span_step (inc : N * N) (s : srcbox) : option (N * N) :=
    if snd inc =? 0 then Some (sb_start s, sb_len s)
    else if sb_start s <? fst inc then
      (if debug then None else Some (fst inc, (sb_start s + U64 - fst inc + sb_len s) mod U64))
    else if U64 <=? sb_start s - fst inc + sb_len s then
      (if debug then None else Some (fst inc, (sb_start s - fst inc + sb_len s) mod U64))
    else Some (fst inc, sb_start s - fst inc + sb_len s).
  Fixpoint span_from (inc : N * N) (g : list srcbox) : option (N * N) :=
    match g with
    | [] => Some inc
    | s :: t => match span_step inc s with None => None | Some i => span_from i t end
    end.
  Definition span (g : list srcbox) : option (N * N) := span_from (0, 0) g.

  Lemma walk_names_spec single : forall names src inc skip src' inc' skip',
    walk_names debug single names src inc skip = WOk (src', inc', skip') ->
    exists g, src = g ++ src' /\ map sb_name g = names /\ span_from inc g = Some inc'
              /\ (skip' = true -> skip = true \/ (single = true /\ In nm_C2PA names)).
  Proof.
    induction names as [|n ns IH]; intros src inc skip src' inc' skip' E; cbn [walk_names] in E.
    - injection E as <- <- <-. exists []. repeat split; auto.
    - destruct src as [|s t]; [discriminate|].
      destruct (n =? sb_name s) eqn:En; [|discriminate]. apply N.eqb_eq in En.
      assert (K : forall i sk, span_step inc s = Some i -> (sk = true -> skip = true \/ (single = true /\ n = nm_C2PA)) ->
                  walk_names debug single ns t i sk = WOk (src', inc', skip') ->
                  exists g, s :: t = g ++ src' /\ map sb_name g = n :: ns /\ span_from inc g = Some inc'
                            /\ (skip' = true -> skip = true \/ (single = true /\ In nm_C2PA (n :: ns)))).
      { intros i sk Hi Hsk Hw. destruct (IH _ _ _ _ _ _ Hw) as (g & Eg & En' & Es & Hk).
        exists (s :: g). split; [cbn [app]; rewrite Eg; reflexivity|]. split; [cbn [map]; rewrite En', En; reflexivity|].
        split; [cbn [span_from]; rewrite Hi; exact Es|].
        intro Hs. destruct (Hk Hs) as [Hsk'|[Hsg Hin]].
        - destruct (Hsk Hsk') as [?|[? ?]]; [left; assumption|right; split; [assumption|left; congruence]].
        - right. split; [assumption|right; assumption]. }
      unfold span_step in K.
      destruct (snd inc =? 0) eqn:E0.
      + destruct (n =? nm_C2PA) eqn:Ec.
        * destruct single eqn:Esg; [|discriminate]. apply N.eqb_eq in Ec.
          apply (K _ true eq_refl); [intros _; right; split; [reflexivity|exact Ec]|exact E].
        * apply (K _ skip eq_refl); [intros ->; left; reflexivity|exact E].
      + destruct (sb_start s <? fst inc) eqn:E1.
        * destruct debug; [discriminate|]. apply (K _ skip eq_refl); [intros ->; left; reflexivity|exact E].
        * destruct (U64 <=? sb_start s - fst inc + sb_len s) eqn:E2.
          -- destruct debug; [discriminate|]. apply (K _ skip eq_refl); [intros ->; left; reflexivity|exact E].
          -- apply (K _ skip eq_refl); [intros ->; left; reflexivity|exact E].
  Qed.

  (* the entries whose bytes are compared: not flagged excluded, and not the single-name "C2PA" entry *)
  Definition checked (names : list N) (excluded : bool) : bool :=
    negb excluded && negb (match names with [n] => n =? nm_C2PA | _ => false end).

  Lemma skip_only_c2pa names src src' inc' :
    walk_names debug (is_single names) names src (0, 0) false = WOk (src', inc', true) ->
    (match names with [n] => n =? nm_C2PA | _ => false end) = true.
  Proof.
    intro E. destruct (walk_names_spec _ _ _ _ _ _ _ _ E) as (g & _ & _ & _ & Hk).
    destruct (Hk eq_refl) as [?|[Hs Hin]]; [discriminate|].
    destruct names as [|n [|m r]]; cbn [is_single] in Hs; try discriminate.
    destruct Hin as [<-|[]]. apply N.eqb_refl.
  Qed.

  (* C01, box hash: a successful walk partitions a prefix of the (PNGh-skipped) handler map into one group of
     consecutive entries per signed entry, names matching in order, and the bytes of every checked group's
     span in f' are the signed bytes (sg = (names, signed bytes, excluded) per signed entry) *)
  Definition mk_signed (sg : list (list N * bytes * bool)) : list sigbox :=
    map (fun x => GB (fst (fst x)) (H (snd (fst x))) (snd x)) sg.

  Definition group_ok (f' : bytes) (x : list N * bytes * bool) (g : list srcbox) : Prop :=
    map sb_name g = fst (fst x) /\
    (checked (fst (fst x)) (snd x) = true ->
     exists inc, span g = Some inc /\ fst inc + snd inc <= len f'
                 /\ slice f' (N.to_nat (fst inc)) (N.to_nat (snd inc)) = snd (fst x)).

  Theorem walk_tamper f' : len f' < U64 -> 1 <= buf -> forall sg src,
    walk H buf debug f' (mk_signed sg) src = VOk ->
    (exists groups rest, src = concat groups ++ rest /\ Forall2 (group_ok f') sg groups) \/ collision H.
  Proof.
    intros H64 Hbuf. induction sg as [|[[names b] ex] sg IH]; intros src E.
    - left. exists [], src. split; [reflexivity|constructor].
    - cbn [mk_signed map walk fst snd gb_names gb_excluded gb_hash] in E. fold (mk_signed sg) in E.
      destruct (walk_names debug (is_single names) names src (0, 0) false) as [[[src' inc] skip]| |] eqn:Ew; try discriminate.
      destruct (walk_names_spec _ _ _ _ _ _ _ _ Ew) as (g & Eg & En & Es & _).
      destruct (skip || ex) eqn:Esk.
      + destruct (IH _ E) as [(groups & rest & Er & Hf)|Hc]; [left|right; exact Hc].
        exists (g :: groups), rest. split; [cbn [concat]; rewrite <- app_assoc, <- Er; exact Eg|].
        constructor; [|exact Hf]. split; [exact En|]. cbn [fst snd]. intro Hck. exfalso.
        unfold checked in Hck. apply orb_true_iff in Esk. destruct Esk as [Hs1 | Hs2]; [subst skip|subst ex; discriminate].
        rewrite (skip_only_c2pa _ _ _ _ Ew) in Hck. destruct ex; discriminate.
      + destruct (digest H buf debug f' [HR (fst inc) (snd inc) None] false) as [d| |] eqn:Ed; try discriminate.
        destruct (vec_compare (H b) d) eqn:Ev; [|discriminate]. apply vec_compare_eq in Ev.
        destruct (digest_incl_single f' _ _ _ H64 Hbuf Ed) as (Hin & ->).
        destruct (hash_eq_inv H _ _ Ev) as [Eb|Hc]; [|right; exact Hc].
        destruct (IH _ E) as [(groups & rest & Er & Hf)|Hc]; [left|right; exact Hc].
        exists (g :: groups), rest. split; [cbn [concat]; rewrite <- app_assoc, <- Er; exact Eg|].
        constructor; [|exact Hf]. split; [exact En|]. cbn [fst snd]. intros _.
        exists inc. split; [exact Es|]. split; [exact Hin|]. symmetry. exact Eb.
  Qed.

  Theorem box_tamper f' sg src : len f' < U64 -> 1 <= buf ->
    verify_boxes H buf debug f' (mk_signed sg) src = VOk ->
    (exists groups rest, skip_pngh (mk_signed sg) src = concat groups ++ rest /\ Forall2 (group_ok f') sg groups)
    \/ collision H.
  Proof.
    intros H64 Hbuf E. unfold verify_boxes in E.
    destruct (mk_signed sg) as [|b0 bs] eqn:Em; [discriminate|].
    destruct src as [|s0 t]; [discriminate|].
    rewrite <- Em in *. apply walk_tamper; assumption.
  Qed.

  (* for a well-formed group (positive lengths, non-decreasing starts, no u64 overflow) the span is the
     stretch from the start of its first entry to the end of its last one, gaps included *)
  Lemma span_from_wf : forall g s0 l0, 0 < l0 ->
    (forall s, In s g -> s0 <= sb_start s /\ sb_start s - s0 + sb_len s < U64) ->
    span_from (s0, l0) g = Some (s0, match rev g with [] => l0 | s :: _ => sb_start s - s0 + sb_len s end)
    \/ exists s, In s g /\ sb_len s = 0 /\ sb_start s = s0.
  Proof.
    induction g as [|s t IH] using rev_ind; intros s0 l0 Hl Hg.
    - left. reflexivity.
    - rewrite rev_app_distr. cbn [rev app].
      destruct (IH s0 l0 Hl) as [E|(z & Hz & Hz0 & Hzs)].
      + intros x Hx. apply Hg. apply in_or_app. left. exact Hx.
      + destruct (Hg s) as [Hs1 Hs2]; [apply in_or_app; right; left; reflexivity|].
        assert (Happ : forall a i, span_from i (a ++ [s]) = match span_from i a with None => None | Some j => span_step j s end).
        { induction a as [|y a IHa]; intro i; cbn [app span_from].
          - destruct (span_step i s); reflexivity.
          - destruct (span_step i y); [apply IHa|reflexivity]. }
        rewrite Happ, E. unfold span_step. cbn [fst snd].
        destruct (N.eq_dec (sb_start s - s0 + sb_len s) 0) as [Hz|Hnz].
        * right. exists s. split; [apply in_or_app; right; left; reflexivity|]. lia.
        * set (m := match rev t with [] => l0 | x :: _ => sb_start x - s0 + sb_len x end).
          destruct (m =? 0) eqn:Em.
          -- (* an earlier entry produced a zero-length span: it has zero length at s0 *)
             right. unfold m in Em. destruct (rev t) as [|x r] eqn:Er; [lia|].
             exists x. split; [apply in_or_app; left; apply in_rev; rewrite Er; left; reflexivity|].
             destruct (Hg x) as [Hx1 Hx2]; [apply in_or_app; left; apply in_rev; rewrite Er; left; reflexivity|]. lia.
          -- replace (sb_start s <? s0) with false by lia.
             replace (U64 <=? sb_start s - s0 + sb_len s) with false by lia. left. reflexivity.
      + right. exists z. split; [apply in_or_app; left; exact Hz|]. auto.
  Qed.

  (* ---- the full statement for per-box signing (what Store::save produces), without trailing data *)

  Lemma sign_boxes_spec f : len f < U64 -> 1 <= buf -> forall srcf signed,
    sign_boxes H buf debug f srcf = Ok signed ->
    Forall2 (fun s bm => gb_names bm = [sb_name s] /\
                         (sb_name s = nm_C2PA -> gb_excluded bm = true) /\
                         (sb_name s <> nm_C2PA -> gb_excluded bm = false /\ gb_hash bm = H (box_slice f s)))
            srcf signed.
  Proof.
    intros H64 Hbuf. induction srcf as [|s t IH]; intros signed E; cbn [sign_boxes] in E.
    - injection E as <-. constructor.
    - destruct (sb_name s =? nm_C2PA) eqn:Ec.
      + destruct (sign_boxes H buf debug f t) as [l| |] eqn:El; try discriminate. injection E as <-.
        constructor; [|apply IH; reflexivity]. cbn [gb_names gb_excluded].
        split; [reflexivity|]. split; [reflexivity|]. intro Hn. exfalso. apply Hn. lia.
      + destruct (digest H buf debug f [HR (sb_start s) (sb_len s) None] false) as [d| |] eqn:Ed; try discriminate.
        destruct (sign_boxes H buf debug f t) as [l| |] eqn:El; try discriminate. injection E as <-.
        destruct (digest_incl_single f _ _ _ H64 Hbuf Ed) as (_ & ->).
        constructor; [|apply IH; reflexivity]. cbn [gb_names gb_excluded gb_hash].
        split; [reflexivity|]. split; [intro Hn; exfalso; lia|]. intros _. split; reflexivity.
  Qed.

  Definition same_outside_c2pa (f f' : bytes) (s s' : srcbox) : Prop :=
    sb_name s' = sb_name s /\ (sb_name s <> nm_C2PA -> box_slice f' s' = box_slice f s).

  Lemma walk_single f f' : len f' < U64 -> 1 <= buf -> forall srcf signed,
    Forall2 (fun s bm => gb_names bm = [sb_name s] /\
                         (sb_name s = nm_C2PA -> gb_excluded bm = true) /\
                         (sb_name s <> nm_C2PA -> gb_excluded bm = false /\ gb_hash bm = H (box_slice f s)))
            srcf signed ->
    forall src1, walk H buf debug f' signed src1 = VOk -> (length src1 <= length signed)%nat ->
    Forall2 (same_outside_c2pa f f') srcf src1 \/ collision H.
  Proof.
    intros H64 Hbuf srcf signed HF. induction HF as [|s bm srcf signed (Hn & Hc & Hh) _ IH]; intros src1 E Hlen.
    - destruct src1; [left; constructor|cbn [length] in Hlen; lia].
    - cbn [walk] in E. rewrite Hn in E. cbn [is_single walk_names] in E.
      destruct src1 as [|s' t']; [discriminate|].
      destruct (sb_name s =? sb_name s') eqn:En; [|discriminate]. apply N.eqb_eq in En.
      cbn [snd] in E. replace (0 =? 0) with true in E by reflexivity.
      cbn [length] in Hlen.
      destruct (sb_name s =? nm_C2PA) eqn:Ec.
      + cbn [orb] in E. destruct (IH _ E ltac:(lia)) as [HF'|Hcol]; [left|right; exact Hcol].
        constructor; [|exact HF']. split; [symmetry; exact En|]. intro Hne. exfalso. apply Hne. lia.
      + destruct (Hh ltac:(lia)) as (Hex & Hhash). rewrite Hex in E. cbn [orb fst snd] in E.
        destruct (digest H buf debug f' [HR (sb_start s') (sb_len s') None] false) as [d| |] eqn:Ed; try discriminate.
        destruct (vec_compare (gb_hash bm) d) eqn:Ev; [|discriminate]. apply vec_compare_eq in Ev.
        destruct (digest_incl_single f' _ _ _ H64 Hbuf Ed) as (_ & ->). rewrite Hhash in Ev.
        destruct (hash_eq_inv H _ _ Ev) as [Eb|Hcol]; [|right; exact Hcol].
        destruct (IH _ E ltac:(lia)) as [HF'|Hcol]; [left|right; exact Hcol].
        constructor; [|exact HF']. split; [symmetry; exact En|]. intros _. symmetry. exact Eb.
  Qed.

  (* no bytes after the last box of the handler map of f', and no handler entries beyond the signed list *)
  Definition no_trailing (f' : bytes) (signed : list sigbox) (src1 : list srcbox) : Prop :=
    (exists o, tiles o src1 (len f')) /\ (length src1 <= length signed)%nat.

  Theorem box_full_no_trailing f f' srcf signed src1 o o1 :
    len f < U64 -> len f' < U64 -> 1 <= buf ->
    sign_boxes H buf debug f srcf = Ok signed -> tiles o srcf (len f) ->
    walk H buf debug f' signed src1 = VOk ->
    tiles o1 src1 (len f') -> (length src1 <= length signed)%nat ->
    (skipn (N.to_nat o) f = concat (pieces f srcf) /\
     skipn (N.to_nat o1) f' = concat (pieces f' src1) /\
     Forall2 (same_outside_c2pa f f') srcf src1)
    \/ collision H.
  Proof.
    intros H64 H64' Hbuf Hs Ht Hw Ht' Hlen.
    pose proof (sign_boxes_spec f H64 Hbuf _ _ Hs) as HF.
    destruct (walk_single f f' H64' Hbuf _ _ HF _ Hw Hlen) as [HF'|Hc]; [left|right; exact Hc].
    split; [symmetry; apply tiles_concat; exact Ht|].
    split; [symmetry; apply tiles_concat; exact Ht'|exact HF'].
  Qed.
End Box.

(* ---- F-BOX: the full statement is false when bytes (or whole handler entries) follow the signed boxes.
   Witnesses over the injective digest H = identity, so no collision can be blamed. *)
Definition fbox_f : bytes := [1;2;3;4;5;6;7;8;9;10].
Definition fbox_src : list srcbox := [SB 3 0 4; SB nm_C2PA 4 2; SB 4 6 4].
Definition fbox_id (x : bytes) : bytes := x.

Lemma box_full_refuted_bytes :
  exists signed f',
    sign_boxes fbox_id 4 true fbox_f fbox_src = Ok signed /\ tiles 0 fbox_src (len fbox_f) /\
    f' = fbox_f ++ [99] /\
    verify_boxes fbox_id 4 true f' signed fbox_src = VOk /\
    length f' <> length fbox_f /\
    ~ no_trailing f' signed (skip_pngh signed fbox_src) /\
    (forall x y, fbox_id x = fbox_id y -> x = y).
Proof.
  eexists. eexists. split; [vm_compute; reflexivity|]. split; [vm_compute; auto|]. split; [reflexivity|].
  split; [vm_compute; reflexivity|]. split; [cbn; lia|]. split; [|auto].
  intros [(o & Ht) _].
  match type of Ht with tiles _ ?s ?n => change s with fbox_src in Ht; change n with 11 in Ht end.
  unfold fbox_src in Ht. cbn [tiles sb_start sb_len] in Ht. lia.
Qed.

Lemma box_full_refuted_boxes :
  exists signed f' src',
    sign_boxes fbox_id 4 true fbox_f fbox_src = Ok signed /\
    f' = fbox_f ++ [7;7;7] /\ src' = fbox_src ++ [SB 5 10 3] /\ tiles 0 src' (len f') /\
    verify_boxes fbox_id 4 true f' signed src' = VOk /\
    ~ no_trailing f' signed (skip_pngh signed src').
Proof.
  eexists. eexists. eexists. split; [vm_compute; reflexivity|]. split; [reflexivity|]. split; [reflexivity|].
  split; [vm_compute; auto|]. split; [vm_compute; reflexivity|].
  intros [_ Hl]. vm_compute in Hl. lia.
Qed.

(* ------------------------------------------------------------------ update manifests: re-based exclusion *)

Lemma sel_uncovered_range hr : forall (b : bytes) p,
  (forall q, p <= q -> q < p + len b -> covered hr q = false) -> sel hr p b = b.
Proof.
  induction b as [|x b IH]; intros p Hq; [reflexivity|].
  rewrite len_cons in Hq. cbn [sel]. rewrite (Hq p) by lia. cbn [app]. f_equal.
  apply IH. intros q H1 H2. apply Hq; lia.
Qed.

Lemma sel_all_covered hr : forall (b : bytes) p,
  (forall q, p <= q -> q < p + len b -> covered hr q = true) -> sel hr p b = [].
Proof.
  induction b as [|x b IH]; intros p Hq; [reflexivity|].
  rewrite len_cons in Hq. cbn [sel]. rewrite (Hq p) by lia. cbn [app].
  apply IH. intros q H1 H2. apply Hq; lia.
Qed.

Lemma covered_single s l q : covered [HR s l None] q = (s <=? q) && (q <? s + l).
Proof. unfold covered, covers. cbn [existsb hstart hlen]. rewrite orb_false_r. reflexivity. Qed.

(* one exclusion: the selected stream is what precedes it followed by what follows it *)
Lemma sel_single s l (f : bytes) : s + l <= len f ->
  sel [HR s l None] 0 f = firstn (N.to_nat s) f ++ skipn (N.to_nat (s + l)) f.
Proof.
  intro Hb.
  assert (Hlen : length f = N.to_nat (len f)) by (unfold len; lia).
  rewrite <- (firstn_skipn (N.to_nat s) f) at 1.
  rewrite <- (firstn_skipn (N.to_nat l) (skipn (N.to_nat s) f)) at 1.
  rewrite skipn_add.
  assert (L1 : len (firstn (N.to_nat s) f) = s) by (unfold len; rewrite firstn_length; lia).
  assert (L2 : len (firstn (N.to_nat l) (skipn (N.to_nat s) f)) = l)
    by (unfold len; rewrite firstn_length, skipn_length; lia).
  rewrite !sel_app, L1, L2, N.add_0_l.
  rewrite sel_uncovered_range by (intros q H1 H2; rewrite covered_single; lia).
  rewrite sel_all_covered by (intros q H1 H2; rewrite covered_single; lia).
  rewrite sel_uncovered by (intros q H1; rewrite covered_single; lia).
  cbn [app]. replace (N.to_nat s + N.to_nat l)%nat with (N.to_nat (s + l)) by lia. reflexivity.
Qed.

Lemma app_eq_length_inv {A} : forall (a c b d : list A), length a = length c -> a ++ b = c ++ d -> a = c /\ b = d.
Proof.
  induction a as [|x a IH]; intros [|y c] b d Hl E; cbn [length] in Hl; try discriminate.
  - split; [reflexivity|exact E].
  - cbn [app] in E. injection E as -> E. destruct (IH c b d ltac:(lia) E) as [-> ->]. split; reflexivity.
Qed.

Section Update.
  Variable H : bytes -> bytes.
  Variable buf : N.
  Variable debug : bool.

  Lemma rebase_single s l l' : rebase [(s, l)] (Some (s, l')) = [(s, l')].
  Proof.
    unfold rebase. cbn [replace_at_start fst snd]. rewrite N.eqb_refl. cbn [fst snd map].
    destruct (0 <? s); [|reflexivity]. replace (s <? s) with false by lia. reflexivity.
  Qed.

  (* C01, update manifests (the standard single-exclusion data hash): the store region grew from (s, l) to
     (s, l'); if verification with the re-based exclusion succeeds, the bytes before the store are the signed
     ones and the bytes after the grown store are the signed bytes after the original store *)
  Theorem data_update_rebase f f' s l l' h :
    len f < U64 -> len f' < U64 -> (debug = false \/ (len f < U32 /\ len f' < U32)) -> 1 <= buf ->
    sign_data H buf debug f [(s, l)] = Ok h ->
    verify_data_update H buf debug f' [(s, l)] (Some (s, l')) h = VOk ->
    (firstn (N.to_nat s) f' = firstn (N.to_nat s) f /\
     skipn (N.to_nat (s + l')) f' = skipn (N.to_nat (s + l)) f /\
     len f' + l = len f + l')
    \/ collision H.
  Proof.
    intros H64 H64' Hdbg Hbuf Hs Hv.
    unfold verify_data_update in Hv. rewrite rebase_single in Hv.
    unfold sign_data in Hs.
    destruct (digest_excl_ok H buf debug f [(s, l)] h H64 ltac:(destruct Hdbg as [->|[? ?]]; auto) Hbuf Hs) as (Hb & _ & ->).
    unfold verify_data in Hv.
    destruct (digest H buf debug f' (excl_ranges [(s, l')]) true) as [d| |] eqn:Ed; try discriminate.
    match type of Hv with (if vec_compare ?a ?b then _ else _) = _ => destruct (vec_compare a b) eqn:Ev; [|discriminate] end.
    apply vec_compare_eq in Ev.
    destruct (digest_excl_ok H buf debug f' [(s, l')] d H64' ltac:(destruct Hdbg as [->|[? ?]]; auto) Hbuf Ed) as (Hb' & _ & ->).
    destruct (hash_eq_inv H _ _ Ev) as [Es|Hc]; [left|right; exact Hc].
    cbn [excl_ranges map fst snd] in *.
    inversion Hb as [|? ? Hb1 _]; inversion Hb' as [|? ? Hb1' _]; subst.
    unfold in_bounds in Hb1, Hb1'. cbn [hstart hlen] in Hb1, Hb1'.
    rewrite (sel_single s l f Hb1), (sel_single s l' f' Hb1') in Es.
    apply app_eq_length_inv in Es.
    - destruct Es as [E1 E2]. split; [symmetry; exact E1|]. split; [symmetry; exact E2|].
      apply (f_equal (@length N)) in E2. rewrite !skipn_length in E2. unfold len in *. lia.
    - rewrite !firstn_length. unfold len in *. lia.
  Qed.
End Update.

(* bytes between two handler entries (JPEG: non-marker bytes between segments) are not looked at either *)
Lemma box_full_refuted_gap :
  exists signed f' src',
    sign_boxes fbox_id 4 true fbox_f fbox_src = Ok signed /\
    f' = [1;2;3;4;5;6;77;7;8;9;10] /\ src' = [SB 3 0 4; SB nm_C2PA 4 2; SB 4 7 4] /\
    verify_boxes fbox_id 4 true f' signed src' = VOk /\
    ~ no_trailing f' signed (skip_pngh signed src').
Proof.
  eexists. eexists. eexists. split; [vm_compute; reflexivity|]. split; [reflexivity|]. split; [reflexivity|].
  split; [vm_compute; reflexivity|].
  intros [(o & Ht) _].
  match type of Ht with tiles _ ?s ?n => change s with [SB 3 0 4; SB nm_C2PA 4 2; SB 4 7 4] in Ht; change n with 11 in Ht end.
  cbn [tiles sb_start sb_len] in Ht. lia.
Qed.
