(* Proofs/C10BmffProofs.v — C10 for the BMFF header reader and tree builder (Model/C10Bmff.v):
   on every byte string build_bmff_tree ends with [len + 3] units of fuel (the model is run with 2 len + 4),
   never panics (each unchecked u64/usize operation is shown to be in range), adds at most one arena node
   per input byte and never recurses deeper than MAX_BOX_DEPTH. *)
From Coq Require Import List NArith Bool Lia Arith ZifyBool ZifyNat ZifyN.
From C2PA Require Import Base.Bytes Generated.C10_facts Model.C10Mach Model.C10Bmff Proofs.C10MachProofs.
Import ListNotations.
Open Scope N_scope.
Arguments N.add : simpl never.
Arguments N.sub : simpl never.
Arguments N.mul : simpl never.
Arguments N.eqb : simpl never.
Arguments N.ltb : simpl never.
Arguments N.leb : simpl never.
Arguments N.min : simpl never.
Arguments N.max : simpl never.
Arguments N.div : simpl never.
Arguments N.modulo : simpl never.

Lemma len_cons {A} (x : A) l : len (x :: l) = len l + 1.
Proof. unfold len. cbn [length]. lia. Qed.

Lemma bh_read_spec dbg buf pos :
  match bh_read dbg buf pos with
  | Ok (typ, size, large, p1) => p1 = pos + (if large then 16 else 8) /\ p1 <= len buf
  | Err _ => True
  | Panic _ _ _ => False
  | OutOfFuel => False
  end.
Proof.
  unfold bh_read.
  destruct (cread_exact buf pos 8) as [[b p1]|] eqn:E1; [|exact I].
  apply cread_exact_in in E1; [|lia].
  destruct (de (firstn 4 b) =? 1).
  - destruct (cread_exact buf p1 8) as [[l p2]|] eqn:E2; [|exact I].
    apply cread_exact_in in E2; [|lia]. lia.
  - destruct (de (firstn 4 b) =? 0).
    + rewrite sub64_ok by lia. lia.
    + lia.
Qed.

(* what every entry point of the builder guarantees, started at [pos] with limit [e] *)
Definition good (buf : bytes) (pos e : N) (acc : list (N * N)) (deep : N) (r : out berr bres) : Prop :=
  match r with
  | Ok (p, acc', deep') =>
    pos <= p /\ p <= len buf /\ (pos < e -> pos < p) /\
    len acc' <= len acc + (N.min p e - pos) /\ deep' <= N.max deep MAX_BOX_DEPTH
  | Err _ => True
  | Panic _ _ _ => False
  | OutOfFuel => False
  end.

Lemma read_ext_spec buf pos :
  match read_ext buf pos with
  | Ok p => p = pos + 4 /\ p <= len buf
  | Err _ => True
  | Panic _ _ _ => False
  | OutOfFuel => False
  end.
Proof.
  unfold read_ext. destruct (cread_exact buf pos 4) as [[b p]|] eqn:E; [|exact I].
  apply cread_exact_in in E; lia.
Qed.

Lemma MAX_BOX_DEPTH_small : MAX_BOX_DEPTH <= 1000000.
Proof. vm_compute. discriminate. Qed.

(* one-step unfoldings of the mutual fixpoint *)
Lemma bt_call_S dbg f rl buf pos e acc deep :
  bt_call dbg (S f) rl buf pos e acc deep =
  (do rl1 <- add64 dbg SITE_B_RL rl 1;
   if MAX_BOX_DEPTH <? rl1 then Err BTooDeep else bt_loop dbg f rl1 buf pos e acc (N.max deep rl1)).
Proof. reflexivity. Qed.

Lemma bt_loop_S dbg f rl buf pos e acc deep :
  bt_loop dbg (S f) rl buf pos e acc deep =
  bt_loop_body dbg (fun p a d => bt_loop dbg f rl buf p e a d) (fun p e' a d => bt_cont dbg f rl buf p e' a d)
               buf pos e acc deep.
Proof. reflexivity. Qed.

Lemma bt_cont_S dbg f rl buf pos e acc deep :
  bt_cont dbg (S f) rl buf pos e acc deep =
  (if negb (pos <? e) then Ok (pos, acc, deep)
   else do r <- bt_call dbg f rl buf pos e acc deep;
        let '(p, acc', deep') := r in bt_cont dbg f rl buf p e acc' deep').
Proof. reflexivity. Qed.

Section Proofs.
  Variable dbg : bool.
  Variable buf : bytes.
  Hypothesis HL : len buf <= U64MAX.

  Definition stmt_call (f : nat) : Prop :=
    forall rl pos e acc deep, rl <= MAX_BOX_DEPTH -> e <= len buf -> pos <= len buf ->
      len buf - pos + 2 <= N.of_nat f -> good buf pos e acc deep (bt_call dbg f rl buf pos e acc deep).
  Definition stmt_loop (f : nat) : Prop :=
    forall rl pos e acc deep, rl <= MAX_BOX_DEPTH -> e <= len buf -> pos <= len buf ->
      len buf - pos + 1 <= N.of_nat f -> good buf pos e acc deep (bt_loop dbg f rl buf pos e acc deep).
  Definition stmt_cont (f : nat) : Prop :=
    forall rl pos e acc deep, rl <= MAX_BOX_DEPTH -> e <= len buf -> pos <= len buf ->
      len buf - pos + 3 <= N.of_nat f -> good buf pos e acc deep (bt_cont dbg f rl buf pos e acc deep).

  (* a leaf arm: node (pos, s) pushed, reader moved to pos + s, loop continues *)
  Lemma leaf_step f rl pos e acc deep s :
    stmt_loop f -> rl <= MAX_BOX_DEPTH -> e <= len buf -> pos < e -> 1 <= s -> pos + s <= e ->
    len buf - pos <= N.of_nat f ->
    good buf pos e acc deep (bt_loop dbg f rl buf (pos + s) e ((pos, s) :: acc) deep).
  Proof.
    intros IH Hrl He Hpe Hs Hse Hf.
    specialize (IH rl (pos + s) e ((pos, s) :: acc) deep Hrl He).
    assert (H1 : pos + s <= len buf) by lia.
    assert (H2 : len buf - (pos + s) + 1 <= N.of_nat f) by lia.
    specialize (IH H1 H2). unfold good in *.
    destruct (bt_loop dbg f rl buf (pos + s) e ((pos, s) :: acc) deep) as [[[p acc'] deep']| | |]; try exact IH.
    destruct IH as (A & B & C & D & E). rewrite len_cons in D.
    repeat split; try lia.
  Qed.

  Lemma bt_all : forall f, stmt_call f /\ stmt_loop f /\ stmt_cont f.
  Proof.
    induction f as [|f (IHcall & IHloop & IHcont)].
    { repeat split; intros rl pos e acc deep Hrl He Hp Hf; lia. }
    repeat split; intros rl pos e acc deep Hrl He Hp Hf.
    - (* bt_call *)
      rewrite bt_call_S. pose proof MAX_BOX_DEPTH_small as Hm.
      rewrite add64_ok by (unfold U64MAX; lia).
      destruct (MAX_BOX_DEPTH <? rl + 1) eqn:Hd; [exact I|].
      assert (G : good buf pos e acc (N.max deep (rl + 1)) (bt_loop dbg f (rl + 1) buf pos e acc (N.max deep (rl + 1)))).
      { apply IHloop; lia. }
      unfold good in *.
      destruct (bt_loop dbg f (rl + 1) buf pos e acc (N.max deep (rl + 1))) as [[[p acc'] deep']| | |]; try exact G.
      destruct G as (A & B & C & D & E). repeat split; try lia.
    - (* bt_loop *)
      rewrite bt_loop_S. unfold bt_loop_body.
      destruct (negb (pos <? e)) eqn:Hlt.
      { unfold good. repeat split; lia. }
      assert (Hpe : pos < e) by lia.
      pose proof (bh_read_spec dbg buf pos) as HH.
      destruct (bh_read dbg buf pos) as [[[[typ size] large] p1]|er|s0 x0 y0|]; try contradiction.
      2:{ unfold good. repeat split; lia. }
      destruct HH as (Hp1 & Hp1L).
      destruct (size =? 0) eqn:Hz.
      { unfold good. repeat split; try lia. destruct large; lia. }
      destruct (checked_add64 pos size) as [box_end|] eqn:Hbe; [|exact I].
      apply checked_add64_spec in Hbe. destruct Hbe as (Hbe & _).
      (* the effective size s *)
      assert (Hs : (exists s, (if e <? box_end
                               then if typ =? B_MDAT then sub64 (E := berr) dbg SITE_B_MDAT e pos else Err BBeyondBounds
                               else Ok size) = Ok s /\ 1 <= s /\ pos + s <= e)
                   \/ (if e <? box_end
                       then if typ =? B_MDAT then sub64 (E := berr) dbg SITE_B_MDAT e pos else Err BBeyondBounds
                       else Ok size) = Err BBeyondBounds).
      { destruct (e <? box_end) eqn:Hb.
        - destruct (typ =? B_MDAT).
          + left. exists (e - pos). rewrite sub64_ok by lia. repeat split; lia.
          + right. reflexivity.
        - left. exists size. repeat split; lia. }
      destruct Hs as [(s & Hs & Hs1 & Hse)|Hs]; rewrite Hs; [|exact I].
      assert (Hstart : sub64 (E := berr) dbg SITE_B_START p1 (if large then B_HEADER_SIZE_LARGE else B_HEADER_SIZE) = Ok pos).
      { destruct large; rewrite sub64_ok by (unfold B_HEADER_SIZE_LARGE, B_HEADER_SIZE; lia); f_equal;
          unfold B_HEADER_SIZE_LARGE, B_HEADER_SIZE; lia. }
      rewrite Hstart.
      assert (Hadd : add64 (E := berr) dbg SITE_B_SKIP pos s = Ok (pos + s)) by (apply add64_ok; lia).
      assert (Hfl : len buf - pos <= N.of_nat f) by lia.
      destruct (typ =? B_UUID).
      { (* uuid arm *)
        destruct (cread_exact buf p1 16) as [[ext p2]|] eqn:E2; [|exact I].
        destruct (beqb ext C2PA_UUID).
        - pose proof (read_ext_spec buf p2) as HX. destruct (read_ext buf p2); try contradiction; try exact I.
          rewrite Hadd. apply leaf_step; assumption.
        - rewrite Hadd. apply leaf_step; assumption. }
      destruct (mem typ B_CONTAINERS).
      { (* container arm *)
        assert (HP2 : forall (p2 : N), p1 <= p2 -> p2 <= len buf ->
                 good buf pos e acc deep
                   (do end' <- add64 (E := berr) dbg SITE_B_SKIP pos s;
                    do r <- bt_cont dbg f rl buf p2 end' ((pos, s) :: acc) deep;
                    let '(_, acc', deep') := r in bt_loop dbg f rl buf end' e acc' deep')).
        { intros p2 Hp2 Hp2L. rewrite Hadd.
          assert (G : good buf p2 (pos + s) ((pos, s) :: acc) deep (bt_cont dbg f rl buf p2 (pos + s) ((pos, s) :: acc) deep)).
          { apply IHcont; try lia. destruct large; lia. }
          unfold good in G.
          destruct (bt_cont dbg f rl buf p2 (pos + s) ((pos, s) :: acc) deep) as [[[p' acc'] deep']| | |]; try exact G.
          destruct G as (A & B & C & D & E). rewrite len_cons in D.
          assert (G2 : good buf (pos + s) e acc' deep' (bt_loop dbg f rl buf (pos + s) e acc' deep')).
          { apply IHloop; lia. }
          unfold good in *.
          destruct (bt_loop dbg f rl buf (pos + s) e acc' deep') as [[[p'' acc''] deep'']| | |]; try exact G2.
          destruct G2 as (A2 & B2 & C2 & D2 & E2).
          assert (Hk : 1 + (N.min p' (pos + s) - p2) <= s) by (destruct large; lia).
          repeat split; try lia. }
        destruct (mem typ B_FULL_BOX_TYPES).
        - destruct ((typ =? B_META) && meta_lacks buf p1).
          + apply HP2; lia.
          + pose proof (read_ext_spec buf p1) as HX. destruct (read_ext buf p1) as [p2| | |]; try contradiction; try exact I.
            apply HP2; lia.
        - apply HP2; lia. }
      (* default arm *)
      destruct (mem typ B_FULL_BOX_TYPES).
      + pose proof (read_ext_spec buf p1) as HX. destruct (read_ext buf p1); try contradiction; try exact I.
        rewrite Hadd. apply leaf_step; assumption.
      + rewrite Hadd. apply leaf_step; assumption.
    - (* bt_cont *)
      rewrite bt_cont_S.
      destruct (negb (pos <? e)) eqn:Hlt.
      { unfold good. repeat split; lia. }
      assert (Hpe : pos < e) by lia.
      assert (G : good buf pos e acc deep (bt_call dbg f rl buf pos e acc deep)) by (apply IHcall; lia).
      unfold good in G.
      destruct (bt_call dbg f rl buf pos e acc deep) as [[[p acc'] deep']| | |]; try exact G.
      destruct G as (A & B & C & D & E).
      assert (G2 : good buf p e acc' deep' (bt_cont dbg f rl buf p e acc' deep')) by (apply IHcont; lia).
      unfold good in *.
      destruct (bt_cont dbg f rl buf p e acc' deep') as [[[p'' acc''] deep'']| | |]; try exact G2.
      destruct G2 as (A2 & B2 & C2 & D2 & E2). repeat split; try lia.
  Qed.

  (* the brand loop of read_ftyp_box reads four bytes per iteration *)
  Lemma ftyp_brands_spec : forall f pos cnt, pos <= len buf -> len buf - pos < N.of_nat f ->
    match ftyp_brands f buf pos cnt with
    | Ok p => p = pos + 4 * cnt /\ p <= len buf
    | Err _ => True
    | Panic _ _ _ => False
    | OutOfFuel => False
    end.
  Proof.
    induction f as [|f IH]; intros pos cnt Hp Hf; [lia|].
    cbn [ftyp_brands]. destruct (cnt =? 0) eqn:Hc; [lia|].
    destruct (cread_exact buf pos 4) as [[b p]|] eqn:E; [|exact I].
    apply cread_exact_in in E; [|lia].
    specialize (IH p (cnt - 1)). destruct (ftyp_brands f buf p (cnt - 1)); try (apply IH; lia).
    assert (a = p + 4 * (cnt - 1) /\ a <= len buf) by (apply IH; lia). lia.
  Qed.

  Lemma read_ftyp_spec f : len buf < N.of_nat f ->
    match read_ftyp dbg f buf with
    | Ok brands => 4 * brands <= len buf
    | Err _ => True
    | Panic _ _ _ => False
    | OutOfFuel => False
    end.
  Proof.
    intro Hf. unfold read_ftyp.
    pose proof (bh_read_spec dbg buf 0) as HH.
    destruct (bh_read dbg buf 0) as [[[[typ size] large] p1]|er|s0 x0 y0|]; try contradiction; try exact I.
    destruct HH as (Hp1 & Hp1L).
    destruct (negb (typ =? B_FTYP)); [lia|].
    destruct ((size <? 16) || negb (size mod 4 =? 0)) eqn:Hsz; [exact I|].
    rewrite sub64_ok by lia.
    destruct (cread_exact buf p1 4) as [[b2 p2]|] eqn:E2; [|exact I].
    destruct (cread_exact buf p2 4) as [[b3 p3]|] eqn:E3; [|exact I].
    apply cread_exact_in in E2; [|lia]. apply cread_exact_in in E3; [|lia].
    pose proof (ftyp_brands_spec f p3 ((size - 16) / 4)) as HB.
    destruct (ftyp_brands f buf p3 ((size - 16) / 4)) as [p4| | |]; try (apply HB; lia).
    assert (Hx : p4 = p3 + 4 * ((size - 16) / 4) /\ p4 <= len buf) by (apply HB; lia).
    assert (Hdiv : 4 * ((size - 16) / 4) <= size - 16) by (apply N.mul_div_le; lia).
    assert (Hmod : size mod 4 = 0) by lia.
    assert (Hsz2 : size - 16 = 4 * ((size - 16) / 4)).
    { assert (Hm2 : (size - 16) mod 4 = 0).
      { replace size with ((size - 16) + 4 * 4) in Hmod by lia. rewrite N.mod_add in Hmod by lia. exact Hmod. }
      rewrite (N.div_mod (size - 16) 4) at 1 by lia. lia. }
    rewrite add64_ok by (destruct large; lia). lia.
  Qed.

  (* BMFFArena::from_stream on any byte string: Ok or Err; at most one node per byte; depth within the limit *)
  Lemma bmff_read_safe :
    match bmff_read dbg buf with
    | Ok (nodes, deep, brands) => len nodes <= len buf /\ deep <= MAX_BOX_DEPTH /\ 4 * brands <= len buf
    | Err _ => True
    | Panic _ _ _ => False
    | OutOfFuel => False
    end.
  Proof.
    unfold bmff_read, bmff_from_stream.
    pose proof (read_ftyp_spec (bfuel buf)) as HF.
    destruct (read_ftyp dbg (bfuel buf) buf) as [brands| | |]; try (apply HF; unfold bfuel, len; lia).
    assert (HF' : 4 * brands <= len buf) by (apply HF; unfold bfuel, len; lia).
    destruct (bt_all (bfuel buf)) as (Hc & _ & _).
    specialize (Hc 0 0 (len buf) [] 0).
    assert (G : good buf 0 (len buf) [] 0 (bt_call dbg (bfuel buf) 0 buf 0 (len buf) [] 0)).
    { apply Hc; try lia. unfold bfuel, len. lia. }
    unfold good in G.
    destruct (bt_call dbg (bfuel buf) 0 buf 0 (len buf) [] 0) as [[[p acc] deep]| | |]; try exact G.
    destruct G as (A & B & C & D & E).
    assert (Hrev : len (rev acc) = len acc) by (unfold len; rewrite rev_length; reflexivity).
    rewrite Hrev. rewrite len_nil in D. repeat split; try lia.
  Qed.
End Proofs.

(* deeper than the limit is an error, whatever follows: nesting can never exceed MAX_BOX_DEPTH calls *)
Lemma bt_call_too_deep dbg f rl buf pos e acc deep :
  MAX_BOX_DEPTH <= rl -> rl < U64MAX ->
  bt_call dbg (S f) rl buf pos e acc deep = Err BTooDeep.
Proof.
  intros H H2. rewrite bt_call_S. rewrite add64_ok by lia.
  destruct (MAX_BOX_DEPTH <? rl + 1) eqn:Hd; [reflexivity|lia].
Qed.

(* examples: ftyp(16) + moov{ trak{} } + a size-0 box running to the end *)
Definition bmff_example : bytes :=
  [0;0;0;16; 102;116;121;112; 105;115;111;109; 0;0;0;0] ++
  [0;0;0;16; 109;111;111;118;  0;0;0;8; 116;114;97;107] ++
  [0;0;0;0; 102;114;101;101; 1;2;3].

Lemma bmff_example_runs : bmff_read true bmff_example = Ok ([(0, 16); (16, 16); (24, 8); (32, 11)], 2, 0).
Proof. vm_compute. reflexivity. Qed.

(* a 64-bit size of 2^64-1 is an error (checked_add), in debug builds too *)
Lemma bmff_example_huge :
  bmff_read true ([0;0;0;1; 109;111;111;118; 255;255;255;255;255;255;255;255] ++ [0;0;0;8; 102;114;101;101])
  = Err BBeyondBounds.
Proof. vm_compute. reflexivity. Qed.
