(* Proofs/HostPatternProofs.v — byte-string lemmas and the specification of HostPattern::new / matches. *)
From Coq Require Import List NArith Bool Arith Lia ZifyBool ZifyNat ZifyN.
From C2PA Require Import Base.Bytes Model.HostPattern.
Import ListNotations.
Open Scope N_scope.

(* ---- strings ---- *)

Lemma beqb_eq a b : beqb a b = true <-> a = b.
Proof.
  revert b. induction a as [| x a IH]; intros [| y b]; cbn [beqb]; try (split; [discriminate | discriminate]); try tauto.
  rewrite andb_true_iff, N.eqb_eq, IH. split; [intros [-> ->]; reflexivity | intro E; inversion E; auto].
Qed.

Lemma beqb_refl a : beqb a a = true.
Proof. apply beqb_eq. reflexivity. Qed.

Lemma opt_beqb_eq a b : opt_beqb a b = true <-> a = b.
Proof.
  destruct a, b; cbn [opt_beqb]; try (split; [discriminate | discriminate]); try tauto.
  rewrite beqb_eq. split; [intros ->; reflexivity | intro E; inversion E; reflexivity].
Qed.

Lemma strip_prefix_spec p s r : strip_prefix p s = Some r <-> s = p ++ r.
Proof.
  revert s. induction p as [| a p IH]; intros s; cbn [strip_prefix app].
  - split; [intro E; inversion E; reflexivity | intros ->; reflexivity].
  - destruct s as [| b s]; [split; discriminate |].
    destruct (N.eqb_spec a b) as [-> | NE].
    + rewrite IH. split; [intros ->; reflexivity | intro E; inversion E; reflexivity].
    + split; [discriminate | intro E; inversion E; congruence].
Qed.

Lemma strip_prefix_none p s : strip_prefix p s = None <-> forall r, s <> p ++ r.
Proof.
  split.
  - intros E r H. apply strip_prefix_spec in H. congruence.
  - intro H. destruct (strip_prefix p s) eqn:E; [| reflexivity]. apply strip_prefix_spec in E. elim (H _ E).
Qed.

Lemma ends_with_spec s suf : ends_with s suf = true <-> exists p, s = p ++ suf.
Proof.
  unfold ends_with. rewrite andb_true_iff, Nat.leb_le, beqb_eq. split.
  - intros [L E]. exists (firstn (length s - length suf) s). rewrite <- E at 2. symmetry. apply firstn_skipn.
  - intros [p ->]. rewrite app_length. split; [lia |].
    replace (length p + length suf - length suf)%nat with (length p) by lia.
    rewrite skipn_app, Nat.sub_diag, skipn_all. reflexivity.
Qed.

Lemma strip_suffix_spec suf s r : strip_suffix suf s = Some r <-> s = r ++ suf.
Proof.
  unfold strip_suffix. destruct (ends_with s suf) eqn:E.
  - apply ends_with_spec in E. destruct E as [p ->]. rewrite app_length.
    replace (length p + length suf - length suf)%nat with (length p) by lia.
    rewrite firstn_app, Nat.sub_diag, firstn_all, firstn_O, app_nil_r.
    split; [intro H; inversion H; reflexivity | intro H; apply app_inv_tail in H; subst; reflexivity].
  - split; [discriminate |]. intros ->. rewrite <- not_true_iff_false in E. elim E. apply ends_with_spec. eauto.
Qed.

Lemma rsplit_once_notin c s : ~ In c s -> rsplit_once c s = None.
Proof.
  induction s as [| b s IH]; [reflexivity |]. intro NI. cbn [rsplit_once].
  rewrite IH by (intro; apply NI; right; assumption).
  destruct (N.eqb_spec b c) as [-> | _]; [elim NI; left; reflexivity | reflexivity].
Qed.

Lemma rsplit_once_app c h t : ~ In c t -> rsplit_once c (h ++ c :: t) = Some (h, t).
Proof.
  intro NI. induction h as [| b h IH]; cbn [app rsplit_once].
  - rewrite (rsplit_once_notin c t NI), N.eqb_refl. reflexivity.
  - rewrite IH. reflexivity.
Qed.

Lemma last_occurrence (c : N) (s : bytes) : In c s -> exists h t : bytes, s = h ++ c :: t /\ ~ In c t.
Proof.
  induction s as [| b s IH]; [intros [] |]. intros I.
  destruct (in_dec N.eq_dec c s) as [Is | NIs].
  - destruct (IH Is) as [h [t [-> NI]]]. exists (b :: h), t. split; [reflexivity | exact NI].
  - destruct I as [-> | I]; [| contradiction]. exists [], s. split; [reflexivity | exact NIs].
Qed.

Lemma rsplit_once_none c s : rsplit_once c s = None <-> ~ In c s.
Proof.
  split; [| apply rsplit_once_notin].
  intros E I. destruct (last_occurrence c s I) as [h [t [-> NI]]]. rewrite (rsplit_once_app c h t NI) in E. discriminate.
Qed.

Lemma rsplit_once_some c s h t : rsplit_once c s = Some (h, t) <-> s = h ++ c :: t /\ ~ In c t.
Proof.
  split.
  - intro E. destruct (in_dec N.eq_dec c s) as [I | NI].
    + destruct (last_occurrence c s I) as [h' [t' [-> NI]]]. rewrite (rsplit_once_app c h' t' NI) in E.
      inversion E; subst. split; [reflexivity | exact NI].
    + rewrite (rsplit_once_notin c s NI) in E. discriminate.
  - intros [-> NI]. apply rsplit_once_app, NI.
Qed.

Lemma lower_byte_idem b : lower_byte (lower_byte b) = lower_byte b.
Proof. unfold lower_byte. destruct ((65 <=? b) && (b <=? 90)) eqn:E; [| rewrite E; reflexivity]. 
  destruct ((65 <=? b + 32) && (b + 32 <=? 90)) eqn:F; [lia | reflexivity]. Qed.

Lemma lower_idem s : lower (lower s) = lower s.
Proof. unfold lower. rewrite map_map. apply map_ext. apply lower_byte_idem. Qed.

Lemma lower_app a b : lower (a ++ b) = lower a ++ lower b.
Proof. apply map_app. Qed.

Lemma lower_length s : length (lower s) = length s.
Proof. apply map_length. Qed.

(* ---- the documented matching relation ---- *)

(* host part: exact (ASCII case-insensitive), or `*.suffix`: the lower-cased host is  pre ++ "." ++ suffix *)
Definition host_rel (ph h : bytes) : Prop :=
  match strip_prefix s_wild ph with
  | Some suffix => exists pre, lower h = pre ++ c_dot :: suffix
  | None => lower ph = lower h
  end.

Lemma nth_last_app (p : bytes) (a : N) (suf : bytes) : nth (length (p ++ [a] ++ suf) - length suf - 1) (p ++ [a] ++ suf) 0 = a.
Proof.
  rewrite !app_length. cbn [length].
  replace (length p + (1 + length suf) - length suf - 1)%nat with (length p) by lia.
  apply nth_middle.
Qed.

Lemma host_matches_spec ph h : host_matches ph h = true <-> host_rel ph h.
Proof.
  unfold host_matches, host_rel. destruct (strip_prefix s_wild ph) as [suffix |].
  - set (hl := lower h).
    destruct ((length hl <=? length suffix)%nat) eqn:L; cbn [orb].
    + split; [discriminate |]. intros [pre E]. apply Nat.leb_le in L. rewrite E, app_length in L. cbn [length] in L. lia.
    + apply Nat.leb_gt in L. destruct (ends_with hl suffix) eqn:W; cbn [negb].
      * apply ends_with_spec in W. destruct W as [p E]. rewrite E in L |- *. rewrite app_length in L.
        destruct (exists_last (l := p)) as [p' [a ->]]; [intro; subst; cbn in L; lia |].
        rewrite <- app_assoc. rewrite (nth_last_app p' a suffix). unfold c_dot. rewrite N.eqb_eq. split.
        { intros ->. exists p'. reflexivity. }
        { intros [pre X]. change (46 :: suffix) with ([46] ++ suffix) in X. rewrite !app_assoc in X.
          apply app_inv_tail in X. apply app_inj_tail in X. tauto. }
      * split; [discriminate |]. intros [pre E]. rewrite <- not_true_iff_false in W. elim W.
        apply ends_with_spec. exists (pre ++ [c_dot]). rewrite <- app_assoc. exact E.
  - apply beqb_eq.
Qed.

Definition scheme_rel (ps us : option bytes) : Prop := forall a, ps = Some a -> us = Some a.

Lemma scheme_ok_spec ps us : scheme_ok ps us = true <-> scheme_rel ps us.
Proof.
  unfold scheme_ok, scheme_rel. destruct ps as [a |].
  - destruct us as [s |].
    + rewrite beqb_eq. split; [intros -> b E; inversion E; reflexivity | intro H; specialize (H a eq_refl); inversion H; reflexivity].
    + split; [discriminate | intro H; specialize (H a eq_refl); discriminate].
  - split; [intros _ a E; discriminate | reflexivity].
Qed.

(* HostPattern::matches = the documented relation:
   - a pattern with a host matches a URI that has a host, related by [host_rel], whose port string equals the pattern's
     (both absent counts as equal) and, when the pattern names a scheme, whose scheme is that scheme;
   - a pattern without a host matches iff it names a scheme and the URI has that scheme (scheme-only pattern, `https://`);
   - a pattern with neither matches nothing. *)
Definition matches_rel (p : pat) (us uh up : option bytes) : Prop :=
  match p_host p with
  | Some ph => exists h, uh = Some h /\ host_rel ph h /\ p_port p = up /\ scheme_rel (p_scheme p) us
  | None => exists a, p_scheme p = Some a /\ us = Some a
  end.

Theorem matches_spec p us uh up : matches p us uh up = true <-> matches_rel p us uh up.
Proof.
  unfold matches, matches_rel. destruct (p_host p) as [ph |].
  - destruct uh as [h |].
    + destruct (host_matches ph h) eqn:HM; cbn [andb].
      * apply host_matches_spec in HM. destruct (opt_beqb (p_port p) up) eqn:PM.
        { apply opt_beqb_eq in PM. rewrite scheme_ok_spec. split.
          - intro S. exists h. tauto.
          - intros [h' [E [_ [_ S]]]]. exact S. }
        { split; [discriminate |]. intros [h' [_ [_ [P _]]]]. apply opt_beqb_eq in P. congruence. }
      * split; [discriminate |]. intros [h' [E [R _]]]. inversion E; subst h'. apply host_matches_spec in R. congruence.
    + split; [discriminate | intros [h [E _]]; discriminate].
  - destruct (p_scheme p) as [a |].
    + destruct us as [s |].
      * rewrite beqb_eq. split; [intros ->; exists a; tauto | intros [b [E1 E2]]; inversion E1; inversion E2; congruence].
      * split; [discriminate | intros [b [_ E]]; discriminate].
    + split; [discriminate | intros [b [E _]]; discriminate].
Qed.

(* a wildcard never matches the bare suffix or a host that merely ends in the suffix text *)
Corollary wildcard_needs_label suffix h :
  host_matches (s_wild ++ suffix) h = true ->
  (length (lower h) > length suffix)%nat /\ nth (length (lower h) - length suffix - 1) (lower h) 0 = c_dot.
Proof.
  intro M. apply host_matches_spec in M. unfold host_rel in M.
  rewrite (proj2 (strip_prefix_spec s_wild (s_wild ++ suffix) suffix) eq_refl) in M.
  destruct M as [pre E]. rewrite E. split; [rewrite app_length; cbn [length]; lia |].
  change (c_dot :: suffix) with ([c_dot] ++ suffix). apply nth_last_app.
Qed.

Corollary wildcard_not_bare suffix h : lower h = suffix -> host_matches (s_wild ++ suffix) h = false.
Proof.
  intro E. destruct (host_matches (s_wild ++ suffix) h) eqn:M; [| reflexivity].
  apply wildcard_needs_label in M. rewrite E in M. lia.
Qed.

(* is_uri_allowed *)
Lemma is_uri_allowed_spec ps us uh up :
  is_uri_allowed ps us uh up = true <-> exists p, In p ps /\ matches_rel p us uh up.
Proof.
  unfold is_uri_allowed. rewrite existsb_exists. split; intros [p [I M]]; exists p; (split; [exact I | apply matches_spec; exact M]).
Qed.

(* ---- HostPattern::new ---- *)

Definition scheme_text (s : option bytes) : bytes := match s with Some a => a ++ [58; 47; 47] | None => [] end.
Definition host_text (h : option bytes) : bytes := match h with Some a => a | None => [] end.
Definition port_text (p : option bytes) : bytes := match p with Some a => c_colon :: a | None => [] end.

(* the lower-cased pattern text is  [scheme "://"] host [":" port], split at the LAST colon after the scheme;
   the stored scheme is only ever "https" or "http" *)
Theorem parse_pattern_spec raw :
  let p := parse_pattern raw in
  lower raw = scheme_text (p_scheme p) ++ host_text (p_host p) ++ port_text (p_port p)
  /\ (p_scheme p = Some s_https \/ p_scheme p = Some s_http \/ p_scheme p = None)
  /\ (forall pt, p_port p = Some pt -> ~ In c_colon pt)
  /\ (p_port p = None -> ~ In c_colon (host_text (p_host p)))
  /\ p_host p <> Some [].
Proof.
  unfold parse_pattern. set (l := lower raw).
  assert (S : exists sc rest, l = scheme_text sc ++ rest
                              /\ (sc = Some s_https \/ sc = Some s_http \/ sc = None)
                              /\ (match strip_prefix s_https_pfx l with
                                  | Some r => (Some s_https, r)
                                  | None => match strip_prefix s_http_pfx l with Some r => (Some s_http, r) | None => (None, l) end
                                  end) = (sc, rest)).
  { destruct (strip_prefix s_https_pfx l) as [r |] eqn:E1.
    - apply strip_prefix_spec in E1. exists (Some s_https), r. split; [exact E1 | tauto].
    - destruct (strip_prefix s_http_pfx l) as [r |] eqn:E2.
      + apply strip_prefix_spec in E2. exists (Some s_http), r. split; [exact E2 | tauto].
      + exists None, l. split; [reflexivity | tauto]. }
  destruct S as [sc [rest [EL [SC ->]]]].
  destruct (rsplit_once c_colon rest) as [[h pt] |] eqn:R.
  - apply rsplit_once_some in R. destruct R as [-> NI]. cbn [p_scheme p_host p_port].
    split; [| split; [exact SC | split; [| split]]].
    + rewrite EL. f_equal. destruct h; reflexivity.
    + intros pt' E. inversion E; subst. exact NI.
    + discriminate.
    + destruct h; cbn [is_nil]; discriminate.
  - apply rsplit_once_none in R. cbn [p_scheme p_host p_port].
    split; [| split; [exact SC | split; [| split]]].
    + rewrite EL. f_equal. destruct rest; cbn; rewrite ?app_nil_r; reflexivity.
    + discriminate.
    + intros _. destruct rest; cbn [is_nil host_text]; [intros [] | exact R].
    + destruct rest; cbn [is_nil]; discriminate.
Qed.

(* pattern hosts are lower case, so the exact relation is  pattern host = lower-cased URI host *)
Lemma parse_pattern_host_lower raw ph : p_host (parse_pattern raw) = Some ph -> lower ph = ph.
Proof.
  intro E. pose proof (parse_pattern_spec raw) as [D _]. cbv zeta in D. rewrite E in D. cbn [host_text] in D.
  assert (L : lower (lower raw) = lower raw) by apply lower_idem.
  rewrite D in L. rewrite !lower_app in L. apply app_inv_head_iff in L || idtac.
  (* lengths force componentwise equality *)
  assert (A : forall (a b c a' b' c' : bytes), length a = length a' -> length b = length b' ->
                a ++ b ++ c = a' ++ b' ++ c' -> b = b').
  { intros a b c a' b' c' La Lb X. apply app_eq_app in X. destruct X as [k [[X1 X2] | [X1 X2]]].
    - assert (k = []) by (destruct k; [reflexivity | subst; rewrite app_length in La; cbn in La; lia]). subst k.
      cbn in X2. apply app_eq_app in X2. destruct X2 as [k [[Y1 Y2] | [Y1 Y2]]].
      + assert (k = []) by (destruct k; [reflexivity | subst; rewrite app_length in Lb; cbn in Lb; lia]). subst. rewrite app_nil_r. reflexivity.
      + assert (k = []) by (destruct k; [reflexivity | subst; rewrite app_length in Lb; cbn in Lb; lia]). subst. rewrite app_nil_r. reflexivity.
    - assert (k = []) by (destruct k; [reflexivity | subst; rewrite app_length in La; cbn in La; lia]). subst k.
      cbn in X2. symmetry in X2. apply app_eq_app in X2. destruct X2 as [k [[Y1 Y2] | [Y1 Y2]]].
      + assert (k = []) by (destruct k; [reflexivity | subst; rewrite app_length in Lb; cbn in Lb; lia]). subst. rewrite app_nil_r. reflexivity.
      + assert (k = []) by (destruct k; [reflexivity | subst; rewrite app_length in Lb; cbn in Lb; lia]). subst. rewrite app_nil_r. reflexivity. }
  eapply A; [| | exact L]; apply lower_length.
Qed.
