(* Proofs/ContainerProofs.v — generic theorems about the segment-container model, proved once from
   the per-format obligations collected in [laws]. *)
From Coq Require Import List NArith Bool Lia Arith.
From C2PA Require Import Base.Bytes Model.Container.
Import ListNotations.
Open Scope nat_scope.

(* ------------------------------------------------------------------ list lemmas *)

Lemma select_app {A} w (l1 l2 : list A) m1 m2 :
  length l1 = length m1 -> select w (l1 ++ l2) (m1 ++ m2) = select w l1 m1 ++ select w l2 m2.
Proof.
  revert m1. induction l1 as [|x t IH]; intros [|b m1] H; simpl in H; try discriminate; [reflexivity|].
  cbn [app select]. rewrite IH by lia. destruct (Bool.eqb b w); reflexivity.
Qed.

Lemma select_repeat_same {A} w (l : list A) : select w l (repeat w (length l)) = l.
Proof. induction l as [|x t IH]; [reflexivity|]. cbn. rewrite Bool.eqb_reflx, IH. reflexivity. Qed.

Lemma select_repeat_other {A} w (l : list A) : select w l (repeat (negb w) (length l)) = [].
Proof. induction l as [|x t IH]; [reflexivity|]. cbn. destruct w; cbn; exact IH. Qed.

Lemma select_length_le {A} w (l : list A) m : length (select w l m) <= length l.
Proof.
  revert m. induction l as [|x t IH]; intros [|b m]; cbn; try lia.
  destruct (Bool.eqb b w); cbn; specialize (IH m); lia.
Qed.

Lemma insert_at_length {A} i (x l : list A) : length (insert_at i x l) = length x + length l.
Proof.
  unfold insert_at. rewrite !app_length.
  pose proof (firstn_skipn i l) as H. apply (f_equal (@length A)) in H. rewrite app_length in H. lia.
Qed.

Lemma repeat_app_length {A} (a : A) n m : repeat a (n + m) = repeat a n ++ repeat a m.
Proof. apply repeat_app. Qed.

Lemma nth_app_mid {A} (p m1 m2 s : list A) d k :
  length m1 = length m2 ->
  (k < length p \/ length p + length m1 <= k) ->
  nth k (p ++ m1 ++ s) d = nth k (p ++ m2 ++ s) d.
Proof.
  intros Hm [Hk|Hk].
  - rewrite !app_nth1 by lia. reflexivity.
  - rewrite !(app_nth2 p) by lia.
    rewrite !app_nth2 by lia. rewrite Hm. reflexivity.
Qed.

Lemma firstn_skipn_mid {A} (p m s : list A) :
  firstn (length m) (skipn (length p) (p ++ m ++ s)) = m.
Proof.
  rewrite skipn_app, Nat.sub_diag, skipn_all. cbn [app skipn].
  rewrite firstn_app, Nat.sub_diag, firstn_all. cbn [firstn]. apply app_nil_r.
Qed.

Lemma concat_map_app {A B} (f : A -> list B) l1 l2 :
  concat (map f (l1 ++ l2)) = concat (map f l1) ++ concat (map f l2).
Proof. rewrite map_app, concat_app. reflexivity. Qed.

(* ------------------------------------------------------------------ obligations per format *)

Section Laws.
  Variable F : format.
  Variable seg_ok : seg F -> Prop.          (* admissible media segments *)
  Variable adm : bytes -> Prop.             (* admissible manifest stores *)

  Definition clean (s : list (seg F)) : Prop := marks F s = repeat false (length s).

  Record laws : Prop := {
    marks_len : forall l, length (marks F l) = length l;
    strip_clean : forall l, clean (strip F l);
    ins_marks : forall s i b, clean s -> Forall seg_ok s -> adm b -> i <= length s ->
        marks F (insert_at i (mk F b) s)
        = repeat false i ++ repeat true (length (mk F b)) ++ repeat false (length s - i);
    ins_payload : forall s i b, clean s -> Forall seg_ok s -> adm b -> i <= length s ->
        payload F (insert_at i (mk F b) s) = ROk b;
    clean_payload : forall s, clean s -> Forall seg_ok s -> payload F s = RErr EJumbfNotFound;
    ins_bound : forall l, ins F l <= length (strip F l);
    ins_stable : forall l b, Forall seg_ok (strip F l) -> adm b -> ins F (gwrite F l b) = ins F l;
    mk_nonempty : forall b, adm b -> mk F b <> [];
    mk_len : forall b1 b2, length b1 = length b2 -> length (encs F (mk F b1)) = length (encs F (mk F b2));
  }.

  Hypothesis L : laws.

  Definition okl (l : list (seg F)) : Prop := Forall seg_ok (strip F l).

  Lemma strip_insert s i b :
    clean s -> Forall seg_ok s -> adm b -> i <= length s -> strip F (insert_at i (mk F b) s) = s.
  Proof.
    intros Hc Hok Ha Hi. unfold strip. rewrite (ins_marks L) by assumption.
    unfold insert_at.
    rewrite select_app by (rewrite repeat_length, firstn_length; lia).
    rewrite select_app by (rewrite repeat_length; reflexivity).
    replace i with (length (firstn i s)) at 2 by (rewrite firstn_length; lia).
    rewrite (select_repeat_same false).
    change true with (negb false). rewrite select_repeat_other. cbn [app].
    replace (length s - i) with (length (skipn i s)) by (rewrite skipn_length; reflexivity).
    rewrite (select_repeat_same false). apply firstn_skipn.
  Qed.

  Lemma c2pa_segs_insert s i b :
    clean s -> Forall seg_ok s -> adm b -> i <= length s -> c2pa_segs F (insert_at i (mk F b) s) = mk F b.
  Proof.
    intros Hc Hok Ha Hi. unfold c2pa_segs. rewrite (ins_marks L) by assumption.
    unfold insert_at.
    rewrite select_app by (rewrite repeat_length, firstn_length; lia).
    rewrite select_app by (rewrite repeat_length; reflexivity).
    replace i with (length (firstn i s)) at 2 by (rewrite firstn_length; lia).
    change false with (negb true). rewrite select_repeat_other.
    rewrite (select_repeat_same true). cbn [app].
    replace (length s - i) with (length (skipn i s)) by (rewrite skipn_length; reflexivity).
    rewrite select_repeat_other. apply app_nil_r.
  Qed.

  (* C09: the media segments of [write a b] and of [remove a] are those of [a], in order *)
  Theorem strip_write l b : okl l -> adm b -> strip F (gwrite F l b) = strip F l.
  Proof. intros Hok Ha. apply strip_insert; auto using (strip_clean L), (ins_bound L). Qed.

  Theorem strip_remove l : strip F (gremove F l) = strip F l.
  Proof.
    unfold gremove, strip at 1. rewrite (strip_clean L (l)). apply select_repeat_same.
  Qed.

  (* C09: remove (write a b) = remove a *)
  Theorem remove_write l b : okl l -> adm b -> gremove F (gwrite F l b) = gremove F l.
  Proof. exact (strip_write l b). Qed.

  Lemma okl_write l b : okl l -> adm b -> okl (gwrite F l b).
  Proof. intros H Ha. unfold okl. rewrite strip_write; assumption. Qed.
  Lemma okl_remove l : okl l -> okl (gremove F l).
  Proof. intros H. unfold okl. rewrite strip_remove. exact H. Qed.

  (* C07: read (write a b) = Ok b *)
  Theorem read_write l b : okl l -> adm b -> gread F (gwrite F l b) = ROk b.
  Proof. intros Hok Ha. apply (ins_payload L); auto using (strip_clean L), (ins_bound L). Qed.

  (* C07: writing again replaces: the result is the same as writing the second store directly *)
  Theorem write_write l b1 b2 : okl l -> adm b1 -> adm b2 -> gwrite F (gwrite F l b1) b2 = gwrite F l b2.
  Proof.
    intros Hok H1 H2. unfold gwrite at 1.
    rewrite (ins_stable L) by assumption. rewrite strip_write by assumption. reflexivity.
  Qed.

  Theorem read_write_write l b1 b2 : okl l -> adm b1 -> adm b2 -> gread F (gwrite F (gwrite F l b1) b2) = ROk b2.
  Proof. intros. rewrite write_write by assumption. apply read_write; assumption. Qed.

  (* exactly one C2PA run: the segments recognised in the written asset are exactly [mk b], contiguous *)
  Theorem marks_write l b : okl l -> adm b ->
    marks F (gwrite F l b)
    = repeat false (ins F l) ++ repeat true (length (mk F b)) ++ repeat false (length (strip F l) - ins F l).
  Proof. intros Hok Ha. apply (ins_marks L); auto using (strip_clean L), (ins_bound L). Qed.

  Theorem c2pa_segs_write l b : okl l -> adm b -> c2pa_segs F (gwrite F l b) = mk F b.
  Proof. intros Hok Ha. apply c2pa_segs_insert; auto using (strip_clean L), (ins_bound L). Qed.

  (* C07: remove yields an asset without manifest *)
  Theorem read_remove l : okl l -> gread F (gremove F l) = RErr EJumbfNotFound.
  Proof. intro H. apply (clean_payload L); [apply (strip_clean L)| exact H]. Qed.

  Theorem c2pa_segs_remove l : c2pa_segs F (gremove F l) = [].
  Proof.
    unfold c2pa_segs, gremove. rewrite (strip_clean L l). change false with (negb true).
    apply select_repeat_other.
  Qed.

  (* ---- operation sequences ---- *)
  Definition adm_op (o : gop) : Prop := match o with OpW b => adm b | OpR => True end.

  Lemma grun_app l o1 o2 : grun F l (o1 ++ o2) = grun F (grun F l o1) o2.
  Proof. revert l. induction o1 as [|[b|] t IH]; intro l; cbn; auto. Qed.

  Lemma grun_inv l ops : okl l -> Forall adm_op ops ->
    okl (grun F l ops) /\ strip F (grun F l ops) = strip F l.
  Proof.
    revert l. induction ops as [|[b|] t IH]; intros l Hok Hops; cbn [grun].
    - split; [assumption|reflexivity].
    - inversion Hops as [|? ? Hb Ht]; subst. cbn in Hb.
      destruct (IH (gwrite F l b) (okl_write l b Hok Hb) Ht) as [H1 H2].
      split; [exact H1|]. rewrite H2. apply strip_write; assumption.
    - inversion Hops as [|? ? Hb Ht]; subst.
      destruct (IH (gremove F l) (okl_remove l Hok) Ht) as [H1 H2].
      split; [exact H1|]. rewrite H2. apply strip_remove.
  Qed.

  (* C07/C09 over any sequence of operations: the media segments never change, and the manifest
     read back is the last one written (none after a remove); at most one C2PA run is present *)
  Theorem ops_last_write l pre b : okl l -> Forall adm_op pre -> adm b ->
    let r := grun F l (pre ++ [OpW b]) in
    gread F r = ROk b /\ c2pa_segs F r = mk F b /\ strip F r = strip F l.
  Proof.
    intros Hok Hpre Hb. cbn zeta. rewrite grun_app. cbn [grun].
    destruct (grun_inv l pre Hok Hpre) as [H1 H2].
    repeat split.
    - apply read_write; assumption.
    - apply c2pa_segs_write; assumption.
    - rewrite strip_write by assumption. exact H2.
  Qed.

  Theorem ops_last_remove l pre : okl l -> Forall adm_op pre ->
    let r := grun F l (pre ++ [OpR]) in
    gread F r = RErr EJumbfNotFound /\ c2pa_segs F r = [] /\ strip F r = strip F l.
  Proof.
    intros Hok Hpre. cbn zeta. rewrite grun_app. cbn [grun].
    destruct (grun_inv l pre Hok Hpre) as [H1 H2].
    repeat split.
    - apply read_remove. exact H1.
    - apply c2pa_segs_remove.
    - rewrite strip_remove. exact H2.
  Qed.

  (* ---- C08: same-length locality, for a file = head(n) ++ segments ++ tail ---- *)
  Section Locality.
    Variable head : nat -> bytes.      (* file header, may depend on the length of the segment area *)
    Variable tail : bytes.
    Definition file (l : list (seg F)) : bytes := head (length (encs F l)) ++ encs F l ++ tail.

    Lemma encs_app l1 l2 : encs F (l1 ++ l2) = encs F l1 ++ encs F l2.
    Proof. apply concat_map_app. Qed.

    Lemma encs_gwrite l b :
      encs F (gwrite F l b)
      = encs F (firstn (ins F l) (strip F l)) ++ encs F (mk F b) ++ encs F (skipn (ins F l) (strip F l)).
    Proof. unfold gwrite, insert_at. rewrite !encs_app. reflexivity. Qed.

    Lemma file_gwrite l b :
      file (gwrite F l b)
      = (head (length (encs F (gwrite F l b))) ++ encs F (firstn (ins F l) (strip F l)))
        ++ encs F (mk F b) ++ (encs F (skipn (ins F l) (strip F l)) ++ tail).
    Proof. unfold file. rewrite encs_gwrite at 2. rewrite <- !app_assoc. reflexivity. Qed.

    Definition foff (l : list (seg F)) (b : bytes) : nat :=
      length (head (length (encs F (gwrite F l b)))) + goff F l.

    Theorem same_length_local l b1 b2 :
      length b1 = length b2 ->
      let f1 := file (gwrite F l b1) in
      let f2 := file (gwrite F l b2) in
      length f1 = length f2
      /\ foff l b1 = foff l b2 /\ glen F b1 = glen F b2
      /\ (forall k, k < foff l b1 \/ foff l b1 + glen F b1 <= k -> nth k f1 0%N = nth k f2 0%N)
      /\ foff l b1 + glen F b1 <= length f1
      /\ firstn (glen F b1) (skipn (foff l b1) f1) = encs F (mk F b1).
    Proof.
      intros Hlen. cbn zeta.
      pose proof (mk_len L b1 b2 Hlen) as Hm.
      assert (He : length (encs F (gwrite F l b1)) = length (encs F (gwrite F l b2))).
      { rewrite !encs_gwrite, !app_length. lia. }
      assert (Hoff : foff l b1 = foff l b2) by (unfold foff; rewrite He; reflexivity).
      rewrite !file_gwrite. rewrite <- He.
      set (p := head (length (encs F (gwrite F l b1))) ++ encs F (firstn (ins F l) (strip F l))).
      set (s := encs F (skipn (ins F l) (strip F l)) ++ tail).
      assert (Hp : length p = foff l b1).
      { unfold p, foff, goff. rewrite app_length. reflexivity. }
      repeat split.
      - rewrite !app_length. unfold glen in *. lia.
      - exact Hoff.
      - exact Hm.
      - intros k Hk. apply nth_app_mid; [exact Hm|]. rewrite Hp. exact Hk.
      - rewrite !app_length, Hp. unfold glen. lia.
      - rewrite <- Hp. unfold glen. apply firstn_skipn_mid.
    Qed.
  End Locality.
End Laws.

(* ------------------------------------------------------------------ stateless recognisers *)

Lemma map_false_forall {A} (p : A -> bool) s :
  map p s = repeat false (length s) <-> Forall (fun x => p x = false) s.
Proof.
  induction s as [|x t IH]; cbn.
  - split; auto.
  - split.
    + intro H. injection H as H1 H2. constructor; [exact H1| apply IH; exact H2].
    + intro H. inversion H; subst. f_equal; [assumption| apply IH; assumption].
Qed.

Lemma map_true_forall {A} (p : A -> bool) s :
  Forall (fun x => p x = true) s -> map p s = repeat true (length s).
Proof. induction 1; cbn; [reflexivity|]. f_equal; assumption. Qed.

Lemma select_map_filter {A} (p : A -> bool) l : select false l (map p l) = filter (fun x => negb (p x)) l.
Proof.
  induction l as [|x t IH]; [reflexivity|]. cbn. destruct (p x); cbn; rewrite IH; reflexivity.
Qed.

Lemma filter_all {A} (q : A -> bool) l : Forall (fun x => q x = true) l -> filter q l = l.
Proof. induction 1; cbn; [reflexivity|]. rewrite H. f_equal. assumption. Qed.

Lemma filter_forall {A} (q : A -> bool) l : Forall (fun x => q x = true) (filter q l).
Proof.
  induction l as [|x t IH]; cbn; [constructor|]. destruct (q x) eqn:E; [constructor|]; assumption.
Qed.

Section Stateless.
  Variable F : format.
  Variable p : seg F -> bool.
  Hypothesis Hm : forall l, marks F l = map p l.

  Lemma sl_strip l : strip F l = filter (fun x => negb (p x)) l.
  Proof. unfold strip. rewrite Hm. apply select_map_filter. Qed.

  Lemma sl_clean_iff s : clean F s <-> Forall (fun x => p x = false) s.
  Proof. unfold clean. rewrite Hm. apply map_false_forall. Qed.

  Lemma sl_marks_len l : length (marks F l) = length l.
  Proof. rewrite Hm. apply map_length. Qed.

  Lemma sl_strip_clean l : clean F (strip F l).
  Proof.
    apply sl_clean_iff. rewrite sl_strip.
    eapply Forall_impl; [|apply filter_forall]. cbn. intros a H. destruct (p a); [discriminate|reflexivity].
  Qed.

  Lemma sl_strip_of_clean s : clean F s -> strip F s = s.
  Proof.
    intro H. rewrite sl_strip. apply filter_all. apply sl_clean_iff in H.
    eapply Forall_impl; [|exact H]. cbn. intros a Ha. rewrite Ha. reflexivity.
  Qed.

  Lemma sl_ins_marks s i x :
    clean F s -> Forall (fun y => p y = true) x -> i <= length s ->
    marks F (insert_at i x s) = repeat false i ++ repeat true (length x) ++ repeat false (length s - i).
  Proof.
    intros Hc Hx Hi. rewrite Hm. unfold insert_at. rewrite !map_app.
    apply sl_clean_iff in Hc.
    assert (H1 : Forall (fun y => p y = false) (firstn i s)).
    { rewrite <- (firstn_skipn i s) in Hc. apply Forall_app in Hc. tauto. }
    assert (H2 : Forall (fun y => p y = false) (skipn i s)).
    { rewrite <- (firstn_skipn i s) in Hc. apply Forall_app in Hc. tauto. }
    apply map_false_forall in H1. apply map_false_forall in H2.
    rewrite H1, H2, (map_true_forall p x Hx), firstn_length, skipn_length.
    replace (Nat.min i (length s)) with i by lia. reflexivity.
  Qed.

  Lemma sl_strip_insert s i x :
    clean F s -> Forall (fun y => p y = true) x -> strip F (insert_at i x s) = s.
  Proof.
    intros Hc Hx. rewrite sl_strip. unfold insert_at. rewrite !filter_app.
    apply sl_clean_iff in Hc.
    assert (Hs : forall l, Forall (fun y => p y = false) l -> filter (fun y => negb (p y)) l = l).
    { intros l Hl. apply filter_all. eapply Forall_impl; [|exact Hl]. cbn. intros a Ha. rewrite Ha. reflexivity. }
    assert (Hxx : filter (fun y => negb (p y)) x = []).
    { clear -Hx. induction Hx; cbn; [reflexivity|]. rewrite H. cbn. assumption. }
    rewrite Hxx. cbn [app].
    rewrite <- (firstn_skipn i s) in Hc. apply Forall_app in Hc. destruct Hc as [H1 H2].
    rewrite (Hs _ H1), (Hs _ H2). apply firstn_skipn.
  Qed.
End Stateless.
