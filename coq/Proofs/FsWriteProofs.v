(* Proofs/FsWriteProofs.v — the repaired write side (791680340): ensure_real_parent_within_root makes
   ResourceStore::add write under realpath(root) on every well-formed file system, without any hypothesis on the
   symbolic links present. *)
From Coq Require Import List NArith Bool Lia Arith.
From C2PA Require Import Model.FsPaths Proofs.FsPathsProofs.
Import ListNotations.
Open Scope N_scope.

Arguments canon : simpl never.
Arguments components : simpl never.
Arguments os_comps : simpl never.
Arguments normalize_lexically : simpl never.
Lemma FUEL_pos : FUEL = S (pred FUEL).
Proof. reflexivity. Qed.
Opaque FUEL.

(* ------------------------------------------------------------------ path resolution *)

Lemma walk_eq : forall k f cur todo,
  walk (S k) f cur todo =
  match todo with
  | [] => Some cur
  | CRoot :: t => walk k f [] t
  | CCur :: t => walk k f cur t
  | CParent :: t => walk k f (removelast cur) t
  | CNormal n :: t =>
      match lookup f (cur ++ [n]) with
      | None => None
      | Some Dir => walk k f (cur ++ [n]) t
      | Some (File _) => match t with [] => Some (cur ++ [n]) | _ => None end
      | Some (Link tg) => walk k f cur (os_comps tg ++ t)
      end
  end.
Proof. reflexivity. Qed.

Lemma walk_0 : forall f cur todo, walk 0 f cur todo = None.
Proof. reflexivity. Qed.

Lemma walk_S : forall k f cur todo r, walk k f cur todo = Some r -> walk (S k) f cur todo = Some r.
Proof.
  induction k; intros f cur todo r H; [rewrite walk_0 in H; discriminate|].
  rewrite walk_eq in H. rewrite walk_eq.
  destruct todo as [|c t]; [exact H|].
  destruct c; try (apply IHk; exact H).
  destruct (lookup f (cur ++ [n])) as [nd|]; [|exact H].
  destruct nd; try (apply IHk; exact H). exact H.
Qed.

Lemma walk_le : forall k k' f cur todo r, (k <= k')%nat -> walk k f cur todo = Some r -> walk k' f cur todo = Some r.
Proof. intros k k' f cur todo r L. induction L; intros H; [exact H|]. apply walk_S. auto. Qed.

Lemma walk_app : forall k f cur a b r,
  walk k f cur (a ++ b) = Some r -> exists q, walk k f cur a = Some q /\ walk k f q b = Some r.
Proof.
  induction k; intros f cur a b r H; [rewrite walk_0 in H; discriminate|].
  destruct a as [|c a'].
  - exists cur. split; [reflexivity|exact H].
  - change ((c :: a') ++ b) with (c :: (a' ++ b)) in H. rewrite walk_eq in H.
    assert (REC : forall cur', walk k f cur' (a' ++ b) = Some r ->
                  exists q, walk k f cur' a' = Some q /\ walk (S k) f q b = Some r).
    { intros cur' H'. destruct (IHk _ _ _ _ _ H') as [q [H1 H2]]. exists q. split; [exact H1|apply walk_S; exact H2]. }
    destruct c.
    + destruct (REC _ H) as [q [H1 H2]]. exists q. rewrite walk_eq. auto.
    + destruct (REC _ H) as [q [H1 H2]]. exists q. rewrite walk_eq. auto.
    + destruct (REC _ H) as [q [H1 H2]]. exists q. rewrite walk_eq. auto.
    + destruct (lookup f (cur ++ [n])) as [nd|] eqn:L; [|discriminate].
      destruct nd.
      * destruct (REC _ H) as [q [H1 H2]]. exists q. rewrite walk_eq, L. auto.
      * destruct (a' ++ b) eqn:E; [|discriminate]. apply app_eq_nil in E. destruct E; subst.
        injection H as <-. exists (cur ++ [n]). rewrite walk_eq, L. split; reflexivity.
      * rewrite app_assoc in H. destruct (IHk _ _ _ _ _ H) as [q [H1 H2]].
        exists q. rewrite walk_eq, L. split; [exact H1|apply walk_S; exact H2].
Qed.

(* ------------------------------------------------------------------ well-formed file systems *)

(* whatever has an entry lies in a directory *)
Definition wf (f : fs) : Prop := forall l n, lookup f (l ++ [n]) <> None -> lookup_top f l = Some Dir.

Lemma lookup_top_snoc : forall f l n, lookup_top f (l ++ [n]) = lookup f (l ++ [n]).
Proof. intros. unfold lookup_top. destruct (l ++ [n]) eqn:E; [destruct l; discriminate|reflexivity]. Qed.

(* below something that does not exist nothing exists *)
Lemma wf_fresh : forall f l, wf f -> l <> [] -> lookup f l = None -> forall x, lookup f (l ++ x) = None.
Proof.
  intros f l W NE H x. induction x as [|m y IH] using rev_ind; [rewrite app_nil_r; exact H|].
  destruct (lookup f (l ++ y ++ [m])) eqn:E; [|reflexivity]. exfalso.
  assert (X : lookup f ((l ++ y) ++ [m]) <> None) by (rewrite <- app_assoc; rewrite E; discriminate).
  apply W in X. unfold lookup_top in X. destruct (l ++ y) eqn:E2.
  - destruct l; [contradiction|discriminate].
  - rewrite IH in X. discriminate.
Qed.

Lemma loc_eqb_refl : forall l, loc_eqb l l = true.
Proof. induction l; simpl; [reflexivity|]. rewrite str_eqb_refl. exact IHl. Qed.

Lemma loc_eqb_eq : forall a b, loc_eqb a b = true -> a = b.
Proof.
  induction a; destruct b; simpl; intros H; try discriminate; [reflexivity|].
  apply andb_true_iff in H. destruct H as [H1 H2]. apply str_eqb_eq in H1. subst. f_equal. auto.
Qed.

Lemma loc_eqb_longer : forall l x, x <> [] -> loc_eqb l (l ++ x) = false.
Proof.
  intros l x NE. destruct (loc_eqb l (l ++ x)) eqn:E; [|reflexivity].
  apply loc_eqb_eq in E. rewrite <- (app_nil_r l) in E at 1. apply app_inv_head in E. subst. contradiction.
Qed.

(* ------------------------------------------------------------------ create_dir_all *)

Definition only_follows (ts : list touch) : Prop :=
  Forall (fun t => match t with TFollow _ => True | _ => False end) ts.

Lemma mkdirp_app : forall fuel a b f cur acc,
  mkdirp fuel f cur (a ++ b) acc =
  match mkdirp fuel f cur a acc with
  | (Some (f1, c1), acc1) => mkdirp fuel f1 c1 b acc1
  | (None, acc1) => (None, acc1)
  end.
Proof.
  intros fuel. induction a as [|n a IH]; intros b f cur acc; [reflexivity|].
  cbn [app mkdirp]. destruct (lookup f (cur ++ [n])) as [nd|]; [|apply IH].
  destruct nd; [apply IH|reflexivity|].
  destruct (walk fuel f cur (os_comps target)) as [q|]; [|reflexivity].
  destruct (lookup_top f q) as [nd|]; [|reflexivity]. destruct nd; [apply IH|reflexivity|reflexivity].
Qed.

(* along components that exist, create_dir_all goes where canonicalize goes, creates nothing, and fails (having
   created nothing) when the place is not a directory *)
Lemma mkdirp_existing : forall f fuel, wf f -> forall dirs cur k real acc,
  (k <= fuel)%nat -> lookup_top f cur = Some Dir ->
  walk k f cur (map CNormal dirs) = Some real ->
  exists fl, only_follows fl /\
    ((lookup_top f real = Some Dir /\ mkdirp fuel f cur dirs acc = (Some (f, real), acc ++ fl)) \/
     (lookup_top f real <> Some Dir /\ mkdirp fuel f cur dirs acc = (None, acc ++ fl))).
Proof.
  intros f fuel W. induction dirs as [|n t IH]; intros cur k real acc K D H.
  - destruct k; [rewrite walk_0 in H; discriminate|]. rewrite walk_eq in H. injection H as <-.
    exists []. split; [constructor|]. left. split; [exact D|]. rewrite app_nil_r. reflexivity.
  - destruct k; [rewrite walk_0 in H; discriminate|].
    cbn [map] in H. rewrite walk_eq in H. cbn [mkdirp].
    destruct (lookup f (cur ++ [n])) as [nd|] eqn:L; [|discriminate].
    destruct nd.
    + apply (IH (cur ++ [n]) k real acc); [lia| rewrite lookup_top_snoc; exact L | exact H].
    + destruct (map CNormal t) eqn:E; [|discriminate]. injection H as <-.
      exists []. split; [constructor|]. right. split.
      * rewrite lookup_top_snoc, L. discriminate.
      * rewrite app_nil_r. reflexivity.
    + destruct (walk_app _ _ _ _ _ _ H) as [q [H1 H2]].
      rewrite (walk_le k fuel f cur (os_comps target) q); [|lia|exact H1].
      destruct (lookup_top f q) as [nd|] eqn:LQ.
      * destruct nd.
        -- destruct (IH q k real (acc ++ [TFollow q])) as [fl [F R]]; [lia|exact LQ|exact H2|].
           exists (TFollow q :: fl). split; [constructor; [exact I|exact F]|].
           rewrite <- app_assoc in R. exact R.
        -- assert (T : t = []).
           { destruct t as [|n' t']; [reflexivity|]. exfalso.
             destruct k; [rewrite walk_0 in H2; discriminate|]. cbn [map] in H2. rewrite walk_eq in H2.
             assert (X : lookup f (q ++ [n']) <> None) by (destruct (lookup f (q ++ [n'])); [discriminate|discriminate]).
             apply W in X. rewrite LQ in X. discriminate. }
           subst t. destruct k; [rewrite walk_0 in H2; discriminate|]. cbn [map] in H2. rewrite walk_eq in H2.
           injection H2 as <-. exists []. split; [constructor|]. right. split; [rewrite LQ; discriminate|].
           rewrite app_nil_r. reflexivity.
        -- assert (T : t = []).
           { destruct t as [|n' t']; [reflexivity|]. exfalso.
             destruct k; [rewrite walk_0 in H2; discriminate|]. cbn [map] in H2. rewrite walk_eq in H2.
             assert (X : lookup f (q ++ [n']) <> None) by (destruct (lookup f (q ++ [n'])); [discriminate|discriminate]).
             apply W in X. rewrite LQ in X. discriminate. }
           subst t. destruct k; [rewrite walk_0 in H2; discriminate|]. cbn [map] in H2. rewrite walk_eq in H2.
           injection H2 as <-. exists []. split; [constructor|]. right. split; [rewrite LQ; discriminate|].
           rewrite app_nil_r. reflexivity.
      * assert (T : t = []).
        { destruct t as [|n' t']; [reflexivity|]. exfalso.
          destruct k; [rewrite walk_0 in H2; discriminate|]. cbn [map] in H2. rewrite walk_eq in H2.
          assert (X : lookup f (q ++ [n']) <> None) by (destruct (lookup f (q ++ [n'])); [discriminate|discriminate]).
          apply W in X. rewrite LQ in X. discriminate. }
        subst t. destruct k; [rewrite walk_0 in H2; discriminate|]. cbn [map] in H2. rewrite walk_eq in H2.
        injection H2 as <-. exists []. split; [constructor|]. right. split; [rewrite LQ; discriminate|].
        rewrite app_nil_r. reflexivity.
Qed.

(* below a place where nothing exists, create_dir_all creates every component, right there *)
Lemma mkdirp_create : forall cr fuel dirs f cur acc,
  loc_prefix cr cur = true -> (forall x, x <> [] -> lookup f (cur ++ x) = None) ->
  exists f' ts', mkdirp fuel f cur dirs acc = (Some (f', cur ++ dirs), acc ++ ts') /\ Forall (writes_in cr) ts' /\
                 (forall x, x <> [] -> lookup f' ((cur ++ dirs) ++ x) = None).
Proof.
  intros cr fuel. induction dirs as [|n t IH]; intros f cur acc P FR.
  - exists f, []. rewrite !app_nil_r. split; [reflexivity|]. split; [constructor|exact FR].
  - cbn [mkdirp]. rewrite (FR [n]); [|discriminate].
    destruct (IH ((cur ++ [n], Dir) :: f) (cur ++ [n]) (acc ++ [TMkdir (cur ++ [n])])) as [f' [ts' [M [G FR']]]].
    + apply loc_prefix_snoc. exact P.
    + intros x NE. cbn [lookup]. rewrite loc_eqb_longer; [|exact NE]. rewrite <- app_assoc. apply FR. discriminate.
    + exists f', (TMkdir (cur ++ [n]) :: ts'). rewrite <- !app_assoc in *. cbn [app] in *.
      split; [exact M|]. split; [|exact FR'].
      constructor; [simpl; apply loc_prefix_snoc; exact P|exact G].
Qed.

(* ------------------------------------------------------------------ ancestors / lstat of clean absolute paths *)

Lemma abs_snoc : forall l m, abs (l ++ [m]) = abs l ++ [CNormal m].
Proof. intros. unfold abs. rewrite map_app. reflexivity. Qed.

Lemma abs_length : forall l, length (abs l) = S (length l).
Proof. intros. unfold abs. simpl. rewrite map_length. reflexivity. Qed.

Lemma ancestors_snoc : forall l m, ancestors (abs (l ++ [m])) = abs l :: ancestors (abs l).
Proof.
  intros l m. unfold ancestors. rewrite abs_snoc, app_length, abs_length. simpl length.
  replace (S (length l) + 1 - 1)%nat with (S (length l)) by lia.
  replace (S (length l) - 1)%nat with (length l) by lia.
  rewrite seq_S. rewrite rev_app_distr. simpl rev. cbn [map app].
  f_equal.
  - replace (S (length l)) with (length (abs l)) by (rewrite abs_length; reflexivity).
    rewrite firstn_app, Nat.sub_diag, firstn_all. cbn [firstn]. apply app_nil_r.
  - apply map_ext_in. intros k Hk. apply in_rev in Hk. apply in_seq in Hk.
    rewrite firstn_app. replace (k - length (abs l))%nat with 0%nat by (rewrite abs_length; lia).
    cbn [firstn]. apply app_nil_r.
Qed.

Local Strategy transparent [canon].
Lemma canon_unfold : forall f p, canon f p = walk FUEL f [] p.
Proof. intros. unfold canon. reflexivity. Qed.
Local Strategy opaque [canon].

Lemma canon_abs : forall f l, canon f (abs l) = walk (pred FUEL) f [] (map CNormal l).
Proof. intros. rewrite canon_unfold. unfold abs. rewrite FUEL_pos at 1. rewrite walk_eq. reflexivity. Qed.

Lemma lstat_snoc : forall f l m,
  lstat f (abs (l ++ [m])) =
  match canon f (abs l) with
  | Some cur => match lookup_top f cur with Some Dir => lookup f (cur ++ [m]) | _ => None end
  | None => None
  end.
Proof.
  intros f l m. unfold lstat. rewrite abs_snoc.
  destruct (abs l ++ [CNormal m]) eqn:E; [destruct (abs l); discriminate|]. rewrite <- E.
  rewrite removelast_last, last_last. rewrite (canon_unfold f (abs l)).
  destruct (walk FUEL f [] (abs l)) as [cur|]; [|reflexivity].
  destruct (lookup_top f cur) as [[| |]|]; reflexivity.
Qed.

(* the outcome of the ancestor search: the path splits into an existing part whose real location is under the
   root, and a rest whose first component does not exist there (unless it is the file name itself) *)
Lemma check_decomp : forall f cr L,
  L <> [] -> ancestors_check f cr (ancestors (abs L)) = true ->
  exists E m rest, L = E ++ m :: rest /\
    (exists real, canon f (abs E) = Some real /\ loc_prefix cr real = true) /\
    (rest <> [] -> lstat f (abs (E ++ [m])) = None).
Proof.
  intros f cr L. induction L as [|m L' IH] using rev_ind; intros NE H; [contradiction|].
  rewrite ancestors_snoc in H. cbn [ancestors_check] in H.
  destruct (lstat f (abs L')) as [nd|] eqn:LS; cbn [is_some] in H.
  - destruct (canon f (abs L')) as [real|] eqn:C; [|discriminate].
    exists L', m, []. split; [reflexivity|]. split; [exists real; auto|]. intros X; contradiction.
  - destruct L' as [|a L''] eqn:EL.
    + unfold ancestors in H. simpl in H. discriminate.
    + rewrite <- EL in *. destruct IH as [E [m' [rest [EQ [R N]]]]]; [rewrite EL; discriminate|exact H|].
      exists E, m', (rest ++ [m]). split; [rewrite EQ, <- app_assoc; reflexivity|]. split; [exact R|].
      intros _. destruct rest as [|r0 rest'].
      * rewrite <- EQ. exact LS.
      * apply N. discriminate.
Qed.

(* ------------------------------------------------------------------ the repaired write *)

Lemma only_follows_writes_in : forall cr ts, only_follows ts -> Forall (writes_in cr) ts.
Proof.
  intros cr ts H. induction H; constructor; [|assumption]. destruct x; simpl in *; try contradiction; exact I.
Qed.

Lemma removelast_cons2 : forall A (m : A) r rest, removelast (m :: r :: rest) = m :: removelast (r :: rest).
Proof. reflexivity. Qed.

Lemma last_app_ne : forall A (a b : list A) d, b <> [] -> last (a ++ b) d = last b d.
Proof.
  induction a as [|x a IH]; intros b d NE; [reflexivity|].
  cbn [app]. destruct (a ++ b) eqn:E; [apply app_eq_nil in E; destruct E; contradiction|].
  rewrite <- E. cbn [last]. rewrite E. rewrite <- E. apply IH. exact NE.
Qed.

Lemma last_cons2 : forall A (m : A) r rest d, last (m :: r :: rest) d = last (r :: rest) d.
Proof. reflexivity. Qed.

(* create_dir_all(parent) + write(path), both from "/", after ensure_real_parent_within_root accepted the path:
   every directory created and the file written are under the canonical root — for every well-formed file
   system, whatever links it contains *)
Lemma write_at_ensured : forall f root L data cr r ts,
  wf f -> L <> [] ->
  ensure_real_parent_within_root f root (abs L) (abs L) = EOk ->
  canon f (abs root) = Some cr ->
  write_at FUEL f [] L data = (r, ts) -> Forall (writes_in cr) ts.
Proof.
  intros f root L data cr r ts W NE EN CR WA.
  unfold ensure_real_parent_within_root in EN.
  destruct (is_link (lstat f (abs L))) eqn:LK; [discriminate|].
  rewrite CR in EN. destruct (ancestors_check f cr (ancestors (abs L))) eqn:AC; [|discriminate].
  destruct (check_decomp f cr L NE AC) as [E [m [rest [EQ [[real [CE PR]] NX]]]]].
  subst L. unfold write_at in WA.
  assert (CE' := CE). rewrite canon_abs in CE'.
  assert (RL : removelast (E ++ m :: rest) = E ++ removelast (m :: rest)) by (apply removelast_app; discriminate).
  assert (LL : last (E ++ m :: rest) [] = last (m :: rest) []) by (apply last_app_ne; discriminate).
  rewrite RL, LL, mkdirp_app in WA.
  destruct (mkdirp_existing f FUEL W E [] (pred FUEL) real []) as [fl [F [[D M]|[D M]]]];
    [lia|reflexivity|exact CE'| |].
  2:{ rewrite M in WA. injection WA as <- <-. apply only_follows_writes_in. exact F. }
  rewrite M in WA. cbn [app] in WA.
  destruct rest as [|r0 rest'].
  - (* the parent exists: only the file is created *)
    cbn [removelast mkdirp last] in WA.
    rewrite lstat_snoc, CE, D in LK.
    destruct (wopen FUEL f real [CNormal m]) as [q|] eqn:WO.
    + injection WA as <- <-.
      rewrite LK. cbn [app]. apply Forall_app. split; [apply only_follows_writes_in; exact F|].
      rewrite (wopen_last_plain _ _ _ _ _ WO LK).
      constructor; [simpl; apply loc_prefix_snoc; exact PR|constructor].
    + injection WA as <- <-. apply only_follows_writes_in. exact F.
  - (* m does not exist under real: it and everything below it is created right there *)
    assert (NM : lookup f (real ++ [m]) = None).
    { assert (X : r0 :: rest' <> []) by discriminate. specialize (NX X).
      rewrite lstat_snoc, CE, D in NX. exact NX. }
    rewrite removelast_cons2, last_cons2 in WA. cbn [mkdirp] in WA. rewrite NM in WA.
    destruct (mkdirp_create cr FUEL (removelast (r0 :: rest')) ((real ++ [m], Dir) :: f) (real ++ [m])
                (fl ++ [TMkdir (real ++ [m])])) as [f' [ts' [MC [G FR]]]].
    { apply loc_prefix_snoc. exact PR. }
    { intros x NEx. cbn [lookup]. rewrite loc_eqb_longer; [|exact NEx].
      apply wf_fresh; [exact W|destruct real; discriminate|exact NM]. }
    rewrite MC in WA.
    set (cur' := (real ++ [m]) ++ removelast (r0 :: rest')) in *.
    set (n := last (r0 :: rest') []) in *.
    assert (LN : lookup f' (cur' ++ [n]) = None) by (apply FR; discriminate).
    assert (PC : loc_prefix cr cur' = true).
    { unfold cur'. destruct (loc_prefix_spec _ _ PR) as [x ->]. rewrite <- !app_assoc. apply loc_prefix_app. }
    destruct (wopen FUEL f' cur' [CNormal n]) as [q|] eqn:WO.
    + injection WA as <- <-. rewrite LN. cbn [is_link app].
      assert (LK' : is_link (lookup f' (cur' ++ [n])) = false) by (rewrite LN; reflexivity).
      rewrite (wopen_last_plain _ _ _ _ _ WO LK').
      apply Forall_app. split.
      * apply Forall_app. split.
        -- apply Forall_app. split; [apply only_follows_writes_in; exact F|].
           constructor; [simpl; apply loc_prefix_snoc; exact PR|constructor].
        -- exact G.
      * constructor; [simpl; apply loc_prefix_snoc; exact PC|constructor].
    + injection WA as <- <-. apply Forall_app. split.
      * apply Forall_app. split; [apply only_follows_writes_in; exact F|].
        constructor; [simpl; apply loc_prefix_snoc; exact PR|constructor].
      * exact G.
Qed.

(* ------------------------------------------------------------------ create_dir_all keeps the file system well formed *)

Lemma loc_eqb_snoc_self : forall l n, loc_eqb (l ++ [n]) l = false.
Proof.
  intros l n. destruct (loc_eqb (l ++ [n]) l) eqn:E; [|reflexivity].
  apply loc_eqb_eq in E. apply (f_equal (@length name)) in E. rewrite app_length in E. simpl in E. lia.
Qed.

Lemma wf_add_dir : forall f cur n,
  wf f -> lookup_top f cur = Some Dir -> lookup f (cur ++ [n]) = None ->
  wf ((cur ++ [n], Dir) :: f) /\ lookup_top ((cur ++ [n], Dir) :: f) (cur ++ [n]) = Some Dir.
Proof.
  intros f cur n W D NX. split.
  - intros l n' H. cbn [lookup] in H.
    assert (TOP : forall l', lookup_top f l' = Some Dir -> lookup_top ((cur ++ [n], Dir) :: f) l' = Some Dir).
    { intros l' H'. unfold lookup_top in *. destruct l'; [reflexivity|]. cbn [lookup].
      destruct (loc_eqb (cur ++ [n]) (n0 :: l')); [reflexivity|exact H']. }
    destruct (loc_eqb (cur ++ [n]) (l ++ [n'])) eqn:E.
    + apply loc_eqb_eq in E. apply app_inj_tail in E. destruct E as [-> _]. apply TOP. exact D.
    + apply TOP. apply W with n'. exact H.
  - rewrite lookup_top_snoc. cbn [lookup]. rewrite loc_eqb_refl. reflexivity.
Qed.

Lemma mkdirp_wf : forall fuel todo f cur acc f' c' ts,
  wf f -> lookup_top f cur = Some Dir ->
  mkdirp fuel f cur todo acc = (Some (f', c'), ts) -> wf f' /\ lookup_top f' c' = Some Dir.
Proof.
  intros fuel. induction todo as [|n t IH]; intros f cur acc f' c' ts W D H.
  - injection H as <- <- _. auto.
  - cbn [mkdirp] in H. destruct (lookup f (cur ++ [n])) as [nd|] eqn:L.
    + destruct nd.
      * eapply IH; [exact W| |exact H]. rewrite lookup_top_snoc. exact L.
      * discriminate.
      * destruct (walk fuel f cur (os_comps target)) as [q|]; [|discriminate].
        destruct (lookup_top f q) as [nd|] eqn:LQ; [|discriminate]. destruct nd; try discriminate.
        eapply IH; [exact W|exact LQ|exact H].
    + destruct (wf_add_dir f cur n W D L) as [W1 D1]. eapply IH; [exact W1|exact D1|exact H].
Qed.

(* ------------------------------------------------------------------ ResourceStore::add / Builder::add_resource *)

Definition touches_after (ts0 ts : list touch) (P : touch -> Prop) : Prop := exists ts1, ts = ts0 ++ ts1 /\ Forall P ts1.

(* ResourceStore::add (791680340), every well-formed file system, every base / root / identifier / data:
   whatever is created or written after the base directory has been made sure of lies under realpath(root);
   when the root cannot be canonicalized or the path is refused, nothing is written *)
Lemma add_confined : forall f base root id data o ts f0 rr ts0,
  wf f -> add f base root id data = (o, ts) ->
  mkdirp FUEL f [] base [] = (Some (f0, rr), ts0) ->           (* create_dir_all(base) succeeded *)
  ts = [] \/ ts = ts0 \/
  (exists cr, canon f0 (abs root) = Some cr /\ touches_after ts0 ts (writes_in cr)).
Proof.
  intros f base root id data o ts f0 rr ts0 W H M. unfold add in H.
  destruct (sanitize id) as [ns|] eqn:S; [|injection H as _ <-; left; reflexivity].
  rewrite M in H. right.
  destruct (mkdirp_wf FUEL base f [] [] f0 rr ts0 W eq_refl M) as [W0 _].
  destruct (ensure_real_parent_within_root f0 root (abs (base ++ ns)) (abs (base ++ ns))) eqn:EN.
  - assert (EN' := EN). unfold ensure_real_parent_within_root in EN'.
    destruct (is_link (lstat f0 (abs (base ++ ns)))); [discriminate|].
    destruct (canon f0 (abs root)) as [cr|] eqn:CR; [|discriminate].
    right. exists cr. split; [reflexivity|].
    destruct (write_at FUEL f0 [] (base ++ ns) data) as [r ts1] eqn:WA.
    exists ts1. split; [destruct r; injection H as _ <-; reflexivity|].
    eapply write_at_ensured; [exact W0| |exact EN|exact CR|exact WA].
    destruct (sanitize_plain _ _ S) as [NE _]. destruct base; [exact NE|discriminate].
  - injection H as _ <-. left. reflexivity.
  - injection H as _ <-. left. reflexivity.
Qed.

Lemma exists_op_no_write : forall f base root id,
  Forall (fun t => match t with TWrite _ | TMkdir _ => False | _ => True end) (snd (exists_op f base root id)).
Proof.
  intros. unfold exists_op. destruct (resolve_within_root f base root id); [|constructor].
  destruct (canon f l); repeat constructor.
Qed.

Lemma builder_add_confined : forall f base id data o ts f0 rr ts0,
  wf f -> builder_add f base id data = (o, ts) ->
  mkdirp FUEL f [] base [] = (Some (f0, rr), ts0) ->
  Forall (fun t => match t with TWrite _ | TMkdir _ => False | _ => True end) ts \/ ts = ts0 \/
  (exists cr, canon f0 (abs base) = Some cr /\ touches_after ts0 ts (writes_in cr)).
Proof.
  intros f base id data o ts f0 rr ts0 W H M. unfold builder_add in H.
  destruct (sanitize id) as [ns|]; [|injection H as _ <-; left; constructor].
  assert (A : add f base base (join_slash ns) data = (o, ts) ->
    Forall (fun t => match t with TWrite _ | TMkdir _ => False | _ => True end) ts \/ ts = ts0 \/
    (exists cr, canon f0 (abs base) = Some cr /\ touches_after ts0 ts (writes_in cr))).
  { intros A. destruct (add_confined _ _ _ _ _ _ _ _ _ _ W A M) as [->|X]; [left; constructor|right; exact X]. }
  pose proof (exists_op_no_write f base base (join_slash ns)) as NW.
  destruct (exists_op f base base (join_slash ns)) as [ob tsb].
  destruct ob; try (apply A; exact H).
  destruct b; [|apply A; exact H].
  injection H as _ <-. left. exact NW.
Qed.

(* ------------------------------------------------------------------ what a positive answer of resolve_within_root means *)

(* when the target does not exist, the identifier is accepted only if the deepest ancestor that exists has its real
   location under the root and the path itself is not a (dangling) link: no answer is given about a place whose
   existing part lies outside *)
Lemma resolve_missing_inside : forall f base root id j,
  resolve_within_root f base root id = Some j -> canon f j = None ->
  is_link (lstat f (join_os base id)) = false /\
  exists cr pre d post real,
    canon f (abs root) = Some cr /\ ancestors (join base id) = pre ++ d :: post /\
    Forall (fun x => lstat f x = None) pre /\ lstat f d <> None /\ canon f d = Some real /\ loc_prefix cr real = true.
Proof.
  intros f base root id j R C.
  destruct (resolve_some _ _ _ _ _ R) as (J & _ & _ & _ & _ & E). specialize (E C).
  unfold ensure_real_parent_within_root in E.
  destruct (is_link (lstat f (join_os base id))); [discriminate|]. split; [reflexivity|].
  destruct (canon f (abs root)) as [cr|]; [|discriminate]. exists cr.
  destruct (ancestors_check f cr (ancestors (join base id))) eqn:AC; [|discriminate]. clear E.
  generalize dependent (ancestors (join base id)). intros anc AC.
  induction anc as [|d t IH]; [discriminate|]. cbn [ancestors_check] in AC.
  destruct (lstat f d) as [nd|] eqn:LS; cbn [is_some] in AC.
  - destruct (canon f d) as [real|] eqn:CD; [|discriminate].
    exists [], d, t, real. repeat split; auto. rewrite LS. discriminate.
  - destruct (IH AC) as (pre & d' & post & real & H1 & H2 & H3 & H4 & H5 & H6).
    exists (d :: pre), d', post, real. repeat split; auto. rewrite H2. reflexivity.
Qed.

(* ------------------------------------------------------------------ path resolution and the files outside the root *)

(* f1 and f2 differ at most in regular files (present / absent / content) at locations outside cr *)
Definition file_or_none (o : option node) : Prop := match o with None | Some (File _) => True | _ => False end.
Definition differ_in_outside_files (cr : loc) (f1 f2 : fs) : Prop :=
  forall l, lookup f1 l = lookup f2 l \/ (loc_prefix cr l = false /\ file_or_none (lookup f1 l) /\ file_or_none (lookup f2 l)).

(* canonicalize answers the same on both, except that it may find, on one of them only, a file that is outside cr *)
Definition same_or_outside (cr : loc) (a b : option loc) : Prop :=
  a = b \/ (exists q, loc_prefix cr q = false /\ ((a = Some q /\ b = None) \/ (a = None /\ b = Some q))).

Lemma walk_outside_files : forall cr f1 f2, differ_in_outside_files cr f1 f2 ->
  forall k cur todo, same_or_outside cr (walk k f1 cur todo) (walk k f2 cur todo).
Proof.
  intros cr f1 f2 D. induction k; intros cur todo; [left; reflexivity|].
  rewrite !walk_eq. destruct todo as [|c t]; [left; reflexivity|].
  destruct c; try apply IHk.
  destruct (D (cur ++ [n])) as [E|[P [F1 F2]]].
  - rewrite E. destruct (lookup f2 (cur ++ [n])) as [nd|]; [|left; reflexivity].
    destruct nd; try apply IHk. left. reflexivity.
  - destruct (lookup f1 (cur ++ [n])) as [nd1|]; [destruct nd1; try contradiction|];
      (destruct (lookup f2 (cur ++ [n])) as [nd2|]; [destruct nd2; try contradiction|]);
      destruct t; try (left; reflexivity).
    + right. exists (cur ++ [n]). split; [exact P|]. left. split; reflexivity.
    + right. exists (cur ++ [n]). split; [exact P|]. right. split; reflexivity.
Qed.

Lemma canon_outside_files : forall cr f1 f2 p, differ_in_outside_files cr f1 f2 ->
  same_or_outside cr (canon f1 p) (canon f2 p).
Proof. intros. rewrite !canon_unfold. apply walk_outside_files. assumption. Qed.

(* consequence for the existing-target branch of resolve_within_root: if the target canonicalizes under the root
   on one file system, it canonicalizes to the same place on the other *)
Lemma canon_inside_stable : forall cr f1 f2 p q, differ_in_outside_files cr f1 f2 ->
  canon f1 p = Some q -> loc_prefix cr q = true -> canon f2 p = Some q.
Proof.
  intros cr f1 f2 p q D C P. destruct (canon_outside_files cr f1 f2 p D) as [E|[q' [P' [[A B]|[A B]]]]].
  - rewrite <- E. exact C.
  - rewrite C in A. injection A as <-. rewrite P in P'. discriminate.
  - rewrite C in A. discriminate.
Qed.

Lemma lookup_inside_same : forall cr f1 f2 q, differ_in_outside_files cr f1 f2 -> loc_prefix cr q = true ->
  lookup_top f1 q = lookup_top f2 q.
Proof.
  intros cr f1 f2 q D P. unfold lookup_top. destruct q; [reflexivity|].
  destruct (D (n :: q)) as [E|[P' _]]; [exact E|rewrite P in P'; discriminate].
Qed.

Lemma resolve_existing_stable : forall cr f1 f2 base root id j q,
  differ_in_outside_files cr f1 f2 ->
  canon f1 (abs root) = Some cr -> canon f2 (abs root) = Some cr ->
  resolve_within_root f1 base root id = Some j -> canon f1 j = Some q ->
  resolve_within_root f2 base root id = Some j /\ canon f2 j = Some q /\ loc_prefix cr q = true.
Proof.
  intros cr f1 f2 base root id j q D C1 C2 R CJ.
  destruct (resolve_some _ _ _ _ _ R) as (J & B & RT & _ & IN & _).
  destruct (IN q CJ) as [cr' [C1' P]]. rewrite C1 in C1'. injection C1' as <-.
  pose proof (canon_inside_stable cr f1 f2 j q D CJ P) as CJ2.
  split; [|split; [exact CJ2|exact P]].
  rewrite resolve_unfold in *. destruct id as [|c t]; [discriminate|].
  generalize dependent (c :: t). clear c t. intros id R J B RT.
  rewrite B, RT in *. cbv beta iota in *.
  destruct (negb (starts_with (normalize_lexically (join base id)) (normalize_lexically (abs root)))); [discriminate|].
  subst j. rewrite CJ2, C2, P. reflexivity.
Qed.

(* positive answers of the read side do not depend on the files outside the root *)
Lemma get_positive_stable : forall cr f1 f2 base root id c ts,
  differ_in_outside_files cr f1 f2 ->
  canon f1 (abs root) = Some cr -> canon f2 (abs root) = Some cr ->
  get f1 base root id = (OkData c, ts) -> get f2 base root id = (OkData c, ts).
Proof.
  intros cr f1 f2 base root id c ts D C1 C2 G. unfold get in *.
  destruct (resolve_within_root f1 base root id) as [j|] eqn:R; [|discriminate].
  destruct (read_file f1 j) as [[q c']|] eqn:RF; [|discriminate]. injection G as <- <-.
  pose proof (read_file_canon _ _ _ _ RF) as CJ.
  destruct (resolve_existing_stable cr f1 f2 base root id j q D C1 C2 R CJ) as [R2 [CJ2 P]].
  rewrite R2. unfold read_file in *. rewrite CJ in RF. rewrite CJ2.
  rewrite <- (lookup_inside_same cr f1 f2 q D P). destruct (lookup_top f1 q) as [nd|]; [|discriminate].
  destruct nd; try discriminate. injection RF as <-. reflexivity.
Qed.

Lemma exists_positive_stable : forall cr f1 f2 base root id ts,
  differ_in_outside_files cr f1 f2 ->
  canon f1 (abs root) = Some cr -> canon f2 (abs root) = Some cr ->
  exists_op f1 base root id = (OkBool true, ts) -> exists_op f2 base root id = (OkBool true, ts).
Proof.
  intros cr f1 f2 base root id ts D C1 C2 G. unfold exists_op in *.
  destruct (resolve_within_root f1 base root id) as [j|] eqn:R; [|discriminate].
  destruct (canon f1 j) as [q|] eqn:CJ; [|discriminate]. injection G as <-.
  destruct (resolve_existing_stable cr f1 f2 base root id j q D C1 C2 R CJ) as [R2 [CJ2 P]].
  rewrite R2, CJ2. reflexivity.
Qed.

(* Reader::to_folder is not repaired: the export still follows a link of the destination folder (F-SYMLINK-EXPORT) *)
Lemma export_refuted :
  canon w_fs (abs [n_root]) = Some [n_root]
  /\ to_folder w_fs [n_root] [[n_link; n_evil]] = (OkUnit, [TFollow [n_outside]; TWrite [n_outside; n_evil]])
  /\ loc_prefix [n_root] [n_outside; n_evil] = false.
Proof. vm_compute. repeat split; reflexivity. Qed.

Lemma wf_witness : wf w_fs.
Proof.
  intros l n H. unfold w_fs, w_fs0 in *. cbn [app lookup] in H.
  destruct (loc_eqb [n_root] (l ++ [n])) eqn:E1.
  { apply loc_eqb_eq in E1. destruct l as [|a l]; [reflexivity|]. destruct l; discriminate. }
  destruct (loc_eqb [n_root; n_link] (l ++ [n])) eqn:E2.
  { apply loc_eqb_eq in E2. change [n_root; n_link] with ([n_root] ++ [n_link]) in E2.
    apply app_inj_tail in E2. destruct E2 as [<- _]. reflexivity. }
  destruct (loc_eqb [n_outside] (l ++ [n])) eqn:E3.
  { apply loc_eqb_eq in E3. destruct l as [|a l]; [reflexivity|]. destruct l; discriminate. }
  destruct (loc_eqb [n_outside; n_secret] (l ++ [n])) eqn:E4.
  { apply loc_eqb_eq in E4. change [n_outside; n_secret] with ([n_outside] ++ [n_secret]) in E4.
    apply app_inj_tail in E4. destruct E4 as [<- _]. reflexivity. }
  contradiction.
Qed.
