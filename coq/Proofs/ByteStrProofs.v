(* Proofs/ByteStrProofs.v — facts about the byte-string operations of Model/ByteStr.v *)
From Coq Require Import List NArith Bool Lia Arith ZifyBool ZifyNat ZifyN.
From C2PA Require Import Base.Bytes Model.ByteStr.
Import ListNotations.
Open Scope N_scope.

Lemma beq_eq x y : beq x y = true <-> x = y.
Proof.
  revert y; induction x as [|a x IH]; destruct y as [|c y]; cbn; try (split; congruence).
  rewrite andb_true_iff, N.eqb_eq, IH. split; [intros [-> ->]; reflexivity | intros H; inversion H; auto].
Qed.

Lemma beq_refl x : beq x x = true.
Proof. apply beq_eq; reflexivity. Qed.

Lemma beq_neq x y : beq x y = false <-> x <> y.
Proof.
  split; intros H.
  - intros E. apply beq_eq in E. congruence.
  - destruct (beq x y) eqn:E; [apply beq_eq in E; contradiction | reflexivity].
Qed.

Lemma beq_sym x y : beq x y = beq y x.
Proof.
  destruct (beq x y) eqn:E.
  - apply beq_eq in E; subst; symmetry; apply beq_refl.
  - symmetry; apply beq_neq; apply beq_neq in E; congruence.
Qed.

Lemma starts_with_spec p s : starts_with p s = true <-> exists rest, s = p ++ rest.
Proof.
  revert s; induction p as [|a p IH]; intros s; cbn.
  - split; [intros _; exists s; reflexivity | reflexivity].
  - destruct s as [|c s]; [split; [discriminate | intros [r H]; discriminate]|].
    rewrite andb_true_iff, N.eqb_eq, IH. split.
    + intros [-> [r ->]]. exists r; reflexivity.
    + intros [r H]. inversion H; subst. split; [reflexivity | exists r; reflexivity].
Qed.

Lemma starts_with_app p r : starts_with p (p ++ r) = true.
Proof. apply starts_with_spec; exists r; reflexivity. Qed.

Lemma existsb_beq_In c l : existsb (beq c) l = true <-> In c l.
Proof.
  rewrite existsb_exists. split.
  - intros [x [Hin E]]. apply beq_eq in E; subst; exact Hin.
  - intros H; exists c; split; [exact H | apply beq_refl].
Qed.

Lemma mem_In c s : mem c s = true <-> In c s.
Proof.
  unfold mem. rewrite existsb_exists. split.
  - intros [x [Hin E]]. apply N.eqb_eq in E; subst; exact Hin.
  - intros H; exists c; split; [exact H | apply N.eqb_refl].
Qed.

Lemma mem_false c s : mem c s = false <-> ~ In c s.
Proof.
  split; intros H.
  - intros Hin. apply mem_In in Hin. congruence.
  - destruct (mem c s) eqn:E; [apply mem_In in E; contradiction | reflexivity].
Qed.

(* ---------------- split ---------------- *)

Lemma split_acc_nosep c s cur : ~ In c s -> split_acc c s cur = [rev cur ++ s].
Proof.
  revert cur; induction s as [|x t IH]; intros cur H; cbn.
  - rewrite app_nil_r; reflexivity.
  - destruct (x =? c) eqn:E; [apply N.eqb_eq in E; subst; exfalso; apply H; left; reflexivity|].
    rewrite IH by (intros Hin; apply H; right; exact Hin).
    cbn. rewrite <- app_assoc. reflexivity.
Qed.

Lemma split_nosep c s : ~ In c s -> split c s = [s].
Proof. intros H. unfold split. rewrite split_acc_nosep by exact H. reflexivity. Qed.

Lemma split_acc_app c a t cur :
  ~ In c a -> split_acc c (a ++ c :: t) cur = (rev cur ++ a) :: split c t.
Proof.
  revert cur; induction a as [|x a IH]; intros cur H; cbn.
  - rewrite N.eqb_refl, app_nil_r. reflexivity.
  - destruct (x =? c) eqn:E; [apply N.eqb_eq in E; subst; exfalso; apply H; left; reflexivity|].
    rewrite IH by (intros Hin; apply H; right; exact Hin).
    cbn. rewrite <- app_assoc. reflexivity.
Qed.

(* the first separator cuts off the first part *)
Lemma split_app c a t : ~ In c a -> split c (a ++ c :: t) = a :: split c t.
Proof. intros H. unfold split at 1. rewrite split_acc_app by exact H. reflexivity. Qed.

Lemma split_cons_sep c t : split c (c :: t) = [] :: split c t.
Proof. apply (split_app c [] t). intros []. Qed.

Lemma not_In_app {A} (x : A) a b' : ~ In x a -> ~ In x b' -> ~ In x (a ++ b').
Proof. intros Ha Hb H. apply in_app_or in H. tauto. Qed.

(* ---------------- split2 (two-character separator) ---------------- *)

(* [a] contains no "cc" and does not end in "c" *)
Fixpoint no_cc (c : N) (a : bytes) : Prop :=
  match a with
  | [] => True
  | x :: t => match t with
              | [] => x <> c
              | y :: _ => ~ (x = c /\ y = c) /\ no_cc c t
              end
  end.

Lemma split2_acc_cons2 c x y t cur :
  split2_acc c (x :: y :: t) cur =
  if (x =? c) && (y =? c) then rev cur :: split2_acc c t [] else split2_acc c (y :: t) (x :: cur).
Proof. reflexivity. Qed.

(* a has no "cc", does not end in c; t does not start with c: the first "cc" of a ++ cc ++ t is the one written *)
Lemma split2_acc_app c a t cur :
  no_cc c a -> (match t with [] => True | y :: _ => y <> c end) ->
  split2_acc c (a ++ c :: c :: t) cur = (rev cur ++ a) :: split2 c t.
Proof.
  revert cur; induction a as [|x a IH]; intros cur Ha Ht.
  - cbn. rewrite N.eqb_refl. cbn. rewrite app_nil_r. reflexivity.
  - destruct a as [|y a'].
    + (* a = [x], x <> c *)
      cbn in Ha. cbn.
      destruct (x =? c) eqn:E; [apply N.eqb_eq in E; contradiction|].
      cbn. rewrite N.eqb_refl. cbn. reflexivity.
    + destruct Ha as [Hxy Ha].
      change ((x :: y :: a') ++ c :: c :: t) with (x :: y :: (a' ++ c :: c :: t)).
      rewrite split2_acc_cons2.
      destruct ((x =? c) && (y =? c)) eqn:E.
      { apply andb_true_iff in E. destruct E as [E1 E2]. apply N.eqb_eq in E1, E2. exfalso; apply Hxy; split; assumption. }
      change (y :: a' ++ c :: c :: t) with ((y :: a') ++ c :: c :: t).
      rewrite (IH (x :: cur) Ha Ht). cbn. rewrite <- app_assoc. reflexivity.
Qed.

Lemma split2_app c a t :
  no_cc c a -> (match t with [] => True | y :: _ => y <> c end) ->
  split2 c (a ++ c :: c :: t) = a :: split2 c t.
Proof. intros Ha Ht. unfold split2 at 1. rewrite split2_acc_app by assumption. reflexivity. Qed.

Lemma split2_acc_none c a cur :
  (forall x y pre post, a = pre ++ x :: y :: post -> ~ (x = c /\ y = c)) ->
  split2_acc c a cur = [rev cur ++ a].
Proof.
  revert cur; induction a as [|x a IH]; intros cur H.
  - cbn. rewrite app_nil_r. reflexivity.
  - destruct a as [|y a'].
    + cbn. reflexivity.
    + rewrite split2_acc_cons2.
      destruct ((x =? c) && (y =? c)) eqn:E.
      { apply andb_true_iff in E. destruct E as [E1 E2]. apply N.eqb_eq in E1, E2.
        exfalso. apply (H x y [] a' eq_refl). split; assumption. }
      rewrite IH.
      * cbn. rewrite <- app_assoc. reflexivity.
      * intros x0 y0 pre post Heq. apply (H x0 y0 (x :: pre) post). cbn. rewrite Heq. reflexivity.
Qed.

(* no occurrence of the one-character c at all implies no "cc" *)
Lemma split2_nosep c a : ~ In c a -> split2 c a = [a].
Proof.
  intros H. unfold split2. rewrite split2_acc_none; [reflexivity|].
  intros x y pre post Heq [Hx _]. subst. apply H. apply in_or_app. right. left. reflexivity.
Qed.

(* ---------------- decimal ---------------- *)

Fixpoint lsb_val (l : list N) : N :=
  match l with
  | [] => 0
  | d :: t => d + 10 * lsb_val t
  end.

Lemma digits_rev_val fuel n : n < 10 ^ N.of_nat fuel -> lsb_val (digits_rev fuel n) = n.
Proof.
  revert n; induction fuel as [|f IH]; intros n H.
  - cbn in H. cbn. lia.
  - cbn [digits_rev]. destruct (n <? 10) eqn:E.
    + cbn. apply N.ltb_lt in E. rewrite N.mod_small by lia. lia.
    + cbn [lsb_val]. rewrite IH.
      * pose proof (N.div_mod n 10). lia.
      * rewrite Nat2N.inj_succ, N.pow_succ_r' in H.
        apply N.div_lt_upper_bound; lia.
Qed.

Lemma digits_rev_range fuel n : Forall (fun d => d < 10) (digits_rev fuel n).
Proof.
  revert n; induction fuel as [|f IH]; intros n; cbn [digits_rev]; [constructor|].
  constructor; [apply N.mod_lt; lia|]. destruct (n <? 10); [constructor | apply IH].
Qed.

Lemma digits_rev_nonempty fuel n : fuel <> O -> digits_rev fuel n <> [].
Proof. destruct fuel; [congruence | cbn; discriminate]. Qed.

(* unchecked value of a digit string *)
Fixpoint val (acc : N) (s : bytes) : N :=
  match s with
  | [] => acc
  | c :: t => val (acc * 10 + (c - 48)) t
  end.

Lemma val_mono acc s : acc <= val acc s.
Proof.
  revert acc; induction s as [|c t IH]; intros acc; cbn; [lia|].
  specialize (IH (acc * 10 + (c - 48))). lia.
Qed.

Lemma parse_digits_val acc s :
  forallb is_digit s = true -> val acc s < USIZE -> parse_digits acc s = Some (val acc s).
Proof.
  revert acc; induction s as [|c t IH]; intros acc Hd Hv; cbn in *; [reflexivity|].
  apply andb_true_iff in Hd. destruct Hd as [Hc Ht]. rewrite Hc.
  pose proof (val_mono (acc * 10 + (c - 48)) t) as Hm.
  destruct (USIZE <=? acc * 10 + (c - 48)) eqn:E; [apply N.leb_le in E; lia|].
  apply IH; assumption.
Qed.

Lemma val_app acc a t : val acc (a ++ t) = val (val acc a) t.
Proof. revert acc; induction a as [|c a IH]; intros acc; cbn; [reflexivity | apply IH]. Qed.

Lemma val_rev_digits l :
  Forall (fun d => d < 10) l -> val 0 (map (fun d => 48 + d) (rev l)) = lsb_val l.
Proof.
  induction l as [|d t IH]; intros H; [reflexivity|].
  inversion H; subst. cbn [rev lsb_val]. rewrite map_app, val_app, IH by assumption.
  cbn [map val]. lia.
Qed.

Lemma show_usize_digits n : forallb is_digit (show_usize n) = true.
Proof.
  unfold show_usize. apply forallb_forall. intros x Hx.
  apply in_map_iff in Hx. destruct Hx as [d [<- Hd]]. apply in_rev in Hd.
  pose proof (digits_rev_range 20 n) as F. rewrite Forall_forall in F. specialize (F d Hd).
  unfold is_digit. lia.
Qed.

Lemma show_usize_nonempty n : show_usize n <> [].
Proof.
  unfold show_usize. intros H. apply map_eq_nil in H.
  assert (rev (rev (digits_rev 20 n)) = []) by (rewrite H; reflexivity).
  rewrite rev_involutive in H0. revert H0. apply digits_rev_nonempty. discriminate.
Qed.

Lemma show_usize_first_digit n : exists c t, show_usize n = c :: t /\ is_digit c = true.
Proof.
  pose proof (show_usize_nonempty n) as Hn. pose proof (show_usize_digits n) as Hd.
  destruct (show_usize n) as [|c t]; [congruence|].
  exists c, t. split; [reflexivity|]. cbn in Hd. apply andb_true_iff in Hd. tauto.
Qed.

Lemma show_usize_val n : n < USIZE -> val 0 (show_usize n) = n.
Proof.
  intros H. unfold show_usize. rewrite val_rev_digits by apply digits_rev_range.
  apply digits_rev_val. unfold USIZE in H. change (10 ^ N.of_nat 20) with 100000000000000000000. lia.
Qed.

(* Display then parse gives the number back *)
Lemma parse_show_usize n : n < USIZE -> parse_usize (show_usize n) = Some n.
Proof.
  intros H. destruct (show_usize_first_digit n) as [c [t [E Hc]]].
  unfold parse_usize. rewrite E.
  assert (c =? 43 = false) as ->. { unfold is_digit in Hc. lia. }
  rewrite <- E. rewrite parse_digits_val.
  - rewrite show_usize_val by exact H. reflexivity.
  - apply show_usize_digits.
  - rewrite show_usize_val by exact H. exact H.
Qed.

Lemma digits_not c s : forallb is_digit s = true -> is_digit c = false -> ~ In c s.
Proof.
  intros Hs Hc Hin. rewrite forallb_forall in Hs. specialize (Hs c Hin). congruence.
Qed.
