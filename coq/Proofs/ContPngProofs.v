(* Proofs/ContPngProofs.v — the .c2pa and PNG instances of the generic container theory:
   per-format obligations, equality of the handler transcriptions with the generic write/remove,
   the byte-level decoder/encoder lemmas and the object-location lemma. *)
From Coq Require Import List NArith Bool Lia Arith.
From C2PA Require Import Base.Bytes Model.Container Model.ContPng Proofs.BytesProofs Proofs.ContainerProofs.
Require Import ZifyBool ZifyNat ZifyN.
Import ListNotations.
Open Scope nat_scope.

(* ------------------------------------------------------------------ byte-string equality *)

Lemma beq_refl a : beq a a = true.
Proof.
  unfold beq. rewrite Nat.eqb_refl. cbn. induction a as [|x t IH]; cbn; [reflexivity|].
  rewrite N.eqb_refl. exact IH.
Qed.

Lemma beq_eq a b : beq a b = true -> a = b.
Proof.
  unfold beq. intro H. apply andb_prop in H. destruct H as [Hl Hf]. apply Nat.eqb_eq in Hl.
  revert b Hl Hf. induction a as [|x t IH]; intros [|y u] Hl Hf; cbn in *; try discriminate; [reflexivity|].
  apply andb_prop in Hf. destruct Hf as [H1 H2]. apply N.eqb_eq in H1. subst. f_equal. apply IH; [lia|exact H2].
Qed.

Lemma beq_iff a b : beq a b = true <-> a = b.
Proof. split; [apply beq_eq| intros ->; apply beq_refl]. Qed.

Lemma beq_neq a b : beq a b = false <-> a <> b.
Proof.
  split.
  - intros H E. subst. rewrite beq_refl in H. discriminate.
  - intro H. destruct (beq a b) eqn:E; [|reflexivity]. apply beq_eq in E. contradiction.
Qed.

(* ------------------------------------------------------------------ find / count / find_index *)

Lemma find_index_some {A} (p : A -> bool) l j d :
  find_index p l = Some j ->
  j < length l /\ p (nth j l d) = true /\ Forall (fun x => p x = false) (firstn j l)
  /\ l = firstn j l ++ nth j l d :: skipn (S j) l.
Proof.
  revert j. induction l as [|x t IH]; intros j H; cbn in H; [discriminate|].
  destruct (p x) eqn:E.
  - injection H as <-. cbn. repeat split; auto; lia.
  - destruct (find_index p t) as [k|] eqn:Ek; cbn in H; [|discriminate]. injection H as <-.
    destruct (IH k eq_refl) as (H1 & H2 & H3 & H4). cbn [nth firstn skipn length].
    repeat split; [lia|exact H2|constructor; assumption|]. cbn. f_equal. exact H4.
Qed.

Lemma find_index_none {A} (p : A -> bool) l :
  find_index p l = None <-> Forall (fun x => p x = false) l.
Proof.
  induction l as [|x t IH]; cbn; [split; auto|].
  destruct (p x) eqn:E.
  - split; [discriminate|]. intro H. inversion H; subst. congruence.
  - destruct (find_index p t); cbn.
    + split; [discriminate|]. intro H. inversion H; subst. apply IH in H3. discriminate.
    + split; auto. intros _. constructor; [exact E| apply IH; reflexivity].
Qed.

Lemma find_index_app_left {A} (p : A -> bool) l1 l2 j :
  find_index p l1 = Some j -> find_index p (l1 ++ l2) = Some j.
Proof.
  revert j. induction l1 as [|x t IH]; intros j H; cbn in *; [discriminate|].
  destruct (p x); [exact H|]. destruct (find_index p t) eqn:E; cbn in *; [|discriminate].
  rewrite (IH n eq_refl). exact H.
Qed.

Lemma find_index_app_right {A} (p : A -> bool) l1 l2 :
  Forall (fun x => p x = false) l1 ->
  find_index p (l1 ++ l2) = option_map (fun j => length l1 + j) (find_index p l2).
Proof.
  induction 1 as [|x t Hx Ht IH]; cbn.
  - destruct (find_index p l2); reflexivity.
  - rewrite Hx, IH. destruct (find_index p l2); reflexivity.
Qed.

Lemma count_zero {A} (p : A -> bool) l : Forall (fun x => p x = false) l -> count p l = 0.
Proof. unfold count. induction 1; cbn; [reflexivity|]. rewrite H. exact IHForall. Qed.

Lemma count_app {A} (p : A -> bool) l1 l2 : count p (l1 ++ l2) = count p l1 + count p l2.
Proof. unfold count. rewrite filter_app, app_length. reflexivity. Qed.

Lemma count_zero_inv {A} (p : A -> bool) l : count p l = 0 -> Forall (fun x => p x = false) l.
Proof.
  unfold count. induction l as [|x t IH]; cbn; [constructor|].
  destruct (p x) eqn:E; cbn; [discriminate|]. intro H. constructor; auto.
Qed.

Lemma find_none {A} (p : A -> bool) l : Forall (fun x => p x = false) l -> find p l = None.
Proof. induction 1; cbn; [reflexivity|]. rewrite H. assumption. Qed.

Lemma find_app_skip {A} (p : A -> bool) l1 l2 :
  Forall (fun x => p x = false) l1 -> find p (l1 ++ l2) = find p l2.
Proof. induction 1; cbn; [reflexivity|]. rewrite H. assumption. Qed.

Lemma forall_firstn {A} (P : A -> Prop) i l : Forall P l -> Forall P (firstn i l).
Proof. intro H. rewrite <- (firstn_skipn i l) in H. apply Forall_app in H. tauto. Qed.
Lemma forall_skipn {A} (P : A -> Prop) i l : Forall P l -> Forall P (skipn i l).
Proof. intro H. rewrite <- (firstn_skipn i l) in H. apply Forall_app in H. tauto. Qed.

Lemma skipn_add {A} a b (l : list A) : skipn (a + b) l = skipn b (skipn a l).
Proof.
  revert l. induction a as [|a IH]; intro l; [reflexivity|]. destruct l; cbn [Nat.add skipn]; [destruct b; reflexivity| apply IH].
Qed.

Lemma skipn_app_2 {A} n (l1 l2 : list A) : skipn (length l1 + n) (l1 ++ l2) = skipn n l2.
Proof. induction l1; [reflexivity|]. cbn. assumption. Qed.

Lemma firstn_app_le {A} n (l1 l2 : list A) : n <= length l1 -> firstn n (l1 ++ l2) = firstn n l1.
Proof. intro H. rewrite firstn_app. replace (n - length l1) with 0 by lia. cbn. apply app_nil_r. Qed.
Lemma skipn_app_le {A} n (l1 l2 : list A) : n <= length l1 -> skipn n (l1 ++ l2) = skipn n l1 ++ l2.
Proof. intro H. rewrite skipn_app. replace (n - length l1) with 0 by lia. reflexivity. Qed.

(* the decomposition used by the refinement proofs: at most one element satisfies p *)
Lemma at_most_one_split {A} (p : A -> bool) l j (d : A) :
  find_index p l = Some j -> count p l <= 1 ->
  exists a c b, l = a ++ c :: b /\ length a = j /\ p c = true
                /\ Forall (fun x => p x = false) a /\ Forall (fun x => p x = false) b.
Proof.
  intros Hf Hc. destruct (find_index_some p l j d Hf) as (H1 & H2 & H3 & H4).
  exists (firstn j l), (nth j l d), (skipn (S j) l). repeat split; auto.
  - rewrite firstn_length. lia.
  - assert (Hc' : count p (firstn j l ++ nth j l d :: skipn (S j) l) <= 1) by (rewrite <- H4; exact Hc).
    rewrite count_app in Hc'. unfold count in Hc'. cbn [filter] in Hc'. rewrite H2 in Hc'. cbn [length] in Hc'.
    apply count_zero_inv. unfold count. lia.
Qed.

(* ------------------------------------------------------------------ .c2pa *)

Definition c2pa_adm (b : bytes) : Prop := b <> [].

Lemma c2pa_laws : laws c2pa_format (fun _ => True) c2pa_adm.
Proof.
  assert (Hm : forall l, marks c2pa_format l = map (fun _ => true) l) by reflexivity.
  assert (Hclean : forall s : list (seg c2pa_format), clean c2pa_format s -> s = []).
  { intros s H. apply (sl_clean_iff c2pa_format (fun _ => true) Hm) in H. destruct s; [reflexivity|]. inversion H; discriminate. }
  constructor.
  - apply (sl_marks_len _ _ Hm).
  - apply (sl_strip_clean _ _ Hm).
  - intros s i b Hc _ _ Hi. apply (sl_ins_marks _ _ Hm); [exact Hc| repeat constructor| exact Hi].
  - intros s i b Hc _ Ha Hi. apply Hclean in Hc. subst. cbn in Hi. replace i with 0 by lia.
    cbn. rewrite app_nil_r. destruct b; [contradiction Ha; reflexivity| reflexivity].
  - intros s Hc _. apply Hclean in Hc. subst. reflexivity.
  - intros l. cbn. lia.
  - reflexivity.
  - intros b _. discriminate.
  - intros b1 b2 H. cbn. rewrite !app_nil_r. exact H.
Qed.

Lemma c2pa_write_generic a b : c2pa_write a b = ROk (concat (gwrite c2pa_format [a] b)).
Proof. cbn. rewrite app_nil_r. reflexivity. Qed.
Lemma c2pa_remove_generic a : c2pa_remove a = ROk (concat (gremove c2pa_format [a])).
Proof. reflexivity. Qed.
Lemma c2pa_read_generic a : c2pa_read a = gread c2pa_format [a].
Proof. cbn. rewrite app_nil_r. reflexivity. Qed.

(* ------------------------------------------------------------------ PNG, chunk level *)

Section Png.
  Variable crc : bytes -> N.
  Local Notation PF := (png_format crc).

  Definition png_adm (b : bytes) : Prop := b <> [].

  Lemma png_marks l : marks PF l = map is_cabx l.
  Proof. reflexivity. Qed.

  Lemma is_cabx_mk b : is_cabx (mk_cabx crc b) = true.
  Proof. reflexivity. Qed.
  Lemma is_ihdr_mk b : is_ihdr (mk_cabx crc b) = false.
  Proof. reflexivity. Qed.

  Lemma png_payload_insert s i b :
    Forall (fun x => is_cabx x = false) s -> b <> [] ->
    png_payload (insert_at i [mk_cabx crc b] s) = ROk b.
  Proof.
    intros Hs Hb. unfold png_payload, insert_at.
    pose proof (forall_firstn _ i _ Hs) as H1. pose proof (forall_skipn _ i _ Hs) as H2.
    rewrite !count_app, (count_zero _ _ H1), (count_zero _ _ H2).
    unfold count at 1. cbn [filter]. rewrite is_cabx_mk. cbn [length Nat.add Nat.ltb Nat.leb].
    rewrite find_app_skip by exact H1. cbn [app find]. rewrite is_cabx_mk. cbn [cdata mk_cabx].
    destruct b; [contradiction|reflexivity].
  Qed.

  Definition png_ins (s : list chunk) : nat :=
    match find_index is_ihdr s with Some k => S k | None => 0 end.

  Lemma png_ins_eq l : ins PF l = png_ins (strip PF l).
  Proof. reflexivity. Qed.

  Lemma png_ins_bound s : png_ins s <= length s.
  Proof.
    unfold png_ins. destruct (find_index is_ihdr s) eqn:E; [|lia].
    destruct (find_index_some _ _ _ (Chunk [] [] []) E) as (H & _). lia.
  Qed.

  Lemma png_ins_insert s b : png_ins (insert_at (png_ins s) [mk_cabx crc b] s) = png_ins s.
  Proof.
    unfold png_ins at 1 3. destruct (find_index is_ihdr s) as [k|] eqn:E.
    - unfold png_ins. rewrite E. unfold insert_at.
      destruct (find_index_some _ _ _ (Chunk [] [] []) E) as (H1 & H2 & H3 & H4).
      assert (Hf : find_index is_ihdr (firstn (S k) s) = Some k).
      { rewrite H4. rewrite firstn_app, firstn_length. replace (Nat.min k (length s)) with k by lia.
        replace (S k - k) with 1 by lia. rewrite firstn_firstn. replace (Nat.min (S k) k) with k by lia.
        cbn [firstn]. rewrite find_index_app_right by exact H3. cbn. rewrite H2. cbn.
        rewrite firstn_length. f_equal. lia. }
      rewrite (find_index_app_left _ _ _ _ Hf). reflexivity.
    - unfold png_ins. rewrite E. unfold insert_at. cbn [firstn skipn app].
      cbn [find_index]. rewrite is_ihdr_mk. rewrite E. reflexivity.
  Qed.

  Lemma png_laws : laws PF (fun _ => True) png_adm.
  Proof.
    constructor.
    - apply (sl_marks_len _ _ png_marks).
    - apply (sl_strip_clean _ _ png_marks).
    - intros s i b Hc _ _ Hi. apply (sl_ins_marks _ _ png_marks); [exact Hc| repeat constructor| exact Hi].
    - intros s i b Hc _ Ha Hi. apply (sl_clean_iff _ _ png_marks) in Hc.
      apply png_payload_insert; assumption.
    - intros s Hc _. apply (sl_clean_iff _ _ png_marks) in Hc. change (png_payload s = RErr EJumbfNotFound). unfold png_payload.
      rewrite (count_zero (A:=chunk) is_cabx s Hc), (find_none (A:=chunk) is_cabx s Hc). reflexivity.
    - intros l. rewrite png_ins_eq. apply png_ins_bound.
    - intros l b _ _. rewrite !png_ins_eq. unfold gwrite. rewrite png_ins_eq.
      change (mk PF b) with [mk_cabx crc b].
      rewrite (sl_strip_insert _ _ png_marks); [reflexivity| apply (sl_strip_clean _ _ png_marks)| repeat constructor].
    - intros b _. discriminate.
    - intros b1 b2 H. change (length (enc_chunk (mk_cabx crc b1) ++ []) = length (enc_chunk (mk_cabx crc b2) ++ [])).
      rewrite !app_nil_r. unfold enc_chunk. cbn [cdata cname ccrc mk_cabx].
      rewrite !app_length, !be_length, H. reflexivity.
  Qed.

  (* the three splice cases of write_cai are the generic write, for an asset with an IHDR chunk and
     at most one caBX chunk *)
  Lemma firstn_app_exact {A} (a b : list A) : firstn (length a) (a ++ b) = a.
  Proof. rewrite firstn_app, Nat.sub_diag, firstn_all. cbn. apply app_nil_r. Qed.
  Lemma skipn_app_exact {A} (a b : list A) : skipn (length a) (a ++ b) = b.
  Proof. rewrite skipn_app, Nat.sub_diag, skipn_all. reflexivity. Qed.

  Theorem png_write_chunks_generic cs b :
    find_index is_ihdr cs <> None -> count is_cabx cs <= 1 ->
    png_write_chunks crc cs b = ROk (gwrite PF cs b).
  Proof.
    intros Hih Hc. unfold png_write_chunks.
    destruct (find_index is_ihdr cs) as [k|] eqn:Ek; [clear Hih|contradiction].
    unfold gwrite. rewrite png_ins_eq. change (mk PF b) with [mk_cabx crc b].
    rewrite (sl_strip _ _ png_marks). change (seg PF) with chunk in *.
    destruct (find_index is_cabx cs) as [j|] eqn:Ej.
    - destruct (at_most_one_split _ _ _ (Chunk [] [] []) Ej Hc) as (A & c & B & -> & Hj & Hcc & HA & HB).
      assert (Hfilt : filter (fun x => negb (is_cabx x)) (A ++ c :: B) = A ++ B).
      { rewrite filter_app. cbn [filter]. rewrite Hcc. cbn [negb].
        rewrite !filter_all; [reflexivity| |];
          (eapply Forall_impl; [|eassumption]; cbn; intros a Ha; rewrite Ha; reflexivity). }
      rewrite Hfilt. subst j.
      assert (Hcih : is_ihdr c = false).
      { unfold is_cabx in Hcc. apply beq_eq in Hcc. unfold is_ihdr. rewrite Hcc. reflexivity. }
      destruct (Nat.ltb (length A) k) eqn:Hlt.
      + (* caBX before IHDR *)
        apply Nat.ltb_lt in Hlt.
        assert (HAi : Forall (fun x => is_ihdr x = false) A).
        { destruct (find_index_some _ _ _ (Chunk [] [] []) Ek) as (_ & _ & H3 & _).
          rewrite firstn_app in H3. apply Forall_app in H3. destruct H3 as [H3 _].
          rewrite firstn_all2 in H3 by lia. exact H3. }
        rewrite find_index_app_right in Ek by exact HAi. cbn [find_index] in Ek. rewrite Hcih in Ek.
        destruct (find_index is_ihdr B) as [m|] eqn:Em; cbn in Ek; [|discriminate].
        injection Ek as Ek. subst k. unfold png_ins. rewrite find_index_app_right by exact HAi. rewrite Em. cbn [option_map].
        f_equal. unfold insert_at, slice.
        rewrite firstn_app_exact.
        replace (S (length A)) with (length A + 1) by lia.
        replace (S (length A + S m)) with (length A + S (S m)) by lia.
        replace (S (length A + m)) with (length A + S m) by lia.
        rewrite !skipn_app_2, !firstn_app_2.
        change (skipn 1 (c :: B)) with B. change (skipn (S (S m)) (c :: B)) with (skipn (S m) B).
        replace (length A + S m - length A) with (S m) by lia.
        rewrite <- app_assoc. reflexivity.
      + (* caBX after IHDR *)
        apply Nat.ltb_ge in Hlt.
        destruct (find_index is_ihdr A) as [m|] eqn:Em.
        * rewrite (find_index_app_left _ _ _ _ Em) in Ek. injection Ek as <-.
          destruct (find_index_some _ _ _ (Chunk [] [] []) Em) as (Hm & _).
          unfold png_ins. rewrite (find_index_app_left _ _ _ _ Em).
          f_equal. unfold insert_at, slice.
          replace (S (length A)) with (length A + 1) by lia. rewrite skipn_app_2. change (skipn 1 (c :: B)) with B.
          rewrite !firstn_app_le by lia. rewrite !skipn_app_le by lia.
          replace (length A - S m) with (length (skipn (S m) A)) by (rewrite skipn_length; lia).
          rewrite firstn_app_exact. reflexivity.
        * apply find_index_none in Em. rewrite find_index_app_right in Ek by exact Em.
          cbn [find_index] in Ek. rewrite Hcih in Ek. destruct (find_index is_ihdr B); cbn in Ek; [|discriminate].
          injection Ek as Ek. lia.
    - apply find_index_none in Ej.
      rewrite filter_all by (eapply Forall_impl; [|exact Ej]; cbn; intros a Ha; rewrite Ha; reflexivity).
      unfold png_ins. rewrite Ek. reflexivity.
  Qed.

  Theorem png_remove_chunks_generic cs : count is_cabx cs <= 1 -> png_remove_chunks cs = gremove PF cs.
  Proof.
    intro Hc. unfold png_remove_chunks, gremove. rewrite (sl_strip _ _ png_marks). change (seg PF) with chunk in *.
    destruct (find_index is_cabx cs) as [j|] eqn:Ej.
    - destruct (at_most_one_split _ _ _ (Chunk [] [] []) Ej Hc) as (A & c & B & -> & Hj & Hcc & HA & HB).
      subst j. unfold remove_nth. rewrite firstn_app_exact.
      replace (S (length A)) with (length A + 1) by lia. rewrite skipn_add, skipn_app_exact. cbn [skipn].
      rewrite filter_app. cbn [filter]. rewrite Hcc. cbn [negb].
      rewrite !filter_all; [reflexivity| |];
        (eapply Forall_impl; [|eassumption]; cbn; intros a Ha; rewrite Ha; reflexivity).
    - apply find_index_none in Ej.
      rewrite filter_all by (eapply Forall_impl; [|exact Ej]; cbn; intros a Ha; rewrite Ha; reflexivity).
      reflexivity.
  Qed.
End Png.

(* ------------------------------------------------------------------ PNG, byte level *)

Lemma de_acc_app acc l1 l2 : de_acc acc (l1 ++ l2) = de_acc (de_acc acc l1) l2.
Proof. revert acc. induction l1 as [|x t IH]; intro acc; cbn; [reflexivity| apply IH]. Qed.

Lemma de_be_mod k n : de (be k n) = (n mod 256 ^ N.of_nat k)%N.
Proof.
  revert n. induction k as [|k IH]; intro n.
  - cbn. rewrite N.mod_1_r. reflexivity.
  - cbn [be]. unfold de. rewrite de_acc_app. fold (de (be k (n / 256))). rewrite IH. cbn [de_acc].
    rewrite Nat2N.inj_succ, N.pow_succ_r'. rewrite (N.mod_mul_r n 256 (256 ^ N.of_nat k)) by (try apply N.pow_nonzero; lia).
    lia.
Qed.

Lemma de_be4 n : (n < 4294967296)%N -> de (be 4 n) = n.
Proof. intro H. rewrite de_be_mod. apply N.mod_small. exact H. Qed.

Lemma len_length {A} (l : list A) : N.to_nat (len l) = length l.
Proof. unfold len. apply Nat2N.id. Qed.

Lemma skipn_len_app {A} n (a b : list A) : length a = n -> skipn n (a ++ b) = b.
Proof. intros <-. rewrite skipn_app, Nat.sub_diag, skipn_all. reflexivity. Qed.
Lemma firstn_len_app {A} n (a b : list A) : length a = n -> firstn n (a ++ b) = a.
Proof. intros <-. rewrite firstn_app, Nat.sub_diag, firstn_all. cbn. apply app_nil_r. Qed.

Definition chunk_wf (c : chunk) : Prop :=
  length (cname c) = 4 /\ length (ccrc c) = 4 /\ utf8_valid (cname c) = true /\ (len (cdata c) < 4294967296)%N.

(* well-formed chunk list: every chunk well-formed, exactly the last one is IEND *)
Inductive chunks_wf : list chunk -> Prop :=
| wf_last c : chunk_wf c -> cname c = IEND -> chunks_wf [c]
| wf_cons c cs : chunk_wf c -> cname c <> IEND -> chunks_wf cs -> chunks_wf (c :: cs).

Lemma enc_chunk_length c : length (enc_chunk c) = 4 + length (cname c) + length (cdata c) + length (ccrc c).
Proof. unfold enc_chunk. rewrite !app_length, be_length. lia. Qed.

(* one step of the walker on an encoded chunk *)
Lemma png_chunk_step c rest :
  chunk_wf c ->
  let b := enc_chunk c ++ rest in
  (len b <? 8)%N = false
  /\ de (firstn 4 b) = len (cdata c)
  /\ slice b 4 4 = cname c
  /\ (len (skipn 8 b) <? len (cdata c) + 4)%N = false
  /\ firstn (length (cdata c)) (skipn 8 b) = cdata c
  /\ slice (skipn 8 b) (length (cdata c)) 4 = ccrc c
  /\ skipn (length (cdata c) + 4) (skipn 8 b) = rest.
Proof.
  intros (Hn & Hc & _ & Hd). cbn zeta.
  assert (E : enc_chunk c ++ rest = be 4 (len (cdata c)) ++ cname c ++ cdata c ++ ccrc c ++ rest).
  { unfold enc_chunk. rewrite <- !app_assoc. reflexivity. }
  rewrite E.
  assert (Hb : length (be 4 (len (cdata c))) = 4) by apply be_length.
  assert (H8 : length (be 4 (len (cdata c)) ++ cname c) = 8) by (rewrite app_length, Hb, Hn; reflexivity).
  assert (Hdc : length (cdata c ++ ccrc c) = length (cdata c) + 4) by (rewrite app_length, Hc; reflexivity).
  repeat split.
  - apply N.ltb_ge. unfold len at 1. rewrite !app_length, be_length, Hn. lia.
  - rewrite (firstn_len_app 4 _ _ Hb). apply de_be4. exact Hd.
  - unfold slice. rewrite (skipn_len_app 4 _ _ Hb). apply firstn_len_app. exact Hn.
  - apply N.ltb_ge. rewrite app_assoc, (skipn_len_app 8 _ _ H8). unfold len. rewrite !app_length, Hc. lia.
  - rewrite app_assoc, (skipn_len_app 8 _ _ H8). apply firstn_len_app. reflexivity.
  - rewrite app_assoc, (skipn_len_app 8 _ _ H8). unfold slice. rewrite (skipn_len_app _ _ _ eq_refl).
    apply firstn_len_app. exact Hc.
  - rewrite app_assoc, (skipn_len_app 8 _ _ H8). rewrite app_assoc. apply skipn_len_app. exact Hdc.
Qed.

Lemma png_chunks_enc cs : chunks_wf cs -> forall tr fuel, length cs <= fuel ->
  png_chunks fuel (concat (map enc_chunk cs) ++ tr) = ROk (cs, tr).
Proof.
  induction 1 as [c Hw He|c cs Hw Hne Hcs IH]; intros tr fuel Hf.
  - destruct fuel as [|f]; [cbn in Hf; lia|]. cbn [map concat]. rewrite app_nil_r.
    destruct (png_chunk_step c tr Hw) as (H1 & H2 & H3 & H4 & H5 & H6 & H7).
    cbn [png_chunks]. rewrite H1, H2, H4, len_length, H3, H5, H6, H7.
    destruct Hw as (_ & _ & Hu & _). rewrite Hu. cbn [negb]. rewrite He, beq_refl.
    destruct c as [nm dt cr]. cbn in *. subst nm. reflexivity.
  - destruct fuel as [|f]; [cbn in Hf; lia|]. cbn [map concat]. rewrite <- app_assoc.
    destruct (png_chunk_step c (concat (map enc_chunk cs) ++ tr) Hw) as (H1 & H2 & H3 & H4 & H5 & H6 & H7).
    cbn [png_chunks]. rewrite H1, H2, H4, len_length, H3, H5, H6, H7.
    destruct Hw as (_ & _ & Hu & _). rewrite Hu. cbn [negb].
    apply beq_neq in Hne. rewrite Hne. rewrite IH by (cbn in Hf; lia).
    destruct c as [nm dt cr]. reflexivity.
Qed.

Lemma chunks_wf_nonempty cs : chunks_wf cs -> cs <> [].
Proof. destruct 1; discriminate. Qed.

Lemma encs_length_ge cs : length cs <= length (concat (map enc_chunk cs)).
Proof.
  induction cs as [|c t IH]; [cbn; lia|]. cbn [map concat length]. rewrite app_length, enc_chunk_length. lia.
Qed.

Theorem png_dec_enc cs tr : chunks_wf cs -> png_dec (png_enc cs tr) = ROk (cs, tr).
Proof.
  intro H. unfold png_dec, png_enc.
  assert (Hl : (len (PNG_SIG ++ concat (map enc_chunk cs) ++ tr) <? 8)%N = false).
  { apply N.ltb_ge. unfold len. rewrite app_length. cbn [PNG_SIG length]. lia. }
  rewrite Hl. change (firstn 8 (PNG_SIG ++ concat (map enc_chunk cs) ++ tr)) with PNG_SIG.
  rewrite beq_refl. cbn [negb]. change (skipn 8 (PNG_SIG ++ concat (map enc_chunk cs) ++ tr)) with (concat (map enc_chunk cs) ++ tr).
  apply png_chunks_enc; [exact H|]. rewrite !app_length. pose proof (encs_length_ge cs). lia.
Qed.

(* ---- valid PNG assets = encodings of well-formed chunk lists; invariants kept by write/remove ---- *)

Definition has_ihdr (cs : list chunk) : Prop := exists c, In c cs /\ is_ihdr c = true.

Lemma has_ihdr_find cs : has_ihdr cs <-> find_index is_ihdr cs <> None.
Proof.
  split.
  - intros (c & Hin & Hc) E. apply find_index_none in E. rewrite Forall_forall in E. rewrite (E c Hin) in Hc. discriminate.
  - intro H. destruct (find_index is_ihdr cs) as [k|] eqn:E; [|contradiction].
    destruct (find_index_some _ _ _ (Chunk [] [] []) E) as (H1 & H2 & _).
    exists (nth k cs (Chunk [] [] [])). split; [apply nth_In; exact H1| exact H2].
Qed.

Lemma chunks_wf_split cs :
  chunks_wf cs <-> exists init last, cs = init ++ [last]
                   /\ Forall (fun c => chunk_wf c /\ cname c <> IEND) init /\ chunk_wf last /\ cname last = IEND.
Proof.
  split.
  - induction 1 as [c Hw He|c cs Hw Hne Hcs IH].
    + exists [], c. split; [reflexivity|]. split; [constructor|]. split; assumption.
    + destruct IH as (init & last & -> & Hi & Hl & Hle). exists (c :: init), last.
      split; [reflexivity|]. split; [constructor; [split; assumption| exact Hi]|]. split; assumption.
  - intros (init & last & -> & Hi & Hl & Hle). induction Hi as [|c t [Hc1 Hc2] Ht IH]; cbn.
    + apply wf_last; assumption.
    + apply wf_cons; assumption.
Qed.

Lemma insert_at_app_left {A} i (x l1 l2 : list A) : i <= length l1 -> insert_at i x (l1 ++ l2) = insert_at i x l1 ++ l2.
Proof.
  intro H. unfold insert_at. rewrite firstn_app_le, skipn_app_le by exact H. rewrite <- !app_assoc. reflexivity.
Qed.

Lemma in_insert_at {A} i (x l : list A) c : In c l -> In c (insert_at i x l).
Proof.
  intro H. unfold insert_at. rewrite <- (firstn_skipn i l) in H. apply in_app_or in H.
  apply in_or_app. destruct H; [left; assumption| right; apply in_or_app; right; assumption].
Qed.

Section PngBytes.
  Variable crc : bytes -> N.
  Local Notation PF := (png_format crc).

  Definition png_store_ok (b : bytes) : Prop := b <> [] /\ (len b < 4294967296)%N.

  Lemma mk_cabx_wf b : (len b < 4294967296)%N -> chunk_wf (mk_cabx crc b) /\ cname (mk_cabx crc b) <> IEND.
  Proof.
    intro H. split; [|discriminate]. unfold chunk_wf. cbn [mk_cabx cname ccrc cdata].
    split; [reflexivity|]. split; [apply be_length|]. split; [reflexivity| exact H].
  Qed.

  Lemma is_cabx_not_iend c : cname c = IEND -> is_cabx c = false.
  Proof. intro H. unfold is_cabx. rewrite H. reflexivity. Qed.
  Lemma is_ihdr_not_iend c : is_ihdr c = true -> cname c <> IEND.
  Proof. unfold is_ihdr. intros H E. rewrite E in H. discriminate. Qed.
  Lemma is_ihdr_not_cabx c : is_ihdr c = true -> is_cabx c = false.
  Proof. unfold is_ihdr, is_cabx. intro H. apply beq_eq in H. rewrite H. reflexivity. Qed.

  Lemma strip_split init last :
    cname last = IEND -> strip PF (init ++ [last]) = filter (fun x => negb (is_cabx x)) init ++ [last].
  Proof.
    intro H. rewrite (sl_strip _ _ (png_marks crc)). rewrite filter_app. cbn [filter].
    rewrite (is_cabx_not_iend _ H). reflexivity.
  Qed.

  Lemma png_ins_le_init init last :
    Forall (fun c => chunk_wf c /\ cname c <> IEND) init -> cname last = IEND ->
    png_ins (init ++ [last]) <= length init.
  Proof.
    intros Hi Hl. unfold png_ins. destruct (find_index is_ihdr (init ++ [last])) as [k|] eqn:E; [|lia].
    destruct (find_index is_ihdr init) as [m|] eqn:Em.
    - rewrite (find_index_app_left _ _ _ _ Em) in E. injection E as <-.
      destruct (find_index_some _ _ _ (Chunk [] [] []) Em) as (H & _). lia.
    - apply find_index_none in Em. rewrite find_index_app_right in E by exact Em. cbn in E.
      destruct (is_ihdr last) eqn:El; [|discriminate]. apply is_ihdr_not_iend in El. contradiction.
  Qed.

  Lemma forall_filter {A} (P : A -> Prop) q l : Forall P l -> Forall P (filter q l).
  Proof. induction 1; cbn; [constructor|]. destruct (q x); [constructor|]; assumption. Qed.

  Theorem gwrite_wf cs b : chunks_wf cs -> (len b < 4294967296)%N -> chunks_wf (gwrite PF cs b).
  Proof.
    intros Hw Hb. apply chunks_wf_split in Hw. destruct Hw as (init & last & -> & Hi & Hl & Hle).
    apply chunks_wf_split. unfold gwrite. rewrite (png_ins_eq crc). rewrite !(strip_split init last Hle).
    set (init' := filter (fun x => negb (is_cabx x)) init).
    assert (Hi' : Forall (fun c => chunk_wf c /\ cname c <> IEND) init') by (apply forall_filter; exact Hi).
    pose proof (png_ins_le_init init' last Hi' Hle) as Hle'.
    rewrite insert_at_app_left by exact Hle'.
    exists (insert_at (png_ins (init' ++ [last])) (mk PF b) init'), last.
    split; [reflexivity|]. split; [|split; assumption].
    unfold insert_at. apply Forall_app. split; [apply forall_firstn; exact Hi'|].
    apply Forall_app. split; [|apply forall_skipn; exact Hi'].
    constructor; [|constructor]. apply mk_cabx_wf. exact Hb.
  Qed.

  Theorem gremove_wf cs : chunks_wf cs -> chunks_wf (gremove PF cs).
  Proof.
    intros Hw. apply chunks_wf_split in Hw. destruct Hw as (init & last & -> & Hi & Hl & Hle).
    apply chunks_wf_split. unfold gremove. rewrite strip_split by exact Hle.
    eexists _, last. split; [reflexivity|]. split; [|split; assumption]. apply forall_filter. exact Hi.
  Qed.

  Lemma has_ihdr_strip cs : has_ihdr cs -> has_ihdr (strip PF cs).
  Proof.
    intros (c & Hin & Hc). exists c. split; [|exact Hc]. rewrite (sl_strip _ _ (png_marks crc)).
    apply filter_In. split; [exact Hin|]. rewrite (is_ihdr_not_cabx _ Hc). reflexivity.
  Qed.

  Theorem gwrite_has_ihdr cs b : has_ihdr cs -> has_ihdr (gwrite PF cs b).
  Proof.
    intro H. apply has_ihdr_strip in H. destruct H as (c & Hin & Hc). exists c. split; [|exact Hc].
    unfold gwrite. apply in_insert_at. exact Hin.
  Qed.

  Theorem gwrite_count cs b : count is_cabx (gwrite PF cs b) <= 1.
  Proof.
    unfold gwrite, insert_at.
    pose proof (sl_strip_clean _ _ (png_marks crc) cs) as Hc. apply (sl_clean_iff _ _ (png_marks crc)) in Hc.
    change (seg PF) with chunk in *.
    rewrite !count_app.
    rewrite (count_zero (A:=chunk) is_cabx _ (forall_firstn _ _ _ Hc)), (count_zero (A:=chunk) is_cabx _ (forall_skipn _ _ _ Hc)).
    cbn. lia.
  Qed.

  Theorem gremove_count cs : count is_cabx (gremove PF cs) <= 1.
  Proof.
    unfold gremove.
    pose proof (sl_strip_clean _ _ (png_marks crc) cs) as Hc. apply (sl_clean_iff _ _ (png_marks crc)) in Hc.
    change (seg PF) with chunk in *. rewrite (count_zero (A:=chunk) is_cabx _ Hc). lia.
  Qed.

  (* the handler functions on the bytes of a valid PNG are the generic operations on its chunk list *)
  Theorem png_write_bytes cs tr b :
    chunks_wf cs -> has_ihdr cs -> count is_cabx cs <= 1 ->
    png_write crc (png_enc cs tr) b = ROk (png_enc (gwrite PF cs b) tr).
  Proof.
    intros Hw Hi Hc. unfold png_write. rewrite png_dec_enc by exact Hw. cbn [rbind fst snd].
    rewrite png_write_chunks_generic; [reflexivity| apply has_ihdr_find; exact Hi| exact Hc].
  Qed.

  Theorem png_remove_bytes cs tr :
    chunks_wf cs -> count is_cabx cs <= 1 ->
    png_remove (png_enc cs tr) = ROk (png_enc (gremove PF cs) tr).
  Proof.
    intros Hw Hc. unfold png_remove. rewrite png_dec_enc by exact Hw. cbn [rbind fst snd].
    rewrite <- (png_remove_chunks_generic crc) by exact Hc. unfold png_remove_chunks.
    destruct (find_index is_cabx cs); reflexivity.
  Qed.

  Theorem png_read_bytes cs tr : chunks_wf cs -> png_read (png_enc cs tr) = gread PF cs.
  Proof. intro Hw. unfold png_read. rewrite png_dec_enc by exact Hw. reflexivity. Qed.
End PngBytes.

(* ---- object locations of a written PNG: the reported Cai region is the generic manifest region ---- *)
Section PngLoc.
  Variable crc : bytes -> N.
  Local Notation PF := (png_format crc).

  Lemma png_enc_file cs tr : png_enc cs tr = file PF (fun _ => PNG_SIG) tr cs.
  Proof. reflexivity. Qed.

  Lemma find_index_insert_clean s i b :
    Forall (fun x => is_cabx x = false) s -> i <= length s ->
    find_index is_cabx (insert_at i [mk_cabx crc b] s) = Some i.
  Proof.
    intros Hs Hi. unfold insert_at. rewrite find_index_app_right by (apply forall_firstn; exact Hs).
    cbn. rewrite firstn_length. f_equal. lia.
  Qed.

  Theorem png_locations_written cs tr b :
    chunks_wf cs -> (len b < 4294967296)%N ->
    let a := png_enc (gwrite PF cs b) tr in
    let off := (8 + goff PF cs)%nat in
    let ln := glen PF b in
    png_locations a
    = ROk [(N.of_nat off, N.of_nat ln, KCai); (0%N, N.of_nat off, KOther);
           (N.of_nat (off + ln), (len a - N.of_nat (off + ln))%N, KOther)]
      /\ ln = 12 + length b.
  Proof.
    intros Hw Hb. cbn zeta. split.
    2:{ unfold glen. change (mk PF b) with [mk_cabx crc b]. unfold encs. cbn [map concat enc].
        rewrite app_nil_r, enc_chunk_length. cbn [mk_cabx cname cdata ccrc]. rewrite be_length. cbn. lia. }
    unfold png_locations. rewrite png_dec_enc by (apply gwrite_wf; assumption). cbn [rbind fst snd].
    pose proof (sl_strip_clean _ _ (png_marks crc) cs) as Hc. apply (sl_clean_iff _ _ (png_marks crc)) in Hc.
    pose proof (ins_bound _ _ _ (png_laws crc) cs) as Hi.
    unfold gwrite. change (mk PF b) with [mk_cabx crc b]. change (seg PF) with chunk in *.
    rewrite (find_index_insert_clean _ _ b Hc Hi).
    assert (Hnth : nth (ins PF cs) (insert_at (ins PF cs) [mk_cabx crc b] (strip PF cs)) (Chunk [] [] []) = mk_cabx crc b).
    { unfold insert_at. rewrite app_nth2; rewrite (firstn_length_le _ Hi); [|lia].
      rewrite Nat.sub_diag. reflexivity. }
    rewrite Hnth. cbn [mk_cabx cdata].
    assert (Hst : chunk_start (insert_at (ins PF cs) [mk_cabx crc b] (strip PF cs)) (ins PF cs) = N.of_nat (8 + goff PF cs)).
    { unfold chunk_start, goff, encs, insert_at.
      rewrite firstn_app_le by (rewrite (firstn_length_le _ Hi); lia). rewrite firstn_firstn.
      rewrite Nat.min_id. unfold len. cbn [enc png_format]. rewrite Nat2N.inj_add. reflexivity. }
    rewrite Hst.
    assert (Hln : (len b + PNG_HDR_LEN)%N = N.of_nat (glen PF b)).
    { unfold glen. change (mk PF b) with [mk_cabx crc b]. unfold encs. cbn [map concat enc png_format].
      rewrite app_nil_r, enc_chunk_length. cbn [mk_cabx cname cdata ccrc]. rewrite be_length. unfold len, PNG_HDR_LEN. cbn [length CABX]. lia. }
    rewrite <- N.add_assoc, Hln. repeat f_equal; lia.
  Qed.
End PngLoc.

(* ---- any sequence of write/remove operations on the bytes of a valid PNG ---- *)
Section PngRun.
  Variable crc : bytes -> N.
  Local Notation PF := (png_format crc).

  Fixpoint png_run (a : bytes) (ops : list gop) : res bytes :=
    match ops with
    | [] => ROk a
    | OpW b :: t => rbind (png_write crc a b) (fun a' => png_run a' t)
    | OpR :: t => rbind (png_remove a) (fun a' => png_run a' t)
    end.

  Definition png_op_ok (o : gop) : Prop := match o with OpW b => png_store_ok b | OpR => True end.

  Theorem png_run_bytes ops : forall cs tr,
    chunks_wf cs -> has_ihdr cs -> count is_cabx cs <= 1 -> Forall png_op_ok ops ->
    png_run (png_enc cs tr) ops = ROk (png_enc (grun PF cs ops) tr)
    /\ chunks_wf (grun PF cs ops) /\ has_ihdr (grun PF cs ops) /\ count is_cabx (grun PF cs ops) <= 1.
  Proof.
    induction ops as [|[b|] t IH]; intros cs tr Hw Hi Hc Hops.
    - cbn [png_run grun]. repeat split; assumption.
    - inversion Hops as [|? ? Hb Ht]; subst. cbn in Hb. destruct Hb as [Hb1 Hb2]. cbn [png_run grun].
      rewrite (png_write_bytes crc cs tr b Hw Hi Hc). cbn [rbind].
      apply IH; [apply gwrite_wf; assumption| apply gwrite_has_ihdr; assumption| apply gwrite_count| exact Ht].
    - inversion Hops as [|? ? _ Ht]; subst. cbn [png_run grun].
      rewrite (png_remove_bytes crc cs tr Hw Hc). cbn [rbind].
      apply IH; [apply gremove_wf; assumption| apply has_ihdr_strip; assumption| apply gremove_count| exact Ht].
  Qed.
End PngRun.
