(* Proofs/RangeHashProofs.v — C13: the range hasher feeds the hasher exactly the selected bytes. *)
From Coq Require Import List NArith Bool Lia Arith Permutation ZifyBool ZifyNat ZifyN.
From C2PA Require Import Base.Bytes Model.RangeHash Proofs.BytesProofs.
Import ListNotations.
Open Scope N_scope.
Arguments N.add : simpl never.
Arguments N.sub : simpl never.
Arguments N.eqb : simpl never.
Arguments N.ltb : simpl never.
Arguments N.leb : simpl never.

(* ------------------------------------------------------------------ specification *)

(* position p is covered by a (non-marker, non-empty) exclusion *)
Definition covers (r : hrange) (p : N) : bool := (hstart r <=? p) && (p <? hstart r + hlen r).
Definition covered (hr : list hrange) (p : N) : bool := existsb (fun r => covers r p) hr.

(* the bytes of [data] (first byte at absolute position p) that are not covered, in file order *)
Fixpoint sel (hr : list hrange) (p : N) (data : bytes) : bytes :=
  match data with
  | [] => []
  | b :: t => (if covered hr p then [] else [b]) ++ sel hr (p + 1) t
  end.

(* inclusion mode: each non-empty range's bytes, in stable start order, preceded by its marker *)
Definition incl_piece (data : bytes) (r : hrange) : bytes :=
  if hlen r =? 0 then []
  else (match hmark r with Some o => be 8 o | None => [] end)
       ++ slice data (N.to_nat (hstart r)) (N.to_nat (hlen r)).
Definition sel_incl (data : bytes) (hr : list hrange) : bytes :=
  concat (map (incl_piece data) (sort_by hstart hr)).

Definition in_bounds (dl : N) (r : hrange) : Prop := hstart r + hlen r <= dl.
Definition no_marker (r : hrange) : Prop := hmark r = None.

(* ------------------------------------------------------------------ range sets *)

Definition mem (rs : list rng) (p : N) : bool := existsb (fun r => contains r p) rs.

(* sorted, disjoint, non-empty ranges, all >= lb and < ub *)
Fixpoint sd (lb ub : N) (rs : list rng) : Prop :=
  match rs with
  | [] => True
  | (a, b) :: t => lb <= a /\ a <= b /\ b < ub /\ sd (b + 1) ub t
  end.

Lemma sd_weaken lb lb' ub rs : lb' <= lb -> sd lb ub rs -> sd lb' ub rs.
Proof. destruct rs as [|[a b] t]; cbn [sd]; [auto|]. intros; intuition lia. Qed.

Lemma mem_cons a b t p : mem ((a, b) :: t) p = ((a <=? p) && (p <=? b)) || mem t p.
Proof. reflexivity. Qed.
Lemma mem_app s1 s2 p : mem (s1 ++ s2) p = mem s1 p || mem s2 p.
Proof. unfold mem. apply existsb_app. Qed.
Lemma mem_nil p : mem [] p = false.
Proof. reflexivity. Qed.

Lemma mem_remove s lo hi p : lo <= hi ->
  mem (remove s lo hi) p = mem s p && negb ((lo <=? p) && (p <=? hi)).
Proof.
  intro Hle. induction s as [|[a b] t IH]; [reflexivity|].
  cbn [remove]. rewrite mem_cons.
  destruct ((b <? lo) || (hi <? a)) eqn:E.
  - rewrite mem_cons, IH. destruct (mem t p); lia.
  - rewrite !mem_app, IH.
    destruct (a <? lo) eqn:E1; destruct (hi <? b) eqn:E2; rewrite ?mem_cons, ?mem_nil;
      destruct (mem t p); lia.
Qed.

Lemma remove_sd s lo hi lb ub : lo <= hi -> sd lb ub s -> sd lb ub (remove s lo hi).
Proof.
  intro Hle. revert lb. induction s as [|[a b] t IH]; intros lb H; [exact I|].
  cbn [sd] in H. destruct H as (H1 & H2 & H3 & H4).
  cbn [remove].
  destruct ((b <? lo) || (hi <? a)) eqn:E.
  - cbn [sd]. repeat split; try lia. apply IH. exact H4.
  - destruct (a <? lo) eqn:E1; destruct (hi <? b) eqn:E2; cbn [app sd].
    + repeat split; try lia. apply sd_weaken with (lb := b + 1); [lia|]. apply IH; exact H4.
    + repeat split; try lia. apply sd_weaken with (lb := b + 1); [lia|]. apply IH; exact H4.
    + repeat split; try lia. apply IH; exact H4.
    + apply sd_weaken with (lb := b + 1); [lia|]. apply IH; exact H4.
Qed.

(* ------------------------------------------------------------------ reading the ranges *)

(* data's first byte is at absolute position p *)
Definition read_one {A} (p : N) (data : list A) (r : rng) : list A :=
  slice data (N.to_nat (fst r - p)) (N.to_nat (snd r - fst r + 1)).
Definition read_all {A} (p : N) (data : list A) (rs : list rng) : list A :=
  concat (map (read_one p data) rs).

Fixpoint filt {A} (rs : list rng) (p : N) (data : list A) : list A :=
  match data with
  | [] => []
  | b :: t => (if mem rs p then [b] else []) ++ filt rs (p + 1) t
  end.

Lemma read_one_shift {A} p (x : A) t r : p < fst r -> read_one p (x :: t) r = read_one (p + 1) t r.
Proof.
  intro H. unfold read_one.
  replace (N.to_nat (fst r - p)) with (S (N.to_nat (fst r - (p + 1)))) by lia.
  reflexivity.
Qed.

Lemma read_all_shift {A} p (x : A) t rs ub : sd (p + 1) ub rs -> read_all p (x :: t) rs = read_all (p + 1) t rs.
Proof.
  revert p. unfold read_all.
  induction rs as [|[a b] rt IH]; intros p H; [reflexivity|].
  cbn [sd] in H. destruct H as (H1 & H2 & H3 & H4).
  cbn [map concat]. rewrite read_one_shift by (cbn [fst]; lia). f_equal.
  (* the remaining ranges start even later *)
  clear IH. induction rt as [|[a' b'] rt' IH']; [reflexivity|].
  cbn [sd] in H4. destruct H4 as (K1 & K2 & K3 & K4).
  cbn [map concat]. rewrite read_one_shift by (cbn [fst]; lia). f_equal.
  apply IH'. apply sd_weaken with (lb := b' + 1); [lia|exact K4].
Qed.

Lemma mem_below lb ub rs p : sd lb ub rs -> p < lb -> mem rs p = false.
Proof.
  revert lb. induction rs as [|[a b] t IH]; intros lb H Hp; [reflexivity|].
  cbn [sd] in H. destruct H as (H1 & H2 & H3 & H4). rewrite mem_cons.
  rewrite (IH (b + 1)) by (auto; lia). lia.
Qed.

Lemma filt_ext {A} rs rs' p (data : list A) :
  (forall q, p <= q -> mem rs q = mem rs' q) -> filt rs p data = filt rs' p data.
Proof.
  revert p. induction data as [|x t IH]; intros p H; [reflexivity|].
  cbn [filt]. rewrite (H p) by lia. f_equal. apply IH. intros q Hq. apply H. lia.
Qed.

Lemma filt_nil {A} p (data : list A) : filt [] p data = [].
Proof. revert p. induction data as [|x t IH]; intro p; [reflexivity|]. cbn [filt]. rewrite mem_nil. apply IH. Qed.

Lemma read_filt {A} (data : list A) : forall p rs ub,
  sd p ub rs -> ub <= p + len data -> read_all p data rs = filt rs p data.
Proof.
  induction data as [|x t IH]; intros p rs ub Hsd Hub.
  - destruct rs as [|[a b] rt]; [reflexivity|].
    cbn [sd] in Hsd. rewrite len_nil in Hub. lia.
  - rewrite len_cons in Hub.
    destruct rs as [|[a b] rt]; [rewrite filt_nil; reflexivity|].
    pose proof Hsd as Hsd0.
    cbn [sd] in Hsd. destruct Hsd as (H1 & H2 & H3 & H4).
    cbn [filt].
    destruct (N.eq_dec a p) as [->|Hne].
    + (* the first range starts here *)
      rewrite mem_cons. replace ((p <=? p) && (p <=? b)) with true by lia. cbn [orb app].
      destruct (N.eq_dec b p) as [->|Hb].
      * unfold read_all. cbn [map concat]. fold (read_all p (x :: t) rt).
        rewrite (read_all_shift p x t rt ub) by exact H4.
        unfold read_one. cbn [fst snd].
        replace (N.to_nat (p - p)) with 0%nat by lia.
        replace (N.to_nat (p - p + 1)) with 1%nat by lia.
        cbn [slice skipn firstn app]. f_equal.
        rewrite (IH (p + 1) rt ub) by (auto; lia).
        apply filt_ext. intros q Hq. rewrite mem_cons. clear - Hq. destruct (mem rt q); lia.
      * assert (Hsd' : sd (p + 1) ub ((p + 1, b) :: rt)) by (cbn [sd]; repeat split; auto; lia).
        transitivity (x :: read_all (p + 1) t ((p + 1, b) :: rt)).
        { unfold read_all. cbn [map concat].
          fold (read_all p (x :: t) rt). fold (read_all (p + 1) t rt).
          rewrite (read_all_shift p x t rt ub) by (apply sd_weaken with (lb := b + 1); [lia|exact H4]).
          unfold read_one. cbn [fst snd].
          replace (N.to_nat (p - p)) with 0%nat by lia.
          replace (N.to_nat (p + 1 - (p + 1))) with 0%nat by lia.
          replace (N.to_nat (b - p + 1)) with (S (N.to_nat (b - (p + 1) + 1))) by lia.
          reflexivity. }
        f_equal. rewrite (IH (p + 1) _ ub Hsd') by lia.
        apply filt_ext. intros q Hq. rewrite !mem_cons. destruct (mem rt q); lia.
    + (* nothing selected at p *)
      rewrite (mem_below a ub) by (try lia; cbn [sd]; repeat split; auto; lia). cbn [app].
      rewrite (read_all_shift p x t _ ub) by (apply sd_weaken with (lb := a); [lia|]; cbn [sd]; repeat split; auto; lia).
      apply (IH (p + 1) _ ub); [|lia].
      cbn [sd]; repeat split; auto; lia.
Qed.

(* ------------------------------------------------------------------ the exclusion pass *)

Definition remove_step (rs : list rng) (r : hrange) : list rng :=
  if hlen r =? 0 then rs else remove rs (hstart r) (hstart r + hlen r - 1).
Definition remove_all (hr : list hrange) (rs : list rng) : list rng := fold_left remove_step hr rs.

Lemma excl_pass_nomark hr : forall rs,
  Forall no_marker hr -> Forall (fun r => hstart r + hlen r < U64) hr ->
  excl_pass hr rs [] = Ok (remove_all hr rs, []).
Proof.
  induction hr as [|r t IH]; intros rs Hm Hb; [reflexivity|].
  inversion Hm as [|? ? Hm1 Hm2]; inversion Hb as [|? ? Hb1 Hb2]; subst.
  cbn [excl_pass remove_all fold_left]. unfold no_marker in Hm1. rewrite Hm1.
  unfold remove_step at 2.
  destruct (hlen r =? 0) eqn:E; [apply IH; assumption|].
  replace (U64 <=? hstart r + hlen r) with false by lia.
  apply IH; assumption.
Qed.

Lemma remove_all_mem hr : forall rs p,
  mem (remove_all hr rs) p = mem rs p && negb (covered hr p).
Proof.
  induction hr as [|r t IH]; intros rs p; cbn [remove_all fold_left covered existsb].
  - destruct (mem rs p); reflexivity.
  - fold (remove_all t (remove_step rs r)). rewrite IH. fold (covered t p).
    unfold remove_step, covers.
    destruct (hlen r =? 0) eqn:E.
    + replace (p <? hstart r + hlen r) with (p <? hstart r) by lia.
      destruct (mem rs p); destruct (covered t p); lia.
    + rewrite mem_remove by lia.
      destruct (mem rs p); destruct (covered t p); lia.
Qed.

Lemma remove_all_sd hr : forall rs lb ub, sd lb ub rs -> sd lb ub (remove_all hr rs).
Proof.
  induction hr as [|r t IH]; intros rs lb ub H; [exact H|].
  cbn [remove_all fold_left]. apply IH. unfold remove_step.
  destruct (hlen r =? 0) eqn:E; [exact H|]. apply remove_sd; [lia|exact H].
Qed.

Lemma covered_perm hr hr' p : Permutation hr hr' -> covered hr p = covered hr' p.
Proof.
  induction 1 as [| x l l' _ IH | x y l | l l' l'' _ IH1 _ IH2]; cbn [covered existsb] in *.
  - reflexivity.
  - unfold covered in IH. rewrite IH. reflexivity.
  - destruct (covers x p), (covers y p); reflexivity.
  - congruence.
Qed.

Lemma check_ends_ok dl hr :
  Forall (in_bounds dl) hr -> dl < U64 -> check_ends dl hr = None.
Proof.
  intros H Hd. induction H as [|r t Hr _ IH]; [reflexivity|].
  cbn [check_ends]. unfold in_bounds in Hr.
  replace (U64 <=? hstart r + hlen r) with false by lia.
  replace (dl <? hstart r + hlen r) with false by lia. exact IH.
Qed.

Lemma check_ends_some dl hr :
  Exists (fun r => dl < hstart r + hlen r) hr -> exists e, check_ends dl hr = Some e.
Proof.
  induction hr as [|r t IH]; intro H; [inversion H|].
  cbn [check_ends].
  destruct (U64 <=? hstart r + hlen r) eqn:E1; [eauto|].
  destruct (dl <? hstart r + hlen r) eqn:E2; [eauto|].
  inversion H as [? ? H1|? ? H1]; subst; [lia|]. auto.
Qed.

(* ------------------------------------------------------------------ the hashing loop *)

Lemma hash_loop_nomark data buf : 1 <= buf -> forall rs lb,
  sd lb (len data) rs ->
  exists u k, hash_loop data buf [] rs = Some (u, k) /\ concat u = read_all 0 data rs
              /\ k = fold_left (fun acc r => acc + div_ceil (snd r - fst r + 1) buf) rs 0.
Proof.
  intros Hbuf rs. 
  assert (G : forall rs lb acc, sd lb (len data) rs ->
     exists u k, hash_loop data buf [] rs = Some (u, k) /\ concat u = read_all 0 data rs
              /\ acc + k = fold_left (fun acc r => acc + div_ceil (snd r - fst r + 1) buf) rs acc).
  { clear rs. induction rs as [|[a b] t IH]; intros lb acc H.
    - exists [], 0. cbn. repeat split. lia.
    - cbn [sd] in H. destruct H as (H1 & H2 & H3 & H4).
      destruct (IH (b + 1) (acc + div_ceil (b - a + 1) buf) H4) as (u' & k' & E1 & E2 & E3).
      cbn [hash_loop]. unfold hash_range, is_marker. cbn [existsb andb fst snd].
      replace (a + (b - a + 1) <=? len data) with true by lia.
      rewrite E1.
      eexists _, _. split; [reflexivity|]. split.
      + rewrite concat_app, E2. unfold read_all. cbn [map concat]. f_equal.
        unfold read_one. cbn [fst snd]. rewrite N.sub_0_r.
        apply chunks_concat; [lia|lia].
      + cbn [fold_left fst snd]. rewrite <- E3.
        set (s := slice data (N.to_nat a) (N.to_nat (b - a + 1))).
        assert (Hs : length s = N.to_nat (b - a + 1)).
        { unfold s. apply slice_length. unfold len in *. lia. }
        unfold len at 1. rewrite chunks_length by lia. rewrite Hs.
        assert (Hdc : N.of_nat ((N.to_nat (b - a + 1) + N.to_nat (N.min buf (b - a + 1)) - 1) / N.to_nat (N.min buf (b - a + 1)))
                      = div_ceil (b - a + 1) buf).
        { unfold div_ceil. rewrite Nat2N.inj_div. 
          replace (N.of_nat (N.to_nat (b - a + 1) + N.to_nat (N.min buf (b - a + 1)) - 1))
            with (b - a + 1 + N.min buf (b - a + 1) - 1) by lia.
          rewrite N2Nat.id.
          destruct (N.le_gt_cases buf (b - a + 1)) as [Hle|Hgt].
          - rewrite N.min_l by lia. reflexivity.
          - rewrite N.min_r by lia.
            set (n := b - a + 1) in *. assert (1 <= n) by lia.
            replace (n + n - 1) with (n - 1 + 1 * n) by lia.
            rewrite N.div_add by lia. rewrite N.div_small by lia.
            symmetry. replace (n + buf - 1) with (n - 1 + 1 * buf) by lia.
            rewrite N.div_add by lia. rewrite N.div_small by lia. reflexivity. }
        rewrite Hdc. lia. }
  intros lb H. destruct (G rs lb 0 H) as (u & k & E1 & E2 & E3). exists u, k. repeat split; auto; lia.
Qed.

(* ------------------------------------------------------------------ progress total *)

Lemma div_ceil_le n k : 1 <= k -> div_ceil n k <= n.
Proof.
  intro Hk. unfold div_ceil.
  destruct (N.eq_dec n 0) as [->|Hn].
  - rewrite N.div_small by lia. lia.
  - apply N.div_le_upper_bound; [lia|]. nia.
Qed.

Lemma sd_in lb ub rs r : sd lb ub rs -> In r rs -> lb <= fst r /\ fst r <= snd r /\ snd r < ub.
Proof.
  revert lb. induction rs as [|[a b] t IH]; intros lb H Hin; [inversion Hin|].
  cbn [sd] in H. destruct H as (H1 & H2 & H3 & H4).
  destruct Hin as [<-|Hin]; [cbn; lia|].
  destruct (IH (b + 1) H4 Hin). lia.
Qed.

Lemma fold_left_ext_in {A B} (f g : A -> B -> A) (l : list B) :
  (forall x a, In x l -> f a x = g a x) -> forall a, fold_left f l a = fold_left g l a.
Proof.
  induction l as [|x t IH]; intros H a; [reflexivity|].
  cbn [fold_left]. rewrite H by (left; reflexivity). apply IH. intros; apply H; right; assumption.
Qed.

Lemma fold_ticks_bound buf : 1 <= buf -> forall rs lb ub acc,
  sd lb ub rs -> lb <= ub ->
  fold_left (fun acc r => acc + div_ceil (snd r - fst r + 1) buf) rs acc + lb <= acc + ub.
Proof.
  intros Hb. induction rs as [|[a b] t IH]; intros lb ub acc H Hle.
  - cbn [fold_left]. lia.
  - cbn [sd] in H. destruct H as (H1 & H2 & H3 & H4). cbn [fold_left fst snd].
    specialize (IH (b + 1) ub (acc + div_ceil (b - a + 1) buf) H4 ltac:(lia)).
    pose proof (div_ceil_le (b - a + 1) buf Hb). lia.
Qed.

Lemma ticks_of_small buf r : 1 <= buf -> snd r - fst r + 1 < U32 ->
  ticks_of buf r = div_ceil (snd r - fst r + 1) buf.
Proof.
  intros Hb H. unfold ticks_of.
  rewrite (N.mod_small (snd r - fst r + 1) U64) by (unfold U32, U64 in *; lia).
  apply N.mod_small. pose proof (div_ceil_le (snd r - fst r + 1) buf Hb). lia.
Qed.

Lemma total_ticks_small buf rs lb ub : 1 <= buf -> sd lb ub rs -> ub < U32 ->
  total_ticks buf rs = fold_left (fun acc r => acc + div_ceil (snd r - fst r + 1) buf) rs 0.
Proof.
  intros Hb H Hub. unfold total_ticks. apply fold_left_ext_in.
  intros r acc Hin. destruct (sd_in _ _ _ _ H Hin) as (K1 & K2 & K3).
  rewrite ticks_of_small by (auto; lia). reflexivity.
Qed.

(* ------------------------------------------------------------------ exclusion mode, no markers *)

Lemma filt_sel rs hr data : forall p,
  (forall q, p <= q -> q < p + len data -> mem rs q = negb (covered hr q)) ->
  filt rs p data = sel hr p data.
Proof.
  induction data as [|x t IH]; intros p H; [reflexivity|].
  cbn [filt sel]. rewrite len_cons in H. rewrite (H p) by lia.
  destruct (covered hr p); cbn [negb]; (f_equal; apply IH; intros q Hq1 Hq2; apply H; lia).
Qed.

Lemma build_ranges_excl dl hr :
  1 <= dl -> dl < U64 -> Forall no_marker hr -> Forall (in_bounds dl) hr ->
  exists rs, build_ranges dl hr true = Ok (rs, [])
             /\ sd 0 dl rs
             /\ forall p, p < dl -> mem rs p = negb (covered hr p).
Proof.
  intros Hdl Hu Hm Hb.
  destruct hr as [|r0 t0] eqn:Ehr.
  - exists [(0, dl - 1)]. cbn [build_ranges]. split; [reflexivity|]. split.
    + cbn [sd]. repeat split; lia.
    + intros p Hp. rewrite mem_cons, mem_nil. cbn [covered existsb negb]. lia.
  - rewrite <- Ehr in *.
    assert (Hne : hr <> []) by (rewrite Ehr; discriminate).
    clear Ehr r0 t0.
    set (shr := sort_by hstart hr).
    assert (Hperm : Permutation shr hr) by apply sort_by_perm.
    assert (Hm' : Forall no_marker shr) by (eapply Permutation_Forall; [symmetry; exact Hperm|exact Hm]).
    assert (Hb' : Forall (in_bounds dl) shr) by (eapply Permutation_Forall; [symmetry; exact Hperm|exact Hb]).
    exists (remove_all shr [(0, dl - 1)]).
    split.
    + unfold build_ranges. destruct hr as [|r0 t0]; [congruence|].
      fold shr. rewrite check_ends_ok by assumption.
      rewrite excl_pass_nomark; [reflexivity|exact Hm'|].
      eapply Forall_impl; [|exact Hb']. unfold in_bounds. intros; lia.
    + split.
      * apply remove_all_sd. cbn [sd]. repeat split; lia.
      * intros p Hp. rewrite remove_all_mem, mem_cons, mem_nil.
        rewrite (covered_perm shr hr p Hperm). destruct (covered hr p); lia.
Qed.

Theorem exclusion_spec debug data hr buf :
  1 <= len data -> len data < U64 -> (debug = false \/ len data < U32) -> 1 <= buf ->
  Forall no_marker hr -> Forall (in_bounds (len data)) hr ->
  exists r, hash_model debug data hr true buf = Ok r /\ hasher_input r = sel hr 0 data.
Proof.
  intros H1 H64 Hdbg Hbuf Hm Hb.
  destruct (build_ranges_excl (len data) hr H1 H64 Hm Hb) as (rs & E & Hsd & Hmem).
  destruct (hash_loop_nomark data buf Hbuf rs 0 Hsd) as (u & k & EL & EC & EK).
  unfold hash_model. replace (len data <? 1) with false by lia. rewrite E.
  assert (Hnp : debug && (U32 <=? total_ticks buf rs) = false).
  { destruct Hdbg as [->|Hlt]; [reflexivity|].
    rewrite (total_ticks_small buf rs 0 (len data)) by assumption.
    pose proof (fold_ticks_bound buf Hbuf rs 0 (len data) 0 Hsd ltac:(lia)).
    destruct debug; cbn [andb]; lia. }
  rewrite Hnp, EL. eexists. split; [reflexivity|].
  unfold hasher_input. cbn [updates]. rewrite EC.
  rewrite (read_filt data 0 rs (len data)) by (auto; lia).
  apply filt_sel. intros q _ Hq. apply Hmem. lia.
Qed.

(* with the default chunk size and below 4 GiB, the number of callbacks equals the announced total *)
Theorem exclusion_progress debug data hr buf :
  1 <= len data -> len data < U32 -> 1 <= buf ->
  Forall no_marker hr -> Forall (in_bounds (len data)) hr ->
  exists r, hash_model debug data hr true buf = Ok r /\ nticks r = total r.
Proof.
  intros H1 H32 Hbuf Hm Hb.
  assert (H64 : len data < U64) by (unfold U32, U64 in *; lia).
  destruct (build_ranges_excl (len data) hr H1 H64 Hm Hb) as (rs & E & Hsd & Hmem).
  destruct (hash_loop_nomark data buf Hbuf rs 0 Hsd) as (u & k & EL & EC & EK).
  unfold hash_model. replace (len data <? 1) with false by lia. rewrite E.
  rewrite (total_ticks_small buf rs 0 (len data)) by assumption.
  pose proof (fold_ticks_bound buf Hbuf rs 0 (len data) 0 Hsd ltac:(lia)) as Hbd.
  replace (debug && (U32 <=? fold_left (fun acc r => acc + div_ceil (snd r - fst r + 1) buf) rs 0)) with false
    by (destruct debug; cbn [andb]; lia).
  rewrite EL. eexists. split; [reflexivity|]. cbn [nticks total].
  rewrite N.mod_small by lia. exact EK.
Qed.

(* ------------------------------------------------------------------ rejection and emptiness *)

Theorem past_end_rejected debug data hr excl buf :
  Exists (fun r => len data < hstart r + hlen r) hr ->
  exists e, hash_model debug data hr excl buf = Err e.
Proof.
  intro H. unfold hash_model.
  destruct (len data <? 1) eqn:E0; [eauto|].
  assert (Hs : Exists (fun r => len data < hstart r + hlen r) (sort_by hstart hr)).
  { apply Exists_exists in H. destruct H as (r & Hin & Hr). apply Exists_exists. exists r. split; [|exact Hr].
    eapply Permutation_in; [symmetry; apply sort_by_perm|exact Hin]. }
  destruct (check_ends_some _ _ Hs) as (e & Ee).
  unfold build_ranges. destruct hr as [|r0 t0]; [inversion H|].
  rewrite Ee. eauto.
Qed.

Theorem empty_stream debug hr excl buf : hash_model debug [] hr excl buf = Err ENoData.
Proof. reflexivity. Qed.

(* ------------------------------------------------------------------ inclusion mode (markers allowed) *)

Definition incl_vec1 (r : hrange) : list rng :=
  if hlen r =? 0 then []
  else match hmark r with
       | Some o => [(o, o); (hstart r, hstart r + hlen r - 1)]
       | None => [(hstart r, hstart r + hlen r - 1)]
       end.
Definition incl_marks1 (r : hrange) : list N :=
  if hlen r =? 0 then [] else match hmark r with Some o => [o] | None => [] end.
Definition incl_vec (hr : list hrange) : list rng := concat (map incl_vec1 hr).
Definition incl_marks (hr : list hrange) : list N := concat (map incl_marks1 hr).

Lemma incl_pass_ok hr : forall vec starts,
  Forall (fun r => hstart r + hlen r < U64) hr ->
  incl_pass hr vec starts = Ok (vec ++ incl_vec hr, starts ++ incl_marks hr).
Proof.
  induction hr as [|r t IH]; intros vec starts Hb.
  - cbn. rewrite !app_nil_r. reflexivity.
  - inversion Hb as [|? ? Hb1 Hb2]; subst.
    cbn [incl_pass]. unfold incl_vec, incl_marks. cbn [map concat]. unfold incl_vec1, incl_marks1.
    destruct (hlen r =? 0) eqn:E0.
    + rewrite IH by assumption. reflexivity.
    + replace (U64 <=? hstart r + hlen r) with false by lia.
      destruct (hmark r) as [o|]; rewrite IH by assumption; unfold incl_vec, incl_marks;
        rewrite <- !app_assoc; reflexivity.
Qed.

Lemma hash_loop_app data buf st a : forall b,
  hash_loop data buf st (a ++ b) =
  match hash_loop data buf st a, hash_loop data buf st b with
  | Some (u, k), Some (u', k') => Some (u ++ u', k + k')
  | _, _ => None
  end.
Proof.
  induction a as [|r t IH]; intro b.
  - cbn [app hash_loop]. destruct (hash_loop data buf st b) as [[u k]|]; [|reflexivity].
    cbn [app]. rewrite N.add_0_l. reflexivity.
  - cbn [app hash_loop]. destruct (hash_range data buf st r) as [[u k]|]; [|reflexivity].
    rewrite IH. destruct (hash_loop data buf st t) as [[u1 k1]|]; [|reflexivity].
    destruct (hash_loop data buf st b) as [[u2 k2]|]; [|reflexivity].
    rewrite app_assoc, N.add_assoc. reflexivity.
Qed.

(* the class of F-MARKER1 in inclusion mode *)
Definition known_incl (hr : list hrange) : Prop :=
  exists r, In r hr /\ hlen r = 1 /\ In (hstart r) (incl_marks hr).

Lemma existsb_eqb_In x l : existsb (N.eqb x) l = true <-> In x l.
Proof.
  rewrite existsb_exists. split.
  - intros (y & Hy & E). apply N.eqb_eq in E. subst. exact Hy.
  - intro H. exists x. split; [exact H|apply N.eqb_refl].
Qed.

Lemma incl_loop data buf st hr : 1 <= buf ->
  Forall (in_bounds (len data)) hr ->
  (forall r, In r hr -> hlen r <> 0 -> forall o, hmark r = Some o -> In o st) ->
  (forall r, In r hr -> hlen r = 1 -> ~ In (hstart r) st) ->
  exists u k, hash_loop data buf st (incl_vec hr) = Some (u, k)
              /\ concat u = concat (map (incl_piece data) hr).
Proof.
  intros Hbuf Hb Hmk Hk. induction hr as [|r t IH].
  - exists [], 0. split; reflexivity.
  - inversion Hb as [|? ? Hb1 Hb2]; subst.
    destruct IH as (u' & k' & E1 & E2); auto.
    { intros; eapply Hmk; eauto. right; assumption. }
    { intros; apply Hk; auto. right; assumption. }
    unfold incl_vec. cbn [map concat]. fold (incl_vec t). rewrite hash_loop_app, E1.
    unfold incl_vec1, incl_piece at 1. cbn [map concat]. rewrite <- E2.
    destruct (hlen r =? 0) eqn:E0.
    + cbn [hash_loop app]. eexists _, _. split; reflexivity.
    + (* the data range *)
      assert (Hd : exists cs kc, hash_range data buf st (hstart r, hstart r + hlen r - 1) = Some (cs, kc)
                   /\ concat cs = slice data (N.to_nat (hstart r)) (N.to_nat (hlen r))).
      { unfold hash_range, is_marker. cbn [fst snd]. unfold in_bounds in Hb1.
        assert (Hnm : existsb (N.eqb (hstart r)) st && (hstart r + hlen r - 1 =? hstart r) = false).
        { destruct (hstart r + hlen r - 1 =? hstart r) eqn:E1'; [|apply andb_false_r].
          rewrite andb_true_r. destruct (existsb (N.eqb (hstart r)) st) eqn:Ex; [|reflexivity].
          exfalso. apply existsb_eqb_In in Ex. apply (Hk r); [left; reflexivity|lia|exact Ex]. }
        rewrite Hnm.
        replace (hstart r + hlen r - 1 - hstart r + 1) with (hlen r) by lia.
        replace (hstart r + hlen r <=? len data) with true by lia.
        eexists _, _. split; [reflexivity|]. apply chunks_concat; lia. }
      destruct Hd as (cs & kc & Ed & Ec).
      destruct (hmark r) as [o|] eqn:Em.
      * assert (Hin : In o st) by (eapply Hmk; [left; reflexivity|lia|exact Em]).
        cbn [hash_loop]. unfold hash_range at 1, is_marker. cbn [fst snd].
        apply existsb_eqb_In in Hin. rewrite Hin, N.eqb_refl. cbn [andb].
        rewrite Ed. cbn [app]. eexists _, _. split; [reflexivity|].
        rewrite app_nil_r. cbn [concat]. rewrite concat_app, Ec, <- app_assoc. reflexivity.
      * cbn [hash_loop]. rewrite Ed. cbn [app]. eexists _, _. split; [reflexivity|].
        rewrite app_nil_r, concat_app, Ec. reflexivity.
Qed.

Theorem inclusion_spec debug data hr buf :
  1 <= len data -> len data < U64 -> 1 <= buf -> hr <> [] ->
  Forall (in_bounds (len data)) hr ->
  (debug = false \/ total_ticks buf (incl_vec (sort_by hstart hr)) < U32) ->
  ~ known_incl hr ->
  exists r, hash_model debug data hr false buf = Ok r /\ hasher_input r = sel_incl data hr.
Proof.
  intros H1 H64 Hbuf Hne Hb Hdbg Hnk.
  set (shr := sort_by hstart hr).
  assert (Hperm : Permutation shr hr) by apply sort_by_perm.
  assert (Hb' : Forall (in_bounds (len data)) shr) by (eapply Permutation_Forall; [symmetry; exact Hperm|exact Hb]).
  assert (Hmarks : forall o, In o (incl_marks shr) <-> In o (incl_marks hr)).
  { intro o. unfold incl_marks. rewrite !in_concat. split; intros (l & Hl & Ho); exists l; (split; [|exact Ho]);
      apply in_map_iff in Hl; destruct Hl as (r & <- & Hr); apply in_map.
    - eapply Permutation_in; [exact Hperm|exact Hr].
    - eapply Permutation_in; [apply Permutation_sym; exact Hperm|exact Hr]. }
  destruct (incl_loop data buf (incl_marks shr) shr Hbuf Hb') as (u & k & EL & EC).
  { intros r Hr Hl o Ho. unfold incl_marks. apply in_concat. exists (incl_marks1 r). split; [apply in_map; exact Hr|].
    unfold incl_marks1. replace (hlen r =? 0) with false by lia. rewrite Ho. left; reflexivity. }
  { intros r Hr Hl Hin. apply Hnk. exists r. split; [eapply Permutation_in; eauto|]. split; [exact Hl|]. apply Hmarks. exact Hin. }
  unfold hash_model. replace (len data <? 1) with false by lia.
  unfold build_ranges. destruct hr as [|r0 t0]; [congruence|]. fold shr.
  rewrite check_ends_ok by assumption.
  rewrite incl_pass_ok by (eapply Forall_impl; [|exact Hb']; unfold in_bounds; intros; lia).
  cbn [app].
  replace (debug && (U32 <=? total_ticks buf (incl_vec shr))) with false
    by (destruct Hdbg as [->|Hlt]; [reflexivity|fold shr in Hlt; destruct debug; cbn [andb]; lia]).
  rewrite EL. eexists. split; [reflexivity|]. unfold hasher_input. cbn [updates]. exact EC.
Qed.

(* ------------------------------------------------------------------ F-MARKER1 witnesses (known finding) *)

(* data 0a..13, exclusions (0,5),(6,4), marker at 5: the byte 0x0f at position 5 is replaced by a second marker *)
Definition marker1_data : bytes := [10;11;12;13;14;15;16;17;18;19].
Definition marker1_ranges : list hrange := [HR 0 5 None; HR 6 4 None; HR 5 1 (Some 5)].

Lemma marker1_refuted :
  exists r, hash_model true marker1_data marker1_ranges true 4 = Ok r
            /\ hasher_input r = be 8 5 ++ be 8 5
            /\ hasher_input r <> be 8 5 ++ [15].
Proof. eexists. split; [vm_compute; reflexivity|]. split; [reflexivity|discriminate]. Qed.

Lemma marker1_incl_refuted :
  exists r, hash_model true [1;2;3] [HR 0 1 (Some 0)] false 4 = Ok r
            /\ hasher_input r = be 8 0 ++ be 8 0
            /\ sel_incl [1;2;3] [HR 0 1 (Some 0)] = be 8 0 ++ [1].
Proof. eexists. split; [vm_compute; reflexivity|]. split; reflexivity. Qed.
