From Coq Require Import List Lia.
From C2PA Require Import Base.Bytes Model.HashPipeline.
Import ListNotations.

Lemma pstep_view s s' : pstep s s' -> pview s' = pview s.
Proof.
  intro H. destruct H as [h c|h c n p|h c m|w n p|h n p]; cbn [pview]; try reflexivity;
    try (destruct m; rewrite <- app_assoc; reflexivity); try (destruct w; reflexivity).
Qed.

Lemma psteps_view s s' : psteps s s' -> pview s' = pview s.
Proof. induction 1 as [|s1 s2 s3 H _ IH]; [reflexivity|]. rewrite IH. apply pstep_view. exact H. Qed.

(* every interleaving that terminates has absorbed exactly the chunk sequence, in order *)
Theorem schedule_independent c p h : psteps (PLoop [] c p) (PDone h) -> h = c :: p.
Proof. intro H. apply psteps_view in H. exact H. Qed.

(* no reachable state is stuck: either done or some actor can move *)
Theorem no_deadlock s : (exists h, s = PDone h) \/ exists s', pstep s s'.
Proof.
  destruct s as [h c [|n p]|w m|h].
  - right; eexists; apply S_final.
  - right; eexists; apply S_spawn.
  - right. destruct w as [h c|h].
    + eexists; apply S_update.
    + destruct m as [n p|n p]; eexists; [apply S_read|apply S_recv].
  - left; eauto.
Qed.

(* the number of remaining steps is bounded: termination of every schedule *)
Definition pmeasure (s : pstate) : nat :=
  match s with
  | PLoop _ _ p => 4 * length p + 1
  | PPar w m => (match w with WBusy _ _ => 1 | WSent _ => 0 end)
                + (match m with MReading _ p => 4 * length p + 3 | MWaiting _ p => 4 * length p + 2 end)
  | PDone _ => 0
  end.
Lemma pstep_decreases s s' : pstep s s' -> pmeasure s' < pmeasure s.
Proof.
  intro H. destruct H as [h c|h c n p|h c m|w n p|h n p]; cbn [pmeasure length];
    try destruct m; try destruct w; lia.
Qed.
