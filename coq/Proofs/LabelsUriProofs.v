(* Proofs/LabelsUriProofs.v — URI builders against the URI parsers of Model/Labels.v (C34). *)
From Coq Require Import List NArith Bool Lia Arith String.
From C2PA Require Import Base.Bytes Model.ByteStr Generated.C34_facts Model.Labels
     Proofs.ByteStrProofs Proofs.LabelsProofs.
Import ListNotations.
Open Scope N_scope.

(* a label that can sit in a URI: no '/' and no '=' *)
Definition clean (s : bytes) : Prop := no SLASH s /\ no EQUALS s.

(* the absolute URI of the box reached from manifest m through the path segs *)
Definition segs_tail (segs : list bytes) : bytes := List.concat (map (cons SLASH) segs).
Definition U (m : bytes) (segs : list bytes) : bytes := to_manifest_uri m ++ segs_tail segs.

Lemma U_assertion m a : to_assertion_uri m a = U m [ASSERTIONS; a].
Proof. unfold to_assertion_uri, U, segs_tail. cbn [map List.concat app]. rewrite app_nil_r. reflexivity. Qed.
Lemma U_databox m a : to_databox_uri m a = U m [DATABOXES; a].
Proof. unfold to_databox_uri, U, segs_tail. cbn [map List.concat app]. rewrite app_nil_r. reflexivity. Qed.
Lemma U_credential m a : to_verifiable_credential_uri m a = U m [CREDENTIALS; a].
Proof. unfold to_verifiable_credential_uri, U, segs_tail. cbn [map List.concat app]. rewrite app_nil_r. reflexivity. Qed.
Lemma U_signature m : to_signature_uri m = U m [SIGNATURE].
Proof. unfold to_signature_uri, U, segs_tail. cbn [map List.concat app]. rewrite app_nil_r. reflexivity. Qed.
Lemma U_manifest m : to_manifest_uri m = U m [].
Proof. unfold U, segs_tail. cbn. rewrite app_nil_r. reflexivity. Qed.

Lemma split_segs c x segs :
  no c x -> Forall (no c) segs -> split c (x ++ List.concat (map (cons c) segs)) = x :: segs.
Proof.
  revert x; induction segs as [|s t IH]; intros x Hx Hs.
  - cbn. rewrite app_nil_r. apply split_nosep. exact Hx.
  - inversion Hs; subst. cbn [map List.concat]. change ((c :: s) ++ List.concat (map (cons c) t)) with (c :: (s ++ List.concat (map (cons c) t))).
    rewrite split_app by exact Hx. rewrite IH by assumption. reflexivity.
Qed.

Lemma no_concat c segs : Forall (no c) segs -> forall d, d <> c -> no c (List.concat (map (cons d) segs)).
Proof.
  induction 1 as [|s t Hs Ht IH]; intros d Hd; cbn; [intros []|].
  apply no_cons; [exact Hd|]. apply no_app; [exact Hs | apply IH; exact Hd].
Qed.

Lemma const_facts :
  no EQUALS JUMBF_PREFIX /\ no EQUALS MANIFEST_STORE /\ no SLASH MANIFEST_STORE
  /\ Forall clean [ASSERTIONS; DATABOXES; CREDENTIALS; SIGNATURE].
Proof.
  assert (D : forall c s, mem c s = false -> no c s) by (intros c s; apply mem_false).
  repeat split; try (apply D; reflexivity); repeat constructor; apply D; reflexivity.
Qed.

(* the part of an absolute URI after "self#jumbf=" *)
Definition raw_of (m : bytes) (segs : list bytes) : bytes := SLASH :: MANIFEST_STORE ++ SLASH :: m ++ segs_tail segs.

Lemma U_shape m segs : U m segs = JUMBF_PREFIX ++ EQUALS :: raw_of m segs.
Proof.
  unfold U, raw_of, to_manifest_uri. rewrite <- !app_assoc. cbn [app]. reflexivity.
Qed.

Lemma normalized_U m segs :
  clean m -> Forall clean segs -> to_normalized_uri (U m segs) = raw_of m segs.
Proof.
  intros [Hm1 Hm2] Hs. destruct const_facts as [P1 [P2 [P3 _]]].
  unfold to_normalized_uri. rewrite U_shape. rewrite split_app by exact P1.
  assert (Hr : no EQUALS (raw_of m segs)).
  { unfold raw_of. apply no_cons; [discriminate|]. apply no_app; [exact P2|]. apply no_cons; [discriminate|].
    apply no_app; [exact Hm2|]. apply no_concat; [|discriminate].
    revert Hs. apply Forall_impl. intros s [_ H]. exact H. }
  rewrite split_nosep by exact Hr. unfold raw_of. reflexivity.
Qed.

Lemma split_raw m segs :
  clean m -> Forall clean segs -> split SLASH (raw_of m segs) = [] :: MANIFEST_STORE :: m :: segs.
Proof.
  intros [Hm1 _] Hs. destruct const_facts as [_ [_ [P3 _]]].
  unfold raw_of. rewrite split_cons_sep. rewrite split_app by exact P3.
  unfold segs_tail. rewrite split_segs; [reflexivity | exact Hm1|].
  revert Hs. apply Forall_impl. intros s [H _]. exact H.
Qed.

(* ---- a URI yields back the manifest label it was built from ---- *)
Theorem manifest_from_U m segs :
  clean m -> Forall clean segs -> manifest_label_from_uri (U m segs) = Some m.
Proof.
  intros Hm Hs. unfold manifest_label_from_uri. rewrite normalized_U, split_raw by assumption.
  cbn [List.length idx nth Nat.ltb Nat.leb]. rewrite beq_refl. reflexivity.
Qed.

(* ---- and the assertion / data box label ---- *)
Theorem assertion_from_U m bx a :
  clean m -> clean a -> bx = ASSERTIONS \/ bx = DATABOXES ->
  assertion_label_from_uri (U m [bx; a]) = Some a.
Proof.
  intros Hm Ha Hb. destruct const_facts as [_ [_ [_ F]]].
  assert (Hc : clean bx) by (inversion F as [|? ? F1 F']; inversion F' as [|? ? F2 _]; destruct Hb; subst; assumption).
  assert (Hs : Forall clean [bx; a]) by (constructor; [exact Hc | constructor; [exact Ha | constructor]]).
  unfold assertion_label_from_uri. rewrite normalized_U, split_raw by assumption.
  cbn [List.length idx nth Nat.ltb Nat.leb]. rewrite beq_refl.
  destruct Hb; subst; rewrite beq_refl; rewrite ?orb_true_r; reflexivity.
Qed.

(* ---- relative and absolute forms ---- *)
Theorem relative_of_U m s1 s2 rest :
  clean m -> Forall clean (s1 :: s2 :: rest) ->
  to_relative_uri (U m (s1 :: s2 :: rest)) = JUMBF_PREFIX ++ [EQUALS] ++ join [SLASH] (s1 :: s2 :: rest).
Proof.
  intros Hm Hs. unfold to_relative_uri. rewrite normalized_U, split_raw by assumption.
  cbn [List.length idx nth Nat.ltb Nat.leb skipn]. rewrite beq_refl. reflexivity.
Qed.

(* URIs of the manifest itself and of its direct children are left alone (not "absolute enough") *)
Theorem relative_of_short m segs :
  clean m -> Forall clean segs -> (List.length segs <= 1)%nat -> to_relative_uri (U m segs) = U m segs.
Proof.
  intros Hm Hs Hl. unfold to_relative_uri. rewrite normalized_U, split_raw by assumption.
  destruct segs as [|s [|s' t]]; [reflexivity | reflexivity | cbn in Hl; lia].
Qed.

(* an absolute URI stays as it is, whatever manifest label is supplied *)
Theorem absolute_of_U m' m segs :
  clean m -> Forall clean segs -> to_absolute_uri m' (U m segs) = U m segs.
Proof.
  intros Hm Hs. unfold to_absolute_uri. rewrite normalized_U, split_raw by assumption.
  cbn [List.length idx nth Nat.ltb Nat.leb]. rewrite beq_refl. reflexivity.
Qed.

(* a relative URI "self#jumbf=<box>/<label>" is completed with the manifest label *)
Theorem absolute_of_relative m bx a :
  clean bx -> clean a -> (forall t, starts_with (MANIFEST_STORE ++ [SLASH]) (bx ++ t) = false) ->
  to_absolute_uri m (JUMBF_PREFIX ++ [EQUALS] ++ join [SLASH] [bx; a]) = U m [bx; a].
Proof.
  intros [Hb1 Hb2] [Ha1 Ha2] Hst. destruct const_facts as [P1 _].
  unfold to_absolute_uri, to_normalized_uri. cbn [join app].
  rewrite split_app by exact P1.
  rewrite (split_nosep EQUALS (bx ++ SLASH :: a)) by (apply no_app; [exact Hb2 | apply no_cons; [discriminate | exact Ha2]]).
  rewrite Hst, andb_false_r.
  rewrite (split_app SLASH bx a) by exact Hb1. rewrite (split_nosep SLASH a) by exact Ha1.
  cbn [List.length Nat.ltb Nat.leb andb].
  unfold U, segs_tail. cbn [map List.concat app]. rewrite app_nil_r. reflexivity.
Qed.

Lemma box_not_store :
  forall bx, In bx [ASSERTIONS; DATABOXES; CREDENTIALS] -> forall t, starts_with (MANIFEST_STORE ++ [SLASH]) (bx ++ t) = false.
Proof. intros bx [<-|[<-|[<-|[]]]] t; reflexivity. Qed.

Theorem relative_absolute_roundtrip m bx a :
  clean m -> clean a -> In bx [ASSERTIONS; DATABOXES; CREDENTIALS] ->
  to_absolute_uri m (to_relative_uri (U m [bx; a])) = U m [bx; a].
Proof.
  intros Hm Ha Hb. destruct const_facts as [_ [_ [_ F]]].
  assert (Hc : clean bx).
  { rewrite Forall_forall in F. apply F. destruct Hb as [<-|[<-|[<-|[]]]]; cbn; auto. }
  assert (Hs : Forall clean [bx; a]) by (constructor; [exact Hc | constructor; [exact Ha | constructor]]).
  rewrite relative_of_U by assumption.
  apply absolute_of_relative; [exact Hc | exact Ha | apply box_not_store; exact Hb].
Qed.

(* ---- necessity of the side conditions: '/' or '=' inside a label is cut off ---- *)
Theorem uri_side_conditions_necessary :
  manifest_label_from_uri (to_manifest_uri (b "a/b")) <> Some (b "a/b")
  /\ manifest_label_from_uri (to_manifest_uri (b "a=b")) <> Some (b "a=b")
  /\ assertion_label_from_uri (to_assertion_uri (b "m") (b "a/b")) <> Some (b "a/b")
  /\ assertion_label_from_uri (to_assertion_uri (b "m") (b "a=b")) <> Some (b "a=b")
  /\ to_absolute_uri (b "m") (to_relative_uri (U (b "m") [b "c2pa"; b "x"; b "y"])) <> U (b "m") [b "c2pa"; b "x"; b "y"].
Proof. repeat split; vm_compute; discriminate. Qed.

Theorem relative_absolute_full m bx a :
  clean m -> clean a -> In bx [ASSERTIONS; DATABOXES; CREDENTIALS] ->
  to_relative_uri (U m [bx; a]) = JUMBF_PREFIX ++ [61] ++ bx ++ [47] ++ a
  /\ to_absolute_uri m (to_relative_uri (U m [bx; a])) = U m [bx; a].
Proof.
  intros Hm Ha Hb. split; [|apply relative_absolute_roundtrip; assumption].
  destruct const_facts as [_ [_ [_ F]]].
  assert (Hc : clean bx).
  { rewrite Forall_forall in F. apply F. destruct Hb as [<-|[<-|[<-|[]]]]; cbn; auto. }
  rewrite relative_of_U; [reflexivity | exact Hm |].
  constructor; [exact Hc | constructor; [exact Ha | constructor]].
Qed.

Theorem assertion_roundtrip m a :
  clean m -> clean a ->
  assertion_label_from_uri (to_assertion_uri m a) = Some a /\ assertion_label_from_uri (to_databox_uri m a) = Some a.
Proof.
  intros Hm Ha. rewrite U_assertion, U_databox.
  exact (conj (assertion_from_U m _ a Hm Ha (or_introl eq_refl)) (assertion_from_U m _ a Hm Ha (or_intror eq_refl))).
Qed.
