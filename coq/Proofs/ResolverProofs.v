(* Proofs/ResolverProofs.v — invariants of the redirect follower and the allow-list wrapper over an arbitrary
   scripted transport: induction over the redirect hops. *)
From Coq Require Import List NArith Bool Arith Lia ZifyBool ZifyNat ZifyN.
From C2PA Require Import Base.Bytes Model.HostPattern Model.IpPreds Model.IpClass Model.StackLayers Model.Resolvers
     Generated.C27_facts Generated.C26_facts Proofs.HostPatternProofs Proofs.HostClassProofs.
Import ListNotations.
Open Scope N_scope.

Section ResolverProofs.
  Variable U : Type.
  Variables scheme_of host_of port_of : U -> option bytes.
  Variable join : U -> bytes -> option U.

  Notation request := (request U).
  Notation resolver := (resolver U).
  Notation transport := (transport U).
  Notation restricted := (restricted U scheme_of host_of port_of).
  Notation uri_allowed := (uri_allowed U scheme_of host_of port_of).
  Notation redirect_loop := (redirect_loop U host_of join).
  Notation redirect := (redirect U host_of join).
  Notation redirect_target := (redirect_target U host_of join).
  Notation build_redirected := (build_redirected U).
  Notation default_stack := (default_stack U scheme_of host_of port_of join).
  Notation default_stack_async := (default_stack_async U scheme_of host_of port_of join).

  (* a resolver that, per call, either hands exactly the given request to the transport or sends nothing and fails *)
  Definition faithful (inner : resolver) : Prop :=
    forall rq st st' tr r, inner rq st = (st', tr, r) -> tr = [rq] \/ (tr = [] /\ exists e, r = inr e).

  Lemma transport_faithful : faithful transport.
  Proof. intros rq st st' tr r E. unfold Resolvers.transport in E. destruct st; inversion E; subst; left; reflexivity. Qed.

  Lemma restricted_faithful allow inner : faithful inner -> faithful (restricted allow inner).
  Proof.
    intros F rq st st' tr r E. unfold Resolvers.restricted in E.
    destruct (negb (uri_allowed allow (rq_uri U rq))).
    - inversion E; subst. right. split; [reflexivity | eexists; reflexivity].
    - eapply F; exact E.
  Qed.

  Lemma redirect_target_follow ar from resp t :
    redirect_target ar from resp = Follow U t ->
    ar = true /\ host_is_non_global (host_of t) = false /\ exists loc, join from loc = Some t.
  Proof.
    unfold Resolvers.redirect_target. destruct (redirect_location resp) as [loc |]; [| discriminate].
    destruct ar; cbn [negb]; [| discriminate].
    destruct (join from loc) as [t' |] eqn:J; [| discriminate].
    destruct (host_is_non_global (host_of t')) eqn:G; [discriminate |].
    intro E. inversion E; subst. split; [reflexivity | split; [exact G | exists loc; exact J]].
  Qed.

  (* ---- C26: only allowed requests reach the transport ---- *)

  Definition only_sends (P : request -> Prop) (inner : resolver) : Prop :=
    forall rq st st' tr r, inner rq st = (st', tr, r) -> Forall P tr.

  Lemma restricted_only_sends allow : only_sends (fun q => uri_allowed allow (rq_uri U q) = true) (restricted allow transport).
  Proof.
    intros rq st st' tr r E. unfold Resolvers.restricted in E.
    destruct (uri_allowed allow (rq_uri U rq)) eqn:A; cbn [negb] in E.
    - unfold Resolvers.transport in E. destruct st; inversion E; subst; (constructor; [exact A | constructor]).
    - inversion E; subst. constructor.
  Qed.

  Lemma redirect_loop_only_sends P inner ar : only_sends P inner ->
    forall fuel, only_sends P (redirect_loop fuel ar inner).
  Proof.
    intros OS fuel. induction fuel as [| f IH]; intros rq st st' tr r E; cbn [Resolvers.redirect_loop] in E.
    - inversion E; subst. constructor.
    - destruct (inner rq st) as [[st1 tr1] r1] eqn:I. pose proof (OS _ _ _ _ _ I) as P1.
      destruct r1 as [resp | e]; [| inversion E; subst; exact P1].
      destruct (redirect_target ar (rq_uri U rq) resp) as [| t | e]; try (inversion E; subst; exact P1).
      destruct (redirect_loop f ar inner (build_redirected rq t) st1) as [[st2 tr2] r2] eqn:L.
      inversion E; subst. apply Forall_app. split; [exact P1 | eapply IH; exact L].
  Qed.

  (* the allow-list wrapper changes nothing except that the run stops, with UriDisallowed, at the first request
     whose URI is not allowed, and that request (and everything after it) is not sent *)
  Fixpoint take_allowed (allow : option (list pat)) (tr : list request) : list request :=
    match tr with
    | [] => []
    | q :: t => if uri_allowed allow (rq_uri U q) then q :: take_allowed allow t else []
    end.

  Definition truncate (allow : option (list pat)) (x : tstate * list request * result) : list request * result :=
    let '(_, tr, r) := x in
    if forallb (fun q => uri_allowed allow (rq_uri U q)) tr then (tr, r) else (take_allowed allow tr, inr EUriDisallowed).

  Lemma take_allowed_all allow tr : forallb (fun q => uri_allowed allow (rq_uri U q)) tr = true -> take_allowed allow tr = tr.
  Proof.
    induction tr as [| q t IH]; [reflexivity |]. cbn [forallb take_allowed]. rewrite andb_true_iff. intros [A B].
    rewrite A, (IH B). reflexivity.
  Qed.

  Theorem restricted_is_truncation allow ar fuel : forall rq st,
    (let '(_, tr, r) := redirect_loop fuel ar (restricted allow transport) rq st in (tr, r))
    = truncate allow (redirect_loop fuel ar transport rq st).
  Proof.
    induction fuel as [| f IH]; intros rq st; cbn [Resolvers.redirect_loop].
    - reflexivity.
    - unfold Resolvers.restricted at 1.
      destruct (uri_allowed allow (rq_uri U rq)) eqn:A; cbn [negb].
      + destruct (Resolvers.transport U rq st) as [[st1 tr1] r1] eqn:T.
        assert (tr1 = [rq]) by (unfold Resolvers.transport in T; destruct st; inversion T; reflexivity). subst tr1.
        destruct r1 as [resp | e].
        * destruct (redirect_target ar (rq_uri U rq) resp) as [| t | e].
          { unfold truncate. cbn [forallb]. rewrite A. reflexivity. }
          { specialize (IH (build_redirected rq t) st1).
            destruct (redirect_loop f ar (restricted allow transport) (build_redirected rq t) st1) as [[stR trR] rR].
            destruct (redirect_loop f ar transport (build_redirected rq t) st1) as [[stF trF] rF].
            unfold truncate in IH |- *. cbn [app forallb take_allowed]. rewrite A. cbn [andb].
            destruct (forallb (fun q => uri_allowed allow (rq_uri U q)) trF); inversion IH; subst; reflexivity. }
          { unfold truncate. cbn [forallb]. rewrite A. reflexivity. }
        * unfold truncate. cbn [forallb]. rewrite A. reflexivity.
      + destruct (Resolvers.transport U rq st) as [[st1 tr1] r1] eqn:T.
        assert (tr1 = [rq]) by (unfold Resolvers.transport in T; destruct st; inversion T; reflexivity). subst tr1.
        assert (X : forall tr2, forallb (fun q => uri_allowed allow (rq_uri U q)) ([rq] ++ tr2) = false)
          by (intro; cbn [app forallb]; rewrite A; reflexivity).
        assert (Y : forall tr2, take_allowed allow ([rq] ++ tr2) = []) by (intro; cbn [app take_allowed]; rewrite A; reflexivity).
        pose proof (X []) as X0. pose proof (Y []) as Y0. cbn [app] in X0, Y0.
        destruct r1 as [resp | e].
        * destruct (redirect_target ar (rq_uri U rq) resp) as [| t | e].
          { unfold truncate. rewrite X0, Y0. reflexivity. }
          { destruct (redirect_loop f ar transport (build_redirected rq t) st1) as [[stF trF] rF].
            unfold truncate. rewrite (X trF), (Y trF). reflexivity. }
          { unfold truncate. rewrite X0, Y0. reflexivity. }
        * unfold truncate. rewrite X0, Y0. reflexivity.
  Qed.

  (* ---- the shape of every trace: a chain of redirected requests ---- *)

  Inductive chain (ar : bool) : request -> list request -> Prop :=
  | ch_nil rq : chain ar rq []
  | ch_one rq : chain ar rq [rq]
  | ch_step rq loc t tr :
      ar = true -> join (rq_uri U rq) loc = Some t -> host_is_non_global (host_of t) = false ->
      chain ar (build_redirected rq t) tr -> chain ar rq (rq :: tr).

  Theorem loop_chain inner ar : faithful inner ->
    forall fuel rq st st' tr r, redirect_loop fuel ar inner rq st = (st', tr, r) -> chain ar rq tr.
  Proof.
    intros F fuel. induction fuel as [| f IH]; intros rq st st' tr r E; cbn [Resolvers.redirect_loop] in E.
    - inversion E; subst. constructor.
    - destruct (inner rq st) as [[st1 tr1] r1] eqn:I.
      destruct (F _ _ _ _ _ I) as [-> | [-> [e ->]]].
      + destruct r1 as [resp | e]; [| inversion E; subst; constructor].
        destruct (redirect_target ar (rq_uri U rq) resp) as [| t | e] eqn:RT; try (inversion E; subst; constructor).
        apply redirect_target_follow in RT. destruct RT as [-> [G [loc J]]].
        destruct (redirect_loop f true inner (build_redirected rq t) st1) as [[st2 tr2] r2] eqn:L.
        inversion E; subst. cbn [app]. eapply ch_step; eauto.
      + inversion E; subst. constructor.
  Qed.

  (* ---- C27: hop limit ---- *)

  Theorem loop_length inner ar : faithful inner ->
    forall fuel rq st st' tr r, redirect_loop fuel ar inner rq st = (st', tr, r) -> (length tr <= fuel)%nat.
  Proof.
    intros F fuel. induction fuel as [| f IH]; intros rq st st' tr r E; cbn [Resolvers.redirect_loop] in E.
    - inversion E; subst. cbn. lia.
    - destruct (inner rq st) as [[st1 tr1] r1] eqn:I.
      assert (L1 : (length tr1 <= 1)%nat) by (destruct (F _ _ _ _ _ I) as [-> | [-> _]]; cbn; lia).
      destruct r1 as [resp | e]; [| inversion E; subst; lia].
      destruct (redirect_target ar (rq_uri U rq) resp) as [| t | e]; try (inversion E; subst; lia).
      destruct (redirect_loop f ar inner (build_redirected rq t) st1) as [[st2 tr2] r2] eqn:L.
      inversion E; subst. rewrite app_length. specialize (IH _ _ _ _ _ L). lia.
  Qed.

  Lemma chain_disabled rq tr : chain false rq tr -> (length tr <= 1)%nat.
  Proof. intro C. inversion C; subst; cbn; try lia; discriminate. Qed.

  (* ---- C27: what the requests after hop 0 look like ---- *)

  Definition keep (h : bytes * bytes) : bool := negb (dropped (fst h)).

  (* [q] is a follow-up of [rq0]: same method and body, the headers of rq0 minus the dropped names (order kept),
     and a target that host_is_non_global accepted *)
  Definition derived (rq0 q : request) : Prop :=
    rq_method U q = rq_method U rq0 /\ rq_body U q = rq_body U rq0
    /\ rq_headers U q = filter keep (rq_headers U rq0)
    /\ host_is_non_global (host_of (rq_uri U q)) = false.

  Lemma filter_idem {A} (f : A -> bool) l : filter f (filter f l) = filter f l.
  Proof.
    induction l as [| x l IH]; [reflexivity |]. cbn [filter]. destruct (f x) eqn:E; [cbn [filter]; rewrite E, IH; reflexivity | exact IH].
  Qed.

  Lemma derived_first rq t : host_is_non_global (host_of t) = false -> derived rq (build_redirected rq t).
  Proof. intro G. unfold derived, Resolvers.build_redirected. cbn. repeat split; assumption. Qed.

  Lemma derived_next rq0 rq t : derived rq0 rq -> host_is_non_global (host_of t) = false -> derived rq0 (build_redirected rq t).
  Proof.
    intros [M [B [Hd _]]] G. unfold derived, Resolvers.build_redirected. cbn. repeat split; try assumption.
    rewrite Hd. apply (filter_idem keep).
  Qed.

  Lemma chain_all ar rq tr : chain ar rq tr -> forall rq0, derived rq0 rq -> Forall (derived rq0) tr.
  Proof.
    induction 1 as [rq | rq | rq loc t tr A J G C IH]; intros rq0 D.
    - constructor.
    - constructor; [exact D | constructor].
    - constructor; [exact D |]. apply IH. apply derived_next; assumption.
  Qed.

  Theorem chain_tail ar rq tr : chain ar rq tr -> Forall (derived rq) (tl tr).
  Proof.
    intro C. inversion C as [| | rq' loc t tr' A J G C' E1]; subst; cbn [tl]; try constructor.
    eapply chain_all; [exact C' | apply derived_first; exact G].
  Qed.

  Lemma derived_no_dropped rq0 q name : derived rq0 q -> In name dropped_headers -> ~ In name (map fst (rq_headers U q)).
  Proof.
    intros [_ [_ [Hd _]]] I X. rewrite Hd in X. apply in_map_iff in X. destruct X as [[n v] [E F]]. cbn [fst] in E. subst n.
    apply filter_In in F. destruct F as [_ K]. unfold keep, dropped in K. cbn [fst] in K.
    rewrite negb_true_iff in K. rewrite <- not_true_iff_false in K. apply K.
    apply existsb_exists. exists name. split; [exact I | apply beqb_refl].
  Qed.

  (* ---- the default stack ---- *)

  Lemma default_stack_with_list hs ar client :
    default_stack (Some hs) ar client = redirect ar (restricted (Some hs) client).
  Proof. reflexivity. Qed.

  Lemma default_stack_without_list ar client : default_stack None ar client = redirect ar client.
  Proof. reflexivity. Qed.

  (* the async builder stacks the same wrappers in the same order, so every theorem about the sync stack is one about
     the async stack *)
  Lemma default_stack_async_same allow ar client : default_stack_async allow ar client = default_stack allow ar client.
  Proof. destruct allow; reflexivity. Qed.
  Lemma default_stack_shape allow ar :
    exists inner, faithful inner /\ default_stack allow ar transport = redirect ar inner.
  Proof.
    destruct allow as [hs |].
    - exists (restricted (Some hs) transport). split; [apply restricted_faithful, transport_faithful | reflexivity].
    - exists transport. split; [apply transport_faithful | reflexivity].
  Qed.

  Theorem stack_chain allow ar rq st st' tr r :
    default_stack allow ar transport rq st = (st', tr, r) -> chain ar rq tr.
  Proof.
    destruct (default_stack_shape allow ar) as [inner [F ->]]. unfold Resolvers.redirect. apply loop_chain, F.
  Qed.

  Theorem stack_hops allow ar rq st st' tr r :
    default_stack allow ar transport rq st = (st', tr, r) ->
    (length tr <= S MAX_REDIRECTS)%nat /\ (ar = false -> (length tr <= 1)%nat).
  Proof.
    intro E. split.
    - destruct (default_stack_shape allow ar) as [inner [F X]]. rewrite X in E. unfold Resolvers.redirect in E.
      eapply loop_length; eauto.
    - intros ->. apply stack_chain in E. eapply chain_disabled; exact E.
  Qed.

  Theorem stack_tail allow ar rq st st' tr r :
    default_stack allow ar transport rq st = (st', tr, r) -> Forall (derived rq) (tl tr).
  Proof. intro E. apply stack_chain in E. eapply chain_tail; exact E. Qed.

  Theorem stack_allowed hs ar rq st st' tr r :
    default_stack (Some hs) ar transport rq st = (st', tr, r) ->
    Forall (fun q => uri_allowed (Some hs) (rq_uri U q) = true) tr.
  Proof.
    rewrite default_stack_with_list. unfold Resolvers.redirect.
    apply (redirect_loop_only_sends _ _ ar (restricted_only_sends (Some hs)) (S MAX_REDIRECTS)).
  Qed.

  Theorem stack_truncation hs ar rq st :
    (let '(_, tr, r) := default_stack (Some hs) ar transport rq st in (tr, r))
    = truncate (Some hs) (default_stack None ar transport rq st).
  Proof. rewrite default_stack_with_list, default_stack_without_list. apply restricted_is_truncation. Qed.
  Definition credential_names : list bytes :=
    [[97;117;116;104;111;114;105;122;97;116;105;111;110];                       (* authorization *)
     [99;111;111;107;105;101];                                                    (* cookie *)
     [112;114;111;120;121;45;97;117;116;104;111;114;105;122;97;116;105;111;110];  (* proxy-authorization *)
     [104;111;115;116]].                                                          (* host *)

  Lemma credential_names_dropped name : In name credential_names -> In name dropped_headers.
  Proof. unfold credential_names, dropped_headers. cbn [In]. intuition. Qed.

  Theorem stack_headers allow ar rq st st' tr r q :
    default_stack allow ar transport rq st = (st', tr, r) -> In q (tl tr) ->
    (forall name, In name credential_names -> ~ In name (map fst (rq_headers U q)))
    /\ rq_headers U q = filter keep (rq_headers U rq) /\ rq_method U q = rq_method U rq /\ rq_body U q = rq_body U rq.
  Proof.
    intros E I. pose proof (stack_tail _ _ _ _ _ _ _ E) as T.
    rewrite Forall_forall in T. specialize (T q I). split.
    - intros name IN. eapply derived_no_dropped; [exact T | apply credential_names_dropped, IN].
    - destruct T as [M [B [H _]]]. auto.
  Qed.

  Theorem stack_no_internal allow ar rq st st' tr r q :
    default_stack allow ar transport rq st = (st', tr, r) -> In q (tl tr) ->
    host_is_non_global (host_of (rq_uri U q)) = false /\ ~ host_blocked (host_of (rq_uri U q)).
  Proof.
    intros E I. pose proof (stack_tail _ _ _ _ _ _ _ E) as T.
    rewrite Forall_forall in T. destruct (T q I) as [_ [_ [_ G]]]. split; [exact G |].
    intro B. apply host_blocked_iff in B. congruence.
  Qed.
  Theorem stack_allowed_rel hs ar rq st st' tr r :
    default_stack (Some hs) ar transport rq st = (st', tr, r) ->
    Forall (fun q => exists p, In p hs /\ matches_rel p (scheme_of (rq_uri U q)) (host_of (rq_uri U q)) (port_of (rq_uri U q))) tr.
  Proof.
    intro E. apply stack_allowed in E. eapply Forall_impl; [| exact E].
    intros q A. cbv beta in A. unfold Resolvers.uri_allowed in A. apply is_uri_allowed_spec in A. exact A.
  Qed.
End ResolverProofs.
