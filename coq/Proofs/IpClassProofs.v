(* Proofs/IpClassProofs.v — the address classification of sdk/src/http/restricted.rs equals the documented
   CIDR blocks (interval arithmetic, no enumeration of addresses), and host_is_non_global is characterised. *)
From Coq Require Import List NArith Bool Arith Lia ZifyBool ZifyNat ZifyN.
From C2PA Require Import Base.Bytes Model.HostPattern Model.IpPreds Model.IpClass Generated.C27_facts.
Import ListNotations.
Open Scope N_scope.

(* ---- masks: x & (2^w - 2^k) clears the low k bits of a w-bit value ---- *)

Lemma land_himask x w k : k <= w -> x < 2 ^ w -> N.land x (2 ^ w - 2 ^ k) = (x / 2 ^ k) * 2 ^ k.
Proof.
  intros Hk Hx.
  assert (E : 2 ^ w - 2 ^ k = N.shiftl (N.ones (w - k)) k).
  { rewrite N.shiftl_mul_pow2, N.ones_equiv, N.pred_sub, N.mul_sub_distr_r, <- N.pow_add_r.
    replace (w - k + k) with w by lia. lia. }
  rewrite E. apply N.bits_inj. intro i.
  rewrite N.land_spec, <- N.shiftr_div_pow2, <- N.shiftl_mul_pow2.
  destruct (N.ltb_spec i k) as [Hi | Hi].
  - rewrite !N.shiftl_spec_low by exact Hi. apply Bool.andb_false_r.
  - rewrite !N.shiftl_spec_high' by exact Hi. rewrite N.shiftr_spec'.
    replace (i - k + k) with i by lia.
    destruct (N.ltb_spec (i - k) (w - k)) as [Hl | Hl].
    + rewrite N.ones_spec_low by exact Hl. apply Bool.andb_true_r.
    + rewrite N.ones_spec_high by exact Hl. rewrite Bool.andb_false_r. symmetry.
      destruct (N.eq_dec x 0) as [-> | Hx0]; [apply N.bits_0 |].
      apply N.bits_above_log2. apply N.log2_lt_pow2; [lia |].
      eapply N.lt_le_trans; [exact Hx |]. apply N.pow_le_mono_r; lia.
Qed.

(* (x & (2^w - 2^k)) == q * 2^k  is the interval test  q*2^k <= x < (q+1)*2^k *)
Lemma himask_interval x w k q : k <= w -> x < 2 ^ w ->
  (N.land x (2 ^ w - 2 ^ k) = q * 2 ^ k <-> q * 2 ^ k <= x < (q + 1) * 2 ^ k).
Proof.
  intros Hk Hx. rewrite (land_himask x w k Hk Hx).
  assert (P : 0 < 2 ^ k) by (apply N.neq_0_lt_0, N.pow_nonzero; lia).
  pose proof (N.div_mod x (2 ^ k)) as D. pose proof (N.mod_lt x (2 ^ k)) as M.
  split.
  - intro E. apply N.mul_cancel_r in E; [| lia]. subst q. nia.
  - intros [L U]. f_equal. symmetry. apply (N.div_unique x (2 ^ k) q (x - q * 2 ^ k)); nia.
Qed.

(* ---- IPv4 ---- *)

Definition v4_value (a b c d : N) : N := a * 2 ^ 24 + b * 2 ^ 16 + c * 2 ^ 8 + d.

(* membership in base/plen as an interval of 32-bit values *)
Definition cidr (base plen v : N) : Prop := base <= v < base + 2 ^ (32 - plen).

(* the blocks named in the documentation of host_is_non_global / the C27 statement, plus 0.0.0.0/8 *)
Definition v4_blocked (v : N) : Prop :=
     cidr (v4_value 0 0 0 0) 8 v            (* "this network" incl. 0.0.0.0 *)
  \/ cidr (v4_value 10 0 0 0) 8 v           (* private *)
  \/ cidr (v4_value 100 64 0 0) 10 v        (* shared address space / CGNAT *)
  \/ cidr (v4_value 127 0 0 0) 8 v          (* loopback *)
  \/ cidr (v4_value 169 254 0 0) 16 v       (* link local, cloud metadata *)
  \/ cidr (v4_value 172 16 0 0) 12 v        (* private *)
  \/ cidr (v4_value 192 0 2 0) 24 v         (* documentation *)
  \/ cidr (v4_value 192 168 0 0) 16 v       (* private *)
  \/ cidr (v4_value 198 51 100 0) 24 v      (* documentation *)
  \/ cidr (v4_value 203 0 113 0) 24 v       (* documentation *)
  \/ cidr (v4_value 224 0 0 0) 4 v          (* multicast *)
  \/ cidr (v4_value 255 255 255 255) 32 v.  (* broadcast *)

Lemma cgnat_mask b : b < 256 -> (N.land b 192 =? 64) = ((64 <=? b) && (b <? 128)).
Proof.
  intro Hb. pose proof (himask_interval b 8 6 1) as H.
  change (2 ^ 8 - 2 ^ 6) with 192 in H. change (1 * 2 ^ 6) with 64 in H. change ((1 + 1) * 2 ^ 6) with 128 in H.
  change (2 ^ 8) with 256 in H. specialize (H ltac:(lia) Hb).
  destruct (N.eqb_spec (N.land b 192) 64) as [E | E].
  - apply H in E. lia.
  - destruct ((64 <=? b) && (b <? 128)) eqn:B; [| reflexivity]. exfalso. apply E, H. lia.
Qed.

Section V4.
  Variables a b c d : N.
  Hypotheses (Ha : a < 256) (Hb : b < 256) (Hc : c < 256) (Hd : d < 256).
  Let v := a * 16777216 + b * 65536 + c * 256 + d.

  Lemma blk8 A : A < 256 -> (A * 16777216 <= v < A * 16777216 + 16777216 <-> a = A).
  Proof. subst v. intros; split; intros; nia. Qed.
  Lemma blk16 A B : A < 256 -> B < 256 ->
    (A * 16777216 + B * 65536 <= v < A * 16777216 + B * 65536 + 65536 <-> a = A /\ b = B).
  Proof. subst v. intros; split; intros; nia. Qed.
  Lemma blk24 A B C : A < 256 -> B < 256 -> C < 256 ->
    (A * 16777216 + B * 65536 + C * 256 <= v < A * 16777216 + B * 65536 + C * 256 + 256 <-> a = A /\ b = B /\ c = C).
  Proof. subst v. intros; split; intros; nia. Qed.
  Lemma blk32 : (4294967295 <= v < 4294967295 + 1 <-> a = 255 /\ b = 255 /\ c = 255 /\ d = 255).
  Proof. subst v. split; intros; lia. Qed.
  Lemma blk12 : (172 * 16777216 + 16 * 65536 <= v < 172 * 16777216 + 16 * 65536 + 1048576 <-> a = 172 /\ 16 <= b <= 31).
  Proof. subst v. split; intros; lia. Qed.
  Lemma blk10 : (100 * 16777216 + 64 * 65536 <= v < 100 * 16777216 + 64 * 65536 + 4194304 <-> a = 100 /\ 64 <= b < 128).
  Proof. subst v. split; intros; lia. Qed.
  Lemma blk4 : (224 * 16777216 <= v < 224 * 16777216 + 268435456 <-> 224 <= a <= 239).
  Proof. subst v. split; intros; lia. Qed.
End V4.

Theorem ipv4_blocks a b c d : a < 256 -> b < 256 -> c < 256 -> d < 256 ->
  (ipv4_non_global (V4 a b c d) = true <-> v4_blocked (v4_value a b c d)).
Proof.
  intros Ha Hb Hc Hd.
  unfold ipv4_non_global, v4_terms. cbn [existsb eval_v4term eval_v4pred].
  rewrite (cgnat_mask b Hb).
  unfold v4_blocked, cidr, v4_value.
  change (2 ^ 24) with 16777216. change (2 ^ 16) with 65536. change (2 ^ 8) with 256.
  change (2 ^ (32 - 8)) with 16777216. change (2 ^ (32 - 10)) with 4194304. change (2 ^ (32 - 16)) with 65536.
  change (2 ^ (32 - 12)) with 1048576. change (2 ^ (32 - 24)) with 256. change (2 ^ (32 - 4)) with 268435456.
  change (2 ^ (32 - 32)) with 1.
  replace (0 * 16777216 + 0 * 65536 + 0 * 256 + 0) with (0 * 16777216) by reflexivity.
  replace (10 * 16777216 + 0 * 65536 + 0 * 256 + 0) with (10 * 16777216) by reflexivity.
  replace (127 * 16777216 + 0 * 65536 + 0 * 256 + 0) with (127 * 16777216) by reflexivity.
  replace (100 * 16777216 + 64 * 65536 + 0 * 256 + 0) with (100 * 16777216 + 64 * 65536) by reflexivity.
  replace (169 * 16777216 + 254 * 65536 + 0 * 256 + 0) with (169 * 16777216 + 254 * 65536) by reflexivity.
  replace (172 * 16777216 + 16 * 65536 + 0 * 256 + 0) with (172 * 16777216 + 16 * 65536) by reflexivity.
  replace (192 * 16777216 + 168 * 65536 + 0 * 256 + 0) with (192 * 16777216 + 168 * 65536) by reflexivity.
  replace (192 * 16777216 + 0 * 65536 + 2 * 256 + 0) with (192 * 16777216 + 0 * 65536 + 2 * 256) by reflexivity.
  replace (198 * 16777216 + 51 * 65536 + 100 * 256 + 0) with (198 * 16777216 + 51 * 65536 + 100 * 256) by reflexivity.
  replace (203 * 16777216 + 0 * 65536 + 113 * 256 + 0) with (203 * 16777216 + 0 * 65536 + 113 * 256) by reflexivity.
  replace (224 * 16777216 + 0 * 65536 + 0 * 256 + 0) with (224 * 16777216) by reflexivity.
  replace (255 * 16777216 + 255 * 65536 + 255 * 256 + 255) with 4294967295 by reflexivity.
  rewrite !(blk8 a b c d Ha Hb Hc Hd) by lia.
  rewrite !(blk16 a b c d Ha Hb Hc Hd) by lia.
  rewrite !(blk24 a b c d Ha Hb Hc Hd) by lia.
  rewrite (blk32 a b c d Ha Hb Hc Hd), (blk12 a b c d Ha Hb Hc Hd), (blk10 a b c d Ha Hb Hc Hd), (blk4 a b c d Ha Hb Hc Hd).
  rewrite !orb_true_iff, !andb_true_iff, !N.eqb_eq, !N.leb_le, N.ltb_lt.
  intuition discriminate.
Qed.

(* ---- IPv6 ---- *)

Definition v6_mapped (g0 g1 g2 g3 g4 g5 : N) : Prop := g0 = 0 /\ g1 = 0 /\ g2 = 0 /\ g3 = 0 /\ g4 = 0 /\ g5 = 65535.

(* ::, ::1, ff00::/8, fc00::/7, fe80::/10 on the first group (16-bit intervals) and the low groups *)
Definition v6_blocked (g0 g1 g2 g3 g4 g5 g6 g7 : N) : Prop :=
     (g0 = 0 /\ g1 = 0 /\ g2 = 0 /\ g3 = 0 /\ g4 = 0 /\ g5 = 0 /\ g6 = 0 /\ g7 = 0)      (* ::  *)
  \/ (g0 = 0 /\ g1 = 0 /\ g2 = 0 /\ g3 = 0 /\ g4 = 0 /\ g5 = 0 /\ g6 = 0 /\ g7 = 1)      (* ::1 *)
  \/ 65280 <= g0                                                                        (* ff00::/8  *)
  \/ 64512 <= g0 < 65024                                                                (* fc00::/7  *)
  \/ 65152 <= g0 < 65216.                                                               (* fe80::/10 *)

Lemma seg_mask g k q m v : g < 65536 -> k <= 16 -> m = 2 ^ 16 - 2 ^ k -> v = q * 2 ^ k ->
  ((N.land g m =? v) = true <-> q * 2 ^ k <= g < (q + 1) * 2 ^ k).
Proof.
  intros Hg Hk -> ->. rewrite N.eqb_eq. apply himask_interval; [exact Hk | exact Hg].
Qed.

Theorem ipv6_blocks g0 g1 g2 g3 g4 g5 g6 g7 :
  g0 < 65536 -> g1 < 65536 -> g2 < 65536 -> g3 < 65536 -> g4 < 65536 -> g5 < 65536 -> g6 < 65536 -> g7 < 65536 ->
  (ipv6_non_global (V6 g0 g1 g2 g3 g4 g5 g6 g7) = true <->
     (v6_mapped g0 g1 g2 g3 g4 g5 /\ ipv4_non_global (V4 (g6 / 256) (g6 mod 256) (g7 / 256) (g7 mod 256)) = true)
     \/ (~ v6_mapped g0 g1 g2 g3 g4 g5 /\ v6_blocked g0 g1 g2 g3 g4 g5 g6 g7)).
Proof.
  intros H0 H1 H2 H3 H4 H5 H6 H7.
  unfold ipv6_non_global, v6_unwraps_mapped, to_ipv4_mapped, v6_mapped.
  destruct ((g0 =? 0) && (g1 =? 0) && (g2 =? 0) && (g3 =? 0) && (g4 =? 0) && (g5 =? 65535)) eqn:M.
  - rewrite !andb_true_iff, !N.eqb_eq in M. intuition.
  - assert (NM : ~ (g0 = 0 /\ g1 = 0 /\ g2 = 0 /\ g3 = 0 /\ g4 = 0 /\ g5 = 65535)).
    { intro X. rewrite <- not_true_iff_false in M. apply M. rewrite !andb_true_iff, !N.eqb_eq. intuition. }
    unfold v6_terms. cbn [existsb eval_v6term eval_v6pred]. unfold v6_blocked.
    rewrite !orb_true_iff.
    rewrite (seg_mask g0 8 255 65280 65280 H0) by (try reflexivity; lia).
    rewrite (seg_mask g0 9 126 65024 64512 H0) by (try reflexivity; lia).
    rewrite (seg_mask g0 6 1018 65472 65152 H0) by (try reflexivity; lia).
    change (255 * 2 ^ 8) with 65280. change ((255 + 1) * 2 ^ 8) with 65536.
    change (126 * 2 ^ 9) with 64512. change ((126 + 1) * 2 ^ 9) with 65024.
    change (1018 * 2 ^ 6) with 65152. change ((1018 + 1) * 2 ^ 6) with 65216.
    rewrite !andb_true_iff, !N.eqb_eq.
    intuition (try discriminate; try lia).
Qed.

(* mapped addresses take the IPv4 rule, hence the IPv4 blocks *)
Theorem ipv6_mapped_blocks a b c d : a < 256 -> b < 256 -> c < 256 -> d < 256 ->
  (ipv6_non_global (V6 0 0 0 0 0 65535 (a * 256 + b) (c * 256 + d)) = true <-> v4_blocked (v4_value a b c d)).
Proof.
  intros Ha Hb Hc Hd. rewrite <- (ipv4_blocks a b c d Ha Hb Hc Hd).
  assert (E1 : (a * 256 + b) / 256 = a) by (symmetry; apply (N.div_unique _ 256 a b); lia).
  assert (E2 : (a * 256 + b) mod 256 = b) by (symmetry; apply (N.mod_unique _ 256 a b); lia).
  assert (E3 : (c * 256 + d) / 256 = c) by (symmetry; apply (N.div_unique _ 256 c d); lia).
  assert (E4 : (c * 256 + d) mod 256 = d) by (symmetry; apply (N.mod_unique _ 256 c d); lia).
  unfold ipv6_non_global, v6_unwraps_mapped, to_ipv4_mapped.
  change ((0 =? 0) && (0 =? 0) && (0 =? 0) && (0 =? 0) && (0 =? 0) && (65535 =? 65535)) with true.
  cbv iota. rewrite E1, E2, E3, E4. reflexivity.
Qed.
