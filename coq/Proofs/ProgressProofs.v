(* Proofs/ProgressProofs.v — cancellation propagates through every term whose Catch nodes re-raise it (C23). *)
From Coq Require Import List NArith Bool Lia Arith ZifyBool ZifyNat ZifyN.
From C2PA Require Import Model.Progress.
Import ListNotations.
Local Open Scope nat_scope.

Definition quiet (e : env) (tr : list tick) : Prop :=
  Forall (fun t => requested e (t_idx t) = false) tr.

Lemma check_cases e i :
  (check e i = ROk /\ requested e i = false) \/ (check e i = RCancel /\ requested e i = true).
Proof.
  unfold check, requested. destruct (cb e i); cbn; destruct (flag e i); cbn; auto.
Qed.

Lemma quiet_app e a b : quiet e a -> quiet e b -> quiet e (a ++ b).
Proof. unfold quiet. intros. apply Forall_app. auto. Qed.

(* the invariant of a run from callback count i *)
Definition good (e : env) (i : nat) (tr : list tick) (r : result) : Prop :=
  map t_idx tr = seq (S i) (length tr)
  /\ (r = RCancel -> exists tr0 t, tr = tr0 ++ [t] /\ quiet e tr0 /\ requested e (t_idx t) = true)
  /\ (r <> RCancel -> quiet e tr).

Lemma good_nil e i r : r <> RCancel -> good e i [] r.
Proof. intros H. repeat split; intros; try contradiction. constructor. Qed.

Lemma good_tick e i ph s t : good e i [T (S i) ph s t] (check e (S i)).
Proof.
  destruct (check_cases e (S i)) as [[-> Hq] | [-> Hq]]; (split; [reflexivity | split]); intros H; try congruence.
  - constructor; auto.
  - exists [], (T (S i) ph s t). split; [reflexivity | split; [constructor | exact Hq]].
Qed.

Lemma good_seq e i tra trb r :
  good e i tra ROk -> good e (i + length tra) trb r -> good e i (tra ++ trb) r.
Proof.
  intros (Ia & _ & Qa) (Ib & Cb & Qb).
  assert (Hq : quiet e tra) by (apply Qa; congruence).
  repeat split.
  - rewrite map_app, app_length, seq_app, Ia, Ib. reflexivity.
  - intros Hr. destruct (Cb Hr) as (tr0 & t & -> & Q0 & Rt).
    exists (tra ++ tr0), t. rewrite app_assoc. repeat split; auto. apply quiet_app; auto.
  - intros Hr. apply quiet_app; auto.
Qed.

Lemma run_loop_good e ph : forall n step total i tr r,
  run_loop e ph step n total i = (tr, r) -> good e i tr r /\ (r = ROk \/ r = RCancel).
Proof.
  induction n as [|n IH]; cbn [run_loop]; intros step total i tr r H.
  - inversion H; subst. split; [apply good_nil; congruence | auto].
  - destruct (check_cases e (S i)) as [[Hc Hq] | [Hc Hq]]; rewrite Hc in H.
    + destruct (run_loop e ph (step + 1)%N n total (S i)) as [tr' r'] eqn:Hl. inversion H; subst.
      destruct (IH _ _ _ _ _ Hl) as [G Hr]. split; auto.
      change (T (S i) ph (step + 1)%N total :: tr') with ([T (S i) ph (step + 1)%N total] ++ tr').
      apply good_seq.
      * pose proof (good_tick e i ph (step + 1)%N total) as Gt. rewrite Hc in Gt. exact Gt.
      * cbn [length]. replace (i + 1) with (S i) by lia. exact G.
    + inversion H; subst. split; auto.
      pose proof (good_tick e i ph (step + 1)%N total) as Gt. rewrite Hc in Gt. exact Gt.
Qed.

Lemma run_good : forall o, all_pass o = true ->
  forall e i tr lg r, run e o i = (tr, lg, r) -> good e i tr r.
Proof.
  induction o as [ph s t | a IHa b IHb | | c | ph start n total | pass c body IH | body IH];
    cbn [all_pass run]; intros Hp e i tr lg r H.
  - inversion H; subst. apply good_tick.
  - apply andb_prop in Hp as [Ha Hb].
    destruct (run e a i) as [[tra lga] ra] eqn:Ea.
    specialize (IHa Ha _ _ _ _ _ Ea).
    destruct ra.
    + destruct (run e b (i + length tra)) as [[trb lgb] rb] eqn:Eb. inversion H; subst.
      apply good_seq; auto. eapply IHb; eauto.
    + inversion H; subst; auto.
    + inversion H; subst; auto.
  - inversion H; subst. apply good_nil; congruence.
  - inversion H; subst. apply good_nil; congruence.
  - destruct (run_loop e ph start n total i) as [tr' r'] eqn:El. inversion H; subst.
    apply (run_loop_good _ _ _ _ _ _ _ _ El).
  - apply andb_prop in Hp as [Hpass Hb]. subst pass.
    destruct (run e body i) as [[trb lgb] rb] eqn:Eb. specialize (IH Hb _ _ _ _ _ Eb).
    destruct rb; inversion H; subst; auto.
    destruct IH as (I & _ & Q). repeat split; auto; intros; try congruence. apply Q; congruence.
  - destruct (run e body i) as [[trb lgb] rb] eqn:Eb. specialize (IH Hp _ _ _ _ _ Eb).
    destruct rb.
    + destruct (has_failure lgb); inversion H; subst; auto.
      destruct IH as (I & _ & Q). repeat split; auto; intros; try congruence. apply Q; congruence.
    + inversion H; subst; auto.
    + inversion H; subst; auto.
Qed.

(* ---- the property ---- *)

(* a cancellation request at any callback that was made ends the operation with the cancellation error *)
Lemma cancel_propagates : forall o, all_pass o = true ->
  forall e i tr lg r, run e o i = (tr, lg, r) ->
    Exists (fun t => requested e (t_idx t) = true) tr -> r = RCancel.
Proof.
  intros o Hp e i tr lg r H Hex.
  destruct (run_good o Hp e i tr lg r H) as (_ & _ & Q).
  destruct r; auto; exfalso.
  - assert (Hq : quiet e tr) by (apply Q; congruence).
    apply Exists_exists in Hex as (t & Hin & Hr). unfold quiet in Hq. rewrite Forall_forall in Hq.
    rewrite (Hq t Hin) in Hr. discriminate.
  - assert (Hq : quiet e tr) by (apply Q; congruence).
    apply Exists_exists in Hex as (t & Hin & Hr). unfold quiet in Hq. rewrite Forall_forall in Hq.
    rewrite (Hq t Hin) in Hr. discriminate.
Qed.

(* ... at the first such callback: no callback is made after the request *)
Lemma cancel_is_immediate : forall o, all_pass o = true ->
  forall e i tr lg r, run e o i = (tr, lg, r) -> r = RCancel ->
    exists tr0 t, tr = tr0 ++ [t] /\ quiet e tr0 /\ requested e (t_idx t) = true.
Proof.
  intros o Hp e i tr lg r H Hr. destruct (run_good o Hp e i tr lg r H) as (_ & C & _). auto.
Qed.

Lemma run_loop_cancel_last e ph : forall n step total i tr,
  run_loop e ph step n total i = (tr, RCancel) ->
  exists tr0 t, tr = tr0 ++ [t] /\ requested e (t_idx t) = true.
Proof.
  induction n as [|n IH]; cbn [run_loop]; intros step total i tr H.
  - inversion H.
  - destruct (check_cases e (S i)) as [[Hc Hq] | [Hc Hq]]; rewrite Hc in H.
    + destruct (run_loop e ph (step + 1)%N n total (S i)) as [tr' r'] eqn:Hl. inversion H; subst.
      destruct (IH _ _ _ _ Hl) as (tr0 & t & -> & Hr).
      exists (T (S i) ph (step + 1)%N total :: tr0), t. split; auto.
    + inversion H; subst. exists [], (T (S i) ph (step + 1)%N total). split; auto.
Qed.

(* no spurious cancellation, for every term (also those that swallow): the cancellation error is only
   returned right after a callback at which cancellation was requested *)
Lemma cancel_only_on_request : forall o e i tr lg,
  run e o i = (tr, lg, RCancel) ->
  exists tr0 t, tr = tr0 ++ [t] /\ requested e (t_idx t) = true.
Proof.
  induction o as [ph s t | a IHa b IHb | | c | ph start n total | pass c body IH | body IH];
    cbn [run]; intros e i tr lg H.
  - inversion H; subst. destruct (check_cases e (S i)) as [[Hc Hq] | [Hc Hq]]; try congruence.
    exists [], (T (S i) ph s t). split; auto.
  - destruct (run e a i) as [[tra lga] ra] eqn:Ea. destruct ra.
    + destruct (run e b (i + length tra)) as [[trb lgb] rb] eqn:Eb. inversion H; subst.
      destruct (IHb _ _ _ _ Eb) as (tr0 & t & -> & Hr). exists (tra ++ tr0), t. rewrite app_assoc. auto.
    + inversion H; subst. eapply IHa; eauto.
    + inversion H.
  - inversion H.
  - inversion H.
  - destruct (run_loop e ph start n total i) as [tr' r'] eqn:El. inversion H; subst.
    eapply run_loop_cancel_last; eauto.
  - destruct (run e body i) as [[trb lgb] rb] eqn:Eb. destruct rb; try (inversion H; fail).
    destruct pass; inversion H; subst. eapply IH; eauto.
  - destruct (run e body i) as [[trb lgb] rb] eqn:Eb. destruct rb.
    + destruct (has_failure lgb); inversion H.
    + inversion H; subst. eapply IH; eauto.
    + inversion H.
Qed.

(* ---- the run only looks at the environment at the callbacks it makes ---- *)

Definition agree_on (e1 e2 : env) (lo hi : nat) : Prop :=
  forall j, lo < j <= hi -> cb e1 j = cb e2 j /\ flag e1 j = flag e2 j.

Lemma check_agree e1 e2 j : cb e1 j = cb e2 j -> flag e1 j = flag e2 j -> check e2 j = check e1 j.
Proof. unfold check. intros -> ->. reflexivity. Qed.

Lemma run_loop_agree e1 e2 ph : forall n step total i tr r,
  run_loop e1 ph step n total i = (tr, r) -> agree_on e1 e2 i (i + length tr) ->
  run_loop e2 ph step n total i = (tr, r).
Proof.
  induction n as [|n IH]; cbn [run_loop]; intros step total i tr r H A; auto.
  destruct (check e1 (S i)) eqn:Hc.
  - destruct (run_loop e1 ph (step + 1)%N n total (S i)) as [tr' r'] eqn:Hl. inversion H; subst.
    cbn [length] in A.
    destruct (A (S i)) as [A1 A2]; [lia|]. rewrite (check_agree e1 e2 _ A1 A2), Hc.
    rewrite (IH _ _ _ _ _ Hl); auto. intros j Hj. apply A. lia.
  - inversion H; subst. cbn [length] in A. destruct (A (S i)) as [A1 A2]; [lia|].
    rewrite (check_agree e1 e2 _ A1 A2), Hc. reflexivity.
  - inversion H; subst. cbn [length] in A. destruct (A (S i)) as [A1 A2]; [lia|].
    rewrite (check_agree e1 e2 _ A1 A2), Hc. reflexivity.
Qed.

Lemma run_agree e1 e2 : forall o i tr lg r,
  run e1 o i = (tr, lg, r) -> agree_on e1 e2 i (i + length tr) -> run e2 o i = (tr, lg, r).
Proof.
  induction o as [ph s t | a IHa b IHb | | c | ph start n total | pass c body IH | body IH];
    cbn [run]; intros i tr lg r H A; auto.
  - inversion H; subst. cbn [length] in A. destruct (A (S i)) as [A1 A2]; [lia|].
    rewrite (check_agree e1 e2 _ A1 A2). reflexivity.
  - destruct (run e1 a i) as [[tra lga] ra] eqn:Ea. destruct ra.
    + destruct (run e1 b (i + length tra)) as [[trb lgb] rb] eqn:Eb. inversion H; subst.
      rewrite app_length in A.
      rewrite (IHa _ _ _ _ Ea) by (intros j Hj; apply A; lia).
      rewrite (IHb _ _ _ _ Eb) by (intros j Hj; apply A; lia). reflexivity.
    + inversion H; subst. rewrite (IHa _ _ _ _ Ea); auto.
    + inversion H; subst. rewrite (IHa _ _ _ _ Ea); auto.
  - destruct (run_loop e1 ph start n total i) as [tr' r'] eqn:El. inversion H; subst.
    rewrite (run_loop_agree e1 e2 ph _ _ _ _ _ _ El); auto.
  - destruct (run e1 body i) as [[trb lgb] rb] eqn:Eb.
    assert (length tr = length trb) as L by (destruct rb; [|destruct pass|]; inversion H; subst; auto).
    rewrite (IH _ _ _ _ Eb) by (rewrite <- L; auto). exact H.
  - destruct (run e1 body i) as [[trb lgb] rb] eqn:Eb.
    assert (length tr = length trb) as L
      by (destruct rb; [destruct (has_failure lgb)| |]; inversion H; subst; auto).
    rewrite (IH _ _ _ _ Eb) by (rewrite <- L; auto). exact H.
Qed.

(* ---- cancelling at the k-th callback of an uncancelled run: the trace is cut after k callbacks ---- *)

Definition first_request (e : env) (k : nat) : Prop :=
  (forall j, j < k -> cb e j = true /\ flag e j = false) /\ requested e k = true.

Lemma never_agree e k lo hi : first_request e k -> hi < k -> agree_on never e lo hi.
Proof. intros [Hq _] Hk j Hj. destruct (Hq j) as [-> ->]; [lia|]. cbn. auto. Qed.

Lemma check_request e k : first_request e k -> check e k = RCancel.
Proof. intros [_ Hr]. destruct (check_cases e k) as [[_ Hq] | [Hc _]]; congruence. Qed.

Lemma check_never i : check never i = ROk.
Proof. reflexivity. Qed.

Lemma run_loop_cut e2 ph k : first_request e2 k -> forall n step total i tr r,
  run_loop never ph step n total i = (tr, r) -> i < k <= i + length tr ->
  run_loop e2 ph step n total i = (firstn (k - i) tr, RCancel).
Proof.
  intros F. induction n as [|n IH]; cbn [run_loop]; intros step total i tr r H K.
  - inversion H; subst. cbn in K. lia.
  - rewrite check_never in H.
    destruct (run_loop never ph (step + 1)%N n total (S i)) as [tr' r'] eqn:Hl. inversion H; subst.
    cbn [length] in K.
    destruct (Nat.eq_dec k (S i)) as [-> | Hne].
    + rewrite (check_request _ _ F). replace (S i - i) with 1 by lia. reflexivity.
    + assert (A : agree_on never e2 i (S i)) by (eapply never_agree; eauto; lia).
      destruct (A (S i)) as [A1 A2]; [lia|].
      rewrite (check_agree never e2 _ A1 A2), check_never.
      rewrite (IH _ _ _ _ _ Hl) by lia.
      replace (k - i) with (S (k - S i)) by lia. reflexivity.
Qed.

Lemma cancel_cut e2 k : first_request e2 k -> forall o, all_pass o = true ->
  forall i tr lg r, run never o i = (tr, lg, r) -> i < k <= i + length tr ->
  exists lg', run e2 o i = (firstn (k - i) tr, lg', RCancel).
Proof.
  intros F.
  induction o as [ph s t | a IHa b IHb | | c | ph start n total | pass c body IH | body IH];
    cbn [all_pass run]; intros Hp i tr lg r H K.
  - inversion H; subst. cbn [length] in K. assert (k = S i) as -> by lia.
    rewrite (check_request _ _ F). replace (S i - i) with 1 by lia. eexists; reflexivity.
  - apply andb_prop in Hp as [Ha Hb].
    destruct (run never a i) as [[tra lga] ra] eqn:Ea.
    destruct (le_lt_dec k (i + length tra)) as [Hin | Hout].
    + (* the request falls inside a *)
      destruct (IHa Ha _ _ _ _ Ea) as [lg' E2]; [lia|]. rewrite E2. exists lg'.
      destruct ra.
      * destruct (run never b (i + length tra)) as [[trb lgb] rb] eqn:Eb. inversion H; subst.
        rewrite firstn_app. replace (k - i - length tra) with 0 by lia. cbn [firstn]. rewrite app_nil_r. reflexivity.
      * inversion H; subst. reflexivity.
      * inversion H; subst. reflexivity.
    + destruct ra; try (inversion H; subst; lia).
      destruct (run never b (i + length tra)) as [[trb lgb] rb] eqn:Eb. inversion H; subst.
      rewrite app_length in K.
      rewrite (run_agree never e2 a _ _ _ _ Ea) by (eapply never_agree; eauto).
      destruct (IHb Hb _ _ _ _ Eb) as [lg' E2]; [lia|]. rewrite E2. eexists.
      rewrite firstn_app, (@firstn_all2 _ (k - i) tra) by lia.
      replace (k - i - length tra) with (k - (i + length tra)) by lia. reflexivity.
  - inversion H; subst. cbn in K. lia.
  - inversion H; subst. cbn in K. lia.
  - destruct (run_loop never ph start n total i) as [tr' r'] eqn:El. inversion H; subst.
    rewrite (run_loop_cut e2 ph k F _ _ _ _ _ _ El K). eexists; reflexivity.
  - apply andb_prop in Hp as [Hpass Hb]. subst pass.
    destruct (run never body i) as [[trb lgb] rb] eqn:Eb.
    assert (tr = trb) as -> by (destruct rb; inversion H; subst; auto).
    destruct (IH Hb _ _ _ _ Eb K) as [lg' E2]. rewrite E2. eexists; reflexivity.
  - destruct (run never body i) as [[trb lgb] rb] eqn:Eb.
    assert (tr = trb) as -> by (destruct rb; [destruct (has_failure lgb)| |]; inversion H; subst; auto).
    destruct (IH Hp _ _ _ _ Eb K) as [lg' E2]. rewrite E2. eexists; reflexivity.
Qed.

Lemma cb_false_at_first k : 1 <= k -> first_request (cb_false_at k) k.
Proof.
  intros Hk. split.
  - intros j Hj. cbn. split; auto. destruct (Nat.eqb_spec j k); auto; lia.
  - unfold requested. cbn. rewrite Nat.eqb_refl. reflexivity.
Qed.

Lemma flag_from_first k : 1 <= k -> first_request (flag_from k) k.
Proof.
  intros Hk. split.
  - intros j Hj. cbn. split; auto. apply Nat.leb_gt. lia.
  - unfold requested. cbn. rewrite Nat.leb_refl. reflexivity.
Qed.

(* the statement of the correspondence run: for every k up to the number of callbacks of the uncancelled
   run, answering false at the k-th callback (or setting the flag by then) ends with the cancellation error
   after exactly the first k callbacks of the uncancelled run *)
Lemma cancel_at_every_k : forall o, all_pass o = true ->
  forall tr lg r, run never o 0 = (tr, lg, r) ->
  forall k, 1 <= k <= length tr ->
    (exists lg', run (cb_false_at k) o 0 = (firstn k tr, lg', RCancel)) /\
    (exists lg', run (flag_from k) o 0 = (firstn k tr, lg', RCancel)).
Proof.
  intros o Hp tr lg r H k K. split.
  - destruct (cancel_cut _ k (cb_false_at_first k (proj1 K)) o Hp 0 tr lg r H) as [lg' E]; [lia|].
    rewrite Nat.sub_0_r in E. eauto.
  - destruct (cancel_cut _ k (flag_from_first k (proj1 K)) o Hp 0 tr lg r H) as [lg' E]; [lia|].
    rewrite Nat.sub_0_r in E. eauto.
Qed.

(* ---- the pipelines ---- *)

Definition all_flags (f : cflags) : bool :=
  hash_arms_pass f && ocsp_fetch_pass f && ingredient_status_pass f.

Lemma ocsp_fetch_pass_ok f oc : ocsp_fetch_pass f = true -> all_pass (ocsp_fetch f oc) = true.
Proof. intros H. cbn. rewrite H. reflexivity. Qed.

Lemma verify_claim_pass f oc : ocsp_fetch_pass f = true -> all_pass (verify_claim f oc) = true.
Proof. intros H. cbn. rewrite H. reflexivity. Qed.

Lemma ing_body_pass f : ocsp_fetch_pass f = true -> forall k, all_pass (ing_body f k) = true.
Proof.
  intros H.
  fix IH 1. intros [|oc first kids]; cbn [ing_body all_pass]; auto.
  rewrite (verify_claim_pass f oc H). cbn [andb].
  destruct first; auto.
  generalize 0%N. generalize (N.of_nat (length kids)). induction kids as [|x r IHr]; intros tot st; cbn [all_pass]; auto.
  rewrite (IH x), IHr. reflexivity.
Qed.

Lemma ing_checks_pass f : ocsp_fetch_pass f = true ->
  forall l total step, all_pass (ing_checks f total l step) = true.
Proof.
  intros H. induction l as [|x r IH]; intros total step; cbn [ing_checks all_pass]; auto.
  rewrite (ing_body_pass f H x), IH. reflexivity.
Qed.

Lemma hash_segs_pass ph running : forall segs start, all_pass (hash_segs ph running segs start) = true.
Proof. induction segs as [|[n t] r IH]; intros start; cbn; auto. Qed.

Lemma verify_store_pass f v : hash_arms_pass f = true -> ocsp_fetch_pass f = true ->
  all_pass (verify_store f v) = true.
Proof.
  intros Hh Ho. unfold verify_store. cbn [all_pass].
  rewrite (verify_claim_pass f _ Ho), (ing_checks_pass f Ho). cbn [andb].
  destruct (v_hash v); cbn [all_pass verify_hash_binding]; auto.
  rewrite Hh. unfold hash_ticks. rewrite hash_segs_pass. reflexivity.
Qed.

Lemma read_stream_pass f remote v : hash_arms_pass f = true -> ocsp_fetch_pass f = true ->
  all_pass (read_stream f remote v) = true.
Proof.
  intros Hh Ho. unfold read_stream. cbn [all_pass]. rewrite (verify_store_pass f v Hh Ho).
  destruct remote; reflexivity.
Qed.

Lemma ingredient_import_pass f remote v : all_flags f = true -> all_pass (ingredient_import f remote v) = true.
Proof.
  unfold all_flags. intros H. apply andb_prop in H as [H Hi]. apply andb_prop in H as [Hh Ho].
  unfold ingredient_import. cbn [all_pass]. rewrite Hi, (verify_store_pass f v Hh Ho).
  destruct remote; reflexivity.
Qed.

Lemma opt_hash_pass ph h : all_pass (opt_hash ph h) = true.
Proof. destruct h; cbn; auto. apply hash_segs_pass. Qed.

Lemma sign_stream_pass f s : hash_arms_pass f = true -> ocsp_fetch_pass f = true ->
  all_pass (sign_stream f s) = true.
Proof.
  intros Hh Ho. unfold sign_stream. cbn [all_pass]. rewrite !opt_hash_pass.
  destruct (s_thumbnail s); cbn [all_pass andb];
    (destruct (s_verify s); cbn [all_pass]; [apply verify_store_pass; auto | reflexivity]).
Qed.

Lemma sign_embeddable_pass f h v : hash_arms_pass f = true -> ocsp_fetch_pass f = true ->
  all_pass (sign_embeddable f h v) = true.
Proof.
  intros Hh Ho. unfold sign_embeddable, hash_ticks. cbn [all_pass]. rewrite hash_segs_pass.
  destruct v; cbn [all_pass andb]; [apply verify_store_pass; auto | reflexivity].
Qed.

(* ---- the pipelines as they are today: the hash-binding arms swallow the cancellation ---- *)

(* reading CA.jpg: one ingredient without a manifest, data hash verified in 2 callbacks *)
Definition ca_jpg : vshape := VS (0, 0%N) [ILeaf] (Some (false, [(2, 2%N)])).

Definition swallowed (f : cflags) (o : op) : Prop :=
  exists e k tr lg, run e o 0 = (tr, lg, ROk) /\ In CHashMismatch lg /\
                    Exists (fun t => t_idx t = k /\ requested e k = true) tr.

Lemma read_refuted f : hash_arms_pass f = false ->
  exists k tr lg,
    run (cb_false_at k) (read_stream f false ca_jpg) 0 = (tr, lg, ROk) /\ lg = [CHashMismatch] /\
    length tr = k /\ k = 5 /\
    run (flag_from 6) (read_stream f false ca_jpg) 0
      = (fst (fst (run never (read_stream f false ca_jpg) 0)), [CHashMismatch], ROk).
Proof.
  intros H. exists 5. destruct f as [h o g]. cbn in H. subst h.
  destruct o; vm_compute; eexists; eexists; repeat split.
Qed.

(* signing with verify_after_sign(+hash): the cancellation comes back as Error::InvalidManifest *)
Definition sign_c_jpg : sshape :=
  SS true None (Some (false, [(2, 2%N)])) (Some (VS (0, 0%N) [] (Some (false, [(2, 2%N)])))).

Lemma sign_refuted f : hash_arms_pass f = false ->
  exists tr lg, run (cb_false_at 10) (sign_stream f sign_c_jpg) 0 = (tr, lg, RErr CInvalidManifest)
                /\ length tr = 10.
Proof.
  intros H. destruct f as [h o g]. cbn in H. subst h. destruct o; vm_compute; eexists; eexists; split; reflexivity.
Qed.

(* ingredient import: any cancellation after the first checkpoint is turned into the ingredient's status *)
Lemma ingredient_refuted f : ingredient_status_pass f = false ->
  forall k, 2 <= k <= 6 ->
  exists tr lg, run (cb_false_at k) (ingredient_import f false ca_jpg) 0 = (tr, lg, ROk) /\ length tr = k.
Proof.
  intros H k K. destruct f as [h o g]. cbn in H. subst g.
  assert (k = 2 \/ k = 3 \/ k = 4 \/ k = 5 \/ k = 6) as [-> | [-> | [-> | [-> | ->]]]] by lia;
    destruct h, o; vm_compute; eexists; eexists; split; reflexivity.
Qed.

(* the OCSP fetch loop: `.ok()?` turns the cancellation into "OCSP inaccessible" and validation goes on *)
Lemma ocsp_refuted f : ocsp_fetch_pass f = false ->
  exists tr lg, run (cb_false_at 3) (read_stream f false (VS (1, 1%N) [] None)) 0 = (tr, lg, ROk)
                /\ lg = [COcspInaccessible] /\ length tr = 4.
Proof.
  intros H. destruct f as [h o g]. cbn in H. subst o. destruct h; vm_compute; eexists; eexists; repeat split.
Qed.

(* ---- the pipelines with the catch sites as they are (flags regenerated from the source) ---- *)

Lemma read_status f :
  if hash_arms_pass f && ocsp_fetch_pass f
  then forall remote v e tr lg r, run e (read_stream f remote v) 0 = (tr, lg, r) ->
         Exists (fun t => requested e (t_idx t) = true) tr -> r = RCancel
  else (hash_arms_pass f = false ->
          exists k tr lg,
            run (cb_false_at k) (read_stream f false ca_jpg) 0 = (tr, lg, ROk) /\ lg = [CHashMismatch] /\
            length tr = k /\ k = 5 /\
            run (flag_from 6) (read_stream f false ca_jpg) 0
              = (fst (fst (run never (read_stream f false ca_jpg) 0)), [CHashMismatch], ROk))
       /\ (ocsp_fetch_pass f = false ->
          exists tr lg, run (cb_false_at 3) (read_stream f false (VS (1, 1%N) [] None)) 0 = (tr, lg, ROk)
                        /\ lg = [COcspInaccessible] /\ length tr = 4).
Proof.
  destruct (hash_arms_pass f && ocsp_fetch_pass f) eqn:E.
  - apply andb_prop in E as [Hh Ho]. intros remote v e tr lg r H.
    exact (cancel_propagates _ (read_stream_pass _ remote v Hh Ho) e 0 tr lg r H).
  - split; [exact (read_refuted f) | exact (ocsp_refuted f)].
Qed.

Lemma sign_status f :
  if hash_arms_pass f && ocsp_fetch_pass f
  then forall s e tr lg r, run e (sign_stream f s) 0 = (tr, lg, r) ->
         Exists (fun t => requested e (t_idx t) = true) tr -> r = RCancel
  else hash_arms_pass f = false ->
         exists tr lg, run (cb_false_at 10) (sign_stream f sign_c_jpg) 0 = (tr, lg, RErr CInvalidManifest)
                       /\ length tr = 10.
Proof.
  destruct (hash_arms_pass f && ocsp_fetch_pass f) eqn:E.
  - apply andb_prop in E as [Hh Ho]. intros s e tr lg r H.
    exact (cancel_propagates _ (sign_stream_pass _ s Hh Ho) e 0 tr lg r H).
  - exact (sign_refuted f).
Qed.

Lemma ingredient_status f :
  if all_flags f
  then forall remote v e tr lg r, run e (ingredient_import f remote v) 0 = (tr, lg, r) ->
         Exists (fun t => requested e (t_idx t) = true) tr -> r = RCancel
  else ingredient_status_pass f = false ->
         forall k, 2 <= k <= 6 ->
         exists tr lg, run (cb_false_at k) (ingredient_import f false ca_jpg) 0 = (tr, lg, ROk) /\ length tr = k.
Proof.
  destruct (all_flags f) eqn:E.
  - intros remote v e tr lg r H.
    exact (cancel_propagates _ (ingredient_import_pass _ remote v E) e 0 tr lg r H).
  - exact (ingredient_refuted f).
Qed.

(* ---- step / total well-formedness ---- *)

Lemma runs_increase_cons a b l :
  runs_increase (a :: b :: l)
  = (if phase_eqb (t_phase a) (t_phase b) then (t_step a <? t_step b)%N else true) && runs_increase (b :: l).
Proof. reflexivity. Qed.

Lemma run_loop_steps e ph : forall n step total i tr r,
  run_loop e ph step n total i = (tr, r) ->
  Forall (fun t => t_phase t = ph /\ t_total t = total /\ (step < t_step t)%N /\ (t_step t <= step + N.of_nat n)%N) tr
  /\ runs_increase tr = true.
Proof.
  induction n as [|n IH]; cbn [run_loop]; intros step total i tr r H.
  - inversion H; subst. split; constructor.
  - destruct (check e (S i)).
    + destruct (run_loop e ph (step + 1)%N n total (S i)) as [tr' r'] eqn:Hl. inversion H; subst.
      destruct (IH _ _ _ _ _ Hl) as [F R]. split.
      * constructor; [cbn; repeat split; lia|].
        eapply Forall_impl; [|exact F]. cbn. intros t (? & ? & ? & ?). repeat split; auto; lia.
      * destruct tr' as [|b tr'']; auto. rewrite runs_increase_cons, R.
        pose proof (Forall_inv F) as (Hp & _ & Hs & _). cbn [t_phase t_step].
        rewrite Hp. replace (phase_eqb ph ph) with true by (destruct ph; reflexivity).
        apply andb_true_intro. split; auto. apply N.ltb_lt. lia.
    + inversion H; subst. split; [constructor; [cbn; repeat split; lia | constructor] | reflexivity].
    + inversion H; subst. split; [constructor; [cbn; repeat split; lia | constructor] | reflexivity].
Qed.

Lemma loop_trace_ok e ph start n total i tr lg r :
  run e (Loop ph start n total) i = (tr, lg, r) ->
  (total = 0 \/ start + N.of_nat n <= total)%N -> trace_ok tr = true.
Proof.
  cbn [run]. destruct (run_loop e ph start n total i) as [tr' r'] eqn:El. intros H Ht. inversion H; subst.
  destruct (run_loop_steps e ph _ _ _ _ _ _ El) as [F R]. unfold trace_ok. rewrite R, andb_true_r.
  apply forallb_forall. intros t Hin. rewrite Forall_forall in F. destruct (F t Hin) as (_ & Htot & Hlo & Hhi).
  unfold tick_ok. rewrite Htot. apply andb_true_intro. split.
  - apply N.leb_le. lia.
  - destruct Ht as [-> | Ht]; [reflexivity|]. apply orb_true_intro. right. apply N.leb_le. lia.
Qed.

(* a hashing phase made of several inner calls that each restart at 1 (box hashing) does not satisfy it *)
Lemma boxhash_steps_refuted :
  exists tr lg, run never (hash_ticks Hashing (false, [(1, 1%N); (1, 1%N)])) 0 = (tr, lg, ROk)
                /\ trace_ok tr = false.
Proof. vm_compute. eexists; eexists; split; reflexivity. Qed.

(* ---- operations that issue no OCSP fetch: the OCSP catch site is never entered, so its flag is irrelevant ---- *)

Fixpoint itree_ocsp_free (k : itree) : bool :=
  match k with
  | ILeaf => true
  | INode oc _ kids => Nat.eqb (fst oc) 0 && forallb itree_ocsp_free kids
  end.

Definition vshape_ocsp_free (v : vshape) : bool :=
  Nat.eqb (fst (v_ocsp v)) 0 && forallb itree_ocsp_free (v_kids v).

Definition with_ocsp (f : cflags) : cflags := CF (hash_arms_pass f) true (ingredient_status_pass f).

Definition same_run (a b : op) : Prop := forall e i, run e a i = run e b i.

Lemma same_run_refl a : same_run a a.
Proof. intros e i. reflexivity. Qed.

Lemma same_run_seq a a' b b' : same_run a a' -> same_run b b' -> same_run (Seq a b) (Seq a' b').
Proof. intros Ha Hb e i. cbn [run]. rewrite (Ha e i). destruct (run e a' i) as [[tr lg] [| |c]]; auto. rewrite (Hb e). reflexivity. Qed.

Lemma same_run_catch p c a a' : same_run a a' -> same_run (Catch p c a) (Catch p c a').
Proof. intros Ha e i. cbn [run]. rewrite (Ha e i). reflexivity. Qed.

Lemma same_run_strict a a' : same_run a a' -> same_run (Strict a) (Strict a').
Proof. intros Ha e i. cbn [run]. rewrite (Ha e i). reflexivity. Qed.

Lemma verify_claim_free f oc : Nat.eqb (fst oc) 0 = true -> same_run (verify_claim f oc) (verify_claim (with_ocsp f) oc).
Proof.
  destruct oc as [n t]. cbn [fst]. intros H. apply Nat.eqb_eq in H. subst n.
  intros e i. reflexivity.
Qed.

Lemma ing_body_free f : forall k, itree_ocsp_free k = true -> same_run (ing_body f k) (ing_body (with_ocsp f) k).
Proof.
  fix IH 1. intros [|oc first kids]; cbn [ing_body itree_ocsp_free]; intros H.
  - apply same_run_refl.
  - apply andb_prop in H as [Hoc Hk].
    apply same_run_seq; [apply verify_claim_free; auto|].
    destruct first; [|apply same_run_refl].
    generalize 0%N. generalize (N.of_nat (length kids)).
    induction kids as [|x r IHr]; intros tot st.
    + apply same_run_refl.
    + cbn [forallb] in Hk. apply andb_prop in Hk as [Hx Hr].
      apply same_run_seq; [apply same_run_refl|].
      apply same_run_seq; [apply IH; auto | apply IHr; auto].
Qed.

Lemma ing_checks_free f : forall l total step, forallb itree_ocsp_free l = true ->
  same_run (ing_checks f total l step) (ing_checks (with_ocsp f) total l step).
Proof.
  induction l as [|x r IH]; intros total step H; cbn [ing_checks].
  - apply same_run_refl.
  - cbn [forallb] in H. apply andb_prop in H as [Hx Hr].
    apply same_run_seq; [apply same_run_refl|].
    apply same_run_seq; [apply ing_body_free; auto | apply IH; auto].
Qed.

Lemma verify_store_free f v : vshape_ocsp_free v = true -> same_run (verify_store f v) (verify_store (with_ocsp f) v).
Proof.
  unfold vshape_ocsp_free. intros H. apply andb_prop in H as [Hoc Hk]. unfold verify_store.
  apply same_run_seq; [apply same_run_refl|].
  apply same_run_seq; [apply verify_claim_free; auto|].
  apply same_run_seq; [apply ing_checks_free; auto|].
  destruct (v_hash v); apply same_run_refl.
Qed.

Definition opt_free (v : option vshape) : bool := match v with Some v => vshape_ocsp_free v | None => true end.

(* with the hash-binding and ingredient sites passing the cancellation on, every operation that issues no
   OCSP fetch propagates it, whatever the OCSP site does *)
Lemma no_ocsp_propagates f : hash_arms_pass f = true -> ingredient_status_pass f = true ->
  forall o,
    (exists remote v, vshape_ocsp_free v = true /\ (o = read_stream f remote v \/ o = read_sidecar f v \/ o = ingredient_import f remote v)) \/
    (exists s, opt_free (s_verify s) = true /\ o = sign_stream f s) \/
    (exists h v, opt_free v = true /\ o = sign_embeddable f h v) ->
  forall e tr lg r, run e o 0 = (tr, lg, r) ->
    Exists (fun t => requested e (t_idx t) = true) tr -> r = RCancel.
Proof.
  intros Hh Hi o Ho e tr lg r H.
  assert (Hf : all_flags (with_ocsp f) = true) by (unfold all_flags, with_ocsp; cbn; rewrite Hh, Hi; reflexivity).
  assert (Hh' : hash_arms_pass (with_ocsp f) = true) by (cbn; auto).
  assert (Ho' : ocsp_fetch_pass (with_ocsp f) = true) by reflexivity.
  destruct Ho as [(remote & v & Hv & [-> | [-> | ->]]) | [(s & Hs & ->) | (h & v & Hv & ->)]].
  - assert (S : same_run (read_stream f remote v) (read_stream (with_ocsp f) remote v)).
    { unfold read_stream. apply same_run_seq; [apply same_run_refl|]. apply same_run_seq; [apply same_run_refl|]. apply verify_store_free; auto. }
    rewrite (S e 0) in H. exact (cancel_propagates _ (read_stream_pass _ remote v Hh' Ho') e 0 tr lg r H).
  - unfold read_sidecar in H. rewrite (verify_store_free f v Hv e 0) in H.
    exact (cancel_propagates _ (verify_store_pass _ v Hh' Ho') e 0 tr lg r H).
  - assert (S : same_run (ingredient_import f remote v) (ingredient_import (with_ocsp f) remote v)).
    { unfold ingredient_import. apply same_run_seq; [apply same_run_refl|]. cbn [with_ocsp ingredient_status_pass].
      apply same_run_catch. apply same_run_seq; [apply same_run_refl|]. apply verify_store_free; auto. }
    rewrite (S e 0) in H. exact (cancel_propagates _ (ingredient_import_pass _ remote v Hf) e 0 tr lg r H).
  - assert (S : same_run (sign_stream f s) (sign_stream (with_ocsp f) s)).
    { unfold sign_stream. repeat (apply same_run_seq; [apply same_run_refl|]).
      destruct (s_verify s) as [v|]; [|apply same_run_refl]. apply same_run_strict. apply verify_store_free; auto. }
    rewrite (S e 0) in H. exact (cancel_propagates _ (sign_stream_pass _ s Hh' Ho') e 0 tr lg r H).
  - assert (S : same_run (sign_embeddable f h v) (sign_embeddable (with_ocsp f) h v)).
    { unfold sign_embeddable. repeat (apply same_run_seq; [apply same_run_refl|]).
      destruct v as [v|]; [|apply same_run_refl]. apply same_run_strict. apply verify_store_free; auto. }
    rewrite (S e 0) in H. exact (cancel_propagates _ (sign_embeddable_pass _ h v Hh' Ho') e 0 tr lg r H).
Qed.

Lemma no_ocsp_status f :
  if hash_arms_pass f && ingredient_status_pass f
  then forall o,
    (exists remote v, vshape_ocsp_free v = true /\ (o = read_stream f remote v \/ o = read_sidecar f v \/ o = ingredient_import f remote v)) \/
    (exists s, opt_free (s_verify s) = true /\ o = sign_stream f s) \/
    (exists h v, opt_free v = true /\ o = sign_embeddable f h v) ->
    forall e tr lg r, run e o 0 = (tr, lg, r) ->
      Exists (fun t => requested e (t_idx t) = true) tr -> r = RCancel
  else True.
Proof.
  destruct (hash_arms_pass f && ingredient_status_pass f) eqn:E; [|exact I].
  apply andb_prop in E as [Hh Hi]. exact (no_ocsp_propagates f Hh Hi).
Qed.
