(* Proofs/CborProofs.v — facts about the CBOR size arithmetic of Base/Cbor.v. *)
From Coq Require Import List NArith ZArith Bool Lia ZifyBool ZifyNat ZifyN.
From C2PA Require Import Base.Cbor.
Import ListNotations.
Open Scope N_scope.
Arguments N.add : simpl never.
Arguments N.sub : simpl never.
Arguments N.eqb : simpl never.
Arguments N.ltb : simpl never.
Arguments N.leb : simpl never.

Lemma hdr_cases : forall n,
  (n < 24 /\ hdr n = 1) \/ (24 <= n < 256 /\ hdr n = 2) \/ (256 <= n < 65536 /\ hdr n = 3)
  \/ (65536 <= n < 4294967296 /\ hdr n = 5) \/ (4294967296 <= n /\ hdr n = 9).
Proof.
  intros n. unfold hdr.
  destruct (n <? 24) eqn:?; [lia|].
  destruct (n <? 256) eqn:?; [lia|].
  destruct (n <? 65536) eqn:?; [lia|].
  destruct (n <? 4294967296) eqn:?; lia.
Qed.

(* usable by lia: pose the case split for a term *)
Ltac hdr_split n := pose proof (hdr_cases n).

Lemma hdr_range : forall n, 1 <= hdr n <= 9.
Proof. intros n. hdr_split n. lia. Qed.

Lemma hdr_mono : forall a b, a <= b -> hdr a <= hdr b.
Proof. intros a b H. hdr_split a. hdr_split b. lia. Qed.

Lemma hdr_jumps :
  hdr 23 = 1 /\ hdr 24 = 2 /\ hdr 255 = 2 /\ hdr 256 = 3 /\ hdr 65535 = 3 /\ hdr 65536 = 5
  /\ hdr 4294967295 = 5 /\ hdr 4294967296 = 9.
Proof. vm_compute. repeat split; reflexivity. Qed.

Lemma bstr_strict_mono : forall a b, a < b -> bstr_size a < bstr_size b.
Proof. intros a b H. unfold bstr_size. pose proof (hdr_mono a b). lia. Qed.

Lemma bstr_mono : forall a b, a <= b -> bstr_size a <= bstr_size b.
Proof. intros a b H. unfold bstr_size. pose proof (hdr_mono a b). lia. Qed.

Lemma bstr_gt : forall p, p < bstr_size p.
Proof. intros p. unfold bstr_size. pose proof (hdr_range p). lia. Qed.

Lemma bstr_succ_ge : forall p, bstr_size p + 1 <= bstr_size (p + 1).
Proof. intros p. pose proof (bstr_strict_mono p (p + 1)). lia. Qed.

(* the sizes a byte string can never have *)
Definition skipped (t : N) : Prop :=
  t = 0 \/ t = 25 \/ t = 258 \/ t = 65539 \/ t = 65540
  \/ (4294967301 <= t <= 4294967304).

Definition skippedb (t : N) : bool :=
  (t =? 0) || (t =? 25) || (t =? 258) || (t =? 65539) || (t =? 65540)
  || ((4294967301 <=? t) && (t <=? 4294967304)).

Lemma skippedb_spec : forall t, skippedb t = true <-> skipped t.
Proof. intros t. unfold skippedb, skipped. lia. Qed.

(* explicit inverse of bstr_size outside the skipped values *)
Definition bstr_inv (t : N) : N :=
  if t <=? 24 then t - 1
  else if t <=? 257 then t - 2
  else if t <=? 65538 then t - 3
  else if t <=? 4294967300 then t - 5
  else t - 9.

Lemma bstr_inv_ok : forall t, ~ skipped t -> bstr_size (bstr_inv t) = t.
Proof.
  intros t H. unfold skipped in H. unfold bstr_inv, bstr_size.
  destruct (t <=? 24) eqn:?; [hdr_split (t - 1); lia|].
  destruct (t <=? 257) eqn:?; [hdr_split (t - 2); lia|].
  destruct (t <=? 65538) eqn:?; [hdr_split (t - 3); lia|].
  destruct (t <=? 4294967300) eqn:?; [hdr_split (t - 5); lia|].
  hdr_split (t - 9); lia.
Qed.

Lemma bstr_never_skipped : forall p, ~ skipped (bstr_size p).
Proof. intros p. unfold skipped, bstr_size. hdr_split p. lia. Qed.

(* bstr_size skips exactly the [skipped] values *)
Lemma bstr_image : forall t, (exists p, bstr_size p = t) <-> ~ skipped t.
Proof.
  intros t. split.
  - intros [p <-]. apply bstr_never_skipped.
  - intros H. exists (bstr_inv t). apply bstr_inv_ok; assumption.
Qed.

(* a skipped value t >= 1 sits strictly between two consecutive byte-string sizes, at one of the
   four head-length boundaries *)
Definition boundary_of (t : N) : N :=
  if t =? 25 then 24 else if t =? 258 then 256 else if t <=? 65540 then 65536 else 4294967296.

Lemma bstr_at_boundaries :
  bstr_size (24 - 1) = 24 /\ bstr_size 24 = 26 /\ bstr_size (256 - 1) = 257 /\ bstr_size 256 = 259
  /\ bstr_size (65536 - 1) = 65538 /\ bstr_size 65536 = 65541
  /\ bstr_size (4294967296 - 1) = 4294967300 /\ bstr_size 4294967296 = 4294967305.
Proof. vm_compute. repeat split; reflexivity. Qed.

Lemma skipped_between : forall t, skipped t -> 1 <= t ->
  let k := boundary_of t in
  1 <= k /\ bstr_size (k - 1) < t /\ t < bstr_size k
  /\ (k = 24 \/ k = 256 \/ k = 65536 \/ k = 4294967296).
Proof.
  intros t H H1. unfold skipped in H. unfold boundary_of.
  destruct bstr_at_boundaries as (E1 & E2 & E3 & E4 & E5 & E6 & E7 & E8).
  destruct (t =? 25) eqn:?; [cbv zeta; rewrite E1, E2; lia|].
  destruct (t =? 258) eqn:?; [cbv zeta; rewrite E3, E4; lia|].
  destruct (t <=? 65540) eqn:?; cbv zeta; [rewrite E5, E6 | rewrite E7, E8]; lia.
Qed.
