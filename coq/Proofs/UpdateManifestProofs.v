(* Proofs/UpdateManifestProofs.v — C21: the update-manifest rules as coded, the binding-manifest walk, and
   the re-basing of data-hash exclusions onto a grown manifest store. *)
From Coq Require Import List NArith Bool Lia Arith String ZifyBool ZifyNat ZifyN.
From C2PA Require Import Base.Bytes Model.RangeHash Model.UpdateManifest Generated.C21_facts
     Proofs.BytesProofs Proofs.RangeHashProofs.
Import ListNotations.
Open Scope N_scope.
Arguments N.add : simpl never.
Arguments N.sub : simpl never.
Arguments N.eqb : simpl never.
Arguments N.ltb : simpl never.
Arguments N.leb : simpl never.

(* ------------------------------------------------------------------ the rules of verify_internal *)

Definition actions_allowed (c : claim) : Prop :=
  Forall (fun aa => Forall (fun a => allowed_action a = true) aa) (c_actions c).

Lemma app_nil_iff {A} (x y : list A) : x ++ y = [] <-> x = [] /\ y = [].
Proof. split; [apply app_eq_nil|intros [-> ->]; reflexivity]. Qed.

Lemma inner_failures_nil aa :
  flat_map (fun a => if allowed_action a then [] else [UpdateInvalid]) aa = [] <-> Forall (fun a => allowed_action a = true) aa.
Proof.
  induction aa as [|a r IH]; cbn [flat_map].
  - split; auto.
  - rewrite app_nil_iff, IH. destruct (allowed_action a) eqn:E.
    + split; [intros [_ H]; constructor; auto|intros H; inversion H; auto].
    + split; [intros [H _]; discriminate|intros H; inversion H; congruence].
Qed.

Lemma action_failures_nil c : action_failures c = [] <-> actions_allowed c.
Proof.
  unfold action_failures, actions_allowed.
  induction (c_actions c) as [|aa t IH]; cbn [flat_map].
  - split; auto.
  - rewrite app_nil_iff, IH, inner_failures_nil.
    split; [intros [H1 H2]; constructor; auto|intros H; inversion H; auto].
Qed.

Lemma update_rules_iff c :
  c_update c = true ->
  (update_rule_failures c = [] <->
   parent_count c = 1%nat /\ c_hashes c = O /\ actions_allowed c /\ (c_thumbs c <= UPDATE_THUMBNAIL_LIMIT)%nat).
Proof.
  intros Hu. unfold update_rule_failures. rewrite Hu.
  rewrite !app_nil_iff, action_failures_nil.
  destruct (Nat.eqb (c_hashes c) 0) eqn:Eh; cbn [negb].
  2:{ apply Nat.eqb_neq in Eh. split; [intros (H & _); discriminate|intros (_ & H & _); contradiction]. }
  apply Nat.eqb_eq in Eh.
  destruct (Nat.ltb UPDATE_THUMBNAIL_LIMIT (c_thumbs c)) eqn:Et.
  - apply Nat.ltb_lt in Et. split; [intros (_ & _ & H & _); discriminate|intros (_ & _ & _ & H); lia].
  - apply Nat.ltb_ge in Et.
    destruct (parent_count c) as [|[|n]].
    + split; [intros (_ & _ & _ & H); discriminate|intros (H & _); discriminate].
    + split; [intros (_ & H & _ & _); auto|intros (_ & _ & H & _); auto].
    + split; [intros (_ & _ & _ & H); discriminate|intros (H & _); discriminate].
Qed.

(* no code of the manifest.update.* family among the failures *)
Definition no_update_code (l : list ucode) : Prop := forallb (fun u => negb (is_update_code u)) l = true.

Lemma no_update_code_app a b : no_update_code (a ++ b) <-> no_update_code a /\ no_update_code b.
Proof. unfold no_update_code. rewrite forallb_app, andb_true_iff. tauto. Qed.

Lemma update_rules_codes c :
  c_update c = true -> (no_update_code (update_rule_failures c) <-> update_rule_failures c = []).
Proof.
  intros Hu. split; [|intros ->; reflexivity].
  unfold update_rule_failures. rewrite Hu. intros H.
  apply no_update_code_app in H. destruct H as [Hb H].
  apply no_update_code_app in H. destruct H as [Ha H]. apply no_update_code_app in H. destruct H as [Ht Hp].
  destruct (negb (Nat.eqb (c_hashes c) 0)); [discriminate|]. cbn [app].
  assert (action_failures c = []) as ->.
  { clear -Ha. unfold action_failures in *. induction (c_actions c) as [|aa t IH]; cbn [flat_map] in *; [reflexivity|].
    apply no_update_code_app in Ha. destruct Ha as [H1 H2]. rewrite (IH H2), app_nil_r.
    clear -H1. induction aa as [|a r IHr]; cbn [flat_map] in *; [reflexivity|].
    destruct (allowed_action a); cbn in *; [auto|discriminate]. }
  destruct (Nat.ltb UPDATE_THUMBNAIL_LIMIT (c_thumbs c)); [discriminate|].
  destruct (parent_count c) as [|[|n]]; [discriminate|reflexivity|discriminate].
Qed.

(* ------------------------------------------------------------------ the binding manifest *)

Lemma get_claim_label st l c : get_claim st l = Some c -> c_label c = l.
Proof.
  induction st as [|x t IH]; cbn [get_claim]; [discriminate|].
  destruct (c_label x =? l) eqn:E; [intros [= <-]; apply N.eqb_eq; exact E|exact IH].
Qed.

(* what a successful walk returns: the claim itself or a claim of the store, never an update manifest, with a hard binding *)
Definition bindable (st : store) (c : claim) (l : N) : Prop :=
  exists b, (b = c \/ get_claim st l = Some b) /\ c_label b = l /\ c_update b = false /\ c_hashes b <> O.

Lemma walk_sound (rec : claim -> option N) st (P : N -> Prop) :
  (forall p l, get_claim st (c_label p) = Some p -> rec p = Some l -> P l) ->
  (forall p, get_claim st (c_label p) = Some p -> c_update p = false -> c_hashes p <> O -> P (c_label p)) ->
  forall ings l, walk rec st ings = Some l -> P l.
Proof.
  intros Hrec Hp ings. induction ings as [|i t IH]; cbn [walk]; [discriminate|].
  intros l. destruct (irel i); auto. destruct (itarget i) as [pl|]; auto.
  destruct (get_claim st pl) as [p|] eqn:Eg; auto.
  assert (Hg : get_claim st (c_label p) = Some p) by (rewrite (get_claim_label _ _ _ Eg); exact Eg).
  destruct (c_update p) eqn:Eu; [apply Hrec; exact Hg|].
  destruct (Nat.eqb (c_hashes p) 0) eqn:Eh; cbn [negb]; auto.
  intros [= <-]. apply Hp; auto.
  apply Nat.eqb_neq. exact Eh.
Qed.

Lemma binding_sound fuel : forall st vis c l,
  binding fuel st vis c = Some l -> bindable st c l.
Proof.
  induction fuel as [|f IH]; intros st vis c l; cbn [binding]; [discriminate|].
  destruct (memN (c_label c) vis); [discriminate|].
  destruct (negb (c_update c) && negb (Nat.eqb (c_hashes c) 0)) eqn:E.
  - intros [= <-]. apply andb_true_iff in E. destruct E as [E1 E2].
    exists c. repeat split; auto.
    + apply negb_true_iff. exact E1.
    + apply negb_true_iff, Nat.eqb_neq in E2. exact E2.
  - intros Hw.
    apply (walk_sound (binding f st (c_label c :: vis)) st (bindable st c)) with (ings := c_ings c); auto.
    + intros p l' Hg Hb. destruct (IH _ _ _ _ Hb) as (b & [-> | Hg'] & Hl & Hu & Hh).
      * exists p. repeat split; auto. right. rewrite <- Hl. exact Hg.
      * exists b. repeat split; auto.
    + intros p Hg Hu Hh. exists p. repeat split; auto.
Qed.

(* the binding manifest is never an update manifest: the `update manifests cannot contain data hash assertions`
   test of verify_hash_binding (third test of binding_rule_failures) cannot fire *)
Lemma binding_never_update st c l b :
  get_claim st (c_label c) = Some c ->
  binding_manifest st c = Some l -> get_claim st l = Some b ->
  c_update b = false /\ c_hashes b <> O.
Proof.
  intros Hc Hb Hg. destruct (binding_sound _ _ _ _ _ Hb) as (b' & [-> | Hg'] & Hl & Hu & Hh).
  - rewrite <- Hl, Hc in Hg. injection Hg as <-. auto.
  - rewrite Hg' in Hg. injection Hg as <-. auto.
Qed.

Lemma binding_rules_no_update_code b : c_update b = false -> no_update_code (binding_rule_failures b).
Proof.
  intros Hu. unfold binding_rule_failures, no_update_code. rewrite Hu, !andb_false_r.
  destruct (Nat.eqb (c_hashes b) 0), (Nat.eqb (c_hashes b) 1); reflexivity.
Qed.

(* the update-manifest rules: exactly the property's rule set (plus the thumbnail rule as coded) *)
Theorem update_valid_only_if st c l :
  c_update c = true -> get_claim st (c_label c) = Some c -> binding_manifest st c = Some l ->
  (no_update_code (verify_active st c) <->
   parent_count c = 1%nat /\ c_hashes c = O /\ actions_allowed c /\ (c_thumbs c <= UPDATE_THUMBNAIL_LIMIT)%nat).
Proof.
  intros Hu Hc Hb. unfold verify_active. rewrite Hb.
  rewrite no_update_code_app, (update_rules_codes _ Hu), (update_rules_iff _ Hu).
  destruct (get_claim st l) as [b|] eqn:Eg.
  - destruct (binding_never_update _ _ _ _ Hc Hb Eg) as [Hub _].
    pose proof (binding_rules_no_update_code _ Hub). tauto.
  - assert (no_update_code []) by reflexivity. tauto.
Qed.

(* a hard-binding assertion inside an update manifest is flagged by verify_internal itself (the test in
   verify_hash_binding stays unreachable: binding_never_update) *)
Definition has_hard_binding (c : claim) : Prop := c_hashes c <> O.

Theorem hard_binding_flagged c :
  c_update c = true -> has_hard_binding c -> In UpdateInvalid (update_rule_failures c).
Proof.
  intros Hu Hh. unfold update_rule_failures. rewrite Hu. apply Nat.eqb_neq in Hh. rewrite Hh. left. reflexivity.
Qed.

Definition hb_parent : claim := Claim 1 false [] 1 [] 0.
Definition hb_update : claim := Claim 2 true [Ing ParentOf (Some 1)] 1 [["c2pa.opened"%string]] 0.

(* the former counterexample (F-UPDATE-HARDBINDING) is now rejected *)
Lemma hard_binding_witness_rejected : verify_active [hb_parent; hb_update] hb_update = [UpdateInvalid].
Proof. vm_compute. reflexivity. Qed.

(* a fully clean verdict needs the rules, a binding manifest that is not an update manifest, and exactly one hard binding there *)
Theorem verify_active_clean st c :
  c_update c = true -> get_claim st (c_label c) = Some c ->
  verify_active st c = [] ->
  parent_count c = 1%nat /\ c_hashes c = O /\ actions_allowed c /\ (c_thumbs c <= UPDATE_THUMBNAIL_LIMIT)%nat /\
  exists l b, binding_manifest st c = Some l /\ get_claim st l = Some b /\ c_update b = false /\ c_hashes b = 1%nat.
Proof.
  intros Hu Hc. unfold verify_active.
  destruct (binding_manifest st c) as [l|] eqn:Hb; [|discriminate].
  intros H. apply app_nil_iff in H. destruct H as [H1 H2].
  apply (update_rules_iff _ Hu) in H1. destruct H1 as (Hp & Hz & Ha & Ht). repeat split; auto.
  destruct (binding_sound _ _ _ _ _ Hb) as (b' & Hor & Hl & Hub & Hh).
  assert (Hg : get_claim st l = Some b') by (destruct Hor as [-> | Hg]; [rewrite <- Hl; exact Hc|exact Hg]).
  rewrite Hg in H2. exists l, b'. repeat split; auto.
  unfold binding_rule_failures in H2. rewrite Hub in H2. cbn [negb] in H2. rewrite !andb_true_r, andb_false_r in H2.
  destruct (Nat.eqb (c_hashes b') 0) eqn:E0; [discriminate|].
  destruct (Nat.eqb (c_hashes b') 1) eqn:E1; [apply Nat.eqb_eq; exact E1|discriminate].
Qed.

(* ---- the walk finds the nearest non-update ancestor that carries a hard binding *)

Lemma walk_filter rec st ings : walk rec st ings = walk rec st (filter is_parent ings).
Proof.
  induction ings as [|i t IH]; [reflexivity|].
  cbn [filter]. unfold is_parent at 1. destruct (irel i) eqn:E; cbn [walk]; rewrite ?E; try exact IH.
  rewrite IH. reflexivity.
Qed.

(* [upd_chain st c b ls]: from [c] through update manifests, each with exactly one parentOf ingredient that
   resolves in the store, down to the first non-update manifest [b]; [ls] = the labels on the way, [b] included *)
Inductive upd_chain (st : store) : claim -> claim -> list N -> Prop :=
| UC_self c : c_update c = false -> c_hashes c <> O -> upd_chain st c c [c_label c]
| UC_step c p b ls :
    c_update c = true ->
    filter is_parent (c_ings c) = [Ing ParentOf (Some (c_label p))] ->
    get_claim st (c_label p) = Some p ->
    upd_chain st p b ls -> upd_chain st c b (c_label c :: ls).

Lemma memN_false x l : memN x l = false <-> ~ In x l.
Proof.
  unfold memN. split.
  - intros H Hin. assert (existsb (N.eqb x) l = true) by (apply existsb_exists; exists x; split; [exact Hin|apply N.eqb_refl]). congruence.
  - intros H. destruct (existsb (N.eqb x) l) eqn:E; [|reflexivity].
    apply existsb_exists in E. destruct E as (y & Hy & He). apply N.eqb_eq in He. subst y. contradiction.
Qed.

Lemma binding_chain st c b ls :
  upd_chain st c b ls ->
  forall fuel vis, NoDup ls -> (forall x, In x ls -> ~ In x vis) -> (List.length ls <= fuel)%nat ->
  binding fuel st vis c = Some (c_label b).
Proof.
  induction 1 as [c Hu Hh | c p b ls Hu Hf Hg Hch IH]; intros fuel vis Hnd Hdis Hlen.
  - destruct fuel as [|f]; [cbn in Hlen; lia|]. cbn [binding].
    assert (memN (c_label c) vis = false) as -> by (apply memN_false, Hdis; left; reflexivity).
    rewrite Hu. apply Nat.eqb_neq in Hh. rewrite Hh. reflexivity.
  - destruct fuel as [|f]; [cbn in Hlen; lia|]. cbn [binding].
    assert (memN (c_label c) vis = false) as -> by (apply memN_false, Hdis; left; reflexivity).
    rewrite Hu. cbn [negb andb]. rewrite walk_filter, Hf. cbn [walk irel itarget]. rewrite Hg.
    inversion Hnd as [|? ? Hnin Hnd']; subst.
    destruct (c_update p) eqn:Eup.
    + apply IH; auto.
      * intros x Hx [<- | Hv]; [contradiction|]. exact (Hdis x (or_intror Hx) Hv).
      * cbn in Hlen. lia.
    + inversion Hch as [? Hup Hhp | ? ? ? ? Hup]; subst; [|congruence].
      apply Nat.eqb_neq in Hhp. rewrite Hhp. reflexivity.
Qed.

Theorem binding_found st c b ls :
  upd_chain st c b ls -> NoDup ls -> (List.length ls <= S (List.length st))%nat ->
  binding_manifest st c = Some (c_label b) /\ c_update b = false /\ c_hashes b <> O.
Proof.
  intros Hch Hnd Hlen. split.
  - unfold binding_manifest. apply (binding_chain _ _ _ _ Hch); auto.
  - clear -Hch. induction Hch; auto.
Qed.

(* a manifest whose label is already on the walk (cyclic chain) yields no binding manifest *)
Lemma binding_cycle_none fuel st vis c : In (c_label c) vis -> binding fuel st vis c = None.
Proof.
  intros Hin. destruct fuel; [reflexivity|]. cbn [binding].
  destruct (memN (c_label c) vis) eqn:E; [reflexivity|]. apply memN_false in E. contradiction.
Qed.

(* more fuel never changes a found binding manifest *)
Lemma walk_mono (r1 r2 : claim -> option N) st :
  (forall p l, r1 p = Some l -> r2 p = Some l) ->
  forall ings l, walk r1 st ings = Some l -> walk r2 st ings = Some l.
Proof.
  intros Hr ings. induction ings as [|i t IH]; cbn [walk]; [discriminate|]. intros l.
  destruct (irel i); auto. destruct (itarget i); auto. destruct (get_claim st n) as [p|]; auto.
  destruct (c_update p); auto. destruct (negb (Nat.eqb (c_hashes p) 0)); auto.
Qed.

Lemma binding_fuel_mono f : forall st vis c l, binding f st vis c = Some l -> binding (S f) st vis c = Some l.
Proof.
  induction f as [|f IH]; intros st vis c l; [discriminate|].
  intros H. cbn [binding] in *.
  destruct (memN (c_label c) vis); [discriminate|].
  destruct (negb (c_update c) && negb (Nat.eqb (c_hashes c) 0)); [exact H|].
  revert H. apply walk_mono. intros p l'. apply IH.
Qed.

(* ------------------------------------------------------------------ re-basing the exclusions *)

Lemma sel_app hr : forall a p b, sel hr p (a ++ b) = sel hr p a ++ sel hr (p + len a) b.
Proof.
  induction a as [|x a IH]; intros p b; cbn [app sel].
  - rewrite len_nil, N.add_0_r. reflexivity.
  - rewrite IH, len_cons, <- app_assoc. do 3 f_equal. lia.
Qed.

(* two exclusion lists (at two base offsets) that cover the same positions of [d] select the same bytes *)
Lemma sel_ext hr hr' : forall d p p',
  (forall k, k < len d -> covered hr (p + k) = covered hr' (p' + k)) -> sel hr p d = sel hr' p' d.
Proof.
  induction d as [|x d IH]; intros p p' H; cbn [sel]; [reflexivity|].
  rewrite len_cons in H.
  pose proof (H 0 ltac:(lia)) as H0. rewrite !N.add_0_r in H0. rewrite H0.
  f_equal. apply IH. intros k Hk. specialize (H (k + 1) ltac:(lia)).
  replace (p + 1 + k) with (p + (k + 1)) by lia. replace (p' + 1 + k) with (p' + (k + 1)) by lia. exact H.
Qed.

Lemma sel_all_covered hr : forall d p, (forall k, k < len d -> covered hr (p + k) = true) -> sel hr p d = [].
Proof.
  induction d as [|x d IH]; intros p H; cbn [sel]; [reflexivity|].
  rewrite len_cons in H.
  pose proof (H 0 ltac:(lia)) as H0. rewrite N.add_0_r in H0. rewrite H0. cbn [app].
  apply IH. intros k Hk. specialize (H (k + 1) ltac:(lia)). replace (p + 1 + k) with (p + (k + 1)) by lia. exact H.
Qed.

Lemma sel_none_covered hr : forall d p, (forall k, k < len d -> covered hr (p + k) = false) -> sel hr p d = d.
Proof.
  induction d as [|x d IH]; intros p H; cbn [sel]; [reflexivity|].
  rewrite len_cons in H.
  pose proof (H 0 ltac:(lia)) as H0. rewrite N.add_0_r in H0. rewrite H0. cbn [app]. f_equal.
  apply IH. intros k Hk. specialize (H (k + 1) ltac:(lia)). replace (p + 1 + k) with (p + (k + 1)) by lia. exact H.
Qed.

Lemma position_app s a x b :
  (forall r, In r a -> hstart r <> s) -> hstart x = s -> position s (a ++ x :: b) = Some (List.length a).
Proof.
  intros Ha Hx. induction a as [|r a IH]; cbn [app position List.length].
  - apply N.eqb_eq in Hx. rewrite Hx. reflexivity.
  - assert (hstart r =? s = false) as -> by (apply N.eqb_neq, Ha; left; reflexivity).
    rewrite IH; [reflexivity|]. intros r' Hr'. apply Ha. right. exact Hr'.
Qed.

Lemma nth_app_mid {A} (a : list A) x b d : nth (List.length a) (a ++ x :: b) d = x.
Proof. induction a; cbn; auto. Qed.

Lemma set_nth_app_mid a x y b : set_nth (List.length a) y (a ++ x :: b) = a ++ y :: b.
Proof. induction a as [|r a IH]; cbn [List.length app set_nth]; [reflexivity|]. rewrite IH. reflexivity. Qed.

Definition shift (s adj : N) (r : hrange) : hrange :=
  if s <? hstart r then HR (hstart r + adj) (hlen r) (hmark r) else r.

Lemma rebase_shape a x b s l' :
  (forall r, In r a -> hstart r <> s) -> hstart x = s -> 0 < s ->
  rebase (a ++ x :: b) (Some (s, l')) = map (shift s (l' - hlen x)) (a ++ HR s l' None :: b).
Proof.
  intros Ha Hx Hs. unfold rebase. rewrite (position_app _ _ _ _ Ha Hx), nth_app_mid, set_nth_app_mid.
  apply N.ltb_lt in Hs. rewrite Hs. reflexivity.
Qed.

Lemma covered_app hr1 hr2 q : covered (hr1 ++ hr2) q = covered hr1 q || covered hr2 q.
Proof. unfold covered. apply existsb_app. Qed.

Lemma covered_map_ext (f : hrange -> hrange) hr q q' :
  (forall r, In r hr -> covers (f r) q' = covers r q) -> covered (map f hr) q' = covered hr q.
Proof.
  intros H. unfold covered. induction hr as [|r t IH]; cbn [map existsb]; [reflexivity|].
  rewrite (H r (or_introl eq_refl)), IH; [reflexivity|]. intros r' Hr'. apply H. right. exact Hr'.
Qed.

(* every other exclusion lies entirely before the manifest store or entirely after it *)
Definition apart (s l : N) (r : hrange) : Prop :=
  hstart r + hlen r <= s \/ (s + l <= hstart r /\ s < hstart r).

Section Rebase.
  Variables (a b : list hrange) (s l l' : N) (mk : option N).
  Hypothesis Ha : forall r, In r a -> hstart r <> s.
  Hypothesis Hap : forall r, In r (a ++ b) -> apart s l r.
  Hypothesis Hs : 0 < s.
  Hypothesis Hl : l <= l'.

  Let ex := a ++ HR s l mk :: b.
  Let ex' := rebase ex (Some (s, l')).

  Lemma ex'_shape : ex' = map (shift s (l' - l)) a ++ HR s l' None :: map (shift s (l' - l)) b.
  Proof.
    unfold ex', ex. rewrite rebase_shape; auto. cbn [hlen]. rewrite map_app. cbn [map]. f_equal. f_equal.
    unfold shift. cbn [hstart]. rewrite N.ltb_irrefl. reflexivity.
  Qed.

  (* positions before the store, and positions after it (shifted by the growth), are covered alike *)
  Lemma other_before r q : apart s l r -> q < s -> covers (shift s (l' - l) r) q = covers r q.
  Proof.
    intros Hr Hq. unfold shift, covers. destruct (s <? hstart r) eqn:E; cbn [hstart hlen]; [|reflexivity].
    destruct Hr as [Hr | [Hr1 Hr2]]; lia.
  Qed.

  Lemma other_after r k : apart s l r -> covers (shift s (l' - l) r) (s + l' + k) = covers r (s + l + k).
  Proof.
    intros Hr. unfold shift, covers. destruct (s <? hstart r) eqn:E; cbn [hstart hlen].
    - destruct Hr as [Hr | [Hr1 Hr2]]; lia.
    - destruct Hr as [Hr | [Hr1 Hr2]]; lia.
  Qed.

  Lemma cov_before q : q < s -> covered ex' q = covered ex q.
  Proof.
    intros Hq. rewrite ex'_shape. unfold ex.
    rewrite !covered_app. cbn [covered existsb]. fold (covered (map (shift s (l' - l)) b) q). fold (covered b q).
    rewrite (covered_map_ext _ a q q), (covered_map_ext _ b q q).
    - f_equal. f_equal. unfold covers; cbn [hstart hlen]. lia.
    - intros r Hr. apply other_before; auto. apply Hap, in_or_app; right; exact Hr.
    - intros r Hr. apply other_before; auto. apply Hap, in_or_app; left; exact Hr.
  Qed.

  Lemma cov_inside' q : s <= q -> q < s + l' -> covered ex' q = true.
  Proof.
    intros H1 H2. rewrite ex'_shape, covered_app. cbn [covered existsb].
    assert (covers (HR s l' None) q = true) as -> by (unfold covers; cbn [hstart hlen]; lia).
    rewrite orb_true_l, orb_true_r. reflexivity.
  Qed.

  Lemma cov_inside q : s <= q -> q < s + l -> covered ex q = true.
  Proof.
    intros H1 H2. unfold ex. rewrite covered_app. cbn [covered existsb].
    assert (covers (HR s l mk) q = true) as -> by (unfold covers; cbn [hstart hlen]; lia).
    rewrite orb_true_l, orb_true_r. reflexivity.
  Qed.

  Lemma cov_after k : covered ex' (s + l' + k) = covered ex (s + l + k).
  Proof.
    rewrite ex'_shape. unfold ex.
    rewrite !covered_app. cbn [covered existsb].
    fold (covered (map (shift s (l' - l)) b) (s + l' + k)). fold (covered b (s + l + k)).
    rewrite (covered_map_ext _ a (s + l + k) (s + l' + k)), (covered_map_ext _ b (s + l + k) (s + l' + k)).
    - f_equal. f_equal. unfold covers; cbn [hstart hlen]. lia.
    - intros r Hr. apply other_after. apply Hap, in_or_app; right; exact Hr.
    - intros r Hr. apply other_after. apply Hap, in_or_app; left; exact Hr.
  Qed.

  (* verifying the grown file with the re-based exclusions hashes exactly the bytes that the original exclusions
     select from the same content around a store of the original size *)
  Lemma rebase_sel pre m m' post :
    len pre = s -> len m = l -> len m' = l' ->
    sel ex' 0 (pre ++ m' ++ post) = sel ex 0 (pre ++ m ++ post).
  Proof.
    intros Hp Hm Hm'. rewrite !sel_app, !N.add_0_l, Hp, Hm, Hm'. f_equal; [|f_equal].
    - apply sel_ext. intros k Hk. rewrite !N.add_0_l. apply cov_before. lia.
    - rewrite !sel_all_covered; auto.
      + intros k Hk. apply cov_inside; lia.
      + intros k Hk. apply cov_inside'; lia.
    - apply sel_ext. intros k _. apply cov_after.
  Qed.
End Rebase.

(* ------------------------------------------------------------------ content bound by the parent's data hash *)

Lemma app_inj_len {A} (a a' b b' : list A) : List.length a = List.length a' -> a ++ b = a' ++ b' -> a = a' /\ b = b'.
Proof.
  revert a'. induction a as [|x a IH]; intros [|x' a'] Hl H; cbn in *; try discriminate; auto.
  injection H as -> H. injection Hl as Hl. destruct (IH _ Hl H) as [-> ->]. auto.
Qed.

Lemma len_inj {A} (a b : list A) : len a = len b -> List.length a = List.length b.
Proof. unfold len. lia. Qed.

(* the Builder's data hash: one exclusion, the manifest store *)
Lemma sel_single s l mk pre m post :
  len pre = s -> len m = l -> sel [HR s l mk] 0 (pre ++ m ++ post) = pre ++ post.
Proof.
  intros Hp Hm. rewrite !sel_app, N.add_0_l, Hp, Hm. f_equal; [|].
  - apply sel_none_covered. intros k Hk. unfold covered, covers; cbn [existsb hstart hlen]. lia.
  - rewrite sel_all_covered.
    + cbn [app]. apply sel_none_covered. intros k Hk. unfold covered, covers; cbn [existsb hstart hlen]. lia.
    + intros k Hk. unfold covered, covers; cbn [existsb hstart hlen]. lia.
Qed.

Definition collision (Hf : bytes -> bytes) : Prop := exists x y, x <> y /\ Hf x = Hf y.

(* An update manifest on top: the parent (binding) manifest's data hash was computed over pre ++ m ++ post with the
   store m excluded; the asset now reads pre' ++ m' ++ post' with the grown store m' found at the same offset.
   If the hash computed by the range hasher with the re-based exclusions equals the recorded one, the content
   outside the store is unchanged — or the two inputs are a collision of the hash function. *)
Theorem content_bound (Hf : bytes -> bytes) debug buf pre m post pre' m' post' r r' :
  len pre' = len pre -> 0 < len pre -> len m <= len m' -> 1 <= buf ->
  len (pre ++ m ++ post) < U32 -> len (pre' ++ m' ++ post') < U32 ->
  hash_model debug (pre ++ m ++ post) [HR (len pre) (len m) None] true buf = Ok r ->
  hash_model debug (pre' ++ m' ++ post')
             (effective_exclusions true [HR (len pre) (len m) None] (Some (len pre', len m'))) true buf = Ok r' ->
  Hf (hasher_input r') = Hf (hasher_input r) ->
  (pre' = pre /\ post' = post) \/ collision Hf.
Proof.
  intros Hp Hs Hl Hb Hn Hn' Hr Hr' Hh.
  set (s := len pre) in *. set (l := len m) in *. set (l' := len m') in *.
  assert (Hex' : effective_exclusions true [HR s l None] (Some (len pre', l')) = [HR s l' None]).
  { rewrite Hp. unfold effective_exclusions.
    change [HR s l None] with ([] ++ HR s l None :: []).
    rewrite (rebase_shape [] (HR s l None) [] s l'); [|intros ? []|reflexivity|exact Hs].
    cbn [app map hlen]. unfold shift. cbn [hstart]. rewrite N.ltb_irrefl. reflexivity. }
  rewrite Hex' in Hr'.
  assert (U32 < U64) by (unfold U32, U64; lia).
  destruct (exclusion_spec debug (pre ++ m ++ post) [HR s l None] buf) as (r0 & Hr0 & Hi0); auto; try lia.
  { rewrite !len_app. fold s. lia. }
  { constructor; [reflexivity|constructor]. }
  { constructor; [|constructor]. unfold in_bounds; cbn [hstart hlen]. rewrite !len_app. fold s l. lia. }
  destruct (exclusion_spec debug (pre' ++ m' ++ post') [HR s l' None] buf) as (r1 & Hr1 & Hi1); auto; try lia.
  { rewrite !len_app, Hp. fold s. lia. }
  { constructor; [reflexivity|constructor]. }
  { constructor; [|constructor]. unfold in_bounds; cbn [hstart hlen]. rewrite !len_app, Hp. fold s l'. lia. }
  rewrite Hr in Hr0. injection Hr0 as <-. rewrite Hr' in Hr1. injection Hr1 as <-.
  rewrite Hi0, Hi1 in Hh.
  rewrite (sel_single s l None pre m post) in Hh by reflexivity.
  rewrite (sel_single s l' None pre' m' post') in Hh by (auto; exact Hp).
  destruct (list_eq_dec N.eq_dec (pre' ++ post') (pre ++ post)) as [E | E].
  - left. apply app_inj_len in E; [exact E|]. apply len_inj. exact Hp.
  - right. exists (pre' ++ post'), (pre ++ post). auto.
Qed.

(* general exclusion lists: what is hashed after re-basing is what the original exclusions select from the new
   content laid around a store of the original size — every byte the parent's assertion binds is still bound *)
Theorem rebase_preserves_selection a b s l l' mk pre m m' post :
  (forall r, In r a -> hstart r <> s) -> (forall r, In r (a ++ b) -> apart s l r) -> 0 < s -> l <= l' ->
  len pre = s -> len m = l -> len m' = l' ->
  sel (effective_exclusions true (a ++ HR s l mk :: b) (Some (s, l'))) 0 (pre ++ m' ++ post)
  = sel (a ++ HR s l mk :: b) 0 (pre ++ m ++ post).
Proof. intros. unfold effective_exclusions. apply rebase_sel; auto. Qed.

(* without an update manifest on top nothing is re-based *)
Lemma no_update_no_rebase ex range : effective_exclusions false ex range = ex.
Proof. reflexivity. Qed.
