(* Proofs/CertProfileProofs.v — what Model/CertProfile.v accepts and rejects, against a declarative reading of the
   C2PA certificate profile (the rule list of property C06). *)
From Coq Require Import List NArith ZArith Bool Lia Btauto.
From C2PA Require Import Generated.C06_facts Model.CertProfile.
Import ListNotations.

(* ------------------------------------------------------------------ declarative profile *)

Definition eff_time (tst : option Z) (now : Z) : Z := match tst with Some t => t | None => now end.

Definition sig_ok (c : cert) : bool :=
  oid_mem (c_sig_alg c) ALLOWED_SIG_ALGS
  && (if oid_eqb (c_sig_alg c) RSASSA_PSS_OID then
        match c_pss c with PssParsed h m => oid_eqb h m && oid_mem h ALLOWED_PSS_HASHES | _ => false end
      else true).

Definition key_ok (c : cert) : bool :=
  match c_spki c with
  | SpkiEc (EcNamed cv) => oid_mem cv ALLOWED_CURVES
  | SpkiEc _ => false
  | SpkiRsa (Some bits) => negb (N.ltb bits MIN_RSA_BITS)
  | SpkiRsa None => false
  | SpkiOtherKey => true
  end.

Definition eku_accepted (ekus : list oid) (c : cert) : bool :=
  match c_eku c with
  | EkuPresent e =>
    negb (eku_any e) && (match has_allowed_eku ekus e with Some _ => true | None => false end) && negb (eku_bad_set e)
  | _ => false
  end.

Definition is_aki (x : ext) : bool := match x_kind x with XAki => true | _ => false end.
Definition is_ski (x : ext) : bool := match x_kind x with XSki => true | _ => false end.
Definition ku_has_ds (x : ext) : bool := match x_kind x with XKeyUsage ku => ku_digital_signature ku | _ => false end.
Definition ku_has_certsign (x : ext) : bool := match x_kind x with XKeyUsage ku => ku_key_cert_sign ku | _ => false end.
(* the key usages the code counts as good: digitalSignature, keyCertSign or nonRepudiation *)
Definition ku_counts (x : ext) : bool :=
  match x_kind x with XKeyUsage ku => ku_digital_signature ku || ku_key_cert_sign ku || ku_non_repudiation ku | _ => false end.
(* the early return: digitalSignature together with keyCertSign on a certificate that is not a CA *)
Definition ku_offending (is_ca : bool) (x : ext) : bool :=
  match x_kind x with XKeyUsage ku => ku_digital_signature ku && ku_key_cert_sign ku && negb is_ca | _ => false end.
Definition crit_ok (x : ext) : bool :=
  match x_kind x with XUnparsed | XOther => negb (x_critical x) | _ => true end.

Definition has_aki (c : cert) : bool := existsb is_aki (c_exts c).
Definition no_unhandled_critical (c : cert) : bool := forallb crit_ok (c_exts c).

(* the property's key-usage rule: digitalSignature asserted, keyCertSign not asserted (end-entity) *)
Definition ku_strict (c : cert) : bool :=
  existsb ku_has_ds (c_exts c) && negb (existsb ku_has_certsign (c_exts c)).

(* a certificate conforming to the profile (property C06's rule list) at signing time t *)
Definition conforming (c : cert) (ekus : list oid) (t : Z) : bool :=
  c_parse_ok c && N.eqb (c_version c) 2 && valid_at c t && sig_ok c && key_ok c
  && negb (c_self_issued c) && negb (c_issuer_uid c || c_subject_uid c)
  && eku_accepted ekus c && ku_strict c && has_aki c && no_unhandled_critical c && negb (c_is_ca c).

(* what the code accepts (exactly, outside the quiet inputs) *)
Definition accepts (c : cert) (ekus : list oid) (t : Z) : bool :=
  c_parse_ok c && N.eqb (c_version c) 2 && valid_at c t && sig_ok c && key_ok c
  && negb (self_signed_rule c) && negb (c_issuer_uid c || c_subject_uid c)
  && eku_accepted ekus c && negb (existsb (ku_offending (c_is_ca c)) (c_exts c)) && existsb ku_counts (c_exts c)
  && has_aki c && no_unhandled_critical c && negb (c_is_ca c).

(* inputs on which the code returns Err without logging *)
Definition quiet_input (c : cert) : bool :=
  (oid_eqb (c_sig_alg c) RSASSA_PSS_OID && match c_pss c with PssUnparsable => true | _ => false end)
  || match c_spki c with SpkiEc EcNotOid | SpkiEc EcNoParams | SpkiRsa None => true | _ => false end
  || match c_eku c with EkuDuplicate => true | _ => false end.

(* known classes (findings) *)
Definition known_selfsigned (c : cert) : bool := SELFSIGNED_ONLY_CA && c_self_issued c && negb (c_is_ca c).
Definition ku_gap (x : ext) : bool :=
  match x_kind x with
  | XKeyUsage ku => negb (ku_digital_signature ku) && (ku_key_cert_sign ku || ku_non_repudiation ku)
  | _ => false
  end.
Definition known_ku (c : cert) : bool := existsb ku_gap (c_exts c).

(* ------------------------------------------------------------------ the extension loop *)

Lemma scan_spec : forall ca xs st,
  scan_exts ca xs st =
  if existsb (ku_offending ca) xs then None
  else Some {| aki_good := aki_good st || existsb is_aki xs;
               ski_good := ski_good st || existsb is_ski xs;
               key_usage_good := key_usage_good st || existsb ku_counts xs;
               handled_all_critical := handled_all_critical st && forallb crit_ok xs |}.
Proof.
  induction xs as [|x r IH]; intros st.
  - cbn. destruct st as [a s k h]. cbn. now rewrite !orb_false_r, andb_true_r.
  - cbn [scan_exts existsb forallb].
    unfold ku_offending at 1, is_aki at 1, is_ski at 1, ku_counts at 1, crit_ok at 1.
    destruct (x_kind x) as [| |ku| | |]; cbn [orb andb].
    + rewrite IH. cbn. destruct (existsb (ku_offending ca) r); [reflexivity|]. do 2 f_equal. now rewrite orb_true_r.
    + rewrite IH. cbn. destruct (existsb (ku_offending ca) r); [reflexivity|]. do 2 f_equal. now rewrite orb_true_r.
    + destruct (ku_digital_signature ku && ku_key_cert_sign ku && negb ca) eqn:Hoff; cbn [orb]; [reflexivity|].
      rewrite IH. cbn. destruct (existsb (ku_offending ca) r); [reflexivity|]. do 2 f_equal.
      destruct (ku_digital_signature ku), (ku_key_cert_sign ku), (ku_non_repudiation ku), (key_usage_good st); reflexivity.
    + rewrite IH. reflexivity.
    + rewrite IH. cbn. destruct (existsb (ku_offending ca) r); [reflexivity|]. do 2 f_equal.
      destruct (x_critical x), (handled_all_critical st); reflexivity.
    + rewrite IH. cbn. destruct (existsb (ku_offending ca) r); [reflexivity|]. do 2 f_equal.
      destruct (x_critical x), (handled_all_critical st); reflexivity.
Qed.

Lemma scan_init : forall ca xs,
  scan_exts ca xs init_flags =
  if existsb (ku_offending ca) xs then None
  else Some {| aki_good := existsb is_aki xs; ski_good := existsb is_ski xs;
               key_usage_good := existsb ku_counts xs; handled_all_critical := forallb crit_ok xs |}.
Proof. intros. rewrite scan_spec. reflexivity. Qed.

(* ------------------------------------------------------------------ exact characterisation of the outcome *)

Ltac split_if :=
  match goal with
  | |- context [if ?b then _ else _] => destruct b eqn:?
  | |- context [match ?x with _ => _ end] => destruct x eqn:?
  end.

(* the part of check_end_entity_certificate_profile that follows the signature-algorithm block *)
Definition tail_of (c : cert) (ekus : list oid) : outcome :=
  match
  match (match c_spki c with
         | SpkiEc (EcNamed cv) => if negb (oid_mem cv ALLOWED_CURVES) then Some BCurve else None
         | SpkiEc EcNotOid => Some BEcParams
         | SpkiEc EcNoParams => Some BEcParams
         | SpkiRsa None => Some BRsaKey
         | SpkiRsa (Some bits) => if N.ltb bits MIN_RSA_BITS then Some BKeyLen else None
         | SpkiOtherKey => None
         end) with
  | Some b => PFail b
  | None =>
  if self_signed_rule c then PFail BSelfSigned else
  if c_issuer_uid c || c_subject_uid c then PFail BUniqueId else
  match (match c_eku c with
         | EkuDuplicate => inr BEkuDuplicate
         | EkuPresent e =>
           if eku_any e then inr BEkuAny
           else match has_allowed_eku ekus e with
                | None => inr BEkuMissing
                | Some _ => if eku_bad_set e then inr BEkuSet else inl true
                end
         | EkuAbsent => inl (c_is_ca c)
         end) with
  | inr b => PFail b
  | inl extended_key_usage_good =>
    match scan_exts (c_is_ca c) (c_exts c) init_flags with
    | None => PFail BKuCertSign
    | Some st =>
      let ski := if c_is_ca c then ski_good st else true in
      if aki_good st && ski && key_usage_good st && extended_key_usage_good && handled_all_critical st
      then POk else PFail BParams
    end
  end end
  with
  | PFail b => PFail b
  | POk => if c_is_ca c then PFail BCa else POk
  end.

Ltac logged := do 2 eexists; split; reflexivity.

(* outside the quiet inputs the check accepts exactly [accepts]; every rejection carries a validation code *)
Theorem profile_exact : forall c ekus tst now,
  quiet_input c = false ->
  if accepts c ekus (eff_time tst now)
  then check_end_entity_certificate_profile c ekus tst now = POk
  else exists b k, check_end_entity_certificate_profile c ekus tst now = PFail b /\ branch_code b = Some k.
Proof.
  intros c ekus tst now Hq.
  unfold accepts, quiet_input, check_end_entity_certificate_profile, check_certificate_profile, sig_ok, key_ok,
    eku_accepted, has_aki, no_unhandled_critical in *.
  fold (eff_time tst now).
  destruct (c_parse_ok c); cbn [negb andb]; [|logged].
  destruct (N.eqb (c_version c) 2); cbn [negb andb]; [|logged].
  destruct (valid_at c (eff_time tst now)); cbn [negb andb]; [|logged].
  destruct (oid_mem (c_sig_alg c) ALLOWED_SIG_ALGS); cbn [negb andb]; [|logged].
  assert (Htail :
    match c_spki c with SpkiEc EcNotOid | SpkiEc EcNoParams | SpkiRsa None => true | _ => false end
    || match c_eku c with EkuDuplicate => true | _ => false end = false ->
    if match c_spki c with
       | SpkiEc (EcNamed cv) => oid_mem cv ALLOWED_CURVES
       | SpkiRsa (Some bits) => negb (bits <? MIN_RSA_BITS)%N
       | SpkiOtherKey => true
       | _ => false
       end && negb (self_signed_rule c) && negb (c_issuer_uid c || c_subject_uid c) &&
       match c_eku c with
       | EkuPresent e => negb (eku_any e) && match has_allowed_eku ekus e with Some _ => true | None => false end && negb (eku_bad_set e)
       | _ => false
       end && negb (existsb (ku_offending (c_is_ca c)) (c_exts c)) && existsb ku_counts (c_exts c) &&
       existsb is_aki (c_exts c) && forallb crit_ok (c_exts c) && negb (c_is_ca c)
    then tail_of c ekus = POk
    else exists b k, tail_of c ekus = PFail b /\ branch_code b = Some k).
  { clear. intros Hq. unfold tail_of. rewrite scan_init.
    destruct (c_spki c) as [[cv| |]|[bits|]|]; cbn [orb andb] in *; try discriminate.
    1: destruct (oid_mem cv ALLOWED_CURVES); cbn [negb andb]; [|logged].
    2: destruct (bits <? MIN_RSA_BITS)%N; cbn [negb andb]; [logged|].
    all: destruct (self_signed_rule c); cbn [negb andb]; [logged|].
    all: destruct (c_issuer_uid c || c_subject_uid c); cbn [negb andb]; [logged|].
    all: destruct (c_eku c) as [| |e]; cbn [negb andb]; try discriminate.
    all: try (destruct (eku_any e); cbn [negb andb]; [logged|];
              destruct (has_allowed_eku ekus e); cbn [negb andb]; [|logged];
              destruct (eku_bad_set e); cbn [negb andb]; [logged|]).
    all: destruct (existsb (ku_offending (c_is_ca c)) (c_exts c)); cbn [negb andb]; try logged.
    all: cbn [aki_good ski_good key_usage_good handled_all_critical].
    all: destruct (existsb ku_counts (c_exts c)), (existsb is_aki (c_exts c)), (forallb crit_ok (c_exts c)), (c_is_ca c),
           (existsb is_ski (c_exts c)); cbn [negb andb]; try reflexivity; try logged. }
  destruct (oid_eqb (c_sig_alg c) RSASSA_PSS_OID).
  - destruct (c_pss c) as [| |h m]; cbn [andb orb] in *; [logged|discriminate|].
    destruct (oid_eqb h m); cbn [negb andb]; [|logged].
    destruct (oid_mem h ALLOWED_PSS_HASHES); cbn [negb andb]; [|logged].
    exact (Htail Hq).
  - cbn [andb orb] in *. exact (Htail Hq).
Qed.

(* ------------------------------------------------------------------ conforming vs accepted *)

Lemma existsb_impl : forall {A} (f g : A -> bool) l,
  (forall x, In x l -> f x = true -> g x = true) -> existsb f l = true -> existsb g l = true.
Proof.
  intros A f g l H He. apply existsb_exists in He. destruct He as [x [Hin Hf]].
  apply existsb_exists. exists x. split; [assumption|]. now apply H.
Qed.

Lemma existsb_false_impl : forall {A} (f g : A -> bool) l,
  (forall x, In x l -> g x = true -> f x = true) -> existsb f l = false -> existsb g l = false.
Proof.
  intros A f g l H He. destruct (existsb g l) eqn:Hg; [|reflexivity].
  rewrite (existsb_impl g f l H Hg) in He. discriminate.
Qed.

Lemma conforming_not_quiet : forall c ekus t, conforming c ekus t = true -> quiet_input c = false.
Proof.
  intros c ekus t H. unfold conforming in H.
  repeat (apply andb_true_iff in H; destruct H as [H ?]).
  unfold quiet_input, sig_ok, key_ok, eku_accepted in *.
  destruct (oid_eqb (c_sig_alg c) RSASSA_PSS_OID); cbn [andb orb].
  - destruct (c_pss c); cbn [andb orb].
    1,2: match goal with Hs : _ && false = true |- _ => rewrite andb_false_r in Hs; discriminate end.
    destruct (c_spki c) as [[cv| |]|[bits|]|]; try discriminate; destruct (c_eku c); try discriminate; reflexivity.
  - destruct (c_spki c) as [[cv| |]|[bits|]|]; try discriminate; destruct (c_eku c); try discriminate; reflexivity.
Qed.

Lemma conforming_accepts : forall c ekus t, conforming c ekus t = true -> accepts c ekus t = true.
Proof.
  intros c ekus t H. unfold conforming in H.
  repeat (apply andb_true_iff in H; destruct H as [H ?]).
  unfold accepts.
  assert (Hca : c_is_ca c = false) by (now apply negb_true_iff).
  assert (Hss : self_signed_rule c = false).
  { unfold self_signed_rule. replace (c_self_issued c) with false by (symmetry; now apply negb_true_iff). apply andb_false_r. }
  unfold ku_strict in *.
  match goal with Hk : existsb ku_has_ds _ && _ = true |- _ => apply andb_true_iff in Hk; destruct Hk as [Hds Hcs] end.
  apply negb_true_iff in Hcs.
  assert (Hoff : existsb (ku_offending (c_is_ca c)) (c_exts c) = false).
  { apply (existsb_false_impl ku_has_certsign); [|assumption].
    intros x _. unfold ku_offending, ku_has_certsign. destruct (x_kind x); try discriminate.
    intros Hx. apply andb_true_iff in Hx. destruct Hx as [Hx _]. apply andb_true_iff in Hx. tauto. }
  assert (Hcnt : existsb ku_counts (c_exts c) = true).
  { apply (existsb_impl ku_has_ds); [|assumption].
    intros x _. unfold ku_has_ds, ku_counts. destruct (x_kind x); try discriminate. intros ->. reflexivity. }
  rewrite Hss, Hoff, Hcnt.
  repeat match goal with Hx : ?b = true |- context [?b] => rewrite Hx end. reflexivity.
Qed.

Lemma accepts_conforming : forall c ekus t,
  accepts c ekus t = true -> known_selfsigned c = false -> known_ku c = false -> conforming c ekus t = true.
Proof.
  intros c ekus t H Hks Hkk. unfold accepts in H.
  repeat (apply andb_true_iff in H; destruct H as [H ?]).
  assert (Hca : c_is_ca c = false) by (now apply negb_true_iff).
  assert (Hsi : c_self_issued c = false).
  { unfold known_selfsigned, self_signed_rule in *. rewrite Hca in *.
    match goal with Hs : negb ((if _ then _ else _) && _) = true |- _ => apply negb_true_iff in Hs; revert Hs end.
    revert Hks. generalize SELFSIGNED_ONLY_CA. intros F. destruct F, (c_self_issued c); cbn; congruence. }
  rewrite Hca in *.
  match goal with Ho : negb (existsb (ku_offending false) _) = true |- _ => apply negb_true_iff in Ho; rename Ho into Hoff end.
  unfold known_ku in Hkk.
  assert (Hds : existsb ku_has_ds (c_exts c) = true).
  { match goal with Hc : existsb ku_counts _ = true |- _ => apply existsb_exists in Hc; destruct Hc as [x [Hin Hx]] end.
    apply existsb_exists. exists x. split; [assumption|].
    assert (Hg : ku_gap x = false).
    { destruct (ku_gap x) eqn:Hg; [|reflexivity]. assert (existsb ku_gap (c_exts c) = true) by (apply existsb_exists; eauto). congruence. }
    revert Hx Hg. unfold ku_counts, ku_gap, ku_has_ds. destruct (x_kind x); try discriminate.
    destruct (ku_digital_signature ku), (ku_key_cert_sign ku), (ku_non_repudiation ku); cbn; congruence. }
  assert (Hcs : existsb ku_has_certsign (c_exts c) = false).
  { destruct (existsb ku_has_certsign (c_exts c)) eqn:Hc; [|reflexivity].
    apply existsb_exists in Hc. destruct Hc as [x [Hin Hx]].
    assert (Hg : ku_gap x = false).
    { destruct (ku_gap x) eqn:Hg; [|reflexivity]. assert (existsb ku_gap (c_exts c) = true) by (apply existsb_exists; eauto). congruence. }
    assert (Ho : ku_offending false x = false).
    { destruct (ku_offending false x) eqn:Ho; [|reflexivity].
      assert (existsb (ku_offending false) (c_exts c) = true) by (apply existsb_exists; eauto). congruence. }
    revert Hx Hg Ho. unfold ku_has_certsign, ku_gap, ku_offending. destruct (x_kind x); try discriminate.
    destruct (ku_digital_signature ku), (ku_key_cert_sign ku), (ku_non_repudiation ku); cbn; congruence. }
  unfold conforming, ku_strict. rewrite Hsi, Hds, Hcs, Hca.
  repeat match goal with Hx : ?b = true |- context [?b] => rewrite Hx end. reflexivity.
Qed.

(* ------------------------------------------------------------------ the theorems of C06 *)

Theorem conforming_accepted : forall c ekus tst now,
  conforming c ekus (eff_time tst now) = true ->
  check_end_entity_certificate_profile c ekus tst now = POk
  /\ profile_log (check_end_entity_certificate_profile c ekus tst now) = [].
Proof.
  intros c ekus tst now H.
  pose proof (profile_exact c ekus tst now (conforming_not_quiet _ _ _ H)) as E.
  rewrite (conforming_accepts _ _ _ H) in E. rewrite E. split; reflexivity.
Qed.

(* every violation of the profile (outside the known classes) is rejected with a logged signingCredential code *)
Theorem violation_rejected : forall c ekus tst now,
  quiet_input c = false -> known_selfsigned c = false -> known_ku c = false ->
  conforming c ekus (eff_time tst now) = false ->
  exists b k, check_end_entity_certificate_profile c ekus tst now = PFail b /\ branch_code b = Some k
              /\ profile_log (check_end_entity_certificate_profile c ekus tst now) = [k].
Proof.
  intros c ekus tst now Hq Hs Hk Hc.
  pose proof (profile_exact c ekus tst now Hq) as E.
  destruct (accepts c ekus (eff_time tst now)) eqn:Ha.
  - rewrite (accepts_conforming _ _ _ Ha Hs Hk) in Hc. discriminate.
  - destruct E as [b [k [E1 E2]]]. exists b, k. repeat split; try assumption.
    rewrite E1. cbn. now rewrite E2.
Qed.

(* the outcome is exactly the declarative profile, outside the quiet inputs and the two known classes *)
Theorem profile_iff_conforming : forall c ekus tst now,
  quiet_input c = false -> known_selfsigned c = false -> known_ku c = false ->
  (check_end_entity_certificate_profile c ekus tst now = POk <-> conforming c ekus (eff_time tst now) = true).
Proof.
  intros c ekus tst now Hq Hs Hk. split.
  - intros HO. destruct (conforming c ekus (eff_time tst now)) eqn:Hc; [reflexivity|].
    destruct (violation_rejected c ekus tst now Hq Hs Hk Hc) as [b [k [E _]]]. congruence.
  - intros Hc. now apply conforming_accepted.
Qed.

(* one statement per rule of the property's list: violating the rule makes [conforming] false *)
Definition rule_version (c : cert) := c_version c <> 2%N.
Definition rule_ca (c : cert) := c_is_ca c = true.
Definition rule_self_signed (c : cert) := c_self_issued c = true.
Definition rule_sig_alg (c : cert) := sig_ok c = false.
Definition rule_key (c : cert) := key_ok c = false.            (* unsupported curve, RSA modulus under MIN_RSA_BITS *)
Definition rule_unique_ids (c : cert) := c_issuer_uid c = true \/ c_subject_uid c = true.
Definition rule_key_usage (c : cert) := ku_strict c = false.
Definition rule_eku (ekus : list oid) (c : cert) := eku_accepted ekus c = false.
Definition rule_critical (c : cert) := no_unhandled_critical c = false.
Definition rule_validity (c : cert) (t : Z) := valid_at c t = false.

Lemma rule_breaks_conforming : forall c ekus t,
  rule_version c \/ rule_ca c \/ rule_self_signed c \/ rule_sig_alg c \/ rule_key c \/ rule_unique_ids c
  \/ rule_key_usage c \/ rule_eku ekus c \/ rule_critical c \/ rule_validity c t ->
  conforming c ekus t = false.
Proof.
  intros c ekus t H. unfold conforming.
  unfold rule_version, rule_ca, rule_self_signed, rule_sig_alg, rule_key, rule_unique_ids, rule_key_usage, rule_eku,
    rule_critical, rule_validity in H.
  destruct H as [H|[H|[H|[H|[H|[H|[H|[H|[H|H]]]]]]]]].
  - apply N.eqb_neq in H. rewrite H. now rewrite andb_false_r.
  - rewrite H. cbn. now rewrite andb_false_r.
  - rewrite H. cbn. now rewrite !andb_false_r.
  - rewrite H. now rewrite !andb_false_r.
  - rewrite H. now rewrite !andb_false_r.
  - assert (E : c_issuer_uid c || c_subject_uid c = true) by (destruct H as [-> | ->]; [reflexivity|apply orb_true_r]).
    rewrite E. cbn. now rewrite !andb_false_r.
  - rewrite H. now rewrite !andb_false_r.
  - rewrite H. now rewrite !andb_false_r.
  - rewrite H. now rewrite !andb_false_r.
  - rewrite H. now rewrite !andb_false_r.
Qed.

Theorem each_violation_rejected : forall c ekus tst now,
  quiet_input c = false -> known_selfsigned c = false -> known_ku c = false ->
  rule_version c \/ rule_ca c \/ rule_self_signed c \/ rule_sig_alg c \/ rule_key c \/ rule_unique_ids c
  \/ rule_key_usage c \/ rule_eku ekus c \/ rule_critical c \/ rule_validity c (eff_time tst now) ->
  exists b k, check_end_entity_certificate_profile c ekus tst now = PFail b /\ branch_code b = Some k
              /\ profile_log (check_end_entity_certificate_profile c ekus tst now) = [k].
Proof.
  intros c ekus tst now Hq Hs Hk H. apply violation_rejected; try assumption.
  now apply rule_breaks_conforming.
Qed.

(* rules whose check precedes every quiet exit and every known class: rejected unconditionally, with the exact code *)
Theorem early_rules_exact : forall c ekus tst now,
  c_parse_ok c = true ->
  (c_version c <> 2%N -> check_end_entity_certificate_profile c ekus tst now = PFail BVersion)
  /\ (c_version c = 2%N -> valid_at c (eff_time tst now) = false ->
      check_end_entity_certificate_profile c ekus tst now = PFail BExpired /\ branch_code BExpired = Some CExpired)
  /\ (c_version c = 2%N -> valid_at c (eff_time tst now) = true -> oid_mem (c_sig_alg c) ALLOWED_SIG_ALGS = false ->
      check_end_entity_certificate_profile c ekus tst now = PFail BSigAlg).
Proof.
  intros c ekus tst now Hp.
  unfold check_end_entity_certificate_profile, check_certificate_profile. fold (eff_time tst now). rewrite Hp. cbn [negb].
  split; [|split].
  - intros H. apply N.eqb_neq in H. now rewrite H.
  - intros H H0. rewrite H, N.eqb_refl. cbn [negb]. rewrite H0. split; reflexivity.
  - intros H H0 H1. rewrite H, N.eqb_refl. cbn [negb]. rewrite H0. cbn [negb]. now rewrite H1.
Qed.

(* an EKU set that is not accepted is rejected with a code whatever else the certificate contains
   (the EKU test precedes the key-usage scan and the CA test, and the self-signed / key-usage gaps do not bypass it) *)
Theorem eku_rejected : forall c ekus tst now,
  quiet_input c = false -> eku_accepted ekus c = false ->
  exists b k, check_end_entity_certificate_profile c ekus tst now = PFail b /\ branch_code b = Some k.
Proof.
  intros c ekus tst now Hq He. pose proof (profile_exact c ekus tst now Hq) as E.
  unfold accepts in E. rewrite He in E. rewrite !andb_false_r in E. cbn in E. exact E.
Qed.

(* ------------------------------------------------------------------ witnesses of the known classes
   (selfsigned_refuted and pss_defaults_refuted are about the code before fixes e3a439b95 / 85312f708: they are stated under the
   old values of the regenerated facts and are vacuous on the repaired tree; ku_certsign_refuted is still live) *)

Definition ok_eku : eku :=
  {| eku_any := false; eku_server_auth := false; eku_client_auth := false; eku_code_signing := false;
     eku_email_protection := true; eku_time_stamping := false; eku_ocsp_signing := false; eku_other := [] |}.
Definition ku_ds : key_usage := {| ku_digital_signature := true; ku_non_repudiation := false; ku_key_cert_sign := false |}.
Definition ku_certsign_only : key_usage := {| ku_digital_signature := false; ku_non_repudiation := false; ku_key_cert_sign := true |}.
Definition X (k : ext_kind) (crit : bool) : ext := {| x_kind := k; x_critical := crit |}.

(* a conforming end-entity certificate: ECDSA P-256 key, ecdsa-with-SHA256, emailProtection, digitalSignature, SKI + AKI *)
Definition ok_cert : cert :=
  {| c_parse_ok := true; c_version := 2; c_not_before := 1577836800; c_not_after := 2366841600;
     c_sig_alg := [1; 2; 840; 10045; 4; 3; 2]%N; c_pss := PssAbsent;
     c_spki := SpkiEc (EcNamed [1; 2; 840; 10045; 3; 1; 7]%N);
     c_is_ca := false; c_self_issued := false; c_issuer_uid := false; c_subject_uid := false;
     c_eku := EkuPresent ok_eku;
     c_exts := [X XHandled true; X (XKeyUsage ku_ds) true; X XHandled false; X XSki false; X XAki false] |}.

Definition self_signed_ee : cert :=
  {| c_parse_ok := true; c_version := 2; c_not_before := 1577836800; c_not_after := 2366841600;
     c_sig_alg := [1; 2; 840; 10045; 4; 3; 2]%N; c_pss := PssAbsent;
     c_spki := SpkiEc (EcNamed [1; 2; 840; 10045; 3; 1; 7]%N);
     c_is_ca := false; c_self_issued := true; c_issuer_uid := false; c_subject_uid := false;
     c_eku := EkuPresent ok_eku;
     c_exts := [X XHandled true; X (XKeyUsage ku_ds) true; X XHandled false; X XSki false; X XAki false] |}.

(* signed with RSASSA-PSS whose parameters omit a DER default (SHA-1 / MGF1-SHA-1) — and a CA certificate on top *)
Definition pss_defaults_ca : cert :=
  {| c_parse_ok := true; c_version := 2; c_not_before := 1577836800; c_not_after := 2366841600;
     c_sig_alg := RSASSA_PSS_OID; c_pss := PssUnparsable;
     c_spki := SpkiRsa (Some 1024%N);
     c_is_ca := true; c_self_issued := true; c_issuer_uid := true; c_subject_uid := false;
     c_eku := EkuAbsent; c_exts := [] |}.

Definition certsign_only_ee : cert :=
  {| c_parse_ok := true; c_version := 2; c_not_before := 1577836800; c_not_after := 2366841600;
     c_sig_alg := [1; 2; 840; 10045; 4; 3; 2]%N; c_pss := PssAbsent;
     c_spki := SpkiEc (EcNamed [1; 2; 840; 10045; 3; 1; 7]%N);
     c_is_ca := false; c_self_issued := false; c_issuer_uid := false; c_subject_uid := false;
     c_eku := EkuPresent ok_eku;
     c_exts := [X XHandled true; X (XKeyUsage ku_certsign_only) true; X XHandled false; X XSki false; X XAki false] |}.

Definition T2026 : Z := 1790000000.

Lemma ok_cert_conforming : conforming ok_cert DEFAULT_EKUS T2026 = true.
Proof. vm_compute. reflexivity. Qed.

(* F-SELFSIGNED: a self-signed end-entity certificate is accepted while the self-signed rule asks for the CA flag *)
Lemma selfsigned_refuted :
  SELFSIGNED_ONLY_CA = true ->
  rule_self_signed self_signed_ee /\ c_is_ca self_signed_ee = false /\ quiet_input self_signed_ee = false
  /\ check_end_entity_certificate_profile self_signed_ee DEFAULT_EKUS None T2026 = POk.
Proof.
  intros F. unfold check_end_entity_certificate_profile, check_certificate_profile, self_signed_rule. rewrite F.
  vm_compute. repeat split; reflexivity.
Qed.

(* F-PSS-DEFAULTS: nothing is logged, whatever else is wrong with the certificate *)
Lemma pss_defaults_refuted :
  QUIET_EXITS_LOGGED = false ->
  rule_sig_alg pss_defaults_ca /\ rule_ca pss_defaults_ca /\ rule_key pss_defaults_ca /\ rule_unique_ids pss_defaults_ca
  /\ check_end_entity_certificate_profile pss_defaults_ca DEFAULT_EKUS None T2026 = PFail BPssUnparsable
  /\ profile_log (check_end_entity_certificate_profile pss_defaults_ca DEFAULT_EKUS None T2026) = [].
Proof.
  intros F.
  assert (L : profile_log (PFail BPssUnparsable) = [])
    by (cbv beta iota delta [profile_log branch_code]; rewrite F; reflexivity).
  repeat split; try reflexivity; try (left; reflexivity); exact L.
Qed.

(* F-KU-CERTSIGN: keyUsage = keyCertSign alone on an end-entity certificate is accepted *)
Lemma ku_certsign_refuted :
  rule_key_usage certsign_only_ee /\ c_is_ca certsign_only_ee = false /\ known_selfsigned certsign_only_ee = false
  /\ quiet_input certsign_only_ee = false
  /\ check_end_entity_certificate_profile certsign_only_ee DEFAULT_EKUS None T2026 = POk.
Proof. vm_compute. repeat split; reflexivity. Qed.

(* ================================================================== after the repairs (fix commits e3a439b95, 85312f708)
   The two regenerated facts now read SELFSIGNED_ONLY_CA = false (the self-signed test no longer asks for the CA flag) and
   QUIET_EXITS_LOGGED = true (a wrapper logs signingCredential.invalid for every Err that logged nothing).  The lemmas below
   are stated over those facts, so the theorems that follow need neither [quiet_input] nor [known_selfsigned]. *)

Lemma selfsigned_fixed : SELFSIGNED_ONLY_CA = false.
Proof. reflexivity. Qed.

Lemma quiet_exits_logged : QUIET_EXITS_LOGGED = true.
Proof. reflexivity. Qed.

Lemma known_selfsigned_empty : forall c, known_selfsigned c = false.
Proof. intros c. unfold known_selfsigned. now rewrite selfsigned_fixed. Qed.

Lemma quiet_branch_logged : forall b, exists k, branch_code b = Some k.
Proof.
  intros b. destruct b; cbv beta iota delta [branch_code]; try rewrite quiet_exits_logged; eexists; reflexivity.
Qed.

Lemma quiet_not_accepted : forall c ekus t, quiet_input c = true -> accepts c ekus t = false.
Proof.
  intros c ekus t Hq. unfold accepts, quiet_input, sig_ok, key_ok, eku_accepted in *.
  apply orb_true_iff in Hq. destruct Hq as [Hq|Hq]; [apply orb_true_iff in Hq; destruct Hq as [Hq|Hq]|].
  - apply andb_true_iff in Hq. destruct Hq as [H1 H2]. rewrite H1.
    destruct (c_pss c); try discriminate. now rewrite !andb_false_r.
  - destruct (c_spki c) as [[cv| |]|[bits|]|]; try discriminate; now rewrite !andb_false_r.
  - destruct (c_eku c); try discriminate. now rewrite !andb_false_r.
Qed.

Lemma accepted_is_ok : forall c ekus tst now,
  check_end_entity_certificate_profile c ekus tst now = POk \/
  exists b, check_end_entity_certificate_profile c ekus tst now = PFail b.
Proof. intros. destruct (check_end_entity_certificate_profile c ekus tst now); eauto. Qed.

(* on a quiet input the check fails (it never returns POk there): every quiet exit is a PFail *)
Lemma quiet_fails : forall c ekus tst now,
  quiet_input c = true -> exists b, check_end_entity_certificate_profile c ekus tst now = PFail b.
Proof.
  intros c ekus tst now Hq.
  unfold quiet_input in Hq. unfold check_end_entity_certificate_profile, check_certificate_profile.
  destruct (negb (c_parse_ok c)); [eauto|].
  destruct (negb (N.eqb (c_version c) 2)); [eauto|].
  destruct (negb (valid_at c match tst with Some t => t | None => now end)); [eauto|].
  destruct (negb (oid_mem (c_sig_alg c) ALLOWED_SIG_ALGS)); [eauto|].
  destruct (oid_eqb (c_sig_alg c) RSASSA_PSS_OID); cbn [andb orb] in Hq.
  - destruct (c_pss c) as [| |h m]; [eauto|eauto|].
    destruct (negb (oid_eqb h m)); [eauto|]. destruct (negb (oid_mem h ALLOWED_PSS_HASHES)); [eauto|].
    destruct (c_spki c) as [[cv| |]|[bits|]|]; cbn [orb] in Hq; eauto.
    + destruct (negb (oid_mem cv ALLOWED_CURVES)); [eauto|].
      destruct (self_signed_rule c); [eauto|]. destruct (c_issuer_uid c || c_subject_uid c); [eauto|].
      destruct (c_eku c); try discriminate. eauto.
    + destruct (N.ltb bits MIN_RSA_BITS); [eauto|].
      destruct (self_signed_rule c); [eauto|]. destruct (c_issuer_uid c || c_subject_uid c); [eauto|].
      destruct (c_eku c); try discriminate. eauto.
    + destruct (self_signed_rule c); [eauto|]. destruct (c_issuer_uid c || c_subject_uid c); [eauto|].
      destruct (c_eku c); try discriminate. eauto.
  - destruct (c_spki c) as [[cv| |]|[bits|]|]; cbn [orb] in Hq; eauto.
    + destruct (negb (oid_mem cv ALLOWED_CURVES)); [eauto|].
      destruct (self_signed_rule c); [eauto|]. destruct (c_issuer_uid c || c_subject_uid c); [eauto|].
      destruct (c_eku c); try discriminate. eauto.
    + destruct (N.ltb bits MIN_RSA_BITS); [eauto|].
      destruct (self_signed_rule c); [eauto|]. destruct (c_issuer_uid c || c_subject_uid c); [eauto|].
      destruct (c_eku c); try discriminate. eauto.
    + destruct (self_signed_rule c); [eauto|]. destruct (c_issuer_uid c || c_subject_uid c); [eauto|].
      destruct (c_eku c); try discriminate. eauto.
Qed.

(* the outcome, for every certificate: accepted exactly when [accepts]; every rejection carries a validation code *)
Theorem profile_exact_all : forall c ekus tst now,
  if accepts c ekus (eff_time tst now)
  then check_end_entity_certificate_profile c ekus tst now = POk
  else exists b k, check_end_entity_certificate_profile c ekus tst now = PFail b /\ branch_code b = Some k.
Proof.
  intros c ekus tst now. destruct (quiet_input c) eqn:Hq.
  - rewrite (quiet_not_accepted c ekus _ Hq).
    destruct (quiet_fails c ekus tst now Hq) as [b Hb]. destruct (quiet_branch_logged b) as [k Hk]. eauto.
  - exact (profile_exact c ekus tst now Hq).
Qed.

Theorem conforming_accepted_all : forall c ekus tst now,
  conforming c ekus (eff_time tst now) = true ->
  check_end_entity_certificate_profile c ekus tst now = POk
  /\ profile_log (check_end_entity_certificate_profile c ekus tst now) = [].
Proof. exact conforming_accepted. Qed.

Theorem violation_rejected_all : forall c ekus tst now,
  known_ku c = false -> conforming c ekus (eff_time tst now) = false ->
  exists b k, check_end_entity_certificate_profile c ekus tst now = PFail b /\ branch_code b = Some k
              /\ profile_log (check_end_entity_certificate_profile c ekus tst now) = [k].
Proof.
  intros c ekus tst now Hk Hc.
  pose proof (profile_exact_all c ekus tst now) as E.
  destruct (accepts c ekus (eff_time tst now)) eqn:Ha.
  - rewrite (accepts_conforming _ _ _ Ha (known_selfsigned_empty c) Hk) in Hc. discriminate.
  - destruct E as [b [k [E1 E2]]]. exists b, k. repeat split; try assumption.
    rewrite E1. cbv beta iota delta [profile_log]. now rewrite E2.
Qed.

Theorem profile_iff_conforming_all : forall c ekus tst now,
  known_ku c = false ->
  (check_end_entity_certificate_profile c ekus tst now = POk <-> conforming c ekus (eff_time tst now) = true).
Proof.
  intros c ekus tst now Hk. split.
  - intros HO. destruct (conforming c ekus (eff_time tst now)) eqn:Hc; [reflexivity|].
    destruct (violation_rejected_all c ekus tst now Hk Hc) as [b [k [E _]]]. congruence.
  - intros Hc. now apply conforming_accepted.
Qed.

Theorem each_violation_rejected_all : forall c ekus tst now,
  known_ku c = false ->
  rule_version c \/ rule_ca c \/ rule_self_signed c \/ rule_sig_alg c \/ rule_key c \/ rule_unique_ids c
  \/ rule_key_usage c \/ rule_eku ekus c \/ rule_critical c \/ rule_validity c (eff_time tst now) ->
  exists b k, check_end_entity_certificate_profile c ekus tst now = PFail b /\ branch_code b = Some k
              /\ profile_log (check_end_entity_certificate_profile c ekus tst now) = [k].
Proof.
  intros c ekus tst now Hk H. apply violation_rejected_all; [assumption|]. now apply rule_breaks_conforming.
Qed.

(* rules that need no hypothesis at all: everything except the key-usage rule (F-KU-CERTSIGN stays open) *)
Theorem non_ku_violation_rejected : forall c ekus tst now,
  rule_version c \/ rule_ca c \/ rule_self_signed c \/ rule_sig_alg c \/ rule_key c \/ rule_unique_ids c
  \/ rule_eku ekus c \/ rule_critical c \/ rule_validity c (eff_time tst now) ->
  exists b k, check_end_entity_certificate_profile c ekus tst now = PFail b /\ branch_code b = Some k.
Proof.
  intros c ekus tst now H.
  pose proof (profile_exact_all c ekus tst now) as E.
  assert (Ha : accepts c ekus (eff_time tst now) = false); [|now rewrite Ha in E].
  unfold accepts, self_signed_rule. rewrite selfsigned_fixed.
  unfold rule_version, rule_ca, rule_self_signed, rule_sig_alg, rule_key, rule_unique_ids, rule_eku, rule_critical, rule_validity in H.
  destruct H as [H|[H|[H|[H|[H|[H|[H|[H|H]]]]]]]].
  - apply N.eqb_neq in H. rewrite H. now rewrite andb_false_r.
  - rewrite H. cbn [negb]. now rewrite !andb_false_r.
  - rewrite H. cbn [negb andb]. now rewrite !andb_false_r.
  - rewrite H. now rewrite !andb_false_r.
  - rewrite H. now rewrite !andb_false_r.
  - assert (E2 : c_issuer_uid c || c_subject_uid c = true) by (destruct H as [-> | ->]; [reflexivity|apply orb_true_r]).
    rewrite E2. cbn [negb]. now rewrite !andb_false_r.
  - rewrite H. now rewrite !andb_false_r.
  - unfold no_unhandled_critical in H. unfold no_unhandled_critical. rewrite H. now rewrite !andb_false_r.
  - rewrite H. now rewrite !andb_false_r.
Qed.

(* the EKU rule without the quiet-input hypothesis *)
Theorem eku_rejected_all : forall c ekus tst now,
  eku_accepted ekus c = false ->
  exists b k, check_end_entity_certificate_profile c ekus tst now = PFail b /\ branch_code b = Some k.
Proof.
  intros c ekus tst now He. apply non_ku_violation_rejected. do 6 right. left. exact He.
Qed.

(* the former witnesses of F-SELFSIGNED and F-PSS-DEFAULTS are now rejected with signingCredential.invalid *)
Lemma former_witnesses_rejected :
  check_end_entity_certificate_profile self_signed_ee DEFAULT_EKUS None T2026 = PFail BSelfSigned
  /\ profile_log (check_end_entity_certificate_profile self_signed_ee DEFAULT_EKUS None T2026) = [CInvalid]
  /\ check_end_entity_certificate_profile pss_defaults_ca DEFAULT_EKUS None T2026 = PFail BPssUnparsable
  /\ profile_log (check_end_entity_certificate_profile pss_defaults_ca DEFAULT_EKUS None T2026) = [CInvalid].
Proof. vm_compute. repeat split; reflexivity. Qed.
