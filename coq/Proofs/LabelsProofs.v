(* Proofs/LabelsProofs.v — round trips of the JUMBF label/URI helpers of Model/Labels.v (C34). *)
From Coq Require Import List NArith Bool Lia Arith ZifyBool ZifyNat ZifyN String.
From C2PA Require Import Base.Bytes Model.ByteStr Generated.C34_facts Model.Labels Proofs.ByteStrProofs.
Import ListNotations.
Open Scope N_scope.

Arguments show_usize : simpl never.
Arguments parse_usize : simpl never.
Arguments vendor_bad : simpl never.

(* ---------------- generalities on split ---------------- *)

Lemma split_acc_elems c s cur p :
  In p (split_acc c s cur) -> forall x, In x p -> In x (rev cur) \/ In x s.
Proof.
  revert cur p; induction s as [|y t IH]; intros cur p H x Hx; cbn in H.
  - destruct H as [<-|[]]. left; exact Hx.
  - destruct (y =? c).
    + destruct H as [<-|H]; [left; exact Hx|].
      destruct (IH [] p H x Hx) as [[]|H']. right; right; exact H'.
    + destruct (IH (y :: cur) p H x Hx) as [H'|H'].
      * cbn in H'. apply in_app_or in H'. destruct H' as [H'|[<-|[]]]; [left; exact H' | right; left; reflexivity].
      * right; right; exact H'.
Qed.

(* every part of a split consists of characters of the string *)
Lemma split_elems c s p x : In p (split c s) -> In x p -> In x s.
Proof. intros H Hx. destruct (split_acc_elems c s [] p H x Hx) as [[]|H']; exact H'. Qed.

Lemma starts_with_In p c s : starts_with (p ++ [c]) s = true -> In c s.
Proof.
  intros H. apply starts_with_spec in H. destruct H as [rest ->].
  apply in_or_app; left. apply in_or_app; right. left; reflexivity.
Qed.

Lemma starts_with_cons_false p x s c : nth 0 p c <> x -> p <> [] -> starts_with p (x :: s) = false.
Proof.
  destruct p as [|a p]; [congruence|]. cbn. intros H _.
  destruct (a =? x) eqn:E; [apply N.eqb_eq in E; contradiction | reflexivity].
Qed.

(* ---------------- strings without '/' are not URIs ---------------- *)

Definition no (c : N) (s : bytes) : Prop := ~ In c s.

Lemma normalized_chars uri x : In x (to_normalized_uri uri) -> x = SLASH \/ In x uri.
Proof.
  unfold to_normalized_uri. set (parts := split EQUALS uri).
  assert (Hp : forall p, In p parts -> forall y, In y p -> In y uri) by (intros p Hp y; apply (split_elems EQUALS uri p y Hp)).
  set (output := match parts with [x0] => x0 | _ :: y :: _ => y | [] => [] end).
  assert (Ho : forall y, In y output -> In y uri).
  { subst output. destruct parts as [|p0 [|p1 r]]; intros y Hy; [destruct Hy | apply (Hp p0); [left; reflexivity | exact Hy] |
      apply (Hp p1); [right; left; reflexivity | exact Hy]]. }
  destruct (negb (beq output []) && starts_with (MANIFEST_STORE ++ [SLASH]) output); intros H.
  - destruct H as [<-|H]; [left; reflexivity | right; apply Ho, H].
  - right; apply Ho, H.
Qed.

Lemma normalized_noslash uri : no SLASH uri -> no SLASH (to_normalized_uri uri) /\ split SLASH (to_normalized_uri uri) = [to_normalized_uri uri].
Proof.
  intros H.
  assert (N1 : no SLASH (to_normalized_uri uri)).
  { unfold to_normalized_uri. set (parts := split EQUALS uri).
    set (output := match parts with [x0] => x0 | _ :: y :: _ => y | [] => [] end).
    assert (Ho : no SLASH output).
    { subst output. intros Hin. apply H.
      destruct parts as [|p0 [|p1 r]] eqn:E; [destruct Hin | |].
      - apply (split_elems EQUALS uri p0); [fold parts; rewrite E; left; reflexivity | exact Hin].
      - apply (split_elems EQUALS uri p1); [fold parts; rewrite E; right; left; reflexivity | exact Hin]. }
    destruct (starts_with (MANIFEST_STORE ++ [SLASH]) output) eqn:E.
    - exfalso. apply Ho. apply (starts_with_In _ _ _ E).
    - rewrite andb_false_r. exact Ho. }
  split; [exact N1 | apply split_nosep; exact N1].
Qed.

Lemma manifest_label_from_noslash uri : no SLASH uri -> manifest_label_from_uri uri = None.
Proof.
  intros H. unfold manifest_label_from_uri. destruct (normalized_noslash uri H) as [_ ->]. reflexivity.
Qed.

(* ---------------- the version field ---------------- *)

Lemma show_usize_no c n : is_digit c = false -> no c (show_usize n).
Proof. intros H. apply digits_not; [apply show_usize_digits | exact H]. Qed.

Lemma show_usize_app_not_nil n t : beq (show_usize n ++ t) [] = false.
Proof. destruct (show_usize_first_digit n) as [c [r [-> _]]]. reflexivity. Qed.

Definition ver_field (v : N) (r : option N) : bytes :=
  show_usize v ++ match r with Some r' => USCORE :: show_usize r' | None => [] end.

Lemma ver_field_split v r :
  split USCORE (ver_field v r) = show_usize v :: match r with Some r' => [show_usize r'] | None => [] end.
Proof.
  unfold ver_field. destruct r as [r'|].
  - rewrite split_app by (apply show_usize_no; reflexivity).
    rewrite split_nosep by (apply show_usize_no; reflexivity). reflexivity.
  - rewrite app_nil_r. apply split_nosep. apply show_usize_no; reflexivity.
Qed.

Lemma ver_field_no_colon v r : no COLON (ver_field v r).
Proof.
  unfold ver_field. apply not_In_app; [apply show_usize_no; reflexivity|].
  destruct r; [|intros []]. intros [H|H]; [discriminate H | revert H; apply show_usize_no; reflexivity].
Qed.

(* ---------------- the label parser after the split ---------------- *)

Definition parts_of_split (parts : list bytes) : option mparts :=
  let n := List.length parts in
  if Nat.ltb n 3 then None
  else if beq (idx parts 0) (b "urn") then
    let v1 := beq (idx parts 1) (b "uuid") in
    if negb v1 && negb (beq (idx parts 1) (b "c2pa")) then None
    else if v1 then Some (MP (idx parts 2) true None None None)
    else if Nat.ltb 5 n then None
    else
      let vendor :=
        if Nat.ltb 3 n && negb (beq (idx parts 3) []) then
          if vendor_bad (idx parts 3) then None else Some (Some (idx parts 3))
        else Some None in
      match vendor with
      | None => None
      | Some vendor =>
          if Nat.ltb 4 n && negb (beq (idx parts 4) []) then
            let vp := split USCORE (idx parts 4) in
            match parse_usize (idx vp 0) with
            | None => None
            | Some v =>
                match get vp 1 with
                | Some r => match parse_usize r with
                            | Some r' => Some (MP (idx parts 2) false vendor (Some v) (Some r'))
                            | None => None
                            end
                | None => Some (MP (idx parts 2) false vendor (Some v) None)
                end
            end
          else Some (MP (idx parts 2) false vendor None None)
      end
  else if beq (idx parts 1) (b "urn") then
    if beq (idx parts 2) (b "uuid") then
      if negb (Nat.eqb n 4) then None
      else Some (MP (idx parts 3) true (Some (idx parts 0)) None None)
    else None
  else None.

Lemma label_to_parts_noslash s :
  no SLASH s -> manifest_label_to_parts s = parts_of_split (split COLON s).
Proof. intros H. unfold manifest_label_to_parts. rewrite (manifest_label_from_noslash s H). reflexivity. Qed.

(* ---------------- well-formed parts ---------------- *)

Definition nosep (s : bytes) : Prop := no COLON s /\ no SLASH s.

(* exactly the parts the SDK can generate (Claim::new / the v2 label grammar) *)
Definition wf_parts (p : mparts) : Prop :=
  nosep (guid p)
  /\ if is_v1 p
     then version p = None /\ reason p = None
          /\ match cgi p with Some v => nosep v /\ v <> b "urn" | None => True end
     else match cgi p with Some v => nosep v /\ v <> [] /\ vendor_bad v = false | None => True end
          /\ match version p with Some v => v < USIZE | None => reason p = None end
          /\ match reason p with Some r => r < USIZE | None => True end.

Lemma no_cons c x s : x <> c -> no c s -> no c (x :: s).
Proof. intros H1 H2 [H|H]; [congruence | exact (H2 H)]. Qed.

Lemma no_app c a t : no c a -> no c t -> no c (a ++ t).
Proof. apply not_In_app. Qed.

Ltac no_tac :=
  repeat first [ apply no_app | apply no_cons; [discriminate|] | assumption
               | (intros []) | apply ver_field_no_colon
               | (apply show_usize_no; reflexivity) ].

Lemma b_no_slash_urn_uuid : no SLASH (b "urn:uuid:") /\ no SLASH (b ":urn:uuid:") /\ no SLASH (b "urn:c2pa:").
Proof. repeat split; intros H; cbn in H; repeat (destruct H as [H|H]; [discriminate H|]); exact H. Qed.

Lemma show_parts_noslash p : wf_parts p -> no SLASH (show_parts p).
Proof.
  destruct p as [g v1 c ve re]. unfold wf_parts, show_parts; cbn [guid is_v1 cgi version reason].
  destruct b_no_slash_urn_uuid as [B1 [B2 B3]].
  intros [[_ Hg] H]. destruct v1.
  - destruct H as [_ [_ H]]. destruct c as [v|]; [destruct H as [[_ Hv] _]|]; no_tac.
  - destruct H as [Hc [Hv Hr]].
    destruct c as [vd|]; [destruct Hc as [[_ Hvd] _]|]; destruct ve as [v|]; try destruct re as [r|]; no_tac.
Qed.

Lemma beq_false_of_neq x y : x <> y -> beq x y = false.
Proof. apply beq_neq. Qed.

Lemma vf_some v r : show_usize v ++ [USCORE] ++ show_usize r = ver_field v (Some r).
Proof. reflexivity. Qed.
Lemma vf_none v : show_usize v = ver_field v None.
Proof. unfold ver_field. rewrite app_nil_r. reflexivity. Qed.

(* what the parser makes of a version field *)
Lemma parse_ver g vend v r :
  v < USIZE -> match r with Some r' => r' < USIZE | None => True end ->
  (let vp := split USCORE (ver_field v r) in
   match parse_usize (idx vp 0) with
   | None => None
   | Some v0 =>
       match get vp 1 with
       | Some r0 => match parse_usize r0 with
                    | Some r' => Some (MP g false vend (Some v0) (Some r'))
                    | None => None
                    end
       | None => Some (MP g false vend (Some v0) None)
       end
   end) = Some (MP g false vend (Some v) r).
Proof.
  intros Hv Hr. cbv zeta. rewrite ver_field_split. cbn [idx nth].
  rewrite (parse_show_usize v Hv). destruct r as [r'|]; cbn [get nth_error].
  - rewrite (parse_show_usize r' Hr). reflexivity.
  - reflexivity.
Qed.

Lemma ver_field_not_nil v r : beq (ver_field v r) [] = false.
Proof. unfold ver_field. apply show_usize_app_not_nil. Qed.

Theorem parts_roundtrip p : wf_parts p -> manifest_label_to_parts (show_parts p) = Some p.
Proof.
  intros W. rewrite label_to_parts_noslash by (apply show_parts_noslash; exact W).
  destruct p as [g v1 c ve re]. unfold wf_parts in W; cbn [guid is_v1 cgi version reason] in W.
  destruct W as [[Hg _] W]. unfold show_parts; cbn [guid is_v1 cgi version reason].
  destruct v1.
  - (* v1 *)
    destruct W as [-> [-> W]]. destruct c as [v|].
    + destruct W as [[Hv _] Hurn].
      change (v ++ b ":urn:uuid:" ++ g) with (v ++ COLON :: (b "urn" ++ COLON :: (b "uuid" ++ COLON :: g))).
      rewrite split_app by exact Hv. rewrite split_app by (intros H; cbn in H; repeat (destruct H as [H|H]; [discriminate H|]); exact H).
      rewrite split_app by (intros H; cbn in H; repeat (destruct H as [H|H]; [discriminate H|]); exact H).
      rewrite split_nosep by exact Hg.
      unfold parts_of_split. cbn [List.length idx nth Nat.ltb Nat.leb Nat.eqb negb].
      rewrite (beq_false_of_neq _ _ Hurn). reflexivity.
    + change (b "urn:uuid:" ++ g) with (b "urn" ++ COLON :: (b "uuid" ++ COLON :: g)).
      rewrite split_app by (intros H; cbn in H; repeat (destruct H as [H|H]; [discriminate H|]); exact H).
      rewrite split_app by (intros H; cbn in H; repeat (destruct H as [H|H]; [discriminate H|]); exact H).
      rewrite split_nosep by exact Hg. reflexivity.
  - (* v2 *)
    destruct W as [Hc [Hve Hre]].
    assert (S0 : forall t, split COLON (b "urn:c2pa:" ++ g ++ t) = b "urn" :: b "c2pa" :: split COLON (g ++ t)).
    { intros t. change (b "urn:c2pa:" ++ g ++ t) with (b "urn" ++ COLON :: (b "c2pa" ++ COLON :: (g ++ t))).
      rewrite split_app by (intros H; cbn in H; repeat (destruct H as [H|H]; [discriminate H|]); exact H).
      rewrite split_app by (intros H; cbn in H; repeat (destruct H as [H|H]; [discriminate H|]); exact H).
      reflexivity. }
    destruct c as [vd|].
    + destruct Hc as [[Hvd _] [Hne Hbad]].
      assert (Evd : beq vd [] = false) by (apply beq_false_of_neq; exact Hne).
      destruct ve as [v|].
      * match goal with |- parts_of_split (split COLON ?s) = _ =>
          replace s with (b "urn:c2pa:" ++ g ++ COLON :: (vd ++ COLON :: ver_field v re))
            by (unfold ver_field; destruct re; repeat rewrite <- app_assoc; cbn [app]; rewrite ?app_nil_r; reflexivity) end.
        rewrite S0. rewrite split_app by exact Hg. rewrite split_app by exact Hvd.
        rewrite split_nosep by apply ver_field_no_colon.
        unfold parts_of_split. cbn [List.length idx nth Nat.ltb Nat.leb Nat.eqb negb andb].
        rewrite Evd, Hbad, ver_field_not_nil. cbn [negb andb].
        apply parse_ver; [exact Hve | exact Hre].
      * rewrite Hve. replace ((b "urn:c2pa:" ++ g) ++ [COLON] ++ vd) with (b "urn:c2pa:" ++ g ++ COLON :: vd)
          by (rewrite <- app_assoc; reflexivity).
        rewrite S0. rewrite split_app by exact Hg. rewrite split_nosep by exact Hvd.
        unfold parts_of_split. cbn [List.length idx nth Nat.ltb Nat.leb Nat.eqb negb andb].
        rewrite Evd, Hbad. reflexivity.
    + destruct ve as [v|].
      * match goal with |- parts_of_split (split COLON ?s) = _ =>
          replace s with (b "urn:c2pa:" ++ g ++ COLON :: ([] ++ COLON :: ver_field v re))
            by (unfold ver_field; destruct re; repeat rewrite <- app_assoc; cbn [app]; rewrite ?app_nil_r; reflexivity) end.
        rewrite S0. rewrite split_app by exact Hg. rewrite split_app by (intros []).
        rewrite split_nosep by apply ver_field_no_colon.
        unfold parts_of_split. cbn [List.length idx nth Nat.ltb Nat.leb Nat.eqb negb andb beq].
        rewrite ver_field_not_nil. cbn [negb andb].
        apply parse_ver; [exact Hve | exact Hre].
      * rewrite Hve. replace (b "urn:c2pa:" ++ g) with (b "urn:c2pa:" ++ g ++ []) by (rewrite app_nil_r; reflexivity).
        rewrite S0, app_nil_r. rewrite split_nosep by exact Hg. reflexivity.
Qed.

(* ---------------- each side condition of wf_parts is necessary ---------------- *)
Definition x33 : bytes := repeat 120 33.

Theorem parts_side_conditions_necessary :
  let bad p := manifest_label_to_parts (show_parts p) <> Some p in
  bad (MP (b "a:b") false None None None)                     (* ':' in the GUID *)
  /\ bad (MP (b "x/c2pa/y") false None None None)             (* '/' in the GUID *)
  /\ bad (MP (b "g") true (Some (b "urn")) None None)         (* v1 vendor "urn" *)
  /\ bad (MP (b "g") true (Some (b "a:b")) None None)         (* ':' in a v1 vendor *)
  /\ bad (MP (b "g") true (Some (b "x/c2pa/y")) None None)    (* '/' in a v1 vendor *)
  /\ bad (MP (b "g") true None (Some 1) None)                 (* a v1 label carries no version *)
  /\ bad (MP (b "g") true None None (Some 1))                 (* ... and no reason *)
  /\ bad (MP (b "g") false (Some []) None None)               (* empty v2 vendor *)
  /\ bad (MP (b "g") false (Some (b "a b")) None None)        (* white space in a v2 vendor *)
  /\ bad (MP (b "g") false (Some x33) None None)              (* 33 characters *)
  /\ bad (MP (b "g") false (Some [195; 169]) None None)       (* not ASCII *)
  /\ bad (MP (b "g") false (Some (b "a:b")) None None)        (* ':' in a v2 vendor *)
  /\ bad (MP (b "g") false (Some (b "x/c2pa/y")) None None)   (* '/' in a v2 vendor *)
  /\ bad (MP (b "g") false None None (Some 1))                (* reason without version *)
  /\ bad (MP (b "g") false None (Some USIZE) None).           (* version beyond usize *)
Proof. cbv zeta. repeat split; vm_compute; intros H; discriminate H. Qed.
