(* Proofs/ContJpegProofs.v — the JPEG instance of the generic container theory.  The recogniser of
   C2PA segments (get_cai_segments) is stateful: a segment is a continuation when its box instance
   number equals the one of the last C2PA box start.  The obligations are proved for media segments
   and carries the next packet sequence number (fix d67d17dcd).  The obligations are proved for media
   segments satisfying [jseg_ok]: an APP11 segment longer than 16 bytes has at least 28 bytes (otherwise
   write_cai fails) and, if it uses the box instance number 0x0211 that write_cai assigns, its packet
   sequence number is at most 1 (a one-segment foreign box; a later packet of a foreign multi-segment
   box with that instance number can still be taken for a continuation). *)
From Coq Require Import List NArith Bool Lia Arith.
From C2PA Require Import Base.Bytes Model.Container Model.ContPng Model.ContJpeg
     Proofs.BytesProofs Proofs.ContainerProofs Proofs.ContPngProofs.
Require Import ZifyBool ZifyNat ZifyN.
Import ListNotations.
Open Scope nat_scope.

Definition jlong (s : jseg) : bool := is_app11_long s.
Definition jen (s : jseg) : bytes := slice (jc s) 2 2.
Definition jstart (s : jseg) : bool := beq (slice (jc s) 24 4) C2PA_MARKER.
Definition jshort (s : jseg) : bool := (len (jc s) <? 28)%N.
Definition jz (s : jseg) : N := de (slice (jc s) 4 4).

(* media segments the theorems are about *)
Definition jseg_ok (s : jseg) : Prop := jlong s = true -> jshort s = false /\ (jen s = JP_EN -> (jz s <= 1)%N).
(* not a C2PA box start *)
Definition jplain (s : jseg) : Prop := jlong s = true -> jshort s = false /\ jstart s = false.

Lemma jcai_cons s t en cnt :
  jcai (s :: t) en cnt =
  if jlong s then
    if (0 <? cnt)%N && (beq en (jen s) && (jz s =? cnt + 1)%N) then rbind (jcai t en (cnt + 1)%N) (fun m => ROk (true :: m))
    else if jshort s then RErr EInvalidAsset
    else if jstart s then rbind (jcai t (jen s) 1%N) (fun m => ROk (true :: m))
    else rbind (jcai t en cnt) (fun m => ROk (false :: m))
  else rbind (jcai t en cnt) (fun m => ROk (false :: m)).
Proof. reflexivity. Qed.

Lemma jcai_length l : forall en cnt m, jcai l en cnt = ROk m -> length m = length l.
Proof.
  induction l as [|s t IH]; intros en cnt m H.
  - cbn in H. injection H as <-. reflexivity.
  - rewrite jcai_cons in H.
    repeat match type of H with
           | (if ?c then _ else _) = _ => destruct c
           end; try discriminate;
      match type of H with
      | rbind (jcai t ?e ?c) _ = _ => destruct (jcai t e c) as [m'|] eqn:E; cbn in H; [|discriminate];
                                      injection H as <-; cbn; f_equal; eapply IH; exact E
      end.
Qed.

(* no C2PA start, no short segment, counter at zero: nothing is recognised *)
Lemma jcai_plain l : Forall jplain l -> forall en, jcai l en 0%N = ROk (repeat false (length l)).
Proof.
  induction 1 as [|s t Hs Ht IH]; intro en; [reflexivity|].
  rewrite jcai_cons. cbn [N.ltb N.compare andb].
  destruct (jlong s) eqn:El.
  - destruct (Hs El) as [H1 H2]. change (0 <? 0)%N with false. cbn [andb]. rewrite H1, H2, IH. reflexivity.
  - rewrite IH. reflexivity.
Qed.

(* an admissible segment is never a continuation of the manifest (identifier 0x0211, counter > 0) *)
Lemma jseg_ok_not_cont s cnt : jseg_ok s -> jlong s = true -> (0 < cnt)%N ->
  (beq JP_EN (jen s) && (jz s =? cnt + 1)%N) = false.
Proof.
  intros Hs El Hc. destruct (Hs El) as [_ H2].
  destruct (beq JP_EN (jen s)) eqn:E; [|reflexivity]. apply beq_eq in E. symmetry in E. specialize (H2 E).
  cbn [andb]. apply N.eqb_neq. lia.
Qed.

(* after the manifest (identifier 0x0211, counter > 0) admissible plain segments are not recognised *)
Lemma jcai_after l : Forall jseg_ok l -> Forall jplain l -> forall cnt, (0 < cnt)%N ->
  jcai l JP_EN cnt = ROk (repeat false (length l)).
Proof.
  intros Hok Hpl. induction l as [|s t IH]; intros cnt Hc; [reflexivity|].
  inversion Hok as [|? ? Hs Hok']; subst. inversion Hpl as [|? ? Hp Hpl']; subst.
  rewrite jcai_cons. destruct (jlong s) eqn:El.
  - destruct (Hs El) as [H1 _]. destruct (Hp El) as [_ H3].
    rewrite (jseg_ok_not_cont s cnt Hs El Hc), andb_false_r, H1, H3, IH by assumption. reflexivity.
  - rewrite IH by assumption. reflexivity.
Qed.

(* admissible segments: no error; marks all false from counter zero means no start *)
Lemma jcai_clean_plain l : Forall jseg_ok l -> forall en,
  jcai l en 0%N = ROk (repeat false (length l)) -> Forall jplain l.
Proof.
  induction 1 as [|s t Hs Ht IH]; intros en H; [constructor|].
  rewrite jcai_cons in H. change (0 <? 0)%N with false in H. cbn [andb] in H.
  destruct (jlong s) eqn:El.
  - destruct (Hs El) as [H1 H2]. rewrite H1 in H. destruct (jstart s) eqn:Est.
    + destruct (jcai t (jen s) 1%N); cbn in H; discriminate.
    + destruct (jcai t en 0%N) as [m|] eqn:E; cbn in H; [|discriminate]. injection H as H.
      constructor; [intros _; split; assumption| eapply IH; rewrite E, H; reflexivity].
  - destruct (jcai t en 0%N) as [m|] eqn:E; cbn in H; [|discriminate]. injection H as H.
    constructor; [intro C; rewrite El in C; discriminate| eapply IH; rewrite E, H; reflexivity].
Qed.

(* the unmarked segments of any scan are plain *)
Lemma jcai_strip_plain l : forall en cnt m, jcai l en cnt = ROk m -> Forall jplain (select false l m).
Proof.
  induction l as [|s t IH]; intros en cnt m H.
  - cbn in H. injection H as <-. constructor.
  - rewrite jcai_cons in H.
    destruct (jlong s) eqn:El.
    + destruct ((0 <? cnt)%N && (beq en (jen s) && (jz s =? cnt + 1)%N)).
      * destruct (jcai t en (cnt + 1)%N) as [m'|] eqn:E; cbn in H; [|discriminate]. injection H as <-.
        cbn. eapply IH; exact E.
      * destruct (jshort s) eqn:Esh; [discriminate|]. destruct (jstart s) eqn:Est.
        -- destruct (jcai t (jen s) 1%N) as [m'|] eqn:E; cbn in H; [|discriminate]. injection H as <-.
           cbn. eapply IH; exact E.
        -- destruct (jcai t en cnt) as [m'|] eqn:E; cbn in H; [|discriminate]. injection H as <-.
           cbn. constructor; [intros _; split; assumption| eapply IH; exact E].
    + destruct (jcai t en cnt) as [m'|] eqn:E; cbn in H; [|discriminate]. injection H as <-.
      cbn. constructor; [intro C; rewrite El in C; discriminate| eapply IH; exact E].
Qed.

Definition jmarks (l : list jseg) : list bool := marks jpeg_format l.

Lemma jmarks_eq l : jmarks l = match jcai l [] 0%N with ROk m => m | RErr _ => map (fun _ => false) l end.
Proof. reflexivity. Qed.

Lemma map_false_repeat {A} (l : list A) : map (fun _ => false) l = repeat false (length l).
Proof. induction l; cbn; congruence. Qed.

Lemma jmarks_len l : length (jmarks l) = length l.
Proof.
  rewrite jmarks_eq. destruct (jcai l [] 0%N) eqn:E; [eapply jcai_length; exact E| apply map_length].
Qed.

Lemma jstrip_clean l : clean jpeg_format (strip jpeg_format l).
Proof.
  unfold clean, strip. fold (jmarks l). change (marks jpeg_format) with jmarks. rewrite (jmarks_eq l).
  destruct (jcai l [] 0%N) as [m|e] eqn:E.
  - pose proof (jcai_strip_plain _ _ _ _ E) as Hp. rewrite jmarks_eq, (jcai_plain _ Hp). reflexivity.
  - rewrite map_false_repeat, select_repeat_same. rewrite jmarks_eq, E. apply map_false_repeat.
Qed.

Lemma jcai_no_error l : Forall jseg_ok l -> forall en cnt, exists m, jcai l en cnt = ROk m.
Proof.
  induction 1 as [|x t Hx Ht IH]; intros en cnt; [eexists; reflexivity|].
  rewrite jcai_cons.
  destruct (jlong x) eqn:El.
  - destruct (Hx El) as [H1 _]. rewrite H1.
    destruct ((0 <? cnt)%N && (beq en (jen x) && (jz x =? cnt + 1)%N)).
    + destruct (IH en (cnt + 1)%N) as [m ->]. eexists; reflexivity.
    + destruct (jstart x).
      * destruct (IH (jen x) 1%N) as [m ->]. eexists; reflexivity.
      * destruct (IH en cnt) as [m ->]. eexists; reflexivity.
  - destruct (IH en cnt) as [m ->]. eexists; reflexivity.
Qed.

(* a clean admissible list: scanning succeeds with all-false marks and every segment is plain *)
Lemma jclean_plain s : clean jpeg_format s -> Forall jseg_ok s -> Forall jplain s.
Proof.
  intros Hc Hok. unfold clean in Hc. change (marks jpeg_format s) with (jmarks s) in Hc. rewrite jmarks_eq in Hc.
  destruct (jcai s [] 0%N) as [m|e] eqn:E.
  - subst m. eapply jcai_clean_plain; eassumption.
  - (* an error means a short segment, excluded by jseg_ok *)
    destruct (jcai_no_error s Hok [] 0%N) as [m Hm]. rewrite Hm in E. discriminate.
Qed.

(* ------------------------------------------------------------------ the C2PA run produced by write_cai *)

Definition jadm (b : bytes) : Prop :=
  21 <= length b /\ slice b 16 4 = C2PA_MARKER /\ (len b < 4294967296)%N.

Definition jf (b : bytes) (k : nat) (ch : bytes) : jseg :=
  JSeg M_APP11 (JP_CI ++ JP_EN ++ be 4 (N.of_nat (S k)) ++ (if Nat.eqb k 0 then [] else firstn 8 b) ++ ch) [].

Lemma jmk_eq b : jmk b = mapi_from 0 (jf b) (chunks (length b) MAX_JPEG_MARKER_SIZE b).
Proof. reflexivity. Qed.

Lemma max_ge_21 : 21 <= MAX_JPEG_MARKER_SIZE.
Proof. apply Nat.leb_le. vm_compute. reflexivity. Qed.

Lemma mapi_from_length {A B} (f : nat -> A -> B) l : forall k, length (mapi_from k f l) = length l.
Proof. induction l as [|x t IH]; intro k; cbn; [reflexivity| f_equal; apply IH]. Qed.

Lemma jf_len b k ch : length (jc (jf b k ch)) = 8 + (if Nat.eqb k 0 then 0 else length (firstn 8 b)) + length ch.
Proof.
  unfold jf. cbn [jc]. rewrite !app_length, be_length. cbn [JP_CI JP_EN length].
  destruct (Nat.eqb k 0); cbn [length]; lia.
Qed.

Lemma jf_en b k ch : jen (jf b k ch) = JP_EN.
Proof. reflexivity. Qed.

(* continuation segments: index >= 1, non-empty chunk *)
Lemma jf_cont_long b k ch : 8 <= length b -> ch <> [] -> jlong (jf b (S k) ch) = true.
Proof.
  intros Hb Hc. unfold jlong, is_app11_long. cbn [jm jf]. rewrite N.eqb_refl. cbn [andb].
  apply N.ltb_lt. unfold len. rewrite (jf_len b (S k) ch). cbn [Nat.eqb]. rewrite firstn_length.
  destruct ch; [contradiction|]. cbn [length]. lia.
Qed.

Lemma jf_cont_read b k ch : 8 <= length b -> (N.of_nat (S (S k)) < 4294967296)%N ->
  de (slice (jc (jf b (S k) ch)) 4 4) = N.of_nat (S (S k)) /\ skipn 16 (jc (jf b (S k) ch)) = ch.
Proof.
  intros Hb Hk. unfold jf. cbn [jc Nat.eqb]. split.
  - change (slice (JP_CI ++ JP_EN ++ be 4 (N.of_nat (S (S k))) ++ firstn 8 b ++ ch) 4 4)
      with (firstn 4 (be 4 (N.of_nat (S (S k))) ++ firstn 8 b ++ ch)).
    rewrite (firstn_len_app 4) by apply be_length. apply de_be4. exact Hk.
  - change (skipn 16 (JP_CI ++ JP_EN ++ be 4 (N.of_nat (S (S k))) ++ firstn 8 b ++ ch))
      with (skipn 12 (be 4 (N.of_nat (S (S k))) ++ firstn 8 b ++ ch)).
    rewrite app_assoc. apply skipn_len_app. rewrite app_length, be_length, firstn_length. lia.
Qed.

Lemma jcai_cont b cl : 8 <= length b -> Forall (fun ch => ch <> []) cl ->
  forall k rest m', (N.of_nat (S k + length cl) < 4294967296)%N ->
  jcai rest JP_EN (N.of_nat (S k + length cl)) = ROk m' ->
  jcai (mapi_from (S k) (jf b) cl ++ rest) JP_EN (N.of_nat (S k)) = ROk (repeat true (length cl) ++ m').
Proof.
  intros Hb Hcl. induction Hcl as [|ch t Hch Ht IH]; intros k rest m' Hk Hr.
  - cbn. rewrite Nat.add_0_r in Hr. exact Hr.
  - cbn [mapi_from app]. rewrite jcai_cons, (jf_cont_long b k ch Hb Hch), jf_en, beq_refl.
    cbn [length] in Hk, Hr.
    destruct (jf_cont_read b k ch Hb) as [Hz _]; [lia|]. unfold jz. rewrite Hz.
    replace (0 <? N.of_nat (S k))%N with true by (symmetry; apply N.ltb_lt; lia).
    replace (N.of_nat (S (S k)) =? N.of_nat (S k) + 1)%N with true by (symmetry; apply N.eqb_eq; lia).
    cbn [andb].
    replace (N.of_nat (S k) + 1)%N with (N.of_nat (S (S k))) by lia.
    rewrite (IH (S k) rest m'); [reflexivity| |].
    + replace (S (S k) + length t) with (S k + S (length t)) by lia. exact Hk.
    + replace (S (S k) + length t) with (S k + S (length t)) by lia. exact Hr.
Qed.

(* the first segment is a C2PA start *)
Lemma slice_firstn_ge {A} (l : list A) n o k : o + k <= n -> slice (firstn n l) o k = slice l o k.
Proof.
  intro H. unfold slice. revert l n H. induction o as [|o IH]; intros l n H.
  - cbn [skipn]. rewrite firstn_firstn. f_equal. lia.
  - destruct l as [|x t]; [rewrite firstn_nil; reflexivity|]. destruct n; [lia|]. cbn [firstn skipn]. apply IH. lia.
Qed.

Lemma jf_first b : jadm b ->
  let s := jf b 0 (firstn MAX_JPEG_MARKER_SIZE b) in
  jlong s = true /\ jshort s = false /\ jstart s = true /\ (28 <? len (jc s))%N = true
  /\ skipn 8 (jc s) = firstn MAX_JPEG_MARKER_SIZE b.
Proof.
  intros (Hl & Hm & _). cbn zeta. pose proof max_ge_21 as HM.
  assert (Hlen : length (jc (jf b 0 (firstn MAX_JPEG_MARKER_SIZE b))) = 8 + length (firstn MAX_JPEG_MARKER_SIZE b))
    by (rewrite jf_len; reflexivity).
  assert (Hf : 21 <= length (firstn MAX_JPEG_MARKER_SIZE b)) by (rewrite firstn_length; lia).
  split; [|split; [|split; [|split]]].
  - unfold jlong, is_app11_long. cbn [jm jf]. rewrite N.eqb_refl. cbn [andb]. apply N.ltb_lt. unfold len. rewrite Hlen. lia.
  - unfold jshort. apply N.ltb_ge. unfold len. rewrite Hlen. lia.
  - unfold jstart, jf. cbn [jc Nat.eqb app].
    change (JP_CI ++ JP_EN ++ be 4 (N.of_nat 1) ++ firstn MAX_JPEG_MARKER_SIZE b)
      with ((JP_CI ++ JP_EN ++ be 4 (N.of_nat 1)) ++ firstn MAX_JPEG_MARKER_SIZE b).
    unfold slice. replace 24 with (length (JP_CI ++ JP_EN ++ be 4 (N.of_nat 1)) + 16) by reflexivity.
    rewrite skipn_app_2. fold (slice (firstn MAX_JPEG_MARKER_SIZE b) 16 4).
    rewrite slice_firstn_ge by lia. rewrite Hm. apply beq_refl.
  - apply N.ltb_lt. unfold len. rewrite Hlen. lia.
  - reflexivity.
Qed.

Lemma chunks_first {A} fuel k (l : list A) : l <> [] -> 0 < fuel ->
  chunks fuel k l = firstn k l :: chunks (fuel - 1) k (skipn k l).
Proof.
  intros Hl Hf. destruct fuel; [lia|]. cbn [chunks]. destruct l; [contradiction|].
  replace (S fuel - 1) with fuel by lia. reflexivity.
Qed.

Lemma jmk_shape b : jadm b ->
  exists cl, jmk b = jf b 0 (firstn MAX_JPEG_MARKER_SIZE b) :: mapi_from 1 (jf b) cl
             /\ Forall (fun ch => ch <> []) cl
             /\ firstn MAX_JPEG_MARKER_SIZE b ++ concat cl = b
             /\ S (length cl) <= length b.
Proof.
  intros (Hl & _ & _). pose proof max_ge_21 as HM.
  assert (Hne : b <> []) by (destruct b; [cbn in Hl; lia| discriminate]).
  exists (chunks (length b - 1) MAX_JPEG_MARKER_SIZE (skipn MAX_JPEG_MARKER_SIZE b)).
  assert (H0 : 0 < length b) by (clear HM; lia).
  rewrite jmk_eq, (chunks_first (length b) _ b Hne H0). cbn [mapi_from].
  repeat split.
  - apply chunks_nonempty. lia.
  - rewrite chunks_concat; [apply firstn_skipn| lia| rewrite skipn_length; lia].
  - assert (Hcl : forall fuel (l : bytes), length (chunks fuel MAX_JPEG_MARKER_SIZE l) <= length l).
    { induction fuel as [|f IH]; intro l; cbn [chunks length]; [lia|]. destruct l as [|x t]; [cbn [length]; lia|].
      cbn [length]. specialize (IH (skipn MAX_JPEG_MARKER_SIZE (x :: t))). rewrite skipn_length in IH. cbn [length] in IH. lia. }
    specialize (Hcl (length b - 1) (skipn MAX_JPEG_MARKER_SIZE b)). rewrite skipn_length in Hcl.
    unfold bytes in *. set (M := MAX_JPEG_MARKER_SIZE) in *. clearbody M. lia.
Qed.

Lemma jcai_plain_app p q en : Forall jplain p ->
  jcai (p ++ q) en 0%N = rbind (jcai q en 0%N) (fun m => ROk (repeat false (length p) ++ m)).
Proof.
  induction 1 as [|s t Hs Ht IH]; cbn [app].
  - destruct (jcai q en 0%N); reflexivity.
  - rewrite jcai_cons. change (0 <? 0)%N with false. cbn [andb].
    destruct (jlong s) eqn:El.
    + destruct (Hs El) as [H1 H2]. rewrite H1, H2, IH. destruct (jcai q en 0%N); reflexivity.
    + rewrite IH. destruct (jcai q en 0%N); reflexivity.
Qed.

(* scanning an asset with the manifest inserted at position i of a clean admissible segment list *)
Theorem jcai_inserted s i b en :
  Forall jplain s -> Forall jseg_ok s -> jadm b -> i <= length s ->
  jcai (insert_at i (jmk b) s) en 0%N
  = ROk (repeat false i ++ repeat true (length (jmk b)) ++ repeat false (length s - i)).
Proof.
  intros Hp Hok Ha Hi. unfold insert_at.
  rewrite jcai_plain_app by (apply forall_firstn; exact Hp).
  destruct (jmk_shape b Ha) as (cl & Hmk & Hcl & _ & Hn).
  destruct (jf_first b Ha) as (F1 & F2 & F3 & _).
  assert (Hb8 : 8 <= length b) by (destruct Ha; lia).
  rewrite Hmk. cbn [app]. rewrite jcai_cons, F1. change (0 <? 0)%N with false. cbn [andb]. rewrite F2, F3, jf_en.
  change 1%N with (N.of_nat 1).
  assert (Hbound : (N.of_nat (1 + length cl) < 4294967296)%N).
  { destruct Ha as (_ & _ & H32). unfold len in H32. unfold bytes in *. lia. }
  rewrite (jcai_cont b cl Hb8 Hcl 0 (skipn i s) (repeat false (length (skipn i s))) Hbound).
  - cbn [rbind]. rewrite firstn_length, skipn_length. cbn [length]. rewrite mapi_from_length.
    replace (Nat.min i (length s)) with i by lia. reflexivity.
  - apply jcai_after; [apply forall_skipn; exact Hok| apply forall_skipn; exact Hp| lia].
Qed.

(* ------------------------------------------------------------------ the reader *)

Lemma jread_cons s t buf en cnt st :
  jread_loop (s :: t) buf en cnt st =
  if jlong s then
    if (0 <? cnt)%N && beq en (jen s) then
      if (de (slice (jc s) 4 4) <=? cnt)%N then jread_loop t buf [] cnt st
      else jread_loop t (buf ++ skipn 16 (jc s)) en (cnt + 1)%N st
    else if (28 <? len (jc s))%N then
      if jstart s then
        if (st =? 1)%N then RErr ETooManyManifestStores
        else jread_loop t (buf ++ skipn 8 (jc s)) (jen s) 1%N (st + 1)%N
      else jread_loop t buf en cnt st
    else jread_loop t buf en cnt st
  else jread_loop t buf en cnt st.
Proof. reflexivity. Qed.

Lemma jread_plain_app p q buf en st : Forall jplain p ->
  jread_loop (p ++ q) buf en 0%N st = jread_loop q buf en 0%N st.
Proof.
  induction 1 as [|s t Hs Ht IH]; [reflexivity|]. cbn [app]. rewrite jread_cons.
  change (0 <? 0)%N with false. cbn [andb].
  destruct (jlong s) eqn:El; [|exact IH]. destruct (Hs El) as [_ H2]. rewrite H2.
  destruct (28 <? len (jc s))%N; exact IH.
Qed.

Lemma jen_not_nil s : jlong s = true -> beq [] (jen s) = false.
Proof.
  intro El. unfold jlong, is_app11_long in El. apply andb_prop in El. destruct El as [_ E2]. apply N.ltb_lt in E2.
  apply beq_neq. intro H. assert (Hl : length (jen s) = 2).
  { unfold jen. apply slice_length. unfold len in E2. lia. }
  rewrite <- H in Hl. discriminate.
Qed.

(* after the manifest the reader's identifier is 0x0211 or has been reset to empty; admissible plain
   segments add nothing *)
Lemma jread_after l : Forall jseg_ok l -> Forall jplain l -> forall buf en cnt st,
  en = JP_EN \/ en = [] -> (0 < cnt)%N -> jread_loop l buf en cnt st = ROk buf.
Proof.
  intros Hok Hpl. induction l as [|s t IH]; intros buf en cnt st Hen Hc; [reflexivity|].
  inversion Hok as [|? ? Hs Hok']; subst. inversion Hpl as [|? ? Hp Hpl']; subst.
  rewrite jread_cons. destruct (jlong s) eqn:El; [|apply IH; assumption].
  destruct (Hs El) as [_ H2]. destruct (Hp El) as [_ H3].
  replace (0 <? cnt)%N with true by (symmetry; apply N.ltb_lt; exact Hc). cbn [andb].
  destruct (beq en (jen s)) eqn:Ec.
  - (* same identifier: only possible for en = JP_EN, and then the packet number is stale *)
    destruct Hen as [-> | ->]; [|rewrite (jen_not_nil s El) in Ec; discriminate].
    apply beq_eq in Ec. symmetry in Ec. specialize (H2 Ec). fold (jz s).
    replace (jz s <=? cnt)%N with true by (symmetry; apply N.leb_le; lia).
    apply IH; auto.
  - rewrite H3. destruct (28 <? len (jc s))%N; apply IH; assumption.
Qed.

Lemma jread_cont b cl : 8 <= length b -> Forall (fun ch => ch <> []) cl ->
  forall k buf st rest, (N.of_nat (S k + length cl) < 4294967296)%N ->
  jread_loop (mapi_from (S k) (jf b) cl ++ rest) buf JP_EN (N.of_nat (S k)) st
  = jread_loop rest (buf ++ concat cl) JP_EN (N.of_nat (S k + length cl)) st.
Proof.
  intros Hb Hcl. induction Hcl as [|ch t Hch Ht IH]; intros k buf st rest Hk.
  - cbn. rewrite app_nil_r, Nat.add_0_r. reflexivity.
  - cbn [mapi_from app]. rewrite jread_cons, (jf_cont_long b k ch Hb Hch), jf_en, beq_refl.
    replace (0 <? N.of_nat (S k))%N with true by (symmetry; apply N.ltb_lt; lia). cbn [andb].
    cbn [length] in Hk.
    destruct (jf_cont_read b k ch Hb) as [Hz Hsk]; [lia|]. rewrite Hz, Hsk.
    replace (N.of_nat (S (S k)) <=? N.of_nat (S k))%N with false by (symmetry; apply N.leb_gt; lia).
    replace (N.of_nat (S k) + 1)%N with (N.of_nat (S (S k))) by lia.
    rewrite (IH (S k)) by lia. cbn [concat length]. rewrite <- app_assoc.
    replace (S (S k) + length t) with (S k + S (length t)) by lia. reflexivity.
Qed.

Theorem jread_inserted s i b :
  Forall jplain s -> Forall jseg_ok s -> jadm b -> i <= length s ->
  jpeg_payload (insert_at i (jmk b) s) = ROk b.
Proof.
  intros Hp Hok Ha Hi. unfold jpeg_payload, insert_at.
  rewrite jread_plain_app by (apply forall_firstn; exact Hp).
  destruct (jmk_shape b Ha) as (cl & Hmk & Hcl & Hcat & Hn).
  destruct (jf_first b Ha) as (F1 & _ & F3 & F4 & F5).
  assert (Hb8 : 8 <= length b) by (destruct Ha; lia).
  assert (Hb32 : (N.of_nat (length b) < 4294967296)%N) by (destruct Ha as (_ & _ & H); exact H).
  rewrite Hmk. cbn [app]. rewrite jread_cons, F1. change (0 <? 0)%N with false. cbn [andb].
  rewrite F4, F3, F5, jf_en. change (0 =? 1)%N with false. cbn iota.
  change 1%N with (N.of_nat 1) at 1.
  rewrite (jread_cont b cl Hb8 Hcl 0) by (unfold bytes in *; lia).
  rewrite jread_after; [|apply forall_skipn; assumption|apply forall_skipn; assumption|left; reflexivity|lia].
  cbn [app]. rewrite Hcat. destruct b; [destruct Ha; cbn in *; lia| reflexivity].
Qed.

(* ------------------------------------------------------------------ insertion point *)

Lemma rfind_index_bound {A} (p : A -> bool) l j : rfind_index p l = Some j -> j < length l.
Proof.
  revert j. induction l as [|x t IH]; intros j H; cbn in H; [discriminate|].
  destruct (rfind_index p t) as [k|] eqn:E.
  - injection H as <-. specialize (IH k eq_refl). cbn. lia.
  - destruct (p x); [injection H as <-; cbn; lia| discriminate].
Qed.

Lemma default_ip_bound l : default_ip l <= length l.
Proof.
  unfold default_ip. destruct (rfind_index is_app0 l) eqn:E; [|lia]. apply rfind_index_bound in E. lia.
Qed.

Definition jins (l : list jseg) : nat := ins jpeg_format l.

Lemma jins_eq l : jins l = match jcai l [] 0%N with
                           | ROk m => match find_index (fun x : bool => x) m with
                                      | Some (S i) => S i
                                      | _ => default_ip (select false l m)
                                      end
                           | RErr _ => 0
                           end.
Proof. reflexivity. Qed.

Lemma first_true_le_unmarked {A} (l : list A) m j :
  length m = length l -> find_index (fun x : bool => x) m = Some j -> j <= length (select false l m).
Proof.
  revert l j. induction m as [|x m IH]; intros l j Hl H; [discriminate|].
  destruct l as [|a l]; [discriminate|]. cbn in H. destruct x.
  - injection H as <-. lia.
  - destruct (find_index (fun x : bool => x) m) as [k|] eqn:E; cbn in H; [|discriminate]. injection H as <-.
    cbn. specialize (IH l k). cbn in Hl. specialize (IH ltac:(lia) eq_refl). lia.
Qed.

Lemma jstrip_eq l m : jcai l [] 0%N = ROk m -> strip jpeg_format l = select false l m.
Proof. intro E. unfold strip. change (marks jpeg_format l) with (jmarks l). rewrite jmarks_eq, E. reflexivity. Qed.

Lemma jins_bound l : jins l <= length (strip jpeg_format l).
Proof.
  rewrite jins_eq. destruct (jcai l [] 0%N) as [m|] eqn:E; [|lia].
  rewrite (jstrip_eq _ _ E).
  destruct (find_index (fun x : bool => x) m) as [[|i]|] eqn:Ef; try apply default_ip_bound.
  apply first_true_le_unmarked; [eapply jcai_length; exact E| exact Ef].
Qed.

Lemma find_first_true i k r : 0 < k ->
  find_index (fun x : bool => x) (repeat false i ++ repeat true k ++ r) = Some i.
Proof.
  intro Hk. induction i as [|i IH]; cbn.
  - destruct k; [lia|]. reflexivity.
  - rewrite IH. reflexivity.
Qed.

Lemma jmk_nonempty b : jadm b -> 0 < length (jmk b).
Proof. intro Ha. destruct (jmk_shape b Ha) as (cl & -> & _). cbn. lia. Qed.

Lemma jcai_ok_of_strip l : Forall jseg_ok (strip jpeg_format l) -> exists m, jcai l [] 0%N = ROk m.
Proof.
  intro H. destruct (jcai l [] 0%N) as [m|e] eqn:E; [eexists; reflexivity|]. exfalso.
  assert (Hs : strip jpeg_format l = l).
  { unfold strip. change (marks jpeg_format l) with (jmarks l). rewrite jmarks_eq, E, map_false_repeat. apply select_repeat_same. }
  rewrite Hs in H. destruct (jcai_no_error l H [] 0%N) as [m Hm]. rewrite Hm in E. discriminate.
Qed.

Lemma select_false_inserted {A} (s x : list A) i : i <= length s ->
  select false (insert_at i x s) (repeat false i ++ repeat true (length x) ++ repeat false (length s - i)) = s.
Proof.
  intro Hi. unfold insert_at.
  rewrite select_app by (rewrite repeat_length, firstn_length; lia).
  rewrite select_app by (rewrite repeat_length; reflexivity).
  replace i with (length (firstn i s)) at 2 by (rewrite firstn_length; lia).
  rewrite (select_repeat_same false).
  change true with (negb false). rewrite select_repeat_other. cbn [app].
  replace (length s - i) with (length (skipn i s)) by (rewrite skipn_length; reflexivity).
  rewrite (select_repeat_same false). apply firstn_skipn.
Qed.

Lemma jins_stable l b : Forall jseg_ok (strip jpeg_format l) -> jadm b -> jins (gwrite jpeg_format l b) = jins l.
Proof.
  intros Hok Ha. destruct (jcai_ok_of_strip l Hok) as [m Em].
  pose proof (jins_bound l) as Hb. pose proof (jstrip_eq l m Em) as Hs.
  assert (Hp : Forall jplain (strip jpeg_format l)) by (rewrite Hs; eapply jcai_strip_plain; exact Em).
  unfold gwrite. change (ins jpeg_format l) with (jins l). change (mk jpeg_format b) with (jmk b).
  change (seg jpeg_format) with jseg in *.
  set (s := strip jpeg_format l) in *. set (i := jins l) in *.
  rewrite (jins_eq (insert_at i (jmk b) s)), (jcai_inserted s i b [] Hp Hok Ha Hb).
  rewrite find_first_true by (apply jmk_nonempty; exact Ha).
  rewrite select_false_inserted by exact Hb.
  destruct i as [|i'] eqn:Ei; [|reflexivity].
  (* the manifest went to index 0: then the default insertion point of the media segments is 0 *)
  unfold i in Ei. rewrite jins_eq, Em in Ei. fold s in Hs. rewrite <- Hs in Ei.
  destruct (find_index (fun x : bool => x) m) as [[|k]|]; try exact Ei. discriminate.
Qed.

(* the encoded length of the C2PA run depends only on the length of the store *)
Lemma enc_jseg_length s : length (enc_jseg s) = 4 + length (jc s) + length (je s).
Proof. unfold enc_jseg. rewrite !app_length, be_length. cbn [length]. lia. Qed.

Fixpoint jrun_len (lb k : nat) (lens : list nat) : nat :=
  match lens with
  | [] => 0
  | n :: t => 4 + (8 + (if Nat.eqb k 0 then 0 else Nat.min 8 lb) + n) + jrun_len lb (S k) t
  end.

Lemma jrun_len_eq b cl : forall k,
  length (concat (map enc_jseg (mapi_from k (jf b) cl))) = jrun_len (length b) k (map (@length N) cl).
Proof.
  induction cl as [|ch t IH]; intro k; [reflexivity|].
  cbn [mapi_from map concat jrun_len]. rewrite app_length, enc_jseg_length, jf_len, IH, firstn_length.
  cbn [je jf length]. lia.
Qed.

Lemma chunks_lengths {A} fuel k : forall (l1 l2 : list A), length l1 = length l2 ->
  map (@length A) (chunks fuel k l1) = map (@length A) (chunks fuel k l2).
Proof.
  induction fuel as [|f IH]; intros l1 l2 H; [reflexivity|]. cbn [chunks].
  destruct l1, l2; try discriminate; [reflexivity|]. cbn [map]. f_equal.
  - rewrite !firstn_length, H. reflexivity.
  - apply IH. rewrite !skipn_length, H. reflexivity.
Qed.

Lemma jmk_len b1 b2 : length b1 = length b2 ->
  length (encs jpeg_format (jmk b1)) = length (encs jpeg_format (jmk b2)).
Proof.
  intro H. unfold encs. cbn [enc jpeg_format]. rewrite !jmk_eq, !jrun_len_eq, H.
  rewrite (chunks_lengths (length b2) MAX_JPEG_MARKER_SIZE b1 b2 H). reflexivity.
Qed.

Theorem jpeg_laws : laws jpeg_format jseg_ok jadm.
Proof.
  constructor.
  - exact jmarks_len.
  - exact jstrip_clean.
  - intros s i b Hc Hok Ha Hi.
    change (jmarks (insert_at i (jmk b) s) = repeat false i ++ repeat true (length (jmk b)) ++ repeat false (length s - i)).
    rewrite jmarks_eq, (jcai_inserted s i b []) by (auto using jclean_plain). reflexivity.
  - intros s i b Hc Hok Ha Hi. change (jpeg_payload (insert_at i (jmk b) s) = ROk b). apply jread_inserted; auto using jclean_plain.
  - intros s Hc Hok. change (payload jpeg_format s) with (jpeg_payload s). unfold jpeg_payload.
    rewrite <- (app_nil_r s), jread_plain_app by (apply jclean_plain; assumption). reflexivity.
  - exact jins_bound.
  - exact jins_stable.
  - intros b Ha E. pose proof (jmk_nonempty b Ha) as H. change (mk jpeg_format b) with (jmk b) in E. rewrite E in H. cbn in H. lia.
  - exact jmk_len.
Qed.

(* ------------------------------------------------------------------ write_cai / remove are the generic operations *)

Lemma insert_at_step {A} n (x : A) t cur : n <= length cur ->
  insert_at (S n) t (insert_at n [x] cur) = insert_at n (x :: t) cur.
Proof.
  intro H. unfold insert_at.
  assert (Hl : length (firstn n cur) = n) by (apply firstn_length_le; exact H).
  set (a := firstn n cur) in *. set (c := skipn n cur).
  replace (S n) with (length a + 1) by lia.
  rewrite firstn_app_2, skipn_app_2. cbn [app firstn skipn]. rewrite <- app_assoc. reflexivity.
Qed.

Lemma jinsert_ok ip news : forall k cur, k + ip <= length cur ->
  jinsert ip k news cur = ROk (insert_at (k + ip) news cur).
Proof.
  induction news as [|s t IH]; intros k cur H.
  - cbn. unfold insert_at. cbn. rewrite firstn_skipn. reflexivity.
  - cbn [jinsert]. replace (Nat.leb (k + ip) (length cur)) with true by (symmetry; apply Nat.leb_le; exact H).
    rewrite IH by (rewrite insert_at_length; cbn; lia). f_equal.
    change (S k + ip) with (S (k + ip)). apply insert_at_step. exact H.
Qed.

Theorem jpeg_write_segs_generic l b :
  Forall jseg_ok (strip jpeg_format l) -> jpeg_write_segs l b = ROk (gwrite jpeg_format l b).
Proof.
  intro Hok. destruct (jcai_ok_of_strip l Hok) as [m Em]. unfold jpeg_write_segs. rewrite Em. cbn [rbind].
  pose proof (jins_bound l) as Hb. unfold gwrite. change (ins jpeg_format l) with (jins l).
  rewrite (jstrip_eq l m Em) in *. rewrite jins_eq, Em in *.
  rewrite jinsert_ok by (cbn; exact Hb). reflexivity.
Qed.

Theorem jpeg_remove_segs_generic l m : jcai l [] 0%N = ROk m -> select false l m = gremove jpeg_format l.
Proof. intro E. unfold gremove. rewrite (jstrip_eq l m E). reflexivity. Qed.

(* ------------------------------------------------------------------ object locations of a written JPEG *)

(* offsets advance by [jstep] (4 for a parameterless marker segment, the encoded length otherwise) *)
Fixpoint jsum (l : list jseg) : N := match l with [] => 0%N | s :: t => (jstep s + jsum t)%N end.

Lemma jsum_app l1 l2 : jsum (l1 ++ l2) = (jsum l1 + jsum l2)%N.
Proof. induction l1 as [|s t IH]; cbn [app jsum]; [reflexivity|]. rewrite IH. lia. Qed.

(* a segment as the parser produces it: a length field, or a bare marker *)
Definition jseg_len_ok (s : jseg) : Prop := has_length (jm s) = true \/ (jc s = [] /\ je s = []).

Lemma jstep_enc s : jseg_len_ok s -> jstep s = N.of_nat (length (enc_jseg s)) /\ (jlen_e s <= jstep s)%N.
Proof.
  intro H. unfold jstep, jlen_e, jlen. rewrite enc_jseg_length. unfold len.
  destruct H as [H|[H1 H2]].
  - rewrite H. replace (4 + N.of_nat (length (jc s)) =? 2)%N with false by (symmetry; apply N.eqb_neq; lia). lia.
  - rewrite H1, H2. cbn [length]. destruct (has_length (jm s)); cbn; lia.
Qed.

(* the regions pushed for unrecognised segments *)
Fixpoint jregs (l : list jseg) (curr : N) : list (N * N * kind) :=
  match l with
  | [] => []
  | s :: t =>
    (if (jm s =? M_APP11)%N then (if (16 <? len (jc s))%N then [(curr, jlen_e s, KOther)] else [])
     else if (jm s =? M_APP1)%N then [(curr, jlen_e s, KXmp)] else [(curr, jlen_e s, KOther)])
    ++ jregs t (curr + jstep s)%N
  end.

Lemma jregs_within l : Forall jseg_len_ok l ->
  forall c, Forall (fun r => (c <= fst (fst r) /\ fst (fst r) + snd (fst r) <= c + jsum l)%N) (jregs l c).
Proof.
  induction 1 as [|s t Hs Ht IH]; intro c; cbn [jregs jsum]; [constructor|].
  destruct (jstep_enc s Hs) as [_ Hle].
  apply Forall_app. split.
  - destruct (jm s =? M_APP11)%N; [destruct (16 <? len (jc s))%N|destruct (jm s =? M_APP1)%N];
      repeat constructor; cbn [fst snd]; lia.
  - eapply Forall_impl; [|apply IH]. cbn beta. intros r [H1 H2]. lia.
Qed.

Lemma jloc_plain_app p q : Forall jplain p -> forall idx en curr cai acc,
  jloc_loop (p ++ q) idx None en 0%N curr cai acc
  = jloc_loop q (idx + length p) None en 0%N (curr + jsum p)%N cai (acc ++ jregs p curr).
Proof.
  induction 1 as [|s t Hs Ht IH]; intros idx en curr cai acc.
  - cbn. rewrite Nat.add_0_r, N.add_0_r, app_nil_r. reflexivity.
  - cbn [app jloc_loop jregs jsum length].
    replace (idx + S (length t)) with (S idx + length t) by lia.
    destruct (jm s =? M_APP11)%N eqn:Em.
    + destruct (16 <? len (jc s))%N eqn:E16.
      * assert (El : jlong s = true) by (unfold jlong, is_app11_long; rewrite Em, E16; reflexivity).
        destruct (Hs El) as [H1 H2]. unfold jshort in H1. unfold jstart in H2.
        change (0 <? 0)%N with false. cbn [andb]. rewrite H1, H2, IH. rewrite <- app_assoc, N.add_assoc. reflexivity.
      * rewrite IH. cbn [app]. rewrite N.add_assoc. reflexivity.
    + destruct (jm s =? M_APP1)%N; rewrite IH, <- app_assoc, N.add_assoc; reflexivity.
Qed.

Lemma jloc_after l : Forall jseg_ok l -> Forall jplain l -> forall idx cnt curr cai acc, (0 < cnt)%N ->
  jloc_loop l idx None JP_EN cnt curr cai acc = ROk ((curr + jsum l)%N, cai, acc ++ jregs l curr).
Proof.
  intros Hok Hpl. induction l as [|s t IH]; intros idx cnt curr cai acc Hc.
  - cbn. rewrite N.add_0_r, app_nil_r. reflexivity.
  - inversion Hok as [|? ? Hs Hok']; subst. inversion Hpl as [|? ? Hp Hpl']; subst.
    cbn [jloc_loop jregs jsum].
    destruct (jm s =? M_APP11)%N eqn:Em.
    + destruct (16 <? len (jc s))%N eqn:E16.
      * assert (El : jlong s = true) by (unfold jlong, is_app11_long; rewrite Em, E16; reflexivity).
        destruct (Hs El) as [H1 _]. destruct (Hp El) as [_ H3]. unfold jshort in H1. unfold jstart in H3.
        pose proof (jseg_ok_not_cont s cnt Hs El Hc) as Hn. unfold jen, jz in Hn.
        rewrite Hn, andb_false_r, H1, H3, IH by assumption.
        rewrite <- app_assoc, N.add_assoc. reflexivity.
      * rewrite IH by assumption. cbn [app]. rewrite N.add_assoc. reflexivity.
    + destruct (jm s =? M_APP1)%N; rewrite IH by assumption; rewrite <- app_assoc, N.add_assoc; reflexivity.
Qed.

Lemma jf_step b k ch : jstep (jf b k ch) = jlen_e (jf b k ch).
Proof.
  unfold jstep, jlen. cbn [jm jf]. change (has_length M_APP11) with true. cbn iota.
  replace (4 + len (jc (jf b k ch)) =? 2)%N with false by (symmetry; apply N.eqb_neq; lia). reflexivity.
Qed.

Lemma jloc_cont b cl : 8 <= length b -> Forall (fun ch => ch <> []) cl ->
  forall k idx curr cai acc rest, (N.of_nat (S k + length cl) < 4294967296)%N ->
  jloc_loop (mapi_from (S k) (jf b) cl ++ rest) idx None JP_EN (N.of_nat (S k)) curr cai acc
  = jloc_loop rest (idx + length cl) None JP_EN (N.of_nat (S k + length cl))
              (curr + jsum (mapi_from (S k) (jf b) cl))%N
              (fst cai, (snd cai + jsum (mapi_from (S k) (jf b) cl))%N) acc.
Proof.
  intros Hb Hcl. induction Hcl as [|ch t Hch Ht IH]; intros k idx curr cai acc rest Hk.
  - cbn. rewrite !Nat.add_0_r, !N.add_0_r. destruct cai; reflexivity.
  - cbn [mapi_from app jloc_loop length jsum]. cbn [length] in Hk.
    pose proof (jf_cont_long b k ch Hb Hch) as El. unfold jlong, is_app11_long in El.
    apply andb_prop in El. destruct El as [E1 E2]. rewrite E1, E2.
    change (slice (jc (jf b (S k) ch)) 2 2) with JP_EN. rewrite beq_refl.
    destruct (jf_cont_read b k ch Hb) as [Hz _]; [lia|]. rewrite Hz.
    replace (0 <? N.of_nat (S k))%N with true by (symmetry; apply N.ltb_lt; lia).
    replace (N.of_nat (S (S k)) =? N.of_nat (S k) + 1)%N with true by (symmetry; apply N.eqb_eq; lia).
    cbn [andb]. rewrite jf_step.
    replace (N.of_nat (S k) + 1)%N with (N.of_nat (S (S k))) by lia.
    rewrite IH by lia. cbn [fst snd]. f_equal; try lia. f_equal. lia.
Qed.

Theorem jpeg_loc_inserted s i b :
  Forall jplain s -> Forall jseg_ok s -> jadm b -> i <= length s ->
  let P := firstn i s in
  let S' := skipn i s in
  let off := (2 + jsum P)%N in
  let ln := jsum (jmk b) in
  jpeg_loc_segs (insert_at i (jmk b) s)
  = ROk ((jregs P 2 ++ jregs S' (off + ln)%N) ++ [(off, ln, KCai)])
  /\ (0 < ln)%N.
Proof.
  intros Hp Hok Ha Hi. cbn zeta.
  destruct (jmk_shape b Ha) as (cl & Hmk & Hcl & _ & Hn).
  destruct (jf_first b Ha) as (F1 & F2 & F3 & _).
  assert (Hb8 : 8 <= length b) by (destruct Ha; lia).
  assert (Hbound : (N.of_nat (1 + length cl) < 4294967296)%N).
  { destruct Ha as (_ & _ & H32). unfold len in H32. unfold bytes in *. lia. }
  assert (Hpos : (0 < jsum (jmk b))%N).
  { rewrite Hmk. cbn [jsum]. rewrite jf_step. unfold jlen_e, jlen. cbn [jm jf]. change (has_length M_APP11) with true. cbn iota. lia. }
  split; [|exact Hpos].
  unfold jpeg_loc_segs. rewrite (jcai_inserted s i b [] Hp Hok Ha Hi). cbn [rbind].
  assert (Hex : existsb (fun x : bool => x) (repeat false i ++ repeat true (length (jmk b)) ++ repeat false (length s - i)) = true).
  { rewrite !existsb_app. pose proof (jmk_nonempty b Ha) as Hn'. destruct (length (jmk b)); [lia|]. cbn. apply orb_true_r. }
  rewrite Hex. unfold insert_at.
  rewrite jloc_plain_app by (apply forall_firstn; exact Hp).
  rewrite Hmk. cbn [app jloc_loop].
  unfold jlong, is_app11_long in F1. apply andb_prop in F1. destruct F1 as [E1 E2]. rewrite E1, E2.
  change (0 <? 0)%N with false. cbn [andb]. unfold jshort in F2. unfold jstart in F3. rewrite F2, F3.
  change (slice (jc (jf b 0 (firstn MAX_JPEG_MARKER_SIZE b))) 2 2) with JP_EN.
  change 1%N with (N.of_nat 1) at 1.
  rewrite (jloc_cont b cl Hb8 Hcl 0) by exact Hbound.
  rewrite jloc_after; [|apply forall_skipn; assumption|apply forall_skipn; assumption|lia].
  cbn [rbind fst snd jsum app]. rewrite !jf_step.
  set (run := jsum (mapi_from 1 (jf b) cl)).
  set (first := jlen_e (jf b 0 (firstn MAX_JPEG_MARKER_SIZE b))).
  replace (0 <? 0 + first + run)%N with true.
  2:{ symmetry. apply N.ltb_lt. unfold first, jlen_e, jlen. cbn [jm jf]. change (has_length M_APP11) with true. cbn iota. lia. }
  replace (2 + jsum (firstn i s) + first + run)%N with (2 + jsum (firstn i s) + (first + run))%N by lia.
  replace (0 + first + run)%N with (first + run)%N by lia. reflexivity.
Qed.

(* offsets computed by the handler are byte offsets in the written file *)
Lemma jsum_enc l : Forall jseg_len_ok l -> jsum l = N.of_nat (length (encs jpeg_format l)).
Proof.
  induction 1 as [|s t Hs Ht IH]; [reflexivity|].
  cbn [jsum]. unfold encs in *. cbn [map concat enc jpeg_format] in *. rewrite app_length, IH.
  destruct (jstep_enc s Hs) as [-> _]. lia.
Qed.

Lemma jmk_len_ok b : Forall jseg_len_ok (jmk b).
Proof.
  rewrite jmk_eq. generalize 0. induction (chunks (length b) MAX_JPEG_MARKER_SIZE b) as [|c t IH]; intro k; cbn [mapi_from]; constructor.
  - left. reflexivity.
  - apply IH.
Qed.

(* the reported region of a written JPEG, in bytes of the written file; every other reported region lies
   in front of or behind it *)
Theorem jpeg_region_written l b :
  Forall jseg_ok (strip jpeg_format l) -> jadm b -> Forall jseg_len_ok (strip jpeg_format l) ->
  exists acc,
    jpeg_loc_segs (gwrite jpeg_format l b)
    = ROk (acc ++ [(N.of_nat (2 + goff jpeg_format l), N.of_nat (glen jpeg_format b), KCai)])
    /\ Forall (fun r => (fst (fst r) + snd (fst r) <= N.of_nat (2 + goff jpeg_format l)
                        \/ N.of_nat (2 + goff jpeg_format l + glen jpeg_format b) <= fst (fst r))%N) acc.
Proof.
  intros Hok Ha Hlen. destruct (jcai_ok_of_strip l Hok) as [m Em].
  assert (Hp : Forall jplain (strip jpeg_format l)) by (rewrite (jstrip_eq l m Em); eapply jcai_strip_plain; exact Em).
  pose proof (jins_bound l) as Hb.
  destruct (jpeg_loc_inserted (strip jpeg_format l) (jins l) b Hp Hok Ha Hb) as [Hloc Hpos].
  cbn zeta in Hloc. unfold gwrite. change (ins jpeg_format l) with (jins l) in *. change (mk jpeg_format b) with (jmk b).
  change (seg jpeg_format) with jseg in *. rewrite Hloc.
  pose proof (forall_firstn _ (jins l) _ Hlen) as HlenP. pose proof (forall_skipn _ (jins l) _ Hlen) as HlenS.
  assert (Eoff : N.of_nat (2 + goff jpeg_format l) = (2 + jsum (firstn (jins l) (strip jpeg_format l)))%N).
  { unfold goff. change (ins jpeg_format l) with (jins l). change (seg jpeg_format) with jseg. rewrite (jsum_enc _ HlenP), Nat2N.inj_add. reflexivity. }
  assert (Elen : N.of_nat (glen jpeg_format b) = jsum (jmk b)).
  { unfold glen. change (mk jpeg_format b) with (jmk b). change (seg jpeg_format) with jseg. rewrite (jsum_enc _ (jmk_len_ok b)). reflexivity. }
  eexists. split.
  - rewrite Eoff, Elen. reflexivity.
  - apply Forall_app. split.
    + eapply Forall_impl; [|apply (jregs_within _ HlenP)]. cbn beta. intros r [_ H]. left. rewrite Eoff. change (seg jpeg_format) with jseg in *. lia.
    + eapply Forall_impl; [|apply (jregs_within _ HlenS)]. cbn beta. intros r [H _]. right. rewrite Nat2N.inj_add, Elen. rewrite Nat2N.inj_add in Eoff. change (seg jpeg_format) with jseg in *. lia.
Qed.

(* the former F-JPEG-NOLEN witness (a TEM marker in front of the manifest): after fix d67d17dcd the
   reported offset is the byte offset of the manifest in the written file *)
Definition nolen_asset : list jseg :=
  [JSeg 1 [] []; JSeg M_APP0 [74; 70; 73; 70; 0]%N []; JSeg M_SOS [1; 2]%N [3; 4]%N].
Definition nolen_store : bytes := [0;0;0;24;106;117;109;98;0;0;0;16;106;117;109;100;99;50;112;97;0;0;0;0]%N.

Theorem jpeg_nolen_fixed :
  let w := gwrite jpeg_format nolen_asset nolen_store in
  jpeg_write_segs nolen_asset nolen_store = ROk w
  /\ (exists acc, jpeg_loc_segs w = ROk (acc ++ [(15%N, 36%N, KCai)]))
  /\ 2 + goff jpeg_format nolen_asset = 15.
Proof. vm_compute. repeat split. eexists [_; _; _]. reflexivity. Qed.
