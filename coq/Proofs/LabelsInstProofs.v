(* Proofs/LabelsInstProofs.v — Claim::label_with_instance against Claim::assertion_label_from_link (C34). *)
From Coq Require Import List NArith Bool Lia Arith String.
From C2PA Require Import Base.Bytes Model.ByteStr Generated.C34_facts Model.Labels
     Proofs.ByteStrProofs Proofs.LabelsProofs Proofs.LabelsUriProofs.
Import ListNotations.
Open Scope N_scope.

Arguments show_usize : simpl never.
Arguments parse_usize : simpl never.

(* what assertion_label_from_link does with the last path segment *)
Definition seg_label (s : bytes) : bytes * N :=
  if beq (get_thumbnail_type s) INGREDIENT_THUMBNAIL then
    let instance := match get_thumbnail_instance s with Some i => i | None => 0 end in
    let label := match get_thumbnail_image_type s with
                 | None => get_thumbnail_type s
                 | Some t => get_thumbnail_type s ++ [DOT] ++ t
                 end in
    (label, instance)
  else
    let lp := split2 USCORE s in
    let instance := if Nat.eqb (List.length lp) 2
                    then match parse_usize (idx lp 1) with Some i => i | None => 0 end
                    else 0 in
    (idx lp 0, instance).

Lemma normalized_clean s : clean s -> to_normalized_uri s = s.
Proof.
  intros [H1 H2]. unfold to_normalized_uri. rewrite split_nosep by exact H2.
  destruct (starts_with (MANIFEST_STORE ++ [SLASH]) s) eqn:E.
  - exfalso. apply H1. apply (starts_with_In _ _ _ E).
  - rewrite andb_false_r. reflexivity.
Qed.

Theorem link_bare s : clean s -> assertion_label_from_link s = seg_label s.
Proof.
  intros H. unfold assertion_label_from_link. rewrite normalized_clean by exact H.
  rewrite split_nosep by apply H. reflexivity.
Qed.

Theorem link_in_uri m s : clean m -> clean s -> assertion_label_from_link (to_assertion_uri m s) = seg_label s.
Proof.
  intros Hm Hs. destruct const_facts as [_ [_ [_ F]]].
  assert (Fs : Forall clean [ASSERTIONS; s]) by (constructor; [inversion F; assumption | constructor; [exact Hs | constructor]]).
  unfold assertion_label_from_link. rewrite U_assertion, normalized_U, split_raw by assumption. reflexivity.
Qed.

(* ---------------- plain labels ---------------- *)

Lemma split2_acc_nocc c a cur : no_cc c a -> split2_acc c a cur = [rev cur ++ a].
Proof.
  revert cur. induction a as [|x a IH]; intros cur H.
  - cbn. rewrite app_nil_r. reflexivity.
  - destruct a as [|y a'].
    + reflexivity.
    + destruct H as [Hxy H]. rewrite split2_acc_cons2.
      destruct ((x =? c) && (y =? c)) eqn:E.
      { apply andb_true_iff in E. destruct E as [E1 E2]. apply N.eqb_eq in E1, E2. exfalso; apply Hxy; split; assumption. }
      rewrite (IH (x :: cur) H). cbn. rewrite <- app_assoc. reflexivity.
Qed.

Lemma split2_nocc c a : no_cc c a -> split2 c a = [a].
Proof. intros H. unfold split2. rewrite split2_acc_nocc by exact H. reflexivity. Qed.

(* a prefix test is not affected by what follows a character the prefix does not contain *)
Lemma starts_with_before p l c t : no c p -> starts_with p (l ++ c :: t) = starts_with p l.
Proof.
  revert l; induction p as [|a p IH]; intros l H; [reflexivity|].
  destruct l as [|x l]; cbn.
  - destruct (a =? c) eqn:E; [apply N.eqb_eq in E; subst; exfalso; apply H; left; reflexivity | reflexivity].
  - rewrite IH; [reflexivity|]. intros Hin; apply H; right; exact Hin.
Qed.

Lemma thumb_consts : no USCORE CLAIM_THUMBNAIL /\ no USCORE INGREDIENT_THUMBNAIL.
Proof. split; apply mem_false; reflexivity. Qed.

Lemma thumbnail_type_suffix l t : get_thumbnail_type (l ++ USCORE :: t) = get_thumbnail_type l.
Proof.
  destruct thumb_consts as [H1 H2]. unfold get_thumbnail_type.
  rewrite !starts_with_before by assumption. reflexivity.
Qed.

Definition suffixed (l : bytes) (n : N) : bytes := l ++ [USCORE; USCORE] ++ show_usize n.

Lemma clean_suffixed l n : clean l -> clean (suffixed l n).
Proof.
  intros [H1 H2]. unfold suffixed. split; (apply no_app; [assumption|]);
    (apply no_cons; [discriminate|]); (apply no_cons; [discriminate|]); apply show_usize_no; reflexivity.
Qed.

Lemma show_usize_head n : match show_usize n with [] => True | y :: _ => y <> USCORE end.
Proof.
  destruct (show_usize_first_digit n) as [c [t [-> Hc]]]. intros ->. discriminate Hc.
Qed.

(* the well-formed plain assertion labels: no "__", not ending in '_', not an ingredient thumbnail *)
Definition plain (l : bytes) : Prop :=
  no_cc USCORE l /\ beq (get_thumbnail_type l) INGREDIENT_THUMBNAIL = false.

Theorem seg_label_plain l n :
  plain l -> n < USIZE -> seg_label (label_with_instance l n) = (l, n).
Proof.
  intros [Hcc Ht] Hn. unfold label_with_instance. destruct (n =? 0) eqn:E0.
  - apply N.eqb_eq in E0; subst. unfold seg_label. rewrite Ht, split2_nocc by exact Hcc. reflexivity.
  - rewrite Ht. fold (suffixed l n). unfold seg_label.
    unfold suffixed at 1. cbn [app]. rewrite thumbnail_type_suffix, Ht.
    unfold suffixed. cbn [app]. rewrite split2_app by (try exact Hcc; apply show_usize_head).
    rewrite split2_nosep by (apply show_usize_no; reflexivity).
    cbn [List.length Nat.eqb idx nth]. rewrite parse_show_usize by exact Hn. reflexivity.
Qed.

Lemma clean_lwi_plain l n : clean l -> plain l -> clean (label_with_instance l n).
Proof.
  intros Hc [_ Ht]. unfold label_with_instance. destruct (n =? 0); [exact Hc|]. rewrite Ht. apply clean_suffixed; exact Hc.
Qed.

Theorem instance_roundtrip_plain l n :
  clean l -> plain l -> n < USIZE ->
  assertion_label_from_link (label_with_instance l n) = (l, n)
  /\ forall m, clean m -> assertion_label_from_link (to_assertion_uri m (label_with_instance l n)) = (l, n).
Proof.
  intros Hc Hp Hn. split.
  - rewrite link_bare by (apply clean_lwi_plain; assumption). apply seg_label_plain; assumption.
  - intros m Hm. rewrite link_in_uri by (try assumption; apply clean_lwi_plain; assumption). apply seg_label_plain; assumption.
Qed.

(* ---------------- ingredient thumbnails ---------------- *)

(* the image type part: non-empty, no '.', no '_', already lower case *)
Definition wf_image_type (t : bytes) : Prop := t <> [] /\ no DOT t /\ no USCORE t /\ lower t = t.

Definition thumb_label (t : option bytes) : bytes :=
  match t with Some t' => INGREDIENT_THUMBNAIL ++ DOT :: t' | None => INGREDIENT_THUMBNAIL end.

Lemma thumb_type x : get_thumbnail_type (INGREDIENT_THUMBNAIL ++ x) = INGREDIENT_THUMBNAIL.
Proof.
  unfold get_thumbnail_type. rewrite starts_with_app.
  replace (starts_with CLAIM_THUMBNAIL (INGREDIENT_THUMBNAIL ++ x)) with false by reflexivity. reflexivity.
Qed.

Lemma thumb_contains x : contains_str (b "thumbnail") (INGREDIENT_THUMBNAIL ++ x) = true.
Proof. reflexivity. Qed.

Lemma split_dot_thumb mid t :
  no DOT mid -> no DOT t ->
  split DOT (INGREDIENT_THUMBNAIL ++ mid ++ DOT :: t) = [b "c2pa"; b "thumbnail"; b "ingredient" ++ mid; t].
Proof.
  intros Hm Ht.
  change (INGREDIENT_THUMBNAIL ++ mid ++ DOT :: t) with (b "c2pa" ++ DOT :: (b "thumbnail" ++ DOT :: (b "ingredient" ++ mid ++ DOT :: t))).
  rewrite split_app by (apply mem_false; reflexivity). rewrite split_app by (apply mem_false; reflexivity).
  rewrite app_assoc. rewrite split_app by (apply no_app; [apply mem_false; reflexivity | exact Hm]).
  rewrite split_nosep by exact Ht. reflexivity.
Qed.

Lemma split_dot_thumb_bare mid :
  no DOT mid -> split DOT (INGREDIENT_THUMBNAIL ++ mid) = [b "c2pa"; b "thumbnail"; b "ingredient" ++ mid].
Proof.
  intros Hm.
  change (INGREDIENT_THUMBNAIL ++ mid) with (b "c2pa" ++ DOT :: (b "thumbnail" ++ DOT :: (b "ingredient" ++ mid))).
  rewrite split_app by (apply mem_false; reflexivity). rewrite split_app by (apply mem_false; reflexivity).
  rewrite split_nosep by (apply no_app; [apply mem_false; reflexivity | exact Hm]). reflexivity.
Qed.

Lemma image_type_thumb mid t :
  no DOT mid -> wf_image_type t ->
  get_thumbnail_image_type (INGREDIENT_THUMBNAIL ++ mid ++ DOT :: t) = Some t.
Proof.
  intros Hm [_ [Hd [Hu Hl]]]. unfold get_thumbnail_image_type.
  rewrite thumb_contains, split_dot_thumb by assumption. cbn [List.length Nat.leb andb idx nth].
  rewrite split_nosep by exact Hu. cbn [idx nth]. rewrite Hl. reflexivity.
Qed.

Lemma image_type_thumb_bare mid :
  no DOT mid -> get_thumbnail_image_type (INGREDIENT_THUMBNAIL ++ mid) = None.
Proof.
  intros Hm. unfold get_thumbnail_image_type. rewrite split_dot_thumb_bare by exact Hm. rewrite andb_false_r. reflexivity.
Qed.

Definition inst_mid (n : N) : bytes := if n =? 0 then [] else [USCORE; USCORE] ++ show_usize n.

Lemma inst_mid_no_dot n : no DOT (inst_mid n).
Proof.
  unfold inst_mid. destruct (n =? 0); [intros []|].
  apply no_cons; [discriminate|]. apply no_cons; [discriminate|]. apply show_usize_no; reflexivity.
Qed.

Lemma lwi_thumb t n :
  match t with Some t' => wf_image_type t' | None => True end ->
  label_with_instance (thumb_label t) n
  = INGREDIENT_THUMBNAIL ++ inst_mid n ++ match t with Some t' => DOT :: t' | None => [] end.
Proof.
  intros Ht. unfold label_with_instance, inst_mid. destruct (n =? 0) eqn:E0.
  - destruct t; reflexivity.
  - destruct t as [t'|]; unfold thumb_label.
    + rewrite thumb_type, beq_refl.
      pose proof (image_type_thumb [] t' (fun H => H) Ht) as E. cbn [app] in E. rewrite E.
      rewrite <- !app_assoc. reflexivity.
    + pose proof (thumb_type []) as E1. pose proof (image_type_thumb_bare [] (fun H => H)) as E2.
      rewrite app_nil_r in E1, E2. rewrite E1, beq_refl, E2. rewrite app_nil_r. reflexivity.
Qed.

Lemma no_cc_thumb : no_cc USCORE INGREDIENT_THUMBNAIL.
Proof. cbn. repeat split; try discriminate; intros [H _]; discriminate H. Qed.

Lemma no_cc_of_no c t : no c t -> no_cc c t.
Proof.
  induction t as [|x t IH]; intros H; [exact I|].
  assert (Hx : x <> c) by (intros ->; apply H; left; reflexivity).
  assert (Ht : no c t) by (intros Hin; apply H; right; exact Hin).
  destruct t as [|y t']; [exact Hx|]. split; [intros [E _]; exact (Hx E) | apply IH; exact Ht].
Qed.

Lemma no_cc_app c a t : no_cc c a -> no c t -> no_cc c (a ++ t).
Proof.
  induction a as [|x a IH]; intros Ha Ht; [apply no_cc_of_no; exact Ht|].
  destruct a as [|y a'].
  - cbn in Ha. cbn [app]. destruct t as [|z t']; [exact Ha|].
    split; [intros [E _]; exact (Ha E) | apply no_cc_of_no; exact Ht].
  - destruct Ha as [Hxy Ha]. cbn [app]. split; [exact Hxy | apply (IH Ha Ht)].
Qed.

Definition type_tail (t : option bytes) : bytes := match t with Some t' => DOT :: t' | None => [] end.

Lemma type_tail_no_uscore t :
  match t with Some t' => wf_image_type t' | None => True end -> no USCORE (type_tail t).
Proof.
  destruct t as [t'|]; [|intros _ []]. intros [_ [_ [Hu _]]]. apply no_cons; [discriminate | exact Hu].
Qed.

Lemma instance_thumb n t :
  n < USIZE -> match t with Some t' => wf_image_type t' | None => True end ->
  get_thumbnail_instance (INGREDIENT_THUMBNAIL ++ inst_mid n ++ type_tail t) = Some n.
Proof.
  intros Hn Ht. unfold get_thumbnail_instance. rewrite thumb_type, beq_refl. unfold inst_mid.
  pose proof (type_tail_no_uscore t Ht) as Hu.
  destruct (n =? 0) eqn:E0.
  - apply N.eqb_eq in E0; subst. cbn [app].
    rewrite split2_nocc by (apply no_cc_app; [exact no_cc_thumb | exact Hu]). reflexivity.
  - cbn [app]. rewrite split2_app; [|exact no_cc_thumb|].
    2:{ destruct (show_usize_first_digit n) as [c [r [-> Hc]]]. cbn [app]. intros ->. discriminate Hc. }
    rewrite split2_nosep by (apply no_app; [apply show_usize_no; reflexivity | exact Hu]).
    cbn [List.length Nat.eqb idx nth].
    destruct t as [t'|]; unfold type_tail.
    + destruct Ht as [_ [Hd _]].
      rewrite split_app by (apply show_usize_no; reflexivity). cbn [idx nth]. apply parse_show_usize; exact Hn.
    + rewrite app_nil_r. rewrite split_nosep by (apply show_usize_no; reflexivity). cbn [idx nth]. apply parse_show_usize; exact Hn.
Qed.

Lemma lwi_thumb' t n :
  match t with Some t' => wf_image_type t' | None => True end ->
  label_with_instance (thumb_label t) n = INGREDIENT_THUMBNAIL ++ inst_mid n ++ type_tail t.
Proof. exact (lwi_thumb t n). Qed.

Theorem seg_label_thumb t n :
  match t with Some t' => wf_image_type t' | None => True end -> n < USIZE ->
  seg_label (label_with_instance (thumb_label t) n) = (thumb_label t, n).
Proof.
  intros Ht Hn. rewrite lwi_thumb' by exact Ht. unfold seg_label.
  rewrite thumb_type, beq_refl, instance_thumb by assumption.
  destruct t as [t'|]; unfold type_tail, thumb_label.
  - rewrite image_type_thumb by (try exact Ht; apply inst_mid_no_dot). reflexivity.
  - rewrite app_nil_r, image_type_thumb_bare by apply inst_mid_no_dot. reflexivity.
Qed.

Lemma clean_thumb_lwi t n :
  match t with Some t' => wf_image_type t' /\ clean t' | None => True end ->
  clean (INGREDIENT_THUMBNAIL ++ inst_mid n ++ type_tail t).
Proof.
  intros Ht.
  assert (C0 : clean INGREDIENT_THUMBNAIL) by (split; apply mem_false; reflexivity).
  assert (C1 : clean (inst_mid n)).
  { unfold inst_mid. destruct (n =? 0); [split; intros []|].
    split; (apply no_cons; [discriminate|]); (apply no_cons; [discriminate|]); apply show_usize_no; reflexivity. }
  assert (C2 : clean (type_tail t)).
  { destruct t as [t'|]; [|split; intros []]. destruct Ht as [_ [H1 H2]]. split; (apply no_cons; [discriminate | assumption]). }
  destruct C0, C1, C2. split; repeat apply no_app; assumption.
Qed.

Theorem instance_roundtrip_thumb t n :
  match t with Some t' => wf_image_type t' /\ clean t' | None => True end -> n < USIZE ->
  assertion_label_from_link (label_with_instance (thumb_label t) n) = (thumb_label t, n)
  /\ forall m, clean m -> assertion_label_from_link (to_assertion_uri m (label_with_instance (thumb_label t) n)) = (thumb_label t, n).
Proof.
  intros Ht Hn.
  assert (Ht' : match t with Some t' => wf_image_type t' | None => True end) by (destruct t; [apply Ht | exact I]).
  assert (Hc : clean (label_with_instance (thumb_label t) n)) by (rewrite lwi_thumb' by exact Ht'; apply clean_thumb_lwi; exact Ht).
  split.
  - rewrite link_bare by exact Hc. apply seg_label_thumb; assumption.
  - intros m Hm. rewrite link_in_uri by assumption. apply seg_label_thumb; assumption.
Qed.

(* ---------------- necessity of the side conditions ---------------- *)
Theorem instance_side_conditions_necessary :
  assertion_label_from_link (label_with_instance (b "a_") 5) <> (b "a_", 5)
  /\ assertion_label_from_link (label_with_instance (b "a__b") 5) <> (b "a__b", 5)
  /\ assertion_label_from_link (label_with_instance (b "a__7") 0) <> (b "a__7", 0)
  /\ assertion_label_from_link (label_with_instance (b "a/b") 1) <> (b "a/b", 1)
  /\ assertion_label_from_link (label_with_instance (b "a=b") 1) <> (b "a=b", 1)
  /\ assertion_label_from_link (label_with_instance (b "c2pa.thumbnail.ingredient_1.jpg") 2) <> (b "c2pa.thumbnail.ingredient_1.jpg", 2)
  /\ assertion_label_from_link (label_with_instance (b "c2pa.thumbnail.ingredient.JPEG") 2) <> (b "c2pa.thumbnail.ingredient.JPEG", 2)
  /\ assertion_label_from_link (label_with_instance (b "c2pa.thumbnail.ingredient.a.b") 2) <> (b "c2pa.thumbnail.ingredient.a.b", 2).
Proof. repeat split; vm_compute; intros H; discriminate H. Qed.

(* ---------------- a concrete instance (non-vacuity) ---------------- *)
Lemma labels_example :
  let p2 := MP (b "3fad1ead-8ed5-44d0-873b-ea5f58adea82") false (Some (b "acme")) (Some 2) (Some 18446744073709551615) in
  let p1 := MP (b "3fad1ead-8ed5-44d0-873b-ea5f58adea82") true (Some (b "acme")) None None in
  wf_parts p2 /\ wf_parts p1
  /\ show_parts p2 = b "urn:c2pa:3fad1ead-8ed5-44d0-873b-ea5f58adea82:acme:2_18446744073709551615"
  /\ manifest_label_to_parts (to_assertion_uri (show_parts p1) (b "c2pa.actions__2")) = Some p1
  /\ assertion_label_from_link (to_assertion_uri (show_parts p1) (label_with_instance (b "c2pa.actions") 2)) = (b "c2pa.actions", 2).
Proof.
  cbv zeta. split; [|split; [|split; [|split]]]; try (vm_compute; reflexivity).
  - unfold wf_parts, nosep; cbn [guid is_v1 cgi version reason].
    repeat split; try (apply mem_false; reflexivity); try discriminate; reflexivity.
  - unfold wf_parts, nosep; cbn [guid is_v1 cgi version reason].
    repeat split; try (apply mem_false; reflexivity); try discriminate; reflexivity.
Qed.
