(* Proofs/JumbfProofs.v — round trip of the JUMBF box layer (Model/Jumbf.v). *)
From Coq Require Import List NArith Bool Lia Arith ZifyBool ZifyNat ZifyN.
From C2PA Require Import Base.Bytes Proofs.BytesProofs Generated.C18_facts Model.Jumbf.
Import ListNotations.
Open Scope N_scope.

Arguments N.add : simpl never.
Arguments N.sub : simpl never.
Arguments N.mul : simpl never.
Arguments N.eqb : simpl never.
Arguments N.ltb : simpl never.
Arguments N.leb : simpl never.
Arguments N.land : simpl never.
Arguments N.to_nat : simpl never.
Arguments N.of_nat : simpl never.
Arguments be : simpl never.
Arguments de : simpl never.

(* ------------------------------------------------------------------ induction principle for the nested inductive *)

Lemma jbox_ind' (P : jbox -> Prop) :
  (forall d cs, Forall P cs -> P (Super d cs)) ->
  (forall x, P (Json x)) -> (forall x, P (Cbor x)) -> (forall x, P (Free x)) -> (forall x, P (Jp2c x)) ->
  (forall x, P (Brob x)) -> (forall u x, P (Uuid u x)) -> (forall g m f, P (Bfdb g m f)) -> (forall x, P (Bidb x)) ->
  forall b, P b.
Proof.
  intros HS HJ HC HF HP HB HU HD HI.
  fix IH 1. intros [d cs|x|x|x|x|x|u x|g m f|x];
    [ | apply HJ | apply HC | apply HF | apply HP | apply HB | apply HU | apply HD | apply HI].
  apply HS. induction cs as [|c cs IHcs]; constructor; [apply IH | exact IHcs].
Qed.

(* ------------------------------------------------------------------ big-endian numbers *)

Lemma de_acc_app a l b : de_acc a (l ++ [b]) = de_acc a l * 256 + b.
Proof. revert a. induction l as [|x l IH]; intro a; cbn [de_acc app]; [reflexivity | apply IH]. Qed.

Lemma de_be k n : de (be k n) = n mod 256 ^ N.of_nat k.
Proof.
  revert n. induction k as [|k IH]; intro n.
  - cbn. symmetry. apply N.mod_1_r.
  - unfold be; fold be. unfold de in *. rewrite de_acc_app, IH.
    rewrite Nat2N.inj_succ, N.pow_succ_r'.
    rewrite (N.mod_mul_r n 256 (256 ^ N.of_nat k)) by (try apply N.pow_nonzero; lia). lia.
Qed.

Lemma de_be4 n : n < U32 -> de (be 4 n) = n.
Proof. intro H. rewrite de_be. apply N.mod_small. exact H. Qed.

Definition bytes_ok (l : bytes) : Prop := Forall (fun b => b < 256) l.

Lemma de_acc_bound l a : bytes_ok l -> de_acc a l < (a + 1) * 256 ^ N.of_nat (length l).
Proof.
  revert a. induction l as [|x l IH]; intros a H; cbn [de_acc length].
  - cbn. lia.
  - inversion H; subst. specialize (IH (a * 256 + x) H3).
    rewrite Nat2N.inj_succ, N.pow_succ_r'. nia.
Qed.

Lemma de_bound4 l : bytes_ok l -> length l = 4%nat -> de l < U32.
Proof. intros H L. unfold de. pose proof (de_acc_bound l 0 H) as B. rewrite L in B. exact B. Qed.

(* ------------------------------------------------------------------ the cursor *)

Definition At (buf : bytes) (pos : N) (l : bytes) : Prop := exists pre, buf = pre ++ l /\ len pre = pos.

Lemma len_length {A} (l : list A) : N.to_nat (len l) = length l.
Proof. unfold len. apply Nat2N.id. Qed.

Lemma At_len buf pos l : At buf pos l -> pos + len l = len buf.
Proof. intros (pre & -> & <-). rewrite len_app. reflexivity. Qed.

Lemma At_rest buf pos l : At buf pos l -> rest buf pos = l.
Proof.
  intros (pre & -> & <-). unfold rest. rewrite len_app.
  destruct (len pre + len l <=? len pre) eqn:E.
  - destruct l; [reflexivity|]. rewrite len_cons in E. lia.
  - rewrite len_length. rewrite skipn_app, Nat.sub_diag, skipn_all. reflexivity.
Qed.

Lemma At_app buf pos x r : At buf pos (x ++ r) -> At buf (pos + len x) r.
Proof. intros (pre & -> & <-). exists (pre ++ x). rewrite app_assoc, len_app. auto. Qed.

Lemma firstn_len_app (x r : bytes) : firstn (N.to_nat (len x)) (x ++ r) = x.
Proof. rewrite len_length, firstn_app, Nat.sub_diag, firstn_all. cbn. apply app_nil_r. Qed.

Lemma At_rd_exact buf pos x r : At buf pos (x ++ r) -> rd_exact buf pos (len x) = Some (x, pos + len x).
Proof.
  intro H. unfold rd_exact. pose proof (At_len _ _ _ H) as L. rewrite len_app in L.
  replace (pos + len x <=? len buf) with true by lia.
  rewrite (At_rest _ _ _ H), firstn_len_app. reflexivity.
Qed.

Lemma At_rd buf pos x r : At buf pos (x ++ r) -> rd buf pos (len x) = (x, pos + len x).
Proof. intro H. unfold rd. rewrite (At_rest _ _ _ H), firstn_len_app. reflexivity. Qed.

Lemma At_0 l : At l 0 (l ++ []).
Proof. exists []. rewrite app_nil_r. split; reflexivity. Qed.

(* ------------------------------------------------------------------ headers *)

Lemma len_be k n : len (be k n) = N.of_nat k.
Proof. unfold len. rewrite be_length. reflexivity. Qed.

Lemma firstn_app_exact {A} (a b : list A) n : length a = n -> firstn n (a ++ b) = a.
Proof. intros <-. rewrite firstn_app, Nat.sub_diag, firstn_all. cbn. apply app_nil_r. Qed.

Lemma skipn_app_exact {A} (a b : list A) n : length a = n -> skipn n (a ++ b) = b.
Proof. intros <-. rewrite skipn_app, Nat.sub_diag, skipn_all. reflexivity. Qed.

Lemma read_header_enc buf pos size t r :
  At buf pos (be 4 size ++ fourcc t ++ r) -> size < U32 -> size <> 1 -> t < U32 ->
  read_header buf pos = Some (t, size, pos + 8).
Proof.
  intros H Hs H1 Ht. unfold read_header.
  replace (be 4 size ++ fourcc t ++ r) with ((be 4 size ++ fourcc t) ++ r) in H by (rewrite app_assoc; reflexivity).
  assert (L : len (be 4 size ++ fourcc t) = 8) by (unfold fourcc; rewrite len_app, !len_be; reflexivity).
  pose proof (At_rd _ _ _ _ H) as R. rewrite L in R. rewrite R.
  rewrite L. replace (8 =? 0) with false by reflexivity. replace (8 <? 8) with false by reflexivity.
  assert (F : firstn 4 (be 4 size ++ fourcc t) = be 4 size).
  { apply firstn_app_exact, be_length. }
  assert (S : skipn 4 (be 4 size ++ fourcc t) = fourcc t).
  { apply skipn_app_exact, be_length. }
  rewrite F, S. unfold fourcc. rewrite !de_be4 by assumption.
  replace (size =? 1) with false by lia. reflexivity.
Qed.

Lemma unread_add pos : unread (pos + 8) = Some pos.
Proof. unfold unread, HEADER_SIZE. replace (pos + 8 <? 8) with false by lia. f_equal. lia. Qed.

(* ------------------------------------------------------------------ description box *)

Lemma read_label_enc lab : forall r bl,
  no_nul lab = true -> 8 + len lab < bl ->
  read_label (lab ++ 0 :: r) bl = Some (lab, len lab + 1, bl - len lab - 1).
Proof.
  induction lab as [|c lab IH]; intros r bl Hn Hb.
  - cbn [app read_label]. unfold HEADER_SIZE. change (len (@nil N)) with 0 in *.
    replace (bl <=? 8) with false by lia. replace (0 =? 0) with true by reflexivity. repeat (f_equal; try lia).
  - cbn [no_nul forallb] in Hn. apply andb_true_iff in Hn as [Hc Hn]. rewrite len_cons in *.
    cbn [app read_label]. unfold HEADER_SIZE.
    replace (bl <=? 8) with false by lia. replace (c =? 0) with false by lia.
    fold (no_nul lab) in Hn. rewrite IH by (auto; lia). repeat (f_equal; try lia).
Qed.

Ltac andb_split H :=
  repeat match type of H with
         | (_ && _) = true => let H1 := fresh H in apply andb_true_iff in H as [H H1]
         end.

Ltac fin := try reflexivity; repeat (f_equal; try lia).

Lemma len_is_len {A} (l : list A) n : len_is l n = true -> len l = N.of_nat n.
Proof. unfold len_is, len. intro H. apply Nat.eqb_eq in H. congruence. Qed.

Lemma has_text_nonempty l : has_text l = true -> 1 <= len l.
Proof. unfold has_text. destruct l; [rewrite andb_false_r; discriminate|]. rewrite len_cons. lia. Qed.

Lemma W_eq_T : W_JUMB = T_JUMB /\ W_JUMD = T_JUMD /\ W_FREE = T_FREE /\ W_C2SH = T_C2SH /\ W_JSON = T_JSON /\ W_UUID = T_UUID
               /\ W_JP2C = T_JP2C /\ W_CBOR = T_CBOR /\ W_BFDB = T_BFDB /\ W_BIDB = T_BIDB /\ W_BROB = T_BROB.
Proof. repeat split; reflexivity. Qed.

Lemma T_small : T_JUMB < U32 /\ T_JUMD < U32 /\ T_FREE < U32 /\ T_C2SH < U32 /\ T_JSON < U32 /\ T_UUID < U32
               /\ T_JP2C < U32 /\ T_CBOR < U32 /\ T_BFDB < U32 /\ T_BIDB < U32 /\ T_BROB < U32.
Proof. repeat split; reflexivity. Qed.

Lemma read_salt_enc buf pos s r bl :
  At buf pos (enc_salt s ++ r) -> 8 + len s < U32 -> bl = 16 + len s ->
  (match read_header buf pos with
   | None => None
   | Some (name, hsize, p6) =>
     if hsize =? 0 then None else
     match (if (HEADER_SIZE <=? bl) && (bl - HEADER_SIZE =? hsize) then Some p6 else unread p6) with
     | None => None
     | Some p7 =>
       if name =? T_C2SH then
         if hsize <? HEADER_SIZE then None else
         match rd_exact buf p7 (hsize - HEADER_SIZE) with
         | None => None
         | Some (s, p8) => if bl <? hsize then None else Some (Some s, p8, bl - hsize)
         end
       else None
     end
   end) = Some (Some s, pos + len (enc_salt s), 8).
Proof.
  intros H Hs ->. unfold enc_salt in *. unfold HEADER_SIZE in *. rewrite <- !app_assoc in H.
  rewrite (read_header_enc _ _ _ _ _ H) by (try lia; replace W_C2SH with T_C2SH by reflexivity; apply T_small).
  replace (8 + len s =? 0) with false by lia.
  replace ((8 <=? 16 + len s) && (16 + len s - 8 =? 8 + len s)) with true by lia.
  replace (W_C2SH =? T_C2SH) with true by reflexivity.
  replace (8 + len s <? 8) with false by lia.
  replace (8 + len s - 8) with (len s) by lia.
  apply At_app in H. rewrite len_be in H. apply At_app in H. unfold fourcc in H. rewrite len_be in H.
  replace (pos + N.of_nat 4 + N.of_nat 4) with (pos + 8) in H by lia.
  rewrite (At_rd_exact _ _ _ _ H).
  replace (16 + len s <? 8 + len s) with false by lia.
  unfold fourcc. rewrite !len_app, !len_be. repeat (f_equal; try lia).
Qed.

Lemma read_desc_enc d buf pos r :
  wf_desc d = true -> At buf pos (desc_payload d ++ r) -> desc_size d < U32 ->
  read_desc buf pos (desc_size d) = Some (d, pos + len (desc_payload d)).
Proof.
  destruct d as [u tog lab id sig salt]. unfold wf_desc, desc_size, desc_payload. cbn [d_uuid d_tog d_label d_id d_sig d_salt].
  intros W H Hs. andb_split W. rename W5 into Wb, W4 into Wt, W3 into Wn, W2 into Wid, W1 into Wsig, W0 into Wsalt.
  rewrite Wt in *. unfold bit in *.
  pose proof (len_is_len _ _ W) as Lu. pose proof (has_text_nonempty _ Wt) as Ll.
  set (I := enc_oid id) in *. set (S := enc_osig sig) in *. set (A := enc_osalt salt) in *.
  rewrite <- !app_assoc in H. cbn [app] in H.
  rewrite !len_app, len_cons, len_nil in Hs. rewrite !len_app, len_cons, len_nil.
  unfold HEADER_SIZE in *. change (len [0]) with 1 in *.
  match goal with |- context [read_desc _ _ ?z] => remember z as sz eqn:Esz end.
  unfold read_desc, JUMD_MIN_SIZE, HEADER_SIZE.
  replace (sz <? 26) with false by lia.
  pose proof (At_rd _ _ _ _ H) as R. rewrite Lu in R. replace (N.of_nat 16) with 16 in * by reflexivity. rewrite R.
  rewrite Lu. replace (16 =? 0) with false by reflexivity.
  apply At_app in H. rewrite Lu in H.
  pose proof (At_rd_exact _ _ [tog] _ H) as R1. rewrite len_cons, len_nil in R1. replace (0 + 1) with 1 in R1 by lia. rewrite R1.
  cbn [hd]. replace (negb (N.land tog 3 =? 3)) with false by lia.
  apply (At_app _ _ [tog]) in H. rewrite len_cons, len_nil in H. replace (pos + 16 + (0 + 1)) with (pos + 17) in * by lia.
  replace (pos + 16 + 1) with (pos + 17) by lia.   rewrite (At_rest _ _ _ H).
  rewrite read_label_enc by (auto; lia).
  replace (lab ++ 0 :: I ++ S ++ A ++ r) with ((lab ++ [0]) ++ I ++ S ++ A ++ r) in H by (rewrite <- app_assoc; reflexivity).
  apply At_app in H. rewrite len_app, len_cons, len_nil in H.
  replace (pos + 17 + (len lab + (0 + 1))) with (pos + 17 + (len lab + 1)) in H by lia.
  set (p3 := pos + 17 + (len lab + 1)) in *.
  (* box id *)
  assert (E1 : (if N.land tog 4 =? 4
                then match rd_exact buf p3 4 with
                     | None => None
                     | Some (b, p) => Some (Some (de b), p, sz - 16 - 1 - len lab - 1 - 4)
                     end
                else Some (None, p3, sz - 16 - 1 - len lab - 1))
               = Some (id, p3 + len I, sz - 16 - 1 - len lab - 1 - len I)).
  { subst I. unfold enc_oid in *. destruct id as [i|].
    - andb_split Wid. replace (N.land tog 4 =? 4) with true by lia.
      pose proof (At_rd_exact _ _ _ _ H) as R2. rewrite len_be in R2. replace (N.of_nat 4) with 4 in R2 by reflexivity.
      rewrite R2, len_be. rewrite de_be4 by lia. reflexivity.
    - replace (N.land tog 4 =? 4) with false by lia. rewrite len_nil. repeat (f_equal; try lia). }
  rewrite E1. clear E1. apply At_app in H.
  set (p4 := p3 + len I) in *. set (bl4 := sz - 16 - 1 - len lab - 1 - len I) in *.
  assert (E2 : (if N.land tog 8 =? 8
                then match rd_exact buf p4 32 with
                     | None => None
                     | Some (b, p) => if bl4 <? 32 then None else Some (Some b, p, bl4 - 32)
                     end
                else Some (None, p4, bl4))
               = Some (sig, p4 + len S, bl4 - len S)).
  { subst S. unfold enc_osig in *. destruct sig as [s|].
    - andb_split Wsig. pose proof (len_is_len _ _ Wsig0) as Ls. replace (N.of_nat 32) with 32 in Ls by reflexivity.
      replace (N.land tog 8 =? 8) with true by lia.
      pose proof (At_rd_exact _ _ _ _ H) as R2. rewrite Ls in R2. rewrite R2, Ls.
      replace (bl4 <? 32) with false by (subst bl4; lia). reflexivity.
    - replace (N.land tog 8 =? 8) with false by lia. rewrite len_nil. repeat (f_equal; try lia). }
  rewrite E2. clear E2. apply At_app in H.
  set (p5 := p4 + len S) in *. set (bl5 := bl4 - len S) in *.
  subst A. unfold enc_osalt in *. destruct salt as [s|].
  - replace (N.land tog 16 =? 16) with true by lia.
    assert (LA : len (enc_salt s) = 8 + len s) by (unfold enc_salt, fourcc, HEADER_SIZE; rewrite !len_app, !len_be; lia).
    assert (Hsl : 8 + len s < U32) by lia.
    rewrite (read_salt_enc _ _ _ _ _ H Hsl) by (subst bl5 bl4; lia).
    replace (8 =? 8) with true by reflexivity. f_equal. f_equal. subst p5 p4 p3. lia.
  - replace (N.land tog 16 =? 16) with false by lia.
    change (len (@nil N)) with 0 in *.
    replace (bl5 =? 8) with true by (subst bl5 bl4; lia).
    f_equal. f_equal. subst p5 p4 p3. lia.
Qed.

(* ------------------------------------------------------------------ content boxes *)

Lemma read_plain_enc buf pos t x r :
  At buf pos (be 4 (HEADER_SIZE + len x) ++ fourcc t ++ x ++ r) -> HEADER_SIZE + len x < U32 -> t < U32 ->
  read_plain buf pos (HEADER_SIZE + len x) = Some (x, pos + 8 + len x).
Proof.
  unfold HEADER_SIZE. intros H Hs Ht. unfold read_plain.
  rewrite (read_header_enc _ _ _ _ _ H) by (auto; lia).
  replace (8 + len x =? 0) with false by lia. rewrite N.eqb_refl. unfold HEADER_SIZE.
  replace (8 + len x <? 8) with false by lia. replace (8 + len x - 8) with (len x) by lia.
  apply At_app in H. rewrite len_be in H. apply At_app in H. unfold fourcc in H. rewrite len_be in H.
  replace (pos + N.of_nat 4 + N.of_nat 4) with (pos + 8) in H by lia.
  apply At_rd_exact in H. exact H.
Qed.

Lemma read_uuid_enc buf pos u x r :
  len u = 16 -> x <> [] ->
  At buf pos (be 4 (HEADER_SIZE + (16 + len x)) ++ fourcc W_UUID ++ (u ++ x) ++ r) -> HEADER_SIZE + (16 + len x) < U32 ->
  read_uuid buf pos (HEADER_SIZE + (16 + len x)) = Some (Uuid u x, pos + 8 + 16 + len x).
Proof.
  unfold HEADER_SIZE. intros Lu Hx H Hs. unfold read_uuid.
  rewrite (read_header_enc _ _ _ _ _ H) by (try lia; replace W_UUID with T_UUID by reflexivity; apply T_small).
  replace (8 + (16 + len x) =? 0) with false by lia. rewrite N.eqb_refl. unfold HEADER_SIZE.
  apply At_app in H. rewrite len_be in H. apply At_app in H. unfold fourcc in H. rewrite len_be in H.
  replace (pos + N.of_nat 4 + N.of_nat 4) with (pos + 8) in H by lia. rewrite <- app_assoc in H.
  pose proof (At_rd_exact _ _ _ _ H) as R. rewrite Lu in R. rewrite R.
  replace (8 + (16 + len x) <? 8 + 16) with false by lia.
  replace (8 + (16 + len x) - (8 + 16)) with (len x) by lia.
  apply At_app in H. rewrite Lu in H. rewrite (At_rd_exact _ _ _ _ H). fin.
Qed.

Lemma find0_no_nul m : forall t, no_nul m = true -> find0 (m ++ 0 :: t) = Some (length m).
Proof.
  induction m as [|c m IH]; intros t H; cbn [app find0 length].
  - reflexivity.
  - cbn [no_nul forallb] in H. apply andb_true_iff in H as [Hc H]. fold (no_nul m) in H.
    replace (c =? 0) with false by lia. rewrite IH by exact H. reflexivity.
Qed.

Lemma bfdb_split_enc tog mt fn D :
  wf_bfdb tog mt fn = true -> D = (if has_text mt then mt ++ [0] else []) -> bfdb_split tog D = (mt, fn).
Proof.
  intros W ->. revert W. unfold wf_bfdb, bfdb_split. destruct mt as [|c m].
  - cbn [is_nil]. unfold has_text. cbn [is_nil negb]. rewrite andb_false_r. destruct fn; [discriminate|]. intros _.
    cbn [find0 last]. destruct (tog =? 1); reflexivity.
  - cbn [is_nil]. intro W. apply andb_true_iff in W as [Ht W]. rewrite Ht.
    destruct (tog =? 1).
    + apply andb_true_iff in W as [Hn W].
      destruct fn as [[|z [|? ?]]|]; try discriminate; destruct z; try discriminate.
      rewrite find0_no_nul by exact Hn. rewrite app_length. change (length [0]) with 1%nat.
      remember (c :: m) as cm eqn:Ecm.
      replace (Nat.eqb (length cm) (length cm + 1 - 1)) with true by (symmetry; apply Nat.eqb_eq; lia).
      cbn [negb]. rewrite firstn_app_exact, skipn_app_exact by reflexivity. reflexivity.
    + destruct fn; [discriminate|]. rewrite last_last, removelast_last. replace (0 =? 0) with true by reflexivity. reflexivity.
Qed.

Lemma read_bfdb_enc buf pos tog mt fn r :
  wf_bfdb tog mt fn = true ->
  At buf pos (be 4 (HEADER_SIZE + len (bfdb_payload tog mt)) ++ fourcc W_BFDB ++ bfdb_payload tog mt ++ r) ->
  HEADER_SIZE + len (bfdb_payload tog mt) < U32 ->
  read_bfdb buf pos (HEADER_SIZE + len (bfdb_payload tog mt)) = Some (Bfdb tog mt fn, pos + 8 + len (bfdb_payload tog mt)).
Proof.
  unfold HEADER_SIZE, bfdb_payload. intros W H Hs. unfold read_bfdb, BFDB_MIN_SIZE, TOGGLE_SIZE.
  set (D := if has_text mt then mt ++ [0] else []) in *.
  rewrite len_app in *. change (len [tog]) with 1 in *.
  replace (8 + (1 + len D) <? 9) with false by lia.
  rewrite (read_header_enc _ _ _ _ _ H) by (try lia; replace W_BFDB with T_BFDB by reflexivity; apply T_small).
  replace (8 + (1 + len D) =? 0) with false by lia. rewrite N.eqb_refl. unfold HEADER_SIZE.
  apply At_app in H. rewrite len_be in H. apply At_app in H. unfold fourcc in H. rewrite len_be in H.
  replace (pos + N.of_nat 4 + N.of_nat 4) with (pos + 8) in H by lia. rewrite <- app_assoc in H.
  pose proof (At_rd_exact _ _ _ _ H) as R. change (len [tog]) with 1 in R. rewrite R. cbn [hd].
  apply At_app in H. change (len [tog]) with 1 in H.
  replace (8 + (1 + len D) - 8 - 1) with (len D) by lia.
  rewrite (At_rd_exact _ _ _ _ H). rewrite (bfdb_split_enc tog mt fn D W eq_refl). fin.
Qed.

(* ------------------------------------------------------------------ sizes *)

Definition wtype (b : jbox) : N :=
  match b with
  | Super _ _ => W_JUMB | Json _ => W_JSON | Cbor _ => W_CBOR | Free _ => W_FREE | Jp2c _ => W_JP2C | Brob _ => W_BROB
  | Uuid _ _ => W_UUID | Bfdb _ _ _ => W_BFDB | Bidb _ => W_BIDB
  end.

Lemma len_concat (ls : list bytes) : len (concat ls) = sumN (map (fun l => len l) ls).
Proof.
  induction ls as [|l ls IH]; cbn [concat map sumN fold_right]; [reflexivity|].
  rewrite len_app, IH. reflexivity.
Qed.

Lemma box_size_ge b : 8 <= box_size b.
Proof. destruct b; cbn [box_size]; unfold HEADER_SIZE; lia. Qed.

Lemma enc_len b : shape b = true -> len (enc b) = box_size b.
Proof.
  induction b as [d cs IH|x|x|x|x|x|u x|g m f|x] using jbox_ind'; intro S;
    cbn [enc box_size]; unfold enc_desc, desc_size, fourcc, HEADER_SIZE;
    rewrite ?len_app, ?len_be; try lia.
  - cbn [shape] in S. andb_split S.
    assert (E : len (concat (map enc cs)) = sumN (map box_size cs)).
    { clear S S1. induction cs as [|c cs IHcs]; [reflexivity|].
      cbn [forallb] in S0. apply andb_true_iff in S0 as [Sc S0]. inversion IH; subst.
      cbn [map concat sumN fold_right]. rewrite len_app. fold (sumN (map box_size cs)). rewrite IHcs by assumption.
      rewrite H1 by exact Sc. reflexivity. }
    rewrite E. lia.
  - cbn [shape] in S. andb_split S. apply len_is_len in S. destruct x; [discriminate|].
    cbn [is_nil]. rewrite len_app, S. lia.
Qed.

Lemma enc_head b : exists body, enc b = be 4 (box_size b) ++ fourcc (wtype b) ++ body.
Proof. destruct b; cbn [enc wtype]; eexists; reflexivity. Qed.

Lemma wtype_facts b : wtype b < U32 /\ wtype b <> 0 /\ (is_super b = true -> wtype b = T_JUMB) /\ (is_super b = false -> (wtype b =? T_JUMB) = false).
Proof. destruct b; cbn [wtype is_super]; repeat split; try discriminate; try reflexivity; intros; discriminate. Qed.

(* ------------------------------------------------------------------ one content box through the dispatch *)

Lemma read_leaf_enc c buf pos r :
  shape c = true -> is_super c = false -> At buf pos (enc c ++ r) -> box_size c < U32 ->
  read_leaf (wtype c) (box_size c) buf pos = Some (Ok (c, pos + len (enc c))).
Proof.
  intros S NS H Hs. pose proof (enc_len _ S) as L. rewrite L.
  destruct c as [d cs|x|x|x|x|x|u x|g m f|x]; try discriminate; cbn [enc wtype box_size] in *; rewrite <- ?app_assoc in H.
  - replace (read_leaf W_JSON) with (fun size buf p0 => Some (lift EInvalidJsonBox Json (read_plain buf p0 size))) by reflexivity.
    cbv beta. rewrite (read_plain_enc _ _ _ _ _ H) by (auto; reflexivity). unfold lift, HEADER_SIZE. fin.
  - replace (read_leaf W_CBOR) with (fun size buf p0 => Some (lift EInvalidCborBox Cbor (read_plain buf p0 size))) by reflexivity.
    cbv beta. rewrite (read_plain_enc _ _ _ _ _ H) by (auto; reflexivity). unfold lift, HEADER_SIZE. fin.
  - replace (read_leaf W_FREE) with (fun size buf p0 => Some (lift EInvalidCborBox Free (read_plain buf p0 size))) by reflexivity.
    cbv beta. rewrite (read_plain_enc _ _ _ _ _ H) by (auto; reflexivity). unfold lift, HEADER_SIZE. fin.
  - replace (read_leaf W_JP2C) with (fun size buf p0 => Some (lift EInvalidJp2cBox Jp2c (read_plain buf p0 size))) by reflexivity.
    cbv beta. rewrite (read_plain_enc _ _ _ _ _ H) by (auto; reflexivity). unfold lift, HEADER_SIZE. fin.
  - replace (read_leaf W_BROB) with (fun size buf p0 => Some (lift EInvalidJp2cBox Brob (read_plain buf p0 size))) by reflexivity.
    cbv beta. rewrite (read_plain_enc _ _ _ _ _ H) by (auto; reflexivity). unfold lift, HEADER_SIZE. fin.
  - replace (read_leaf W_UUID) with (fun size buf p0 => Some (lift EInvalidUuidBox (fun b => b) (read_uuid buf p0 size))) by reflexivity.
    cbv beta. cbn [shape] in S. andb_split S. apply len_is_len in S. destruct x as [|x0 x]; [discriminate|]. cbn [is_nil] in H.
    rewrite (read_uuid_enc _ _ u (x0 :: x) r) by (auto; discriminate). unfold lift, HEADER_SIZE. fin.
  - replace (read_leaf W_BFDB) with (fun size buf p0 => Some (lift EInvalidEmbeddedFileBox (fun b => b) (read_bfdb buf p0 size))) by reflexivity.
    cbv beta. cbn [shape] in S. rewrite (read_bfdb_enc _ _ _ _ _ _ S H) by assumption. unfold lift, HEADER_SIZE. fin.
  - replace (read_leaf W_BIDB) with (fun size buf p0 => Some (lift EInvalidEmbeddedFileBox Bidb (read_plain buf p0 size))) by reflexivity.
    cbv beta. rewrite (read_plain_enc _ _ _ _ _ H) by (auto; reflexivity). unfold lift, HEADER_SIZE. fin.
Qed.

(* ------------------------------------------------------------------ the superbox reader on encoded trees *)

Fixpoint fuel_of (b : jbox) : nat :=
  match b with
  | Super d cs => S (list_sum (map (fun c => S (fuel_of c)) cs))
  | _ => O
  end.

Lemma read_super_S f depth buf pos :
  read_super (S f) depth buf pos =
    if MAX_JUMB_DEPTH <=? depth then Err EBoxNestingTooDeep else
    match read_header buf pos with
    | None => Err EInvalidJumbfHeader
    | Some (name, size, p1) =>
      if name =? 0 then Err EUnexpectedEof
      else if negb (name =? T_JUMB) then Err EInvalidJumbfHeader
      else if U64 <=? pos + size then Err EInvalidJumbBox
      else
        match read_header buf p1 with
        | None => Err EExpectedJumdError
        | Some (name2, size2, p2) =>
          if negb (name2 =? T_JUMD) then Err EExpectedJumdError else
          match read_desc buf p2 size2 with
          | None => Err EUnexpectedEof
          | Some (d, p3) =>
            if negb (has_text (d_label d)) then Err EUnexpectedEof else
            match read_children f depth buf p3 (pos + size) [] with
            | Ok (cs, p4) => Ok (Super d cs, p4)
            | Err e => Err e
            | Panic => Panic
            | OutOfFuel => OutOfFuel
            end
          end
        end
    end.
Proof. reflexivity. Qed.

Definition after_child (f : nat) (depth : N) (buf : bytes) (dest : N) (acc : list jbox) (r : res (jbox * N)) : res (list jbox * N) :=
  match r with
  | Ok (b, p) =>
    if p =? dest then Ok (rev (b :: acc), p)
    else if dest <? p then Err EInvalidJumbBox
    else read_children f depth buf p dest (b :: acc)
  | Err e => Err e
  | Panic => Panic
  | OutOfFuel => OutOfFuel
  end.

Lemma read_children_S f depth buf pos dest acc :
  read_children (S f) depth buf pos dest acc =
    match read_header buf pos with
    | None => Err EInvalidJumbfHeader
    | Some (name, size, p1) =>
      if name =? 0 then (if dest <? p1 then Err EInvalidJumbBox else Ok (rev acc, p1))
      else
        match unread p1 with
        | None => Err EIoError
        | Some p0 =>
          if name =? T_JUMB then after_child f depth buf dest acc (read_super f (depth + 1) buf p0)
          else
            match read_leaf name size buf p0 with
            | Some r => after_child f depth buf dest acc r
            | None =>
              match skip_unknown size buf p0 with
              | Ok p => read_children f depth buf p dest acc
              | Err e => Err e
              | Panic => Panic
              | OutOfFuel => OutOfFuel
              end
            end
        end
    end.
Proof.
  cbn [read_children]. destruct (read_header buf pos) as [[[name size] p1]|]; [|reflexivity].
  destruct (name =? 0); [reflexivity|]. destruct (unread p1); [|reflexivity].
  destruct (name =? T_JUMB); [reflexivity|].
  destruct (read_leaf name size buf n) as [[[b p]|e| |]|]; reflexivity.
Qed.

Definition super_ok (c : jbox) : Prop :=
  shape c = true -> is_super c = true ->
  forall fuel depth buf pos r,
    At buf pos (enc c ++ r) -> len buf < U64 -> box_size c < U32 ->
    depth + height c <= MAX_JUMB_DEPTH -> (fuel_of c <= fuel)%nat ->
    read_super fuel depth buf pos = Ok (c, pos + len (enc c)).

Lemma sumN_ge0 l : 0 <= sumN l.
Proof. lia. Qed.

Lemma read_children_enc cs :
  Forall super_ok cs -> forallb shape cs = true -> cs <> [] ->
  forall fuel depth buf pos r dest acc,
    At buf pos (concat (map enc cs) ++ r) -> dest = pos + len (concat (map enc cs)) -> len buf < U64 ->
    sumN (map box_size cs) < U32 ->
    depth + 1 + fold_right N.max 0 (map height cs) <= MAX_JUMB_DEPTH ->
    (list_sum (map (fun c => S (fuel_of c)) cs) <= fuel)%nat ->
    read_children fuel depth buf pos dest acc = Ok (rev acc ++ cs, dest).
Proof.
  induction cs as [|c cs IH]; intros HF HS HN fuel depth buf pos r dest acc H Hd Hb Hsz Hh Hf; [congruence|].
  inversion HF as [|? ? Hc HF']; subst. cbn [forallb] in HS. apply andb_true_iff in HS as [Sc HS].
  cbn [map concat sumN fold_right list_sum] in *. fold (sumN (map box_size cs)) in Hsz.
  destruct fuel as [|f]; [lia|].
  pose proof (box_size_ge c) as Hge. pose proof (enc_len c Sc) as Lc.
  assert (Hcs : box_size c < U32) by lia.
  rewrite <- app_assoc in H.
  destruct (enc_head c) as [body Eb]. pose proof H as H0. rewrite Eb in H0. rewrite <- !app_assoc in H0.
  destruct (wtype_facts c) as (Wt & Wz & Wsup & Wleaf).
  rewrite read_children_S. rewrite (read_header_enc _ _ _ _ _ H0) by (auto; lia).
  replace (wtype c =? 0) with false by lia. rewrite unread_add.
  assert (R : (if wtype c =? T_JUMB then after_child f depth buf (pos + len (enc c ++ concat (map enc cs))) acc (read_super f (depth + 1) buf pos)
               else match read_leaf (wtype c) (box_size c) buf pos with
                    | Some r0 => after_child f depth buf (pos + len (enc c ++ concat (map enc cs))) acc r0
                    | None => match skip_unknown (box_size c) buf pos with
                              | Ok p => read_children f depth buf p (pos + len (enc c ++ concat (map enc cs))) acc
                              | Err e => Err e | Panic => Panic | OutOfFuel => OutOfFuel end
                    end)
              = after_child f depth buf (pos + len (enc c ++ concat (map enc cs))) acc (Ok (c, pos + len (enc c)))).
  { destruct (is_super c) eqn:Es.
    - rewrite (Wsup eq_refl), N.eqb_refl. f_equal.
      apply (Hc Sc Es f (depth + 1) buf pos _ H); try assumption; lia.
    - rewrite (Wleaf eq_refl). rewrite (read_leaf_enc c buf pos _ Sc Es H Hcs). reflexivity. }
  rewrite R. clear R. unfold after_child. rewrite len_app.
  destruct cs as [|c2 cs].
  - cbn [map concat]. change (len (@nil N)) with 0. replace (pos + len (enc c) =? pos + (len (enc c) + 0)) with true by lia.
    cbn [rev]. f_equal. f_equal. lia.
  - assert (Hpos : 8 <= len (concat (map enc (c2 :: cs)))).
    { cbn [map concat]. rewrite len_app. cbn [forallb] in HS. apply andb_true_iff in HS as [S2 _].
      rewrite (enc_len c2 S2). pose proof (box_size_ge c2). lia. }
    replace (pos + len (enc c) =? pos + (len (enc c) + len (concat (map enc (c2 :: cs))))) with false by lia.
    replace (pos + (len (enc c) + len (concat (map enc (c2 :: cs)))) <? pos + len (enc c)) with false by lia.
    apply At_app in H.
    rewrite (IH HF' HS ltac:(discriminate) f depth buf _ r _ (c :: acc) H); try assumption; try lia.
    cbn [rev]. rewrite <- app_assoc. reflexivity. unfold list_sum. lia.
Qed.

Lemma all_super_ok : forall t, super_ok t.
Proof.
  induction t as [d cs IH|x|x|x|x|x|u x|g m f|x] using jbox_ind'; unfold super_ok; try (intros; discriminate).
  intros S _ fuel depth buf pos r H Hb Hsz Hh Hf.
  cbn [shape] in S. andb_split S. rename S0 into Scs, S1 into Sne.
  pose proof (enc_len (Super d cs) ltac:(cbn [shape]; rewrite S, Scs, Sne; reflexivity)) as L.
  pose proof (At_len _ _ _ H) as AL. rewrite len_app, L in AL.
  cbn [fuel_of] in Hf. destruct fuel as [|f]; [lia|].
  cbn [height] in Hh. cbn [box_size] in Hsz. unfold HEADER_SIZE in Hsz.
  cbn [enc] in H. rewrite <- !app_assoc in H.
  rewrite read_super_S.
  replace (MAX_JUMB_DEPTH <=? depth) with false by lia.
  assert (Hj : T_JUMB < U32) by apply T_small.
  rewrite (read_header_enc _ _ _ W_JUMB _ H) by (auto; cbn [box_size]; unfold HEADER_SIZE; lia).
  replace (W_JUMB =? 0) with false by reflexivity. replace (negb (W_JUMB =? T_JUMB)) with false by reflexivity.
  replace (U64 <=? pos + box_size (Super d cs)) with false by lia.
  apply At_app in H. rewrite len_be in H. apply At_app in H. unfold fourcc in H at 1. rewrite len_be in H.
  replace (pos + N.of_nat 4 + N.of_nat 4) with (pos + 8) in H by lia.
  unfold enc_desc in H. rewrite <- !app_assoc in H.
  assert (Hds : desc_size d < U32) by (cbn [box_size] in *; unfold HEADER_SIZE in *; lia).
  assert (Hd1 : desc_size d <> 1) by (unfold desc_size, HEADER_SIZE; lia).
  rewrite (read_header_enc _ _ _ W_JUMD _ H) by (auto; reflexivity).
  replace (negb (W_JUMD =? T_JUMD)) with false by reflexivity.
  apply At_app in H. rewrite len_be in H. apply At_app in H. unfold fourcc in H at 1. rewrite len_be in H.
  replace (pos + 8 + N.of_nat 4 + N.of_nat 4) with (pos + 16) in H by lia.
  rewrite (read_desc_enc d buf (pos + 8 + 8) _ S) by (auto; replace (pos + 8 + 8) with (pos + 16) by lia; exact H).
  unfold wf_desc in S. andb_split S. rewrite S4. cbn [negb].
  replace (pos + 8 + 8) with (pos + 16) by lia.
  apply At_app in H.
  assert (Sne' : cs <> []) by (destruct cs; [discriminate | discriminate]).
  rewrite (read_children_enc cs IH Scs Sne' f depth buf _ r (pos + box_size (Super d cs)) [] H); try assumption.
  - cbn [rev app]. f_equal. f_equal. rewrite L. reflexivity.
  - rewrite <- (enc_len (Super d cs)) by (cbn [shape]; unfold wf_desc; rewrite S, S5, S4, S3, S2, S1, S0, Scs, Sne; reflexivity).
    cbn [enc]. unfold enc_desc, fourcc. rewrite !len_app, !len_be. lia.
  - cbn [box_size] in Hsz. unfold HEADER_SIZE, desc_size in Hsz. lia.
  - lia.
  - lia.
Qed.

(* ------------------------------------------------------------------ fuel: the length of the input suffices *)

Lemma enc_length_ge b : (8 <= length (enc b))%nat.
Proof.
  destruct (enc_head b) as [body ->]. unfold fourcc. rewrite !app_length, !be_length. lia.
Qed.

Lemma fuel_le b : (S (fuel_of b) <= length (enc b))%nat.
Proof.
  induction b as [d cs IH|x|x|x|x|x|u x|g m f|x] using jbox_ind';
    try (pose proof (enc_length_ge (Json [])); cbn [fuel_of];
         match goal with |- (_ <= length (enc ?b))%nat => pose proof (enc_length_ge b); lia end).
  cbn [fuel_of enc]. unfold enc_desc, fourcc. rewrite !app_length, !be_length.
  assert (E : (list_sum (map (fun c => S (fuel_of c)) cs) <= length (concat (map enc cs)))%nat).
  { induction cs as [|c cs IHcs]; [cbn; lia|]. inversion IH; subst. cbn [map list_sum concat fold_right].
    rewrite app_length. specialize (IHcs H2). unfold list_sum in IHcs. lia. }
  lia.
Qed.

(* ------------------------------------------------------------------ round trip *)

Definition wf_root (t : jbox) : Prop := is_super t = true /\ wf t.

Theorem decode_encode t : wf_root t -> decode (enc t) = Ok t.
Proof.
  intros (Hs & Sh & Sz & Hh). unfold decode, decode_fuel.
  pose proof (enc_len t Sh) as L.
  rewrite (all_super_ok t Sh Hs (S (length (enc t))) 0 (enc t) 0 [] (At_0 _)); try reflexivity; try lia.
  - rewrite L. unfold U32, U64 in *. lia.
  - pose proof (fuel_le t). lia.
Qed.

Theorem enc_injective t1 t2 : wf_root t1 -> wf_root t2 -> enc t1 = enc t2 -> t1 = t2.
Proof.
  intros H1 H2 E. apply decode_encode in H1. apply decode_encode in H2. rewrite E in H1. congruence.
Qed.
