(* Proofs/FfiGuardsProofs.v — histories of C API calls over the registry model. *)
From Coq Require Import NArith List Bool Lia Arith String.
From C2PA Require Import Model.Registry Model.FfiGuards Proofs.RegistryProofs.
Import ListNotations.
Open Scope N_scope.

Section Hist.
Variable maxstr : N.

Notation run_guards := (run_guards maxstr).
Notation step := (step maxstr).
Notation run := (run maxstr).

(* ------------------------------------------------------------------ guards only ever remove entries *)

Lemma guards_submap : forall gs args r own r' own' res,
  run_guards gs args r own = (r', own', res) ->
  forall x e, lookup x r' = Some e -> lookup x r = Some e.
Proof.
  induction gs as [|g gs IH]; intros args r own r' own' res H x e L; cbn [FfiGuards.run_guards] in H.
  - inversion H; subst; assumption.
  - destruct g.
    + destruct (argn args p =? 0); [inversion H; subst; assumption|eapply IH; eassumption].
    + destruct (argn args p =? 0); [inversion H; subst; assumption|eapply IH; eassumption].
    + destruct (validate r (argn args p) t); [eapply IH; eassumption|inversion H; subst; assumption].
    + destruct (validate r (argn args p) t) as [|e0] eqn:V.
      * destruct (untrack_ok _ _ _ V) as [i [Hi U]]. rewrite U in H.
        assert (L1 : lookup x (remove (argn args p) r) = Some e) by (eapply IH; eassumption).
        rewrite lookup_remove in L1. destruct (x =? argn args p); [discriminate|assumption].
      * rewrite (untrack_err _ _ _ _ V) in H. inversion H; subst; assumption.
    + destruct (argn args p =? 0); [inversion H; subst; assumption|].
      destruct (maxstr <? argn args p - 1); [inversion H; subst; assumption|eapply IH; eassumption].
    + destruct (argn args p =? 0); [inversion H; subst; assumption|].
      destruct ((argn args l =? 0) || (ISIZE_MAX <? argn args l)); [inversion H; subst; assumption|eapply IH; eassumption].
    + destruct (validate r (argn args p) t); [eapply IH; eassumption|inversion H; subst; assumption].
    + destruct (argn args p =? 0); [eapply IH; eassumption|].
      destruct (validate r (argn args p) t); [eapply IH; eassumption|inversion H; subst; assumption].
    + destruct (argn args p =? 0); [inversion H; subst; assumption|eapply IH; eassumption].
    + destruct (argn args p =? 0); [eapply IH; eassumption|inversion H; subst; assumption].
    + destruct (argn args p =? 0); [eapply IH; eassumption|].
      destruct (validate r (argn args p) t); [eapply IH; eassumption|inversion H; subst; assumption].
Qed.

Lemma guards_none_stays : forall gs args r own r' own' res x,
  run_guards gs args r own = (r', own', res) -> lookup x r = None -> lookup x r' = None.
Proof.
  intros gs args r own r' own' res x H L. destruct (lookup x r') as [e|] eqn:L'; [|reflexivity].
  rewrite (guards_submap _ _ _ _ _ _ _ H _ _ L') in L. discriminate.
Qed.

(* ------------------------------------------------------------------ ownership bookkeeping of the guards *)

Lemma guards_own : forall gs args r own r' own' res,
  run_guards gs args r own = (r', own', res) ->
  NoDup (own ++ ids r) ->
  NoDup (own' ++ ids r') /\ incl (own' ++ ids r') (own ++ ids r) /\ (exists c, own' = c ++ own).
Proof.
  induction gs as [|g gs IH]; intros args r own r' own' res H ND; cbn [FfiGuards.run_guards] in H.
  - inversion H; subst. repeat split; [assumption|apply incl_refl|exists []; reflexivity].
  - assert (Stop : forall res0, (r, own, res0) = (r', own', res) ->
        NoDup (own' ++ ids r') /\ incl (own' ++ ids r') (own ++ ids r) /\ (exists c, own' = c ++ own)).
    { intros res0 E; inversion E; subst. repeat split; [assumption|apply incl_refl|exists []; reflexivity]. }
    destruct g.
    + destruct (argn args p =? 0); [eapply Stop; eassumption|eapply IH; eassumption].
    + destruct (argn args p =? 0); [eapply Stop; eassumption|eapply IH; eassumption].
    + destruct (validate r (argn args p) t); [eapply IH; eassumption|eapply Stop; eassumption].
    + destruct (validate r (argn args p) t) as [|e0] eqn:V.
      * destruct (untrack_ok _ _ _ V) as [i [Hi U]]. rewrite U in H.
        set (a := argn args p) in *.
        apply nodup_app_iff in ND. destruct ND as [N1 [N2 N3]].
        assert (Iin : In i (ids r)) by (apply (lookup_in_ids r a (E t i)); assumption).
        assert (Inot : ~ In i (ids (remove a r))) by (apply (removed_id_gone r a (E t i)); assumption).
        assert (ND' : NoDup ((i :: own) ++ ids (remove a r))).
        { cbn [app]. constructor.
          - intros Hin. apply in_app_or in Hin. destruct Hin as [Hin|Hin]; [apply (N3 i Hin); assumption|contradiction].
          - apply nodup_app_iff. repeat split; [assumption|apply nodup_ids_remove; assumption|].
            intros x Hx Hin. apply (N3 x Hx). apply (ids_remove_incl r a). assumption. }
        destruct (IH _ _ _ _ _ _ H ND') as [A [B [c C]]]. repeat split.
        -- assumption.
        -- intros x Hx. apply B in Hx. cbn [app] in Hx. destruct Hx as [<-|Hx].
           ++ apply in_or_app. right; assumption.
           ++ apply in_app_or in Hx. apply in_or_app. destruct Hx as [Hx|Hx]; [left; assumption|right].
              apply (ids_remove_incl r a). assumption.
        -- exists (c ++ [i]). rewrite C. rewrite <- app_assoc. reflexivity.
      * rewrite (untrack_err _ _ _ _ V) in H. eapply Stop; eassumption.
    + destruct (argn args p =? 0); [eapply Stop; eassumption|].
      destruct (maxstr <? argn args p - 1); [eapply Stop; eassumption|eapply IH; eassumption].
    + destruct (argn args p =? 0); [eapply Stop; eassumption|].
      destruct ((argn args l =? 0) || (ISIZE_MAX <? argn args l)); [eapply Stop; eassumption|eapply IH; eassumption].
    + destruct (validate r (argn args p) t); [eapply IH; eassumption|eapply Stop; eassumption].
    + destruct (argn args p =? 0); [eapply IH; eassumption|].
      destruct (validate r (argn args p) t); [eapply IH; eassumption|eapply Stop; eassumption].
    + destruct (argn args p =? 0); [eapply Stop; eassumption|eapply IH; eassumption].
    + destruct (argn args p =? 0); [eapply IH; eassumption|eapply Stop; eassumption].
    + destruct (argn args p =? 0); [eapply IH; eassumption|].
      destruct (validate r (argn args p) t); [eapply IH; eassumption|eapply Stop; eassumption].
Qed.

(* ------------------------------------------------------------------ tracking the body's results *)

Lemma track_all_inv : forall outs r n r' n' (log : list aid),
  track_all r n outs = (r', n') ->
  NoDup (log ++ ids r) -> Forall (fun i => (i < n)%nat) (log ++ ids r) ->
  NoDup (log ++ ids r') /\ Forall (fun i => (i < n')%nat) (log ++ ids r') /\ (n <= n')%nat.
Proof.
  induction outs as [|[a t] outs IH]; intros r n r' n' log H ND LT; cbn [track_all] in H.
  - inversion H; subst. repeat split; [assumption|assumption|lia].
  - assert (Hstep : NoDup (log ++ ids (track r a (E t n))) /\ Forall (fun i => (i < S n)%nat) (log ++ ids (track r a (E t n)))).
    { unfold track. destruct (a =? 0).
      - split; [assumption|]. eapply Forall_impl; [|eassumption]. intros; cbn beta in *; lia.
      - cbn [ids map snd e_id]. fold (ids (remove a r)).
        apply nodup_app_iff in ND. destruct ND as [N1 [N2 N3]].
        rewrite Forall_app in LT. destruct LT as [L1 L2]. rewrite Forall_forall in L1, L2.
        split.
        + apply nodup_app_iff. repeat split.
          * assumption.
          * constructor; [|apply nodup_ids_remove; assumption].
            intros Hin. apply (ids_remove_incl r a) in Hin. apply L2 in Hin. lia.
          * intros x Hx [<-|Hin]; [apply L1 in Hx; lia|].
            apply (N3 x Hx). apply (ids_remove_incl r a). assumption.
        + rewrite Forall_app. split; rewrite Forall_forall.
          * intros x Hx. apply L1 in Hx. lia.
          * intros x [<-|Hx]; [lia|]. apply (ids_remove_incl r a) in Hx. apply L2 in Hx. lia. }
    destruct Hstep as [A B]. destruct (IH _ _ _ _ _ H A B) as [C [D F]]. repeat split; [assumption|assumption|lia].
Qed.

Lemma track_all_lookup_other : forall outs r n x,
  ~ In x (map fst outs) -> lookup x (fst (track_all r n outs)) = lookup x r.
Proof.
  induction outs as [|[a t] outs IH]; intros r n x Hn; cbn [track_all]; [reflexivity|].
  cbn [map fst] in Hn. rewrite IH by (intros H; apply Hn; right; assumption).
  unfold track. destruct (a =? 0); [reflexivity|]. cbn [lookup]. rewrite lookup_remove.
  destruct (N.eqb_spec a x) as [->|Hax]; [exfalso; apply Hn; left; reflexivity|].
  destruct (N.eqb_spec x a); [congruence|reflexivity].
Qed.

(* ------------------------------------------------------------------ the history invariant *)

(* log = allocations released so far (cleanup ran, or taken back by Rust).  They are pairwise distinct,
   distinct from everything still in the registry, and all were issued by earlier track calls. *)
Definition inv (s : state) (log : list aid) : Prop :=
  NoDup (log ++ ids (s_reg s)) /\ Forall (fun i => (i < s_next s)%nat) (log ++ ids (s_reg s)).

Lemma released_consumed : forall own, released (map Consumed own) = own.
Proof. induction own as [|i own IH]; cbn [map released]; [reflexivity|]. f_equal. exact IH. Qed.

Lemma released_cleanup : forall l, released (map Cleanup l) = l.
Proof. induction l as [|i l IH]; cbn [map released]; [reflexivity|]. f_equal. exact IH. Qed.

Lemma released_app : forall a b, released (a ++ b) = released a ++ released b.
Proof. intros. unfold released. apply map_app. Qed.

Lemma inv_move : forall (log own ids0 ids1 : list aid) (n : nat),
  NoDup (log ++ ids0) -> Forall (fun i => (i < n)%nat) (log ++ ids0) ->
  NoDup (own ++ ids1) -> incl (own ++ ids1) ids0 ->
  NoDup ((log ++ own) ++ ids1) /\ Forall (fun i => (i < n)%nat) ((log ++ own) ++ ids1).
Proof.
  intros log own ids0 ids1 n ND LT ND1 IN. rewrite <- app_assoc. split.
  - eapply nodup_app_sub; eassumption.
  - rewrite Forall_app in *. destruct LT as [L1 L2]. split; [assumption|].
    rewrite Forall_forall in *. intros x Hx. apply L2. apply IN. assumption.
Qed.

Lemma step_inv : forall s c s' o ev log,
  step s c = (s', o, ev) -> inv s log -> inv s' (log ++ released ev).
Proof.
  intros [r n] c s' o ev log H [ND LT]; cbn [s_reg s_next] in *. destruct c as [gs args b|a]; cbn [FfiGuards.step s_reg s_next] in H.
  - destruct (run_guards gs args r []) as [[r1 own] res] eqn:G.
    assert (ND0 : NoDup ([] ++ ids r)) by (cbn [app]; apply nodup_app_iff in ND; tauto).
    destruct (guards_own _ _ _ _ _ _ _ G ND0) as [A [B _]]. cbn [app] in B.
    destruct (inv_move log own (ids r) (ids r1) n ND LT A B) as [P Q].
    destruct res as [|c|].
    + destruct b as [|outs].
      * inversion H; subst. rewrite released_consumed. split; assumption.
      * destruct (track_all r1 n outs) as [r2 n2] eqn:T. inversion H; subst. rewrite released_consumed.
        destruct (track_all_inv _ _ _ _ _ (log ++ own) T P Q) as [X [Y _]]. split; assumption.
    + inversion H; subst. rewrite released_consumed. split; assumption.
    + inversion H; subst. rewrite released_consumed. split; assumption.
  - unfold free in H. destruct (a =? 0).
    + inversion H; subst. cbn [map released]. rewrite app_nil_r. split; assumption.
    + destruct (lookup a r) as [e|] eqn:L.
      * inversion H; subst. cbn [map released s_reg s_next].
        assert (NDr : NoDup (ids r)) by (apply nodup_app_iff in ND; tauto).
        apply (inv_move log [e_id e] (ids r) (ids (remove a r)) n ND LT).
        -- cbn [app]. constructor; [apply removed_id_gone; assumption|apply nodup_ids_remove; assumption].
        -- intros x [<-|Hx]; [eapply lookup_in_ids; eassumption|apply (ids_remove_incl r a); assumption].
      * inversion H; subst. cbn [map released]. rewrite app_nil_r. split; assumption.
Qed.

Lemma events_of_cons : forall o ev tr, events_of ((o, ev) :: tr) = ev ++ events_of tr.
Proof. reflexivity. Qed.

Lemma run_inv : forall cs s s' tr log,
  run s cs = (s', tr) -> inv s log -> inv s' (log ++ released (events_of tr)).
Proof.
  induction cs as [|c cs IH]; intros s s' tr log H I; cbn [FfiGuards.run] in H.
  - inversion H; subst. cbn. rewrite app_nil_r. assumption.
  - destruct (step s c) as [[s1 o] ev] eqn:St. destruct (run s1 cs) as [s2 rest] eqn:R. inversion H; subst.
    rewrite events_of_cons, released_app, app_assoc. eapply IH; [eassumption|]. eapply step_inv; eassumption.
Qed.

Lemma inv_init : inv init [].
Proof. split; cbn; constructor. Qed.

Lemma run_app : forall cs1 cs2 s,
  run s (cs1 ++ cs2) =
  let '(s1, t1) := run s cs1 in let '(s2, t2) := run s1 cs2 in (s2, t1 ++ t2).
Proof.
  induction cs1 as [|c cs1 IH]; intros cs2 s; cbn [app FfiGuards.run].
  - destruct (run s cs2) as [s2 t2]. reflexivity.
  - destruct (step s c) as [[s1 o] ev]. rewrite IH. destruct (run s1 cs1) as [s1' t1].
    destruct (run s1' cs2) as [s2 t2]. reflexivity.
Qed.

Lemma events_of_app : forall t1 t2, events_of (t1 ++ t2) = events_of t1 ++ events_of t2.
Proof. intros. unfold events_of. rewrite map_app, concat_app. reflexivity. Qed.

(* over any history, no allocation is released twice *)
Theorem free_at_most_once : forall cs s tr,
  run init cs = (s, tr) -> NoDup (released (events_of tr)).
Proof.
  intros cs s tr H. pose proof (run_inv _ _ _ _ [] H inv_init) as [ND _]. cbn [app] in ND.
  apply nodup_app_iff in ND. tauto.
Qed.

(* a free of a live handle runs that allocation's cleanup, and over the whole history it runs exactly once *)
Theorem free_exactly_once : forall cs1 cs2 a s1 t1 e,
  run init cs1 = (s1, t1) -> a <> 0 -> lookup a (s_reg s1) = Some e ->
  exists s2 t2, run init (cs1 ++ CFree a :: cs2) = (s2, t2) /\
    In (OOk, [Cleanup (e_id e)]) t2 /\
    count_occ Nat.eq_dec (released (events_of t2)) (e_id e) = 1%nat.
Proof.
  intros cs1 cs2 a s1 t1 e R Ha L.
  destruct (run init (cs1 ++ CFree a :: cs2)) as [s2 t2] eqn:Rall. exists s2, t2. split; [reflexivity|].
  pose proof (free_at_most_once _ _ _ Rall) as ND.
  rewrite run_app, R in Rall. cbn [FfiGuards.run FfiGuards.step] in Rall.
  rewrite (free_live _ _ _ Ha L) in Rall. cbn [map] in Rall.
  destruct (run (St (remove a (s_reg s1)) (s_next s1)) cs2) as [s3 t3]. inversion Rall; subst.
  assert (Hin : In (OOk, [Cleanup (e_id e)]) (t1 ++ (OOk, [Cleanup (e_id e)]) :: t3)) by (apply in_or_app; right; left; reflexivity).
  split; [assumption|].
  apply NoDup_count_occ'; [assumption|].
  rewrite events_of_app, released_app. apply in_or_app. right. rewrite events_of_cons. left. reflexivity.
Qed.

(* ------------------------------------------------------------------ an address that is not tracked stays untracked
   until the allocator hands it out again *)

Definition allocs (c : call) : list addr :=
  match c with CApi _ _ (BOk outs) => map fst outs | _ => [] end.

Lemma step_none_stays : forall s c s' o ev x,
  step s c = (s', o, ev) -> lookup x (s_reg s) = None -> ~ In x (allocs c) -> lookup x (s_reg s') = None.
Proof.
  intros [r n] c s' o ev x H L NA; cbn [s_reg s_next] in *. destruct c as [gs args b|a]; cbn [FfiGuards.step s_reg s_next] in H.
  - destruct (run_guards gs args r []) as [[r1 own] res] eqn:G.
    pose proof (guards_none_stays _ _ _ _ _ _ _ x G L) as L1.
    destruct res as [|c|]; [|inversion H; subst; assumption|inversion H; subst; assumption].
    destruct b as [|outs]; [inversion H; subst; assumption|].
    destruct (track_all r1 n outs) as [r2 n2] eqn:T. inversion H; subst. cbn [s_reg].
    cbn [allocs] in NA. pose proof (track_all_lookup_other outs r1 n x NA) as E. rewrite T in E. cbn [fst] in E.
    rewrite E. assumption.
  - unfold free in H. destruct (a =? 0); [inversion H; subst; assumption|].
    destruct (lookup a r) as [e|]; inversion H; subst; cbn [s_reg]; [|assumption].
    rewrite lookup_remove. destruct (x =? a); [reflexivity|assumption].
Qed.

Lemma run_none_stays : forall cs s s' tr x,
  run s cs = (s', tr) -> lookup x (s_reg s) = None -> Forall (fun c => ~ In x (allocs c)) cs ->
  lookup x (s_reg s') = None.
Proof.
  induction cs as [|c cs IH]; intros s s' tr x H L F; cbn [FfiGuards.run] in H.
  - inversion H; subst; assumption.
  - destruct (step s c) as [[s1 o] ev] eqn:St. destruct (run s1 cs) as [s2 rest] eqn:R. inversion H; subst.
    inversion F; subst. eapply IH; [eassumption| |assumption]. eapply step_none_stays; eassumption.
Qed.

Lemma after_free_untracked : forall s a s' o ev, a <> 0 -> step s (CFree a) = (s', o, ev) -> lookup a (s_reg s') = None.
Proof.
  intros [r n] a s' o ev Ha H. cbn [FfiGuards.step s_reg s_next] in H. unfold free in H.
  destruct (N.eqb_spec a 0); [congruence|]. destruct (lookup a r) as [e|] eqn:L; inversion H; subst; cbn [s_reg].
  - rewrite lookup_remove, N.eqb_refl. reflexivity.
  - assumption.
Qed.

(* a second free of the same address is an error that changes nothing and runs nothing, unless the allocator
   reissued the address in between *)
Theorem double_free_error : forall s a s1 o1 ev1 cs s2 tr,
  a <> 0 ->
  step s (CFree a) = (s1, o1, ev1) ->
  Forall (fun c => ~ In a (allocs c)) cs ->
  run s1 cs = (s2, tr) ->
  step s2 (CFree a) = (s2, OErr CUntracked, []).
Proof.
  intros s a s1 o1 ev1 cs s2 tr Ha F1 NA R.
  pose proof (after_free_untracked _ _ _ _ _ Ha F1) as L1.
  pose proof (run_none_stays _ _ _ _ _ R L1 NA) as L2.
  destruct s2 as [r2 n2]. cbn [FfiGuards.step s_reg s_next] in *. rewrite (free_dead _ _ Ha L2). reflexivity.
Qed.

(* ------------------------------------------------------------------ bad handle arguments *)

Lemma guards_reject_bad : forall gs args r own p t,
  forallb no_undef gs = true ->
  existsb (is_check p t) gs = true ->
  validate r (argn args p) t <> ROk ->
  exists r' own' c, run_guards gs args r own = (r', own', GFail c) /\
                    (forallb checked gs = true -> c <> CSilent) /\ c <> CBody.
Proof.
  induction gs as [|g gs IH]; intros args r own p t NU EX BAD; cbn [forallb existsb] in *; [discriminate|].
  apply andb_true_iff in NU. destruct NU as [NUg NU].
  assert (Tail : forall r1 own1, is_check p t g = false -> validate r1 (argn args p) t <> ROk ->
            exists r' own' c, run_guards gs args r1 own1 = (r', own', GFail c) /\
                              (forallb checked gs = true -> c <> CSilent) /\ c <> CBody).
  { intros r1 own1 E B1. rewrite E in EX. cbn [orb] in EX. eapply IH; eassumption. }
  assert (Stop : forall c, c <> CBody -> (checked g = true -> c <> CSilent) ->
            exists r' own' c', (r, own, GFail c) = (r', own', GFail c') /\
                               (checked g && forallb checked gs = true -> c' <> CSilent) /\ c' <> CBody).
  { intros c C1 C2. exists r, own, c. split; [reflexivity|]. split; [|assumption].
    intros Hb. apply andb_true_iff in Hb. apply C2. tauto. }
  cbn [FfiGuards.run_guards]. destruct g; cbn [no_undef] in NUg; try discriminate; cbn [is_check] in *.
  - (* GPtr *) destruct (argn args p0 =? 0).
    + apply Stop; [discriminate|intros _; discriminate].
    + destruct (Tail r own eq_refl BAD) as [r' [own' [c [A [B C]]]]]. exists r', own', c. split; [exact A|split; [intros Hb; apply B; apply andb_true_iff in Hb; tauto|exact C]].
  - (* GPtrSilent *) destruct (argn args p0 =? 0).
    + apply Stop; [discriminate|cbn [checked]; discriminate].
    + destruct (Tail r own eq_refl BAD) as [r' [own' [c [A [B C]]]]]. exists r', own', c. split; [exact A|split; [intros Hb; apply B; apply andb_true_iff in Hb; tauto|exact C]].
  - (* GDeref *) destruct (validate r (argn args p0) t0) as [|e] eqn:V.
    + destruct (Nat.eqb p p0 && (t =? t0)) eqn:E.
      * apply andb_true_iff in E. destruct E as [E1 E2]. apply Nat.eqb_eq in E1. apply N.eqb_eq in E2. subst. contradiction.
      * destruct (Tail r own eq_refl BAD) as [r' [own' [c [A [B C]]]]]. exists r', own', c. split; [exact A|split; [intros Hb; apply B; apply andb_true_iff in Hb; tauto|exact C]].
    + apply Stop; destruct e; cbn; try discriminate; intros _; discriminate.
  - (* GUntrack *) destruct (validate r (argn args p0) t0) as [|e] eqn:V.
    + destruct (untrack_ok _ _ _ V) as [i [Hi U]]. rewrite U.
      destruct (Nat.eqb p p0 && (t =? t0)) eqn:E.
      * apply andb_true_iff in E. destruct E as [E1 E2]. apply Nat.eqb_eq in E1. apply N.eqb_eq in E2. subst. contradiction.
      * assert (B1 : validate (remove (argn args p0) r) (argn args p) t <> ROk).
        { intros Hv. apply BAD. eapply validate_remove_mono; eassumption. }
        destruct (Tail (remove (argn args p0) r) (i :: own) eq_refl B1) as [r' [own' [c [A [B C]]]]].
        exists r', own', c. split; [exact A|split; [intros Hb; apply B; apply andb_true_iff in Hb; tauto|exact C]].
    + rewrite (untrack_err _ _ _ _ V). apply Stop; destruct e; cbn; try discriminate; intros _; discriminate.
  - (* GCstr *) destruct (argn args p0 =? 0).
    + apply Stop; [discriminate|intros _; discriminate].
    + destruct (maxstr <? argn args p0 - 1).
      * apply Stop; [discriminate|intros _; discriminate].
      * destruct (Tail r own eq_refl BAD) as [r' [own' [c [A [B C]]]]]. exists r', own', c. split; [exact A|split; [intros Hb; apply B; apply andb_true_iff in Hb; tauto|exact C]].
  - (* GBytes *) destruct (argn args p0 =? 0).
    + apply Stop; [discriminate|intros _; discriminate].
    + destruct ((argn args l =? 0) || (ISIZE_MAX <? argn args l)).
      * apply Stop; [discriminate|intros _; discriminate].
      * destruct (Tail r own eq_refl BAD) as [r' [own' [c [A [B C]]]]]. exists r', own', c. split; [exact A|split; [intros Hb; apply B; apply andb_true_iff in Hb; tauto|exact C]].
  - (* GDerefOpt: never the strict checker of p *) destruct (argn args p0 =? 0).
    + destruct (Tail r own eq_refl BAD) as [r' [own' [c [A [B C]]]]]. exists r', own', c. split; [exact A|split; [intros Hb; apply B; apply andb_true_iff in Hb; tauto|exact C]].
    + destruct (validate r (argn args p0) t0) as [|e] eqn:V.
      * destruct (Tail r own eq_refl BAD) as [r' [own' [c [A [B C]]]]]. exists r', own', c. split; [exact A|split; [intros Hb; apply B; apply andb_true_iff in Hb; tauto|exact C]].
      * apply Stop; destruct e; cbn; try discriminate; intros _; discriminate.
Qed.

(* the same for an optional handle parameter (`if !p.is_null() { deref_mut_or_return!(..) }`): NULL is allowed,
   every other pointer that is not a live handle of the type is rejected *)
Lemma guards_reject_bad_opt : forall gs args r own p t,
  forallb no_undef gs = true ->
  existsb (is_check_opt p t) gs = true ->
  argn args p <> 0 ->
  validate r (argn args p) t <> ROk ->
  exists r' own' c, run_guards gs args r own = (r', own', GFail c) /\
                    (forallb checked gs = true -> c <> CSilent) /\ c <> CBody.
Proof.
  induction gs as [|g gs IH]; intros args r own p t NU EX NZ BAD; cbn [forallb existsb] in *; [discriminate|].
  apply andb_true_iff in NU. destruct NU as [NUg NU].
  assert (Tail : forall r1 own1, is_check_opt p t g = false -> validate r1 (argn args p) t <> ROk ->
            exists r' own' c, run_guards gs args r1 own1 = (r', own', GFail c) /\
                              (checked g && forallb checked gs = true -> c <> CSilent) /\ c <> CBody).
  { intros r1 own1 E B1. rewrite E in EX. cbn [orb] in EX.
    destruct (IH args r1 own1 p t NU EX NZ B1) as [r' [own' [c [A [B C]]]]]. exists r', own', c.
    split; [exact A|split; [intros Hb; apply B; apply andb_true_iff in Hb; tauto|exact C]]. }
  assert (Stop : forall c, c <> CBody -> (checked g = true -> c <> CSilent) ->
            exists r' own' c', (r, own, GFail c) = (r', own', GFail c') /\
                               (checked g && forallb checked gs = true -> c' <> CSilent) /\ c' <> CBody).
  { intros c C1 C2. exists r, own, c. split; [reflexivity|]. split; [|assumption].
    intros Hb. apply andb_true_iff in Hb. apply C2. tauto. }
  assert (Same : forall p0 t0, Nat.eqb p p0 && (t =? t0) = true -> p0 = p /\ t0 = t).
  { intros p0 t0 E. apply andb_true_iff in E. destruct E as [E1 E2]. apply Nat.eqb_eq in E1. apply N.eqb_eq in E2. subst. split; reflexivity. }
  cbn [FfiGuards.run_guards]. destruct g; cbn [no_undef] in NUg; try discriminate; cbn [is_check_opt] in *.
  - destruct (argn args p0 =? 0); [apply Stop; [discriminate|intros _; discriminate]|apply (Tail r own eq_refl BAD)].
  - destruct (argn args p0 =? 0); [apply Stop; [discriminate|cbn [checked]; discriminate]|apply (Tail r own eq_refl BAD)].
  - destruct (validate r (argn args p0) t0) as [|e] eqn:V.
    + destruct (Nat.eqb p p0 && (t =? t0)) eqn:E; [destruct (Same _ _ E); subst; contradiction|apply (Tail r own eq_refl BAD)].
    + apply Stop; destruct e; cbn; try discriminate; intros _; discriminate.
  - destruct (validate r (argn args p0) t0) as [|e] eqn:V.
    + destruct (untrack_ok _ _ _ V) as [i [Hi U]]. rewrite U.
      destruct (Nat.eqb p p0 && (t =? t0)) eqn:E; [destruct (Same _ _ E); subst; contradiction|].
      apply (Tail (remove (argn args p0) r) (i :: own) eq_refl).
      intros Hv. apply BAD. eapply validate_remove_mono; eassumption.
    + rewrite (untrack_err _ _ _ _ V). apply Stop; destruct e; cbn; try discriminate; intros _; discriminate.
  - destruct (argn args p0 =? 0); [apply Stop; [discriminate|intros _; discriminate]|].
    destruct (maxstr <? argn args p0 - 1); [apply Stop; [discriminate|intros _; discriminate]|apply (Tail r own eq_refl BAD)].
  - destruct (argn args p0 =? 0); [apply Stop; [discriminate|intros _; discriminate]|].
    destruct ((argn args l =? 0) || (ISIZE_MAX <? argn args l)); [apply Stop; [discriminate|intros _; discriminate]|apply (Tail r own eq_refl BAD)].
  - destruct (Nat.eqb p p0 && (t =? t0)) eqn:E.
    + destruct (Same _ _ E); subst. destruct (N.eqb_spec (argn args p) 0); [contradiction|].
      destruct (validate r (argn args p) t) as [|e] eqn:V; [contradiction|].
      apply Stop; destruct e; cbn; try discriminate; intros _; discriminate.
    + destruct (argn args p0 =? 0); [apply (Tail r own eq_refl BAD)|].
      destruct (validate r (argn args p0) t0) as [|e] eqn:V; [apply (Tail r own eq_refl BAD)|].
      apply Stop; destruct e; cbn; try discriminate; intros _; discriminate.
Qed.

Definition is_untrack (g : guard) : bool := match g with GUntrack _ _ => true | _ => false end.

(* a function with no untrack guard leaves the registry exactly as it was when its guards run *)
Lemma guards_borrow_only : forall gs args r own r' own' res,
  forallb (fun g => negb (is_untrack g)) gs = true ->
  run_guards gs args r own = (r', own', res) -> r' = r /\ own' = own.
Proof.
  induction gs as [|g gs IH]; intros args r own r' own' res NU H; cbn [FfiGuards.run_guards forallb] in *.
  - inversion H; subst; split; reflexivity.
  - apply andb_true_iff in NU. destruct NU as [NUg NU].
    destruct g; cbn [is_untrack negb] in NUg; try discriminate;
      repeat match type of H with
             | (if ?b then _ else _) = _ => destruct b
             | match ?v with _ => _ end = _ => destruct v
             end;
      try (inversion H; subst; split; reflexivity); eapply IH; eassumption.
Qed.

(* NULL / wrong type / freed / foreign for a checked handle parameter: error value with a message, the body does not
   run, no cleanup runs, nothing is added to the registry; only handles already taken over by an earlier untrack
   guard leave it (and are logged as consumed); with no untrack guard the state is unchanged *)
Theorem bad_arg_no_effect : forall gs args b s p t,
  forallb checked gs = true ->
  existsb (is_check p t) gs = true ->
  validate (s_reg s) (argn args p) t <> ROk ->
  exists s' c own,
    step s (CApi gs args b) = (s', OErr c, map Consumed own) /\
    c <> CSilent /\ c <> CBody /\
    s_next s' = s_next s /\
    (forall x e, lookup x (s_reg s') = Some e -> lookup x (s_reg s) = Some e) /\
    (forallb (fun g => negb (is_untrack g)) gs = true -> s' = s /\ own = []).
Proof.
  intros gs args b [r n] p t CH EX BAD. cbn [s_reg s_next] in *.
  assert (NU : forallb no_undef gs = true).
  { clear - CH. induction gs as [|g gs IH]; [reflexivity|]. cbn [forallb] in *. apply andb_true_iff in CH. destruct CH as [C1 C2].
    rewrite (IH C2), andb_true_r. destruct g; cbn in *; try reflexivity; discriminate. }
  destruct (guards_reject_bad gs args r [] p t NU EX BAD) as [r' [own' [c [G [C1 C2]]]]].
  exists (St r' n), c, own'. cbn [FfiGuards.step s_reg s_next]. rewrite G. repeat split.
  - apply C1; assumption.
  - assumption.
  - intros x e. eapply guards_submap; eassumption.
  - destruct (guards_borrow_only _ _ _ _ _ _ _ H G) as [-> _]. reflexivity.
  - destruct (guards_borrow_only _ _ _ _ _ _ _ H G) as [_ ->]. reflexivity.
Qed.

(* no API call ever runs a cleanup closure: only free does *)
Lemma api_no_cleanup : forall s gs args b s' o ev i,
  step s (CApi gs args b) = (s', o, ev) -> ~ In (Cleanup i) ev.
Proof.
  intros [r n] gs args b s' o ev i H. cbn [FfiGuards.step s_reg s_next] in H.
  destruct (run_guards gs args r []) as [[r1 own] res].
  assert (X : ~ In (Cleanup i) (map Consumed own)).
  { intros Hin. apply in_map_iff in Hin. destruct Hin as [x [Hx _]]. discriminate. }
  destruct res as [|c|]; [destruct b as [|outs]; [|destruct (track_all r1 n outs)]| |]; inversion H; subst; assumption.
Qed.

(* functions whose guards all check never reach an unvalidated dereference *)
Theorem no_undefined_behaviour : forall gs args b s s' o ev,
  forallb no_undef gs = true -> step s (CApi gs args b) = (s', o, ev) -> o <> OUB.
Proof.
  intros gs args b [r n] s' o ev NU H. cbn [FfiGuards.step s_reg s_next] in H.
  destruct (run_guards gs args r []) as [[r1 own] res] eqn:G.
  assert (res <> GUndef).
  { clear H. revert r own r1 res G NU. generalize (@nil aid).
    induction gs as [|g gs IH]; intros own0 r own r1 res G NU; cbn [FfiGuards.run_guards forallb] in *.
    - inversion G; discriminate.
    - apply andb_true_iff in NU. destruct NU as [NUg NU].
      destruct g; cbn [no_undef] in NUg; try discriminate;
        repeat match type of G with
               | (if ?b then _ else _) = _ => destruct b
               | match ?v with _ => _ end = _ => destruct v
               end;
        try (inversion G; discriminate); eapply IH; eassumption. }
  destruct res as [|c|]; [destruct b as [|outs]; [|destruct (track_all r1 n outs)]| |congruence]; inversion H; discriminate.
Qed.

(* ------------------------------------------------------------------ consuming functions *)

(* one passing guard: either it leaves registry and owned list alone, or it is an untrack guard that moved
   exactly the entry of its argument to the owned list *)
Lemma guards_cons_pass : forall g gs args r own r' own',
  run_guards (g :: gs) args r own = (r', own', GPass) ->
  exists r1 own1, run_guards gs args r1 own1 = (r', own', GPass) /\
    ((r1 = r /\ own1 = own) \/
     (exists p0 t0 i, g = GUntrack p0 t0 /\ argn args p0 <> 0 /\ lookup (argn args p0) r = Some (E t0 i) /\
                      r1 = remove (argn args p0) r /\ own1 = i :: own)).
Proof.
  intros g gs args r own r' own' H. cbn [FfiGuards.run_guards] in H.
  assert (Same : run_guards gs args r own = (r', own', GPass) ->
     exists r1 own1, run_guards gs args r1 own1 = (r', own', GPass) /\
    ((r1 = r /\ own1 = own) \/
     (exists p0 t0 i, g = GUntrack p0 t0 /\ argn args p0 <> 0 /\ lookup (argn args p0) r = Some (E t0 i) /\
                      r1 = remove (argn args p0) r /\ own1 = i :: own))).
  { intros H1. exists r, own. split; [assumption|left; split; reflexivity]. }
  destruct g.
  - destruct (argn args p =? 0); [inversion H|apply Same; assumption].
  - destruct (argn args p =? 0); [inversion H|apply Same; assumption].
  - destruct (validate r (argn args p) t); [apply Same; assumption|inversion H].
  - destruct (validate r (argn args p) t) as [|e0] eqn:V.
    + destruct (untrack_ok _ _ _ V) as [i [Hi U]]. rewrite U in H.
      apply validate_iff_live in V. destruct V as [Ha _].
      exists (remove (argn args p) r), (i :: own). split; [assumption|]. right. exists p, t, i. repeat split; assumption.
    + rewrite (untrack_err _ _ _ _ V) in H. inversion H.
  - destruct (argn args p =? 0); [inversion H|]. destruct (maxstr <? argn args p - 1); [inversion H|apply Same; assumption].
  - destruct (argn args p =? 0); [inversion H|].
    destruct ((argn args l =? 0) || (ISIZE_MAX <? argn args l)); [inversion H|apply Same; assumption].
  - destruct (validate r (argn args p) t); [apply Same; assumption|inversion H].
  - destruct (argn args p =? 0); [apply Same; assumption|].
    destruct (validate r (argn args p) t); [apply Same; assumption|inversion H].
  - destruct (argn args p =? 0); [inversion H|apply Same; assumption].
  - destruct (argn args p =? 0); [apply Same; assumption|inversion H].
  - destruct (argn args p =? 0); [apply Same; assumption|].
    destruct (validate r (argn args p) t); [apply Same; assumption|inversion H].
Qed.

Lemma guards_own_incl : forall gs args r own r' own' res,
  run_guards gs args r own = (r', own', res) -> incl own own'.
Proof.
  intros gs args r own r' own' res H.
  assert (G : forall gs args r own r' own' res, run_guards gs args r own = (r', own', res) -> exists c, own' = c ++ own).
  { clear. induction gs as [|g gs IH]; intros args r own r' own' res H; cbn [FfiGuards.run_guards] in H.
    - inversion H; subst. exists []; reflexivity.
    - destruct g;
        repeat match type of H with
               | (if ?b then _ else _) = _ => destruct b
               | match ?v with _ => _ end = _ => destruct v eqn:?
               end;
        try (inversion H; subst; exists []; reflexivity); try (eapply IH; eassumption).
      destruct (IH _ _ _ _ _ _ H) as [c C]. exists (c ++ [a]). rewrite C, <- app_assoc. reflexivity. }
  destruct (G _ _ _ _ _ _ _ H) as [c ->]. apply incl_appr, incl_refl.
Qed.

Lemma untrack_guard_consumes : forall gs args r own r' own' p t,
  In (GUntrack p t) gs ->
  run_guards gs args r own = (r', own', GPass) ->
  argn args p <> 0 /\ lookup (argn args p) r' = None /\
  (forall e, lookup (argn args p) r = Some e -> In (e_id e) own').
Proof.
  induction gs as [|g gs IH]; intros args r own r' own' p t IN H; [destruct IN|].
  destruct (guards_cons_pass _ _ _ _ _ _ _ H) as [r1 [own1 [H1 Hd]]].
  destruct IN as [->|IN].
  - destruct Hd as [[-> ->]|[p0 [t0 [i [Eg [Ha [L [-> ->]]]]]]]].
    + (* impossible: an untrack guard that passed changed the registry *)
      cbn [FfiGuards.run_guards] in H. destruct (validate r (argn args p) t) as [|e0] eqn:V.
      * destruct (untrack_ok _ _ _ V) as [i [Hi U]]. rewrite U in H.
        apply validate_iff_live in V. destruct V as [Ha _]. split; [assumption|]. split.
        -- eapply guards_none_stays; [exact H|]. rewrite lookup_remove, N.eqb_refl. reflexivity.
        -- intros e Le. rewrite Hi in Le. inversion Le; subst. cbn [e_id].
           apply (guards_own_incl _ _ _ _ _ _ _ H). left; reflexivity.
      * rewrite (untrack_err _ _ _ _ V) in H. inversion H.
    + inversion Eg; subst. split; [assumption|]. split.
      * eapply guards_none_stays; [exact H1|]. rewrite lookup_remove, N.eqb_refl. reflexivity.
      * intros e Le. rewrite L in Le. inversion Le; subst. cbn [e_id].
        apply (guards_own_incl _ _ _ _ _ _ _ H1). left; reflexivity.
  - destruct (IH _ _ _ _ _ _ _ IN H1) as [Ha [A B]]. split; [assumption|]. split; [assumption|].
    intros e Le. destruct Hd as [[-> ->]|[p0 [t0 [i [Eg [Ha0 [L [-> ->]]]]]]]].
    + apply B; assumption.
    + destruct (N.eqb_spec (argn args p) (argn args p0)) as [E|E].
      * rewrite E in Le. rewrite L in Le. inversion Le; subst. cbn [e_id].
        apply (guards_own_incl _ _ _ _ _ _ _ H1). left; reflexivity.
      * apply B. rewrite lookup_remove. destruct (N.eqb_spec (argn args p) (argn args p0)); [contradiction|assumption].
Qed.

(* a handle-consuming function untracks before it drops: once its guards have passed (the call succeeded or
   its body failed), the handle is logged as consumed exactly by this call and a later free of that address
   is an error (untracked pointer), not a second release — unless the call itself reissued the address *)
Theorem consume_then_free_is_error : forall gs args b s s1 o ev p t e,
  In (GUntrack p t) gs ->
  lookup (argn args p) (s_reg s) = Some e ->
  step s (CApi gs args b) = (s1, o, ev) ->
  (o = OOk \/ o = OErr CBody) ->
  ~ In (argn args p) (allocs (CApi gs args b)) ->
  In (Consumed (e_id e)) ev /\
  step s1 (CFree (argn args p)) = (s1, OErr CUntracked, []).
Proof.
  intros gs args b [r n] s1 o ev p t e IN L H Ho NA. cbn [s_reg s_next] in *.
  cbn [FfiGuards.step s_reg s_next] in H.
  destruct (run_guards gs args r []) as [[r1 own] res] eqn:G.
  destruct res as [|c|].
  - destruct (untrack_guard_consumes _ _ _ _ _ _ _ _ IN G) as [Ha [A B]].
    assert (X : ev = map Consumed own /\ lookup (argn args p) (s_reg s1) = None).
    { destruct b as [|outs].
      - inversion H; subst. split; [reflexivity|assumption].
      - destruct (track_all r1 n outs) as [r2 n2] eqn:T. inversion H; subst. split; [reflexivity|]. cbn [s_reg].
        cbn [allocs] in NA. pose proof (track_all_lookup_other outs r1 n _ NA) as E. rewrite T in E. cbn [fst] in E.
        rewrite E. assumption. }
    destruct X as [-> L1]. split.
    + apply in_map. apply B. assumption.
    + destruct s1 as [r2 n2]. cbn [FfiGuards.step s_reg s_next] in *. rewrite (free_dead _ _ Ha L1). reflexivity.
  - inversion H; subst. destruct Ho as [Ho|Ho]; [discriminate|].
    (* a guard failure is never CBody *)
    exfalso. clear - G Ho. inversion Ho; subst. revert r G. generalize (@nil aid).
    induction gs as [|g gs IH]; intros own0 r G; cbn [FfiGuards.run_guards] in G; [inversion G|].
    destruct g;
      repeat match type of G with
             | (if ?b then _ else _) = _ => destruct b
             | match ?v with _ => _ end = _ => destruct v eqn:?
             end;
      try (inversion G; fail); try (eapply IH; eassumption);
      try (inversion G; match goal with e : rerr |- _ => destruct e; discriminate end).
  - inversion H; subst. destruct Ho; discriminate.
Qed.

(* over [call; free a] the consumed allocation is therefore released exactly once whatever the call did *)

(* ------------------------------------------------------------------ static table facts *)

Lemma params_guarded_handle : forall ps gs i k t,
  params_guarded i ps gs = true -> nth_error ps k = Some (PHandle t) -> existsb (is_check (i + k) t) gs = true.
Proof.
  induction ps as [|q ps IH]; intros gs i k t H N; [destruct k; discriminate|].
  cbn [params_guarded] in H. apply andb_true_iff in H. destruct H as [H1 H2]. destruct k as [|k]; cbn [nth_error] in N.
  - inversion N; subst. rewrite Nat.add_0_r. assumption.
  - replace (i + S k)%nat with (S i + k)%nat by lia. eapply IH; eassumption.
Qed.

Lemma checked_no_undef : forall gs, forallb checked gs = true -> forallb no_undef gs = true.
Proof.
  induction gs as [|g gs IH]; intros H; [reflexivity|]. cbn [forallb] in *. apply andb_true_iff in H. destruct H as [C1 C2].
  rewrite (IH C2), andb_true_r. destruct g; cbn in *; try reflexivity; discriminate.
Qed.

(* the table-level statement: a function that passes [fn_guarded] rejects every bad handle argument *)
Theorem guarded_fn_rejects_bad_handle : forall f k t args b s,
  fn_guarded f = true ->
  nth_error (f_params f) k = Some (PHandle t) ->
  validate (s_reg s) (argn args k) t <> ROk ->
  exists s' c own,
    step s (CApi (f_guards f) args b) = (s', OErr c, map Consumed own) /\
    c <> CSilent /\ c <> CBody /\ s_next s' = s_next s /\
    (forall x e, lookup x (s_reg s') = Some e -> lookup x (s_reg s) = Some e) /\
    (forallb (fun g => negb (is_untrack g)) (f_guards f) = true -> s' = s /\ own = []).
Proof.
  intros f k t args b s FG N BAD. unfold fn_guarded in FG. apply andb_true_iff in FG. destruct FG as [C P].
  apply bad_arg_no_effect with (p := k) (t := t); try assumption.
  apply (params_guarded_handle _ _ O k t P N).
Qed.

(* ------------------------------------------------------------------ optional handle parameters *)

Theorem bad_opt_arg_no_effect : forall gs args b s p t,
  forallb checked gs = true ->
  existsb (is_check_opt p t) gs = true ->
  argn args p <> 0 ->
  validate (s_reg s) (argn args p) t <> ROk ->
  exists s' c own,
    step s (CApi gs args b) = (s', OErr c, map Consumed own) /\
    c <> CSilent /\ c <> CBody /\
    s_next s' = s_next s /\
    (forall x e, lookup x (s_reg s') = Some e -> lookup x (s_reg s) = Some e) /\
    (forallb (fun g => negb (is_untrack g)) gs = true -> s' = s /\ own = []).
Proof.
  intros gs args b [r n] p t CH EX NZ BAD. cbn [s_reg s_next] in *.
  destruct (guards_reject_bad_opt gs args r [] p t (checked_no_undef _ CH) EX NZ BAD) as [r' [own' [c [G [C1 C2]]]]].
  exists (St r' n), c, own'. cbn [FfiGuards.step s_reg s_next]. rewrite G. repeat split.
  - apply C1; assumption.
  - assumption.
  - intros x e. eapply guards_submap; eassumption.
  - destruct (guards_borrow_only _ _ _ _ _ _ _ H G) as [-> _]. reflexivity.
  - destruct (guards_borrow_only _ _ _ _ _ _ _ H G) as [_ ->]. reflexivity.
Qed.

Lemma params_guarded_handle_opt : forall ps gs i k t,
  params_guarded i ps gs = true -> nth_error ps k = Some (PHandleOpt t) -> existsb (is_check_opt (i + k) t) gs = true.
Proof.
  induction ps as [|q ps IH]; intros gs i k t H N; [destruct k; discriminate|].
  cbn [params_guarded] in H. apply andb_true_iff in H. destruct H as [H1 H2]. destruct k as [|k]; cbn [nth_error] in N.
  - inversion N; subst. rewrite Nat.add_0_r. assumption.
  - replace (i + S k)%nat with (S i + k)%nat by lia. eapply IH; eassumption.
Qed.

Theorem guarded_fn_rejects_bad_opt_handle : forall f k t args b s,
  fn_guarded f = true ->
  nth_error (f_params f) k = Some (PHandleOpt t) ->
  argn args k <> 0 ->
  validate (s_reg s) (argn args k) t <> ROk ->
  exists s' c own,
    step s (CApi (f_guards f) args b) = (s', OErr c, map Consumed own) /\
    c <> CSilent /\ c <> CBody /\ s_next s' = s_next s /\
    (forall x e, lookup x (s_reg s') = Some e -> lookup x (s_reg s) = Some e) /\
    (forallb (fun g => negb (is_untrack g)) (f_guards f) = true -> s' = s /\ own = []).
Proof.
  intros f k t args b s FG N NZ BAD. unfold fn_guarded in FG. apply andb_true_iff in FG. destruct FG as [C P].
  apply bad_opt_arg_no_effect with (p := k) (t := t); try assumption.
  apply (params_guarded_handle_opt _ _ O k t P N).
Qed.

End Hist.
