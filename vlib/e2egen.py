"""Shared generators for the end-to-end properties C03 / C22 / C39: tiny synthetic assets, label grammar,
JSON payloads with sizes straddling the CBOR head boundaries, JUMBF / CBOR readers."""
import json, struct

# ------------------------------------------------------------------ tiny assets (accepted by the SDK's handlers)

def gif():
    return bytes.fromhex("47494638396101000100800000" "000000ffffff" "21f9040100000000" "2c00000000010001000002024401003b")


def wav(n=64):
    data = bytes((i * 7) & 0xff for i in range(n))
    fmt = struct.pack("<HHIIHH", 1, 1, 8000, 8000, 1, 8)
    body = b"WAVE" + b"fmt " + struct.pack("<I", 16) + fmt + b"data" + struct.pack("<I", len(data)) + data
    return b"RIFF" + struct.pack("<I", len(body)) + body


def tiff():
    pix = b"\x7f\x00"
    ents = [(256, 3, 1, 1), (257, 3, 1, 1), (258, 3, 1, 8), (259, 3, 1, 1), (262, 3, 1, 1), (273, 4, 1, 8), (277, 3, 1, 1),
            (278, 3, 1, 1), (279, 4, 1, 1)]
    ifd_off = 8 + len(pix)
    ifd = struct.pack("<H", len(ents))
    for t, ty, c, v in ents:
        ifd += struct.pack("<HHI", t, ty, c) + (struct.pack("<HH", v, 0) if ty == 3 else struct.pack("<I", v))
    ifd += struct.pack("<I", 0)
    return b"II*\x00" + struct.pack("<I", ifd_off) + pix + ifd


def _box(t, p):
    return struct.pack(">I", 8 + len(p)) + t + p


def mp4(n=32):
    ftyp = _box(b"ftyp", b"isom" + struct.pack(">I", 512) + b"isomiso2mp41")
    mvhd = _box(b"mvhd", bytes(4) + struct.pack(">IIII", 0, 0, 1000, 0) + struct.pack(">I", 0x00010000) + struct.pack(">H", 0x0100)
                + bytes(10) + struct.pack(">9I", 0x10000, 0, 0, 0, 0x10000, 0, 0, 0, 0x40000000) + bytes(24) + struct.pack(">I", 1))
    return ftyp + _box(b"moov", mvhd) + _box(b"mdat", bytes((i * 3) & 0xff for i in range(n)))


def mp3(n=3):
    return b"ID3\x03\x00\x00" + bytes(4) + (b"\xff\xfb\x90\x00" + bytes(413)) * n


FIXTURES = "/repo/sdk/tests/fixtures"

# name -> (mime, source spec).  `small` ones are used everywhere; the large ones only in the thorough tier.
def sources(thorough=False):
    s = {
        "jpeg": ("image/jpeg", {"fixture": "no_manifest.jpg", "fmt": "image/jpeg"}),
        "png": ("image/png", {"fixture": "libpng-test.png", "fmt": "image/png"}),
        "gif": ("image/gif", {"hex": gif().hex(), "fmt": "image/gif"}),
        "webp": ("image/webp", {"fixture": "test.webp", "fmt": "image/webp"}),
        "wav": ("audio/wav", {"hex": wav().hex(), "fmt": "audio/wav"}),
        "mp4": ("video/mp4", {"hex": mp4().hex(), "fmt": "video/mp4"}),
        "svg": ("image/svg+xml", {"fixture": "sample1.svg", "fmt": "image/svg+xml"}),
        "tiff": ("image/tiff", {"hex": tiff().hex(), "fmt": "image/tiff"}),
        "mp3": ("audio/mpeg", {"hex": mp3().hex(), "fmt": "audio/mpeg"}),
    }
    if thorough:
        s.update({
            "jpeg2": ("image/jpeg", {"fixture": "IMG_0003.jpg", "fmt": "image/jpeg"}),
            "tiff2": ("image/tiff", {"fixture": "TUSCANY.TIF", "fmt": "image/tiff"}),
            "mp4b": ("video/mp4", {"fixture": "video1_no_manifest.mp4", "fmt": "video/mp4"}),
            "webp2": ("image/webp", {"fixture": "test_lossless.webp", "fmt": "image/webp"}),
            "avif": ("image/avif", {"fixture": "sample1.avif", "fmt": "image/avif"}),
            "mp3b": ("audio/mpeg", {"fixture": "id3v23_compression_underflow.mp3", "fmt": "audio/mpeg"}),
        })
    return s


BMFF = {"video/mp4", "image/avif", "image/heic", "audio/mp4"}
ALGS = ["ed25519", "es256", "es384", "es512", "ps256", "ps384", "ps512"]
HASH_ALGS = ["sha256", "sha384", "sha512"]

# ------------------------------------------------------------------ labels and payloads

SEG = "abcdefghijklmnopqrstuvwxyz0123456789-_"


def gen_label(rng, pool=None):
    """custom label from the label grammar (reverse-domain, components of [A-Za-z0-9_-]); never in a reserved
    namespace, never with the `__` instance or `.vN`-only syntax unless asked for"""
    if pool and rng.random() < 0.45:
        base = rng.choice(pool)
        r = rng.random()
        if r < 0.35:
            return base                                   # duplicate label -> instances
        if r < 0.6:
            return base + rng.choice(["b", "x", "2", "-a", "_k"])   # a label containing another as a prefix
        if r < 0.8:
            return base + "." + rng.choice(["sub", "v2", "ext", "a"])
        return base[1:] if len(base) > 6 else base + "z"  # a label contained as a suffix of another
    tld = rng.choice(["org", "com", "net", "io", "dev"])
    n = rng.choice([1, 1, 2, 2, 3])
    parts = []
    for _ in range(n):
        k = rng.choice([1, 2, 3, 5, 8, 12])
        p = "".join(rng.choice(SEG) for _ in range(k))
        p = p.replace("__", "_x")
        if p[0] in "-_":
            p = "a" + p[1:]
        parts.append(p)
    lab = tld + "." + ".".join(parts)
    if rng.random() < 0.1:
        lab += ".v" + str(rng.choice([1, 2, 3, 10]))
    return lab


BOUND = [0, 1, 22, 23, 24, 25, 254, 255, 256, 257]
BOUND_BIG = [65534, 65535, 65536, 65537]


def gen_string(rng, n):
    r = rng.random()
    if r < 0.7:
        return "".join(rng.choice("abcdefghij KLMNOP0123") for _ in range(n))
    if r < 0.85:
        alphabet = ["é", "中", "\U0001f600", "\"", "\\", "\n", "\t", "/", "<", "&", "'", "a", "\u0000"[:0] or "b"]
        return "".join(rng.choice(alphabet) for _ in range(n))
    return "".join(rng.choice("xy") for _ in range(n))


def gen_scalar(rng):
    r = rng.random()
    if r < 0.3:
        return rng.choice([0, 1, 23, 24, 255, 256, 65535, 65536, 2 ** 31 - 1, 2 ** 32, 2 ** 53 - 1, -1, -24, -25, -256, -257, -2 ** 31, -2 ** 53 + 1])
    if r < 0.4:
        return rng.choice([0.5, -1.25, 3.141592653589793, 1e10, 1.0e-7, 100000.5])
    if r < 0.5:
        return rng.choice([True, False, None])
    return gen_string(rng, rng.choice([0, 1, 5, 23, 24]))


def gen_value(rng, depth=0, big=False):
    r = rng.random()
    if depth >= 3 or r < 0.35:
        return gen_scalar(rng)
    if r < 0.6:
        n = rng.choice([0, 1, 2, 3, 23, 24, 25]) if depth < 2 else rng.choice([0, 1, 2])
        kind = rng.random()
        if kind < 0.3:
            return [rng.randrange(0, 256) for _ in range(n)]         # looks like bytes
        if kind < 0.4:
            return [rng.choice([0, 7, 255, 256, 1000, -1]) for _ in range(n)]
        return [gen_value(rng, depth + 1) for _ in range(min(n, 4))]
    n = rng.choice([0, 1, 2, 3, 5]) if depth else rng.choice([1, 2, 3, 5, 23, 24, 25])
    return {("k%d" % i if rng.random() < 0.8 else gen_string(rng, rng.choice([1, 3, 24])) + str(i)): gen_value(rng, depth + 1) for i in range(n)}


def gen_payload(rng, allow_big=True):
    """a JSON object whose serialised size straddles 24 / 256 / 65536 bytes"""
    v = gen_value(rng, 0)
    if not isinstance(v, dict):
        v = {"value": v}
    r = rng.random()
    if r < 0.45:
        n = rng.choice(BOUND)
        v["pad"] = gen_string(rng, n)
    elif r < 0.55 and allow_big:
        n = rng.choice(BOUND_BIG)
        v["pad"] = gen_string(rng, n)
    elif r < 0.6:
        v = {}
    return v


# ------------------------------------------------------------------ comparison of JSON payloads

def json_equal(a, b):
    """semantic JSON equality: object key order ignored, numbers by value"""
    if isinstance(a, bool) or isinstance(b, bool):
        return isinstance(a, bool) and isinstance(b, bool) and a == b
    if isinstance(a, (int, float)) and isinstance(b, (int, float)):
        return a == b or (a != 0 and abs(a - b) <= 1e-12 * max(abs(a), abs(b)))
    if type(a) != type(b):
        return False
    if isinstance(a, dict):
        return a.keys() == b.keys() and all(json_equal(a[k], b[k]) for k in a)
    if isinstance(a, list):
        return len(a) == len(b) and all(json_equal(x, y) for x, y in zip(a, b))
    return a == b


def has_number_array(v, under_key=False):
    """does hash_to_b64 (Reader::json presentation) rewrite something in v: a non-empty all-number array that is
    the value of an object key"""
    if isinstance(v, dict):
        return any(has_number_array(x, True) for x in v.values())
    if isinstance(v, list):
        if under_key and v and all(isinstance(x, (int, float)) and not isinstance(x, bool) for x in v):
            return True
        return any(has_number_array(x, False) for x in v)
    return False


# ------------------------------------------------------------------ JUMBF / CBOR readers (for manifests returned by the harness)

def jumbf_children(buf, off=0, end=None):
    """yield (type, payload_start, payload_end) of the boxes in buf[off:end]"""
    end = len(buf) if end is None else end
    while off + 8 <= end:
        l, t = struct.unpack(">I4s", buf[off:off + 8])
        hdr = 8
        if l == 1:
            l = struct.unpack(">Q", buf[off + 8:off + 16])[0]
            hdr = 16
        elif l == 0:
            l = end - off
        if l < hdr or off + l > end:
            raise ValueError("bad box length")
        yield t, off + hdr, off + l, off
        off += l


def jumd_label(buf, s, e):
    # uuid(16) toggles(1) label NUL ...
    toggles = buf[s + 16]
    if not toggles & 0x02:
        return None
    z = buf.index(b"\x00", s + 17, e)
    return buf[s + 17:z].decode("utf-8", "replace")


def superbox(buf, s, e):
    """-> (label, [child boxes (type, s, e, boxstart)] after the description box)"""
    kids = list(jumbf_children(buf, s, e))
    if not kids or kids[0][0] != b"jumd":
        return None, kids
    return jumd_label(buf, kids[0][1], kids[0][2]), kids[1:]


def store_manifests(jumbf):
    """manifest store JUMBF -> {manifest label: raw bytes of the manifest superbox}, in order"""
    out = {}
    top = list(jumbf_children(jumbf))
    if not top or top[0][0] != b"jumb":
        raise ValueError("not a JUMBF superbox")
    _, kids = superbox(jumbf, top[0][1], top[0][2])
    for t, s, e, b0 in kids:
        if t == b"jumb":
            lab, _ = superbox(jumbf, s, e)
            out[lab] = jumbf[b0:e]
    return out


def manifest_parts(mbytes):
    """raw manifest superbox -> {'assertions': {label: (desc_len, data bytes, content type)}, 'claim': bytes, 'signature': bytes, 'other': n}"""
    t, s, e, _ = next(jumbf_children(mbytes))
    lab, kids = superbox(mbytes, s, e)
    out = {"label": lab, "assertions": [], "claim": None, "signature": None, "other": 0}
    for t, s, e, b0 in kids:
        l2, k2 = superbox(mbytes, s, e)
        if l2 == "c2pa.assertions":
            for t3, s3, e3, b3 in k2:
                l3, k3 = superbox(mbytes, s3, e3)
                kk = list(jumbf_children(mbytes, s3, e3))
                desc_len = kk[0][2] - kk[0][3]
                content = [(x[0], mbytes[x[1]:x[2]]) for x in kk[1:]]
                out["assertions"].append({"label": l3, "desc_len": desc_len, "content": content, "box_len": e3 - b3})
        elif l2 in ("c2pa.claim", "c2pa.claim.v2"):
            out["claim"] = mbytes[k2[0][1]:k2[0][2]]
            out["claim_label_len"] = len(l2)
        elif l2 == "c2pa.signature":
            out["signature"] = mbytes[k2[0][1]:k2[0][2]]
        else:
            out["other"] += e - b0
    return out


def cbor_decode(b, i=0):
    """minimal definite-length CBOR decoder -> (value, next index)"""
    ib = b[i]
    mt, ai = ib >> 5, ib & 31
    i += 1
    if ai < 24:
        n = ai
    elif ai == 24:
        n = b[i]; i += 1
    elif ai == 25:
        n = struct.unpack(">H", b[i:i + 2])[0]; i += 2
    elif ai == 26:
        n = struct.unpack(">I", b[i:i + 4])[0]; i += 4
    elif ai == 27:
        n = struct.unpack(">Q", b[i:i + 8])[0]; i += 8
    else:
        raise ValueError("indefinite/reserved")
    if mt == 0:
        return n, i
    if mt == 1:
        return -1 - n, i
    if mt == 2:
        return bytes(b[i:i + n]), i + n
    if mt == 3:
        return b[i:i + n].decode("utf-8", "replace"), i + n
    if mt == 4:
        out = []
        for _ in range(n):
            v, i = cbor_decode(b, i)
            out.append(v)
        return out, i
    if mt == 5:
        out = {}
        for _ in range(n):
            k, i = cbor_decode(b, i)
            v, i = cbor_decode(b, i)
            out[k] = v
        return out, i
    if mt == 6:
        return cbor_decode(b, i)
    if ai == 20:
        return False, i
    if ai == 21:
        return True, i
    if ai == 22 or ai == 23:
        return None, i
    if ai == 25:
        return struct.unpack(">e", struct.pack(">H", n))[0], i
    if ai == 26:
        return struct.unpack(">f", struct.pack(">I", n))[0], i
    if ai == 27:
        return struct.unpack(">d", struct.pack(">Q", n))[0], i
    return n, i


def coq_string(s):
    return '"' + s.replace('"', '""') + '"'
