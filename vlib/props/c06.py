"""C06 — certificate profile violations make the manifest invalid; conforming certificates are never flagged."""
import json, os, re
from .. import common, x509gen as X
from ..common import TieBroken
from . import _certfacts, _certcases as K
from ._certcases import ee_ext, root, leaf, CUSTOM_EKU

PROP_FILE = "Properties/C06.v"
TRUSTED = ["DER parsing (x509-parser) is outside the model: the model works on a record of certificate features; the run extracts "
           "the same features independently from `openssl x509 -text` and compares model and implementation branch by branch",
           "openssl 3.5 CLI generates the certificates (plus python DER surgery for unique IDs / version 2)",
           "validation_state restated locally (Model/TrustPolicy.v) for the `never Valid/Trusted` step; the end-to-end run observes the real one",
           "hooks: cose_sign::verif_cose_sign_unchecked (skips the pre-signing profile gate), verif_hooks::c06 (passes a DER TSTInfo)"]
# corpus/C06.jsonl: lines 1-2 are the former witnesses of F-SELFSIGNED / F-PSS-DEFAULTS (fixed by e3a439b95 / 85312f708: they must now be
# rejected like any other violation), line 3 is the witness of F-KU-CERTSIGN (open), lines 4-5 a conforming control and an EKU violation.
ASSUMPTIONS = ["signing time comes from a TSTInfo handed to the profile check through a hook (no TSA in the sandbox); "
               "end-to-end cases run without a time-stamp", "system clock between 2021 and 2045 (validity windows of the generated material)"]

ALLOWED_SIG_NAMES = {"sha256WithRSAEncryption", "sha384WithRSAEncryption", "sha512WithRSAEncryption", "ecdsa-with-SHA256",
                     "ecdsa-with-SHA384", "ecdsa-with-SHA512", "ED25519", "rsassaPss"}
PSS_HASHES = {"sha256", "sha384", "sha512"}
CURVES = {"prime256v1", "secp384r1", "secp521r1"}
ACCEPTED_EKU_OIDS = {"1.3.6.1.5.5.7.3.36", "1.3.6.1.4.1.311.76.59.1.9", "1.3.6.1.4.1.62558.2.1"}


def facts(ctx):
    _certfacts.write(ctx)


# ------------------------------------------------------------------ oracle: the property text over independently read features

def classify(pem_path, t, trust_config):
    """returns (violations, unspecified) — lists of tags — for the certificate at signing time t"""
    f = X.features(pem_path)
    v, u = [], []
    if f["version"] != 3:
        v.append("version")
    if f["is_ca"]:
        v.append("ca")
    if f["issuer"] == f["subject"]:
        v.append("self_signed")
    sa = f["sig_alg"]
    if sa not in ALLOWED_SIG_NAMES:
        v.append("sig_alg")
    elif sa == "rsassaPss":
        p = f["pss"]
        if not p["present"] or p["hash"] not in PSS_HASHES or p["mgf"] != p["hash"]:
            v.append("sig_alg")
    if f["pk_alg"] == "id-ecPublicKey":
        if f["curve"] not in CURVES:
            v.append("curve")
    elif f["pk_alg"] in ("rsaEncryption", "rsassaPss"):
        if f["pk_bits"] < 2048:
            v.append("rsa_bits")
    elif f["pk_alg"] != "ED25519":
        u.append("key_type")
    if f["issuer_uid"] or f["subject_uid"]:
        v.append("unique_id")
    ku = f["ku"]
    if ku is None:
        v.append("ku_missing")
    else:
        if "Digital Signature" not in ku:
            if "Certificate Sign" in ku and not f["is_ca"]:
                v.append("ku_no_ds")
            elif "Non Repudiation" in ku:
                u.append("ku_nonrep_only")
            else:
                v.append("ku_no_ds")
        if "Certificate Sign" in ku and not f["is_ca"]:
            v.append("ku_certsign")
    e = f["eku"]
    if e is None:
        v.append("eku_missing")
    else:
        extra = set(l.strip() for l in (trust_config or "").splitlines() if re.fullmatch(r"\d+(\.\d+)+", l.strip()))
        others = [".".join(str(a) for a in K.oid_of_name(o)) for o in e["other"]]
        accepted = e["email_protection"] or e["time_stamping"] or e["ocsp_signing"] or any(o in ACCEPTED_EKU_OIDS or o in extra for o in others)
        if e["any"]:
            v.append("eku_any")
        if not accepted:
            v.append("eku_not_accepted")
        n_other = sum(1 for k in ("server_auth", "client_auth", "code_signing", "email_protection") if e[k]) + len(others)
        if (e["time_stamping"] and e["ocsp_signing"]) or ((e["time_stamping"] or e["ocsp_signing"]) and n_other):
            v.append("eku_exclusive")
    for x in f["ext"]:
        if x["critical"] and x["name"] not in X.HANDLED_EXT and not x["name"].startswith("X509v3 Key Usage") \
                and x["name"] not in ("X509v3 Subject Key Identifier", "X509v3 Authority Key Identifier"):
            if re.fullmatch(r"\d+(\.\d+)+", x["name"]):
                v.append("critical_unknown")
            else:
                u.append("critical_standard_unhandled")
    if not any(x["name"] == "X509v3 Authority Key Identifier" for x in f["ext"]):
        u.append("aki_missing")
    if not (f["not_before"] <= t <= f["not_after"]):
        v.append("validity")
    return v, u


# ------------------------------------------------------------------ material

JUNK_DER = bytes([0x30, 0x0a, 0x02, 0x01, 0x01, 0x04, 0x05, 0x6a, 0x75, 0x6e, 0x6b, 0x21])


def junk_pem_path():
    """a PEM block whose content is DER but not a certificate"""
    os.makedirs(X.ROOT, exist_ok=True)
    p = os.path.join(X.ROOT, "junk.pem")
    if not os.path.exists(p):
        open(p, "w").write(X.der_to_pem(JUNK_DER))
    return p


JUNK_MODEL = {"parse_ok": False, "version": 0, "not_before": 0, "not_after": 0, "sig_alg": [0, 0], "pss": ("absent",), "spki": ("other",),
              "is_ca": False, "self_issued": False, "issuer_uid": False, "subject_uid": False, "eku": None, "exts": [], "ku": None}


def R():
    return root("c6")


def RR():
    return root("c6r", "rsa2048")


PSS = ["rsa_padding_mode:pss"]


def plan(thorough):
    """list of entries {name, spec|path, key, e2e}"""
    r, rr = R(), RR()
    E = []

    def add(name, spec, e2e=True, trust_config=None, path=None, key=None):
        E.append({"name": name, "spec": spec, "path": path, "key": key or spec["key"], "e2e": e2e, "trust_config": trust_config})

    # conforming controls
    add("ok-p256", leaf(r, "ok256"))
    add("ok-p384", leaf(r, "ok384", "p384"))
    add("ok-p521", leaf(r, "ok521", "p521"))
    add("ok-rsa2048", leaf(rr, "okrsa", "rsa2048"))
    add("ok-ed25519", leaf(root("c6e", "ed25519"), "oked", "ed25519"))
    add("ok-rsapss-key", leaf(rr, "okpsskey", "rsapss2048"))
    add("ok-sha384rsa", leaf(rr, "ok384r", digest="sha384"))
    add("ok-sha512rsa", leaf(rr, "ok512r", digest="sha512"))
    add("ok-ecdsa384", leaf(root("c6p384", "p384"), "ok384e", digest="sha384"))
    add("ok-pss256", leaf(rr, "okpss256", sigopts=PSS))
    add("ok-pss384", leaf(rr, "okpss384", sigopts=PSS, digest="sha384"))
    add("ok-pss512", leaf(rr, "okpss512", sigopts=PSS, digest="sha512"))
    add("ok-eku-docsign", leaf(r, "okdoc", ext=ee_ext(extendedKeyUsage="1.3.6.1.5.5.7.3.36")))
    add("ok-eku-c2pa", leaf(r, "okc2pa", ext=ee_ext(extendedKeyUsage="1.3.6.1.4.1.62558.2.1")))
    add("ok-eku-ts", leaf(r, "okts", ext=ee_ext(extendedKeyUsage="timeStamping")))
    add("ok-eku-ocsp", leaf(r, "okocsp", ext=ee_ext(extendedKeyUsage="OCSPSigning")))
    add("ok-eku-email-client", leaf(r, "okec", ext=ee_ext(extendedKeyUsage="emailProtection,clientAuth")))
    add("ok-eku-custom-config", leaf(r, "okcust", ext=ee_ext(extendedKeyUsage=CUSTOM_EKU)), trust_config=CUSTOM_EKU + "\n")
    add("ok-unknown-noncritical", leaf(r, "oknc", ext=ee_ext(**{"1_2_3_4_5_6": "ASN1:UTF8String:hello"})))
    add("ok-handled-exts", leaf(r, "okh", ext=ee_ext(subjectAltName="email:a@example.com", certificatePolicies="critical,1.2.3.4",
                                                     crlDistributionPoints="URI:http://example.com/c.crl",
                                                     authorityInfoAccess="OCSP;URI:http://example.com/ocsp")))
    add("ok-ku-ds-nonrep", leaf(r, "okdn", ext=ee_ext(keyUsage="critical,digitalSignature,nonRepudiation")))
    if thorough:
        add("ok-rsa3072", leaf(rr, "okrsa3", "rsa3072"))
    # one rule violated each
    add("no-extensions", leaf(r, "v1", ext=[]))
    add("ca", leaf(r, "ca", ext=ee_ext(basicConstraints="critical,CA:TRUE", keyUsage="critical,digitalSignature,keyCertSign")))
    add("ca-noski", leaf(r, "cans", ext=ee_ext(basicConstraints="critical,CA:TRUE", keyUsage="critical,digitalSignature,keyCertSign",
                                               subjectKeyIdentifier=None)))
    add("selfsigned-ee", {"cn": "Self EE", "key": ["p256", "ee-self"], "issuer": None, "ext": K.EE_EXT})
    add("selfsigned-ee-rsa", {"cn": "Self EE rsa", "key": ["rsa2048", "ee-selfr"], "issuer": None, "ext": K.EE_EXT})
    add("selfsigned-ca", {"cn": "Self CA", "key": ["p256", "ee-selfca"], "issuer": None,
                          "ext": ee_ext(basicConstraints="critical,CA:TRUE", keyUsage="critical,digitalSignature,keyCertSign")})
    add("sig-sha1rsa", leaf(rr, "s1r", digest="sha1"))
    add("sig-sha224rsa", leaf(rr, "s224r", digest="sha224"))
    add("sig-ecdsa-sha1", leaf(r, "s1e", digest="sha1"))
    add("sig-sha3rsa", leaf(rr, "s3r", digest="sha3-256"))
    add("sig-ed448", leaf(root("c6e448", "ed448"), "s448"))
    add("pss-sha1-defaults", leaf(rr, "p1", sigopts=PSS, digest="sha1"))
    add("pss-mgf1-sha1-default", leaf(rr, "p2", sigopts=PSS + ["rsa_mgf1_md:sha1"]))
    add("pss-sha224", leaf(rr, "p224", sigopts=PSS, digest="sha224"))
    add("pss-hash-mgf-mismatch", leaf(rr, "pmm", sigopts=PSS + ["rsa_mgf1_md:sha384"]))
    add("curve-secp256k1", leaf(r, "k1", "secp256k1"))
    add("curve-explicit", leaf(r, "expl", "p256explicit"))
    add("rsa1024", leaf(rr, "r1024", "rsa1024"))
    # the RSA minimum is a bit count of the modulus: just below (2047, 2041: same octet count as 2048; 2040: one octet fewer) and controls
    add("rsa2047", leaf(rr, "r2047", "rsa2047"))
    add("rsa2041", leaf(rr, "r2041", "rsa2041"))
    add("rsa2040", leaf(rr, "r2040", "rsa2040"))
    add("ok-rsa2056", leaf(rr, "r2056", "rsa2056"))
    # curves just outside the accepted list
    add("curve-secp224r1", leaf(r, "c224", "secp224r1"))
    add("curve-brainpoolP256r1", leaf(r, "cbp256", "brainpoolP256r1"))
    add("curve-brainpoolP384r1", leaf(r, "cbp384", "brainpoolP384r1"))
    add("sig-ecdsa-sha224", leaf(r, "s224e", digest="sha224"))
    add("sig-ecdsa-sha3", leaf(r, "s3e", digest="sha3-256"))
    base = leaf(r, "uidbase")
    add("uid-issuer", base, path=X.with_unique_ids(base, True, False))
    add("uid-subject", base, path=X.with_unique_ids(base, False, True))
    add("uid-both", base, path=X.with_unique_ids(base, True, True))
    add("version-v2", base, path=X.with_unique_ids(base, False, False, version=1))
    add("version-v1", base, path=X.with_unique_ids(base, False, False, v1=True))
    add("ku-absent", leaf(r, "kua", ext=ee_ext(keyUsage=None)))
    add("ku-keyenc", leaf(r, "kue", ext=ee_ext(keyUsage="critical,keyEncipherment")))
    add("ku-ds-certsign", leaf(r, "kudc", ext=ee_ext(keyUsage="critical,digitalSignature,keyCertSign")))
    add("ku-certsign-only", leaf(r, "kuc", ext=ee_ext(keyUsage="critical,keyCertSign")))
    add("ku-nonrep-only", leaf(r, "kun", ext=ee_ext(keyUsage="critical,nonRepudiation")))
    add("eku-absent", leaf(r, "ea", ext=ee_ext(extendedKeyUsage=None)))
    add("eku-serverauth", leaf(r, "es", ext=ee_ext(extendedKeyUsage="serverAuth")))
    add("eku-any", leaf(r, "eany", ext=ee_ext(extendedKeyUsage="anyExtendedKeyUsage")))
    add("eku-any-email", leaf(r, "eanye", ext=ee_ext(extendedKeyUsage="anyExtendedKeyUsage,emailProtection")))
    add("eku-ts-ocsp", leaf(r, "eto", ext=ee_ext(extendedKeyUsage="timeStamping,OCSPSigning")))
    add("eku-ts-email", leaf(r, "ete", ext=ee_ext(extendedKeyUsage="timeStamping,emailProtection")))
    add("eku-ocsp-custom", leaf(r, "eoc", ext=ee_ext(extendedKeyUsage="OCSPSigning," + CUSTOM_EKU)))
    add("eku-custom-noconfig", leaf(r, "ecn", ext=ee_ext(extendedKeyUsage=CUSTOM_EKU)))
    add("critical-unknown", leaf(r, "cu", ext=ee_ext(**{"1_2_3_4_5_6": "critical,ASN1:UTF8String:hello"})))
    add("critical-issuer-alt-name", leaf(r, "cian", ext=ee_ext(issuerAltName="critical,email:ca@example.com")))
    add("aki-absent", leaf(r, "akia", ext=ee_ext(authorityKeyIdentifier=None)))
    E.append({"name": "unparsable-der", "spec": leaf(r, "ok256"), "path": junk_pem_path(), "key": ["p256", "ee-ok256"], "e2e": False,
              "trust_config": None, "junk": True})
    add("expired", leaf(r, "exp", validity=X.EXPIRED))
    add("not-yet-valid", leaf(r, "fut", validity=X.FUTURE))
    return E


PAIR_POOL = [
    ("ku-absent", dict(keyUsage=None)), ("ku-keyenc", dict(keyUsage="critical,keyEncipherment")),
    ("eku-absent", dict(extendedKeyUsage=None)), ("eku-server", dict(extendedKeyUsage="serverAuth")),
    ("eku-any", dict(extendedKeyUsage="anyExtendedKeyUsage")), ("eku-ts-email", dict(extendedKeyUsage="timeStamping,emailProtection")),
    ("ca", dict(basicConstraints="critical,CA:TRUE")), ("crit", {"1_2_3_4_5_6": "critical,ASN1:UTF8String:x"}),
    ("aki", dict(authorityKeyIdentifier=None)), ("ku-dc", dict(keyUsage="critical,digitalSignature,keyCertSign")),
    ("nobc", dict(basicConstraints=None)), ("ski", dict(subjectKeyIdentifier=None)),
]
OUTER = [("", {}), ("sha1", {"digest": "sha1"}), ("expired", {"validity": X.EXPIRED}), ("pss1", {"sigopts": PSS, "digest": "sha1", "_rsa": True}),
         ("rsa1024", {"_kind": "rsa1024"}), ("p384", {"_kind": "p384"})]


def random_entry(rng, i):
    """two or three simultaneous deviations (thorough tier): extension overrides x outer deviation"""
    k = rng.choice([1, 2, 2, 3])
    picks = rng.sample(PAIR_POOL, k)
    over = {}
    for _, o in picks:
        over.update(o)
    oname, outer = rng.choice(OUTER)
    outer = dict(outer)
    parent = RR() if outer.pop("_rsa", False) else R()
    kind = outer.pop("_kind", "p256")
    tag = "mix-" + "-".join(n for n, _ in picks) + "-" + oname
    spec = leaf(parent, tag, kind, ext=ee_ext(**over), **outer)
    return {"name": tag, "spec": spec, "path": None, "key": spec["key"], "e2e": True, "trust_config": None}


def time_variants(entries):
    """direct-only cases with a signing time from a TSTInfo: boundaries of the validity window"""
    out = []
    by = {e["name"]: e for e in entries}
    for name in ("ok-p256", "expired", "not-yet-valid"):
        e = by[name]
        f = X.features(e["path"] or X.cert(e["spec"]))
        for t in (f["not_before"] - 1, f["not_before"], f["not_before"] + 1, (f["not_before"] + f["not_after"]) // 2,
                  f["not_after"] - 1, f["not_after"], f["not_after"] + 1):
            out.append((e, t))
    return out


def build_case(e, tst=None, mode="anchor"):
    path = e["path"] or X.cert(e["spec"])
    chain = [X.read(path)] + [K.pem_of(s) for s in K.chain_specs(e["spec"])[1:]]
    rootpem = chain[-1]
    trust = {}
    verify = {"verify_trust": True, "verify_after_sign": False}
    if mode == "anchor":
        trust["trust_anchors"] = rootpem
    elif mode == "allow":
        trust["allowed_list"] = chain[0]
    elif mode == "notrust":
        verify["verify_trust"] = False
    if e["trust_config"]:
        trust["trust_config"] = e["trust_config"]
    direct = {"trust_anchors": trust.get("trust_anchors"), "user_anchors": None, "allowed_list": trust.get("allowed_list"),
              "trust_config": e["trust_config"], "anchors_only": False, "passthrough": False,
              "variant": "trust" if verify["verify_trust"] else "profile",
              "tst": X.tst_info_der(tst).hex() if tst is not None else None, "signing_time": tst}
    now = K.now()
    t = tst if tst is not None else now
    if e.get("junk"):
        return {"name": e["name"], "mode": mode, "chain": chain, "key": X.read(X.key(*e["key"])), "alg": "es256", "e2e": False,
                "settings": {"trust": trust, "verify": verify}, "direct": direct, "t": t, "now": now, "viol": [],
                "unspec": ["unparsable"], "is_ca": False, "pss_defaulted": False, "model": dict(JUNK_MODEL), "trust_config": None, "junk": True}
    viol, unspec = classify(path, t, e["trust_config"])
    f = X.features(path)
    pss = f["pss"]
    return {"name": e["name"], "mode": mode, "chain": chain, "key": X.read(X.key(*e["key"])), "alg": X.SIGN_ALG.get(e["key"][0], "es256"),
            "e2e": bool(e["e2e"] and tst is None), "settings": {"trust": trust, "verify": verify}, "direct": direct,
            "t": t, "now": now, "viol": viol, "unspec": unspec, "is_ca": f["is_ca"],
            "pss_defaulted": bool(pss and pss["present"] and not (pss["hash_explicit"] and pss["mgf_explicit"])),
            "model": K.model_features(path), "trust_config": e["trust_config"]}


def corpus():
    p = os.path.join(common.VERIF, "corpus", "C06.jsonl")
    if not os.path.exists(p):
        return []
    return [json.loads(l) for l in open(p) if l.strip()]


def model_expr(c):
    tst = c["direct"]["signing_time"]
    return (f"check_end_entity_certificate_profile {K.coq_cert(c['model'])} {K.coq_ekus(c['trust_config'])} "
            f"{'(Some (%d)%%Z)' % tst if tst is not None else 'None'} ({c['now']})%Z")


SC_FAIL = ("signingCredential.invalid", "signingCredential.expired")


def evaluate(ctx, cases, with_model=True):
    slim = [{k: c[k] for k in ("id", "chain", "key", "alg", "e2e", "settings", "direct")} for c in cases]
    impl = K.run_cases("c06", slim)
    model = None
    if with_model:
        model = common.coq_eval("C06", K.IMPORTS, [model_expr(c) for c in cases], shard_size=12, timeout=1800)
    quiet_logged = bool(getattr(ctx, "facts", None) and ctx.facts["profile"].get("silent_logged"))
    stats = {"conforming": 0, "violation": 0, "unspecified": 0, "e2e_read": 0, "e2e_sign_failed": 0, "with_signing_time": 0,
             "rules": {}, "branches": {}, "states": {}}
    distinct = set()
    for idx, c in enumerate(cases):
        r = impl[c["id"]]
        mi = {k: c[k] for k in ("name", "mode", "viol", "unspec", "is_ca", "pss_defaulted", "t")}
        rep = dict(c)
        rep.pop("model", None)
        if r.get("r") != "ok":
            if r.get("r") in ("panic", "crash"):
                ctx.report_violation(rep, f"implementation panicked: {r.get('msg')}", mi)
            else:
                ctx.disagreements.append({"case": c["name"], "impl": r, "model": "harness could not load the credential"})
            continue
        d = r["direct"]
        ip = K.impl_profile(d)
        if c["direct"]["signing_time"] is not None:
            stats["with_signing_time"] += 1
        distinct.add((c["name"], c["direct"]["signing_time"], c["mode"]))
        for v in c["viol"]:
            stats["rules"][v] = stats["rules"].get(v, 0) + 1
        bname = ip[1] if ip[0] == "PFail" else "POk"
        stats["branches"][bname] = stats["branches"].get(bname, 0) + 1
        dcodes = [x[1] for x in d["profile"]["log"] if x[0] == "Failure"]
        vcodes = [x[1] for x in d["verify"]["log"] if x[0] == "Failure"]
        e2 = r.get("e2e")
        e2ok = isinstance(e2, dict) and "state" in e2
        if c["e2e"]:
            if e2ok:
                stats["e2e_read"] += 1
                stats["states"][e2["state"]] = stats["states"].get(e2["state"], 0) + 1
            else:
                stats["e2e_sign_failed"] += 1
        # ---- oracle: the property text
        if c["viol"]:
            stats["violation"] += 1
            if not any(k in SC_FAIL for k in dcodes):
                ctx.report_violation(rep, f"profile violation {c['viol']} but no signingCredential failure code from the profile check "
                                          f"(result {d['profile']['res']}, log {d['profile']['log']})", mi)
            elif d["verify"]["res"].startswith(("Ok", "Err")) and c["direct"]["variant"] != "ignore" and not any(k in SC_FAIL for k in vcodes):
                ctx.report_violation(rep, f"profile violation {c['viol']} but Verifier::verify_signature logged no signingCredential failure: {d['verify']}", mi)
            elif e2ok and (e2["state"] in ("Valid", "Trusted") or not any(k in SC_FAIL for k in e2["failure"])):
                ctx.report_violation(rep, f"profile violation {c['viol']} but the manifest reads {e2['state']} with failure codes {e2['failure']}", mi)
        elif c["unspec"]:
            stats["unspecified"] += 1
        else:
            stats["conforming"] += 1
            if d["profile"]["res"] != "Ok" or dcodes:
                ctx.report_violation(rep, f"conforming certificate flagged by the profile check: {d['profile']}", mi)
            elif e2ok and (any(k in SC_FAIL for k in e2["failure"]) or e2["state"] == "Invalid"):
                ctx.report_violation(rep, f"conforming certificate but the manifest reads {e2['state']} with failure codes {e2['failure']}", mi)
        # ---- correspondence
        if model is not None:
            mp = K.model_profile(model[idx], quiet_logged)
            if mp != ip:
                ctx.disagreements.append({"case": {"name": c["name"], "mode": c["mode"], "t": c["t"]}, "impl": ip, "model": mp})
            else:
                want = [mp[3]] if mp[0] == "PFail" and mp[1] != "silent" else []
                if c["direct"]["variant"] != "ignore" and not d["verify"]["res"].startswith("SignErr") and [k for k in vcodes if k in SC_FAIL] != want:
                    ctx.disagreements.append({"case": c["name"], "impl": {"verify_signature_log": d["verify"]["log"]}, "model": want})
                if e2ok and sorted(k for k in e2["failure"] if k in SC_FAIL) != want:
                    ctx.disagreements.append({"case": c["name"], "impl": {"e2e_failure": e2["failure"]}, "model": want})
    return stats, len(distinct)


def run(ctx):
    if not getattr(ctx, "no_build", False):
        common.build_harness()
    thorough = not ctx.quick()
    if ctx.replay:
        cases = [ctx.replay["case"]] if "case" in ctx.replay else []
        for c in cases:
            c["model"] = model_from_pem(c["chain"][0])
    else:
        entries = plan(thorough)
        cases = []
        for cc in corpus():
            cc["model"] = model_from_pem(cc["chain"][0])
            cases.append(cc)
        for e in entries:
            cases.append(build_case(e))
        for e, t in time_variants(entries):
            cases.append(build_case(e, tst=t))
        by = {e["name"]: e for e in entries}
        for name in ("ok-p256", "selfsigned-ee", "eku-serverauth", "expired", "pss-sha1-defaults", "ok-rsa2048", "ca"):
            cases.append(build_case(by[name], mode="allow"))
            cases.append(build_case(by[name], mode="notrust"))
        if thorough:
            for e in entries:
                for mode in ("allow", "notrust"):
                    cases.append(build_case(e, mode=mode))
            seen = set()
            for i in range(100):
                e = random_entry(ctx.rng, i)
                if e["name"] in seen:
                    continue
                seen.add(e["name"])
                cases.append(build_case(e))
    for i, c in enumerate(cases):
        c["id"] = i
    stats, distinct = evaluate(ctx, cases)
    ctx.coverage.update({
        "evaluations": len(cases), "distinct_nontrivial": distinct,
        "rule": "one generated certificate per profile rule violated alone (+ conforming controls per key type / signature algorithm / EKU), "
                "each through the public profile check, Verifier::verify_signature and a signed PNG read back; validity boundaries through "
                "a TSTInfo signing time; thorough adds allow-list / no-trust modes for every entry and seeded 1-3 rule combinations; "
                "non-trivial = every case (distinct by certificate, signing time, trust mode)",
        "distribution": stats,
        "samples": [{k: (v if k not in ("chain", "key", "model", "settings", "direct") else "...") for k, v in c.items()} for c in cases[:2] + cases[30:32]],
    })


def model_from_pem(pem_text):
    """features of a PEM carried inline by a corpus / replay case"""
    import hashlib
    if X.pem_to_der(pem_text) == JUNK_DER:
        return dict(JUNK_MODEL)
    d = os.path.join(X.ROOT, "inline")
    os.makedirs(d, exist_ok=True)
    p = os.path.join(d, hashlib.sha256(pem_text.encode()).hexdigest()[:16] + ".pem")
    if not os.path.exists(p):
        open(p, "w").write(pem_text)
    return K.model_features(p)


def search(ctx):
    """tie broken and nothing found: every entry in every trust mode plus many seeded combinations, oracle only"""
    common.build_harness()
    entries = plan(True)
    cases = [build_case(e, mode=m) for e in entries for m in ("anchor", "notrust")]
    cases += [build_case(e, tst=t) for e, t in time_variants(entries)]
    seen = set()
    for i in range(120):
        e = random_entry(ctx.rng, i)
        if e["name"] not in seen:
            seen.add(e["name"])
            cases.append(build_case(e))
    for i, c in enumerate(cases):
        c["id"] = i
    evaluate(ctx, cases, with_model=False)
    ctx.coverage["search_evaluations"] = len(cases)
