"""C13 — range hashing equals the digest of exactly the selected bytes."""
import hashlib, json, os, re
from .. import common
from ..common import TieBroken, coq_bytes, coq_list

PROP_FILE = "Properties/C13.v"
TRUSTED = ["SHA-2 is not modelled: the model returns the hasher input, python hashlib hashes it",
           "range-set crate's remove_range modelled as set difference (checked by correspondence)",
           "OS threads/mpsc channel represented by the two-actor model in Model/HashPipeline.v"]
ASSUMPTIONS = ["debug-profile harness (overflow checks on); 64-bit usize"]

U64 = 1 << 64
ALGS = {"sha256": hashlib.sha256, "sha384": hashlib.sha384, "sha512": hashlib.sha512}


def facts(ctx):
    t = common.strip_tests(common.src("sdk/src/utils/hash_utils.rs"))
    m = common.fact(r"const\s+MAX_HASH_BUF\s*:\s*usize\s*=\s*([^;]+);", t, "MAX_HASH_BUF")
    maxbuf = common.rust_int(m.group(1))
    body = common.fn_body(t, r"fn\s+hash_stream_by_alg_with_progress_impl\s*<", "hash_stream_by_alg_with_progress_impl")
    algs = re.findall(r'"(sha\d+)"\s*=>', body)
    if not algs:
        raise TieBroken("srcfacts: no algorithm arms in hash_stream_by_alg_with_progress_impl")
    if "to_be_bytes()" not in body:
        raise TieBroken("srcfacts: BMFF offset marker is no longer hashed as to_be_bytes()")
    v = ("(* generated from sdk/src/utils/hash_utils.rs on every run — do not edit *)\n"
         "From Coq Require Import NArith List.\nImport ListNotations.\nOpen Scope N_scope.\n"
         f"Definition MAX_HASH_BUF : N := {maxbuf}.\n"
         f"Definition n_algs : N := {len(algs)}.\n")
    common.write_if_changed(os.path.join(common.COQ, "Generated", "C13_facts.v"), v)
    ctx.facts = {"MAX_HASH_BUF": maxbuf, "algs": algs}


# ------------------------------------------------------------------ spec (oracle), straight from the property text

def spec(case):
    """returns ('err',) | ('ok', bytes) | ('unspecified', reason)"""
    data = bytes.fromhex(case["data"])
    n = len(data)
    if n == 0:
        return ("err",)
    rs = case["ranges"] or []
    if not rs:
        return ("ok", data)          # no ranges at all: the whole stream is hashed (both modes)
    for s, l, m in rs:
        if l > 0 and (s + l >= U64 or s + l > n):
            return ("err",)
    if any(l == 0 and s > n for s, l, m in rs):
        return ("unspecified", "empty range positioned past the end")
    markers = [m for _, _, m in rs if m is not None]
    if case["excl"]:
        ex = [(s, l) for s, l, m in rs if m is None and l > 0]
        cov = bytearray(n)
        for s, l in ex:
            for p in range(s, min(n, s + l)):
                cov[p] = 1
        inc = [p for p in range(n) if not cov[p]]
        if markers:
            if len(set(markers)) != len(markers):
                return ("unspecified", "duplicate markers")
            lo, hi = (inc[0], inc[-1]) if inc else (1, n - 2)
            if any(not (lo <= m <= hi) for m in markers):
                return ("unspecified", "marker outside the hashed span")
        ms = set(markers)
        out = bytearray()
        for p in range(n):
            if p in ms:
                out += p.to_bytes(8, "big")
            if not cov[p]:
                out.append(data[p])
        return ("ok", bytes(out))
    else:
        out = bytearray()
        for s, l, m in sorted(rs, key=lambda r: r[0]):      # python's sort is stable, like sort_by_key
            if l == 0:
                continue
            if m is not None:
                out += m.to_bytes(8, "big")
            out += data[s:s + l]
        return ("ok", bytes(out))


def one_byte_at_marker(case):
    """F-MARKER1 class: a one-byte hashed run that starts at a marker offset"""
    data = bytes.fromhex(case["data"])
    n = len(data)
    rs = case["ranges"] or []
    ms = set(m for _, _, m in rs if m is not None)
    if not ms:
        return False
    if case["excl"]:
        cov = bytearray(n + 1)
        for s, l, m in rs:
            if m is None:
                for p in range(s, min(n, s + l)):
                    cov[p] = 1
        for o in ms:
            if o < n and not cov[o] and (o + 1 >= n or cov[o + 1] or (o + 1) in ms):
                return True
        return False
    return any(l == 1 and s in ms for s, l, _ in rs)


# ------------------------------------------------------------------ generation

def gen_many(rng, i):
    """many markers / many ranges: more than 20 pieces in the range vector (sorting and merging at scale)"""
    n = rng.randrange(120, 600)
    data = bytes(rng.randrange(256) for _ in range(n))
    excl = rng.random() < 0.8
    ranges = []
    if excl:
        pos = sorted(rng.sample(range(0, n - 2, 3), rng.randrange(8, 36)))
        for o in pos:
            ranges.append([o, 1, o])
        for _ in range(rng.randrange(0, 8)):
            s = rng.randrange(0, n)
            ranges.append([s, rng.randrange(0, min(9, n - s + 1)), None])
    else:
        for _ in range(rng.randrange(12, 40)):
            s = rng.randrange(0, n)
            l = rng.randrange(0, min(12, n - s + 1))
            ranges.append([s, l, rng.choice([None, None, rng.randrange(0, 1 << 33)])])
    rng.shuffle(ranges)
    return {"id": i, "data": data.hex(), "ranges": ranges, "excl": excl, "alg": "sha256", "buf": rng.choice([1, 5, 64, n])}


def gen_case(rng, i, malformed=False):
    if not malformed and rng.random() < 0.08:
        return gen_many(rng, i)
    r = rng.random()
    n = rng.choice([1, 2, 3, 5, 8, 9, 16, 17, 31, 64]) if r < 0.55 else (rng.randrange(0, 300) if r < 0.9 else rng.randrange(300, 4097))
    if rng.random() < 0.02:
        n = 0
    data = bytes(rng.randrange(256) for _ in range(n))
    excl = rng.random() < 0.6
    k = rng.choice([0, 1, 1, 2, 2, 3, 4, 5, 6])
    ranges = []
    use_markers = rng.random() < 0.35
    for _ in range(k):
        if malformed and rng.random() < 0.5:
            s = rng.choice([0, 1, max(n - 1, 0), n, n + 1, (1 << 32) - 1, (1 << 32) + 1, 1 << 63, U64 - 1, rng.randrange(0, max(1, 2 * n + 2))])
            l = rng.choice([0, 1, n, n + 1, (1 << 32) - 1, ((1 << 32) - 1) << 28, 1 << 63, U64 - 1, U64 - 1 - min(s, U64 - 1), rng.randrange(0, max(1, 2 * n + 2))])
        else:
            s = rng.randrange(0, n + 1) if n else 0
            l = rng.choice([0, 1, 1, 2, rng.randrange(0, max(1, n - s + 1)), max(0, n - s)])
            l = min(l, max(0, n - s))
        m = None
        if use_markers and rng.random() < 0.5:
            if excl:
                # the SDK builds markers as HashRange(o, 1) with bmff_offset o
                s = rng.randrange(0, max(1, n))
                l, m = 1, s
            else:
                m = rng.choice([s, rng.randrange(0, max(1, n)), rng.randrange(0, 1 << 40)])
        ranges.append([s, l, m])
    buf = rng.choice([1, 1, 2, 3, 7, 64, max(1, n - 1), max(1, n), n + 1] + ([] if malformed else [268435456]))
    alg = rng.choice(["sha256", "sha256", "sha384", "sha512"])
    return {"id": i, "data": data.hex(), "ranges": (ranges if (ranges or rng.random() < 0.5) else None), "excl": excl, "alg": alg, "buf": buf}


def exhaustive_small():
    """all streams of length <= 3 over {0,1}, all pairs of ranges with start,len in 0..4, both modes, buf 1 and 2"""
    out = []
    datas = ["", "00", "0001", "000102", "00010203"]
    rr = [(s, l) for s in range(0, 5) for l in range(0, 5)]
    for d in datas:
        for a in rr:
            for b in rr:
                for excl in (True, False):
                    out.append({"data": d, "ranges": [[a[0], a[1], None], [b[0], b[1], None]], "excl": excl, "alg": "sha256", "buf": 2})
    return out


def corpus():
    p = os.path.join(common.VERIF, "corpus", "C13.jsonl")
    if not os.path.exists(p):
        return []
    return [json.loads(l) for l in open(p) if l.strip()]


def model_expr(c):
    rs = c["ranges"] or []
    hr = coq_list([f"HR {s} {l} {('(Some %d)' % m) if m is not None else 'None'}" for s, l, m in rs])
    return f"hash_run true {coq_bytes(bytes.fromhex(c['data']))} {hr} {'true' if c['excl'] else 'false'} {c['buf']}"


ERRMAP = {"OtherError": "ENoData", "BadParam": "EBadParam", "IoError": "EIo"}


def evaluate(ctx, cases, with_model=True):
    impl = common.run_harness("c13", cases)
    model = None
    if with_model:
        big = [c for c in cases]
        model = common.coq_eval("C13", "From C2PA Require Import Base.Bytes Model.RangeHash.\nFrom Coq Require Import NArith List.\nImport ListNotations.\nOpen Scope N_scope.",
                                [model_expr(c) for c in big], shard_size=120)
    stats = {"ok": 0, "err": 0, "unspecified": 0, "modes": {"excl": 0, "incl": 0}, "with_markers": 0, "past_end": 0, "multi_chunk": 0, "sizes": {}}
    distinct = set()
    for idx, c in enumerate(cases):
        r = impl[c["id"]]
        sp = spec(c)
        n = len(c["data"]) // 2
        stats["modes"]["excl" if c["excl"] else "incl"] += 1
        bucket = "0" if n == 0 else "1-8" if n <= 8 else "9-64" if n <= 64 else "65-512" if n <= 512 else "513-4096"
        stats["sizes"][bucket] = stats["sizes"].get(bucket, 0) + 1
        if any(m is not None for _, _, m in (c["ranges"] or [])):
            stats["with_markers"] += 1
        if r["r"] == "ok" and len(r["progress"]) > len([x for x in (c["ranges"] or [])]) + 1:
            stats["multi_chunk"] += 1
        if c["ranges"]:
            distinct.add((c["data"], json.dumps(c["ranges"]), c["excl"]))
        # ---- oracle (the property, on the implementation alone)
        mi = dict(c)
        mi["one_byte_at_marker"] = one_byte_at_marker(c)
        if r["r"] in ("panic", "crash"):
            ctx.report_violation(c, f"implementation panicked: {r.get('msg')}", mi)
        elif sp[0] == "err":
            stats["err"] += 1
            if n > 0:
                stats["past_end"] += 1
            if r["r"] != "err":
                ctx.report_violation(c, "a range reaches past the end of the data (or the stream is empty) but hashing succeeded: " + r.get("digest", ""), mi)
        elif sp[0] == "ok":
            stats["ok"] += 1
            want = ALGS[c["alg"]](sp[1]).hexdigest()
            if r["r"] != "ok":
                ctx.report_violation(c, f"in-bounds ranges rejected: {r.get('kind')} {r.get('detail')}", mi)
            elif r["digest"] != want:
                ctx.report_violation(c, f"digest {r['digest']} != digest of the selected bytes {want}", mi)
            else:
                pr = r["progress"]
                if [s for s, _ in pr] != list(range(1, len(pr) + 1)) or any(s > t for s, t in pr):
                    ctx.report_violation(c, f"progress steps not 1..n within total: {pr[:8]}", mi)
        else:
            stats["unspecified"] += 1
        # ---- correspondence (model vs implementation)
        if model is not None:
            mo = model[idx]
            if r["r"] in ("panic", "crash"):
                ir = "Panic"
            elif r["r"] == "err":
                ir = ("Err", ERRMAP.get(r["kind"], r["kind"]))
            else:
                ir = ("Ok", r["digest"], len(r["progress"]), r["progress"][0][1] if r["progress"] else 0)
            if mo == "Panic":
                mr = "Panic"
            elif mo[0] == "Err":
                mr = ("Err", mo[1])
            else:
                inp, nt, tot = mo[1]
                mr = ("Ok", ALGS[c["alg"]](bytes(inp)).hexdigest(), nt, tot)
            if ir != mr:
                ctx.disagreements.append({"case": c, "impl": ir, "model": mr})
    return stats, len(distinct)


def run(ctx):
    if not getattr(ctx, "no_build", False):
        common.build_harness()
    if ctx.replay:
        cases = [ctx.replay["case"]] if "case" in ctx.replay else [d["case"] for d in ctx.replay.get("disagreements", [])]
    else:
        cases = corpus()
        nrand = 600 if ctx.quick() else 12000
        cases += [gen_case(ctx.rng, 0, malformed=(i % 4 == 0)) for i in range(nrand)]
        ex = exhaustive_small()
        cases += ex if not ctx.quick() else ctx.rng.sample(ex, 400)
    for i, c in enumerate(cases):
        c["id"] = i
    stats, distinct = evaluate(ctx, cases)
    ctx.coverage.update({
        "evaluations": len(cases), "distinct_nontrivial": distinct,
        "rule": "corpus + seeded structured cases (75% in-bounds, 25% malformed incl. u64 extremes) + small exhaustive family; "
                "non-trivial = has at least one range; distinct by (data, ranges, mode)",
        "distribution": stats,
        "traces_validated_against_impl": len(cases),
        "samples": [{k: (v if k != "data" or len(v) < 64 else v[:64] + "...") for k, v in c.items()} for c in cases[:2] + cases[len(cases) // 2: len(cases) // 2 + 2]],
    })


def search(ctx):
    """tie broken and nothing found yet: larger biased generator, oracle only"""
    common.build_harness()
    cases = [gen_case(ctx.rng, 0, malformed=(i % 2 == 0)) for i in range(6000)] + exhaustive_small()
    for i, c in enumerate(cases):
        c["id"] = i
    evaluate(ctx, cases, with_model=False)
    ctx.coverage["search_evaluations"] = len(cases)
