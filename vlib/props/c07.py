"""C07 — embedding round trip: write, read, replace and remove manifest stores."""
import json, os
from .. import common
from . import _containers as K

PROP_FILE = "Properties/C07.v"
TRUSTED = ["segment-level models of .c2pa/PNG/JPEG/GIF/RIFF handlers (coq/Model/Cont*.v) incl. the vendored img-parts and riff "
           "crate behaviour; dec(enc) proved for PNG and JPEG, the GIF and RIFF byte decoders are tied by the correspondence run only",
           "CRC-32 of the new PNG chunk is a parameter of the theorems (instantiated by a bitwise crc32 for evaluation)",
           "formats without a model (BMFF, TIFF, SVG, MP3, FLAC, JPEG XL) are covered by the oracle run on fixtures only: partial",
           "independent python counters of embedded manifests (vlib/props/_containers.py)"]
ASSUMPTIONS = ["admissible stores: non-empty; JPEG: at least 21 bytes with bytes 16..20 = 'c2pa' (the JUMBF description UUID); "
               "JPEG XL: the full 38-byte C2PA superbox header with LBox = length",
               "admissible assets: parse successfully; PNG/GIF: at most one existing C2PA chunk/block; JPEG: ends in SOS with scan data, "
               "no foreign APP11 segment longer than 16 bytes that is shorter than 28 bytes, or that uses box instance 0x0211 with a packet sequence number above 1; RIFF: no nested chunk with id RIFF",
               "64-bit usize; debug-profile harness"]


def facts(ctx):
    K.facts(ctx)


# ------------------------------------------------------------------ generation

FIVE = ["c2pa", "png", "jpeg", "gif", "riff"]


def tiny(fam, k):
    lst = K.TINY[fam]
    fmt, name, mk = lst[k % len(lst)]
    return fmt, name, mk()


def gen_cases(ctx):
    rng = ctx.rng
    cases = []
    quick = ctx.quick()
    # A. every store length 28..300, every modelled format, rotating through the asset variants
    for fam in FIVE:
        for n in range(28, 301):
            if quick and n % (2 if fam == "jpeg" else 3) and not (252 <= n <= 258) and n > 40:
                continue                          # quick: every 2nd (JPEG) / 3rd length, all lengths 28..40 and around 255
            fmt, name, a = tiny(fam, n)
            cases.append({"fmt": fmt, "name": name, "asset": {"hex": a.hex()}, "ops": [{"op": "w", "s": {"gen": [n, n % 7]}}], "grp": "len"})
    # short / inadmissible stores (the header rule for JPEG): correspondence, oracle classifies
    for fam in FIVE:
        for n in (1, 2, 8, 16, 20, 21, 27):
            fmt, name, a = tiny(fam, 0)
            cases.append({"fmt": fmt, "name": name, "asset": {"hex": a.hex()}, "ops": [{"op": "w", "s": {"gen": [n, 1]}}], "grp": "short"})
        fmt, name, a = tiny(fam, 0)
        cases.append({"fmt": fmt, "name": name, "asset": {"hex": a.hex()}, "ops": [{"op": "w", "s": {"hex": bytes(range(40)).hex()}}], "grp": "short"})
    # B. boundary lengths
    M = ctx.facts["MAX_JPEG_MARKER_SIZE"] if getattr(ctx, "facts", None) else 64000
    jb = [k * M + d for k in (1, 2, 3) for d in (-2, -1, 0, 1, 2)]
    if quick:
        jb = [M, M + 1, 2 * M + 1]
    for n in jb:
        fmt, name, a = tiny("jpeg", n)
        cases.append({"fmt": fmt, "name": name, "asset": {"hex": a.hex()},
                      "ops": [{"op": "w", "s": {"gen": [n, 3]}}] + ([{"op": "w", "s": {"gen": [100, 1]}}, {"op": "rm"}] if n % 2 else []), "grp": "boundary"})
    for fam in FIVE:
        if quick and fam not in ("png", "gif"):
            continue
        for n in ([65535 + FIVE.index(fam) % 2] if quick else [65534, 65535, 65536, 65537, 65538, 200000]):
            fmt, name, a = tiny(fam, n)
            cases.append({"fmt": fmt, "name": name, "asset": {"hex": a.hex()}, "ops": [{"op": "w", "s": {"gen": [n, 2]}}], "grp": "boundary"})
    for n in (509, 510, 511, 764, 765, 766):
        fmt, name, a = tiny("gif", n)
        cases.append({"fmt": fmt, "name": name, "asset": {"hex": a.hex()}, "ops": [{"op": "w", "s": {"gen": [n, 2]}}], "grp": "boundary"})
    # C. operation sequences of length 1..4 over all variants
    nseq = 150 if quick else 2500
    for i in range(nseq):
        fam = FIVE[i % 5]
        fmt, name, a = tiny(fam, rng.randrange(100))
        ops = []
        for _ in range(rng.randrange(1, 5)):
            if rng.random() < 0.65:
                ops.append({"op": "w", "s": {"gen": [rng.choice([28, 29, 40, 41, 100, 255, 256, 300, rng.randrange(28, 400)]), rng.randrange(9)]}})
            else:
                ops.append({"op": "rm"})
        cases.append({"fmt": fmt, "name": name, "asset": {"hex": a.hex()}, "ops": ops, "grp": "seq"})
    # exhaustive: all sequences of length <= 3 over {w b1, w b2, rm} on one asset per format
    alpha = [{"op": "w", "s": {"gen": [64, 1]}}, {"op": "w", "s": {"gen": [33, 2]}}, {"op": "rm"}]
    seqs = [[x] for x in alpha] + [[x, y] for x in alpha for y in alpha] + [[x, y, z] for x in alpha for y in alpha for z in alpha]
    for fam in FIVE:
        for k, s in enumerate(seqs):
            if quick and k % 3:
                continue
            fmt, name, a = tiny(fam, 1 if fam != "c2pa" else 0)
            cases.append({"fmt": fmt, "name": name, "asset": {"hex": a.hex()}, "ops": json.loads(json.dumps(s)), "grp": "exh"})
    # other RIFF format strings (the handler behaves differently for the literal "avi"/"video/avi")
    for fmt in ("video/msvideo", "video/x-msvideo", "video/avi", "image/webp", "audio/wav"):
        a = K.build_riff(variant="avi_avix" if "video" in fmt else "wav")
        cases.append({"fmt": fmt, "name": "mime", "asset": {"hex": a.hex()},
                      "ops": [{"op": "w", "s": {"gen": [51, 1]}}, {"op": "w", "s": {"gen": [50, 2]}}], "grp": "seq"})
    # D. fixtures, all writable formats (oracle only); SVG/others get the base64-padding lengths 3k, 3k+1, 3k+2
    for fmt, fn in K.fixtures():
        big = os.path.getsize(os.path.join(K.FIX, fn)) > 1500000
        lens = [40, 41, 42] if quick else [38, 39, 40, 41, 42, 43, 255, 256, 300, 4096]
        if big and quick:
            lens = [41]
        ops = []
        for n in lens:
            ops.append({"op": "w", "s": {"gen": [n, n % 5]}})
        ops += [{"op": "rm"}, {"op": "w", "s": {"gen": [100, 1]}}, {"op": "w", "s": {"gen": [64 if quick else 70001, 2]}}, {"op": "rm"}]
        cases.append({"fmt": fmt, "name": fn, "asset": {"fixture": fn}, "ops": ops, "grp": "fixture"})
    return cases


def corpus():
    p = os.path.join(common.VERIF, "corpus", "C07.jsonl")
    if not os.path.exists(p):
        return []
    return [json.loads(l) for l in open(p) if l.strip()]


# ------------------------------------------------------------------ oracle: the property text on the implementation alone

def count_manifests(fam, data):
    ex = K.EXTRACTORS.get(fam)
    if ex is None or data is None:
        return None
    try:
        return ex(data)["manifests"]
    except K.Unparsable:
        return "unparsable"
    except Exception:
        return None


def oracle(ctx, c, r, stats):
    fam = K.family(c["fmt"])
    if r.get("r") in ("panic", "crash"):
        ctx.report_violation(c, f"implementation panicked: {r.get('msg')}", {"cls": "panic", "fam": fam})
        return
    last_written = None
    prev_read = r["init"]["read"]
    for k, (o, s) in enumerate(zip(c["ops"], r["steps"])):
        had, prev_read = (prev_read["r"] == "ok"), s["read"]
        mi = {"fam": fam, "fmt": c["fmt"], "op": o["op"], "step": k, "name": c.get("name")}
        if o["op"] == "w":
            b = K.store_bytes(o["s"])
            if not K.admissible(fam, b):
                stats["unspecified"] += 1            # outside the admissible store set: correspondence only
                if s["r"] == "ok":
                    last_written = None
                continue
            if s["r"] != "ok":
                stats["write_refused"] += 1          # the property text does not promise that a write succeeds
                continue
            stats["writes"] += 1
            rd = s["read"]
            if rd["r"] != "ok":
                ctx.report_violation(c, f"step {k}: read after write of {len(b)} bytes failed: {rd.get('kind')}", dict(mi, cls="read-after-write"))
            elif rd["len"] != len(b) or int(rd["h"]) != K.poly_hash(b):
                ctx.report_violation(c, f"step {k}: read after write returned {rd['len']} bytes, not the {len(b)} bytes written", dict(mi, cls="read-after-write"))
            n = count_manifests(fam, K.step_bytes(s))
            if n == "unparsable":
                ctx.report_violation(c, f"step {k}: written asset is not a well-formed {fam} file", dict(mi, cls="unparsable"))
            elif n is not None:
                stats["counted"] += 1
                if n != 1:
                    ctx.report_violation(c, f"step {k}: {n} manifest stores present after write (expected exactly one)", dict(mi, cls="count"))
            last_written = b
        else:
            if s["r"] != "ok":
                stats["remove_refused"] += 1
                continue
            stats["removes"] += 1
            rd = s["read"]
            if rd["r"] == "ok":
                ctx.report_violation(c, f"step {k}: a manifest of {rd['len']} bytes is still read after remove", dict(mi, cls="remove-keeps", had=had))
            elif rd["kind"] != "JumbfNotFound":
                ctx.report_violation(c, f"step {k}: asset no longer accepted after remove: {rd['kind']}", dict(mi, cls="remove-breaks"))
            n = count_manifests(fam, K.step_bytes(s))
            if n == "unparsable" and fam != "c2pa":
                ctx.report_violation(c, f"step {k}: asset is not a well-formed {fam} file after remove", dict(mi, cls="unparsable"))
            elif isinstance(n, int) and n != 0 and rd["r"] != "ok":
                ctx.report_violation(c, f"step {k}: {n} manifest stores still present after remove", dict(mi, cls="count"))
            last_written = None


def run(ctx):
    if not getattr(ctx, "no_build", False):
        common.build_harness()
    if not getattr(ctx, "facts", None):
        try:
            K.facts(ctx)
        except common.TieBroken:
            ctx.facts = None
    if ctx.replay:
        cases = [ctx.replay["case"]] if "case" in ctx.replay else [d["case"] for d in ctx.replay.get("disagreements", [])]
    else:
        cases = corpus() + gen_cases(ctx)
    impl, nmodel = K.execute(ctx, "C07", cases)
    stats = {"writes": 0, "removes": 0, "unspecified": 0, "write_refused": 0, "remove_refused": 0, "counted": 0,
             "by_family": {}, "store_len": {}, "ops_len": {}, "groups": {}}
    distinct = set()
    for c in cases:
        r = impl[c["id"]]
        fam = K.family(c["fmt"])
        stats["by_family"][fam] = stats["by_family"].get(fam, 0) + 1
        stats["ops_len"][str(len(c["ops"]))] = stats["ops_len"].get(str(len(c["ops"])), 0) + 1
        stats["groups"][c.get("grp", "corpus")] = stats["groups"].get(c.get("grp", "corpus"), 0) + 1
        for o in c["ops"]:
            if o["op"] == "w":
                n = o["s"]["gen"][0] if "gen" in o["s"] else len(o["s"]["hex"]) // 2
                stats["store_len"][K.len_bucket(n)] = stats["store_len"].get(K.len_bucket(n), 0) + 1
        distinct.add((c["fmt"], c.get("name"), json.dumps(c["ops"], sort_keys=True)))
        oracle(ctx, c, r, stats)
    ctx.coverage.update({
        "evaluations": len(cases), "distinct_nontrivial": len(distinct),
        "rule": "corpus + every store length 28..300 per modelled format over rotating tiny assets (fresh / existing manifest / XMP / extra "
                "segments) + boundary lengths (k*64000+-2, 2^16+-2, 255k+-1, 200000) + random and exhaustive (<=3) write/remove sequences "
                "+ fixtures of every writable format; non-trivial = at least one operation; distinct by (format, asset, operations)",
        "distribution": stats,
        "model_compared": nmodel,
        "level_by_format": {"c2pa": "full", "png": "full", "jpeg": "full (bytes: parser inverts encoder on well-formed segment lists)",
                            "gif": "full (segment level; byte decoder by correspondence)",
                            "riff": "full (segment level; byte decoder by correspondence)",
                            "bmff": "partial: oracle on fixtures only", "tiff": "partial: oracle on fixtures only",
                            "svg": "partial: oracle on fixtures only", "mp3": "partial: oracle on fixtures only",
                            "flac": "partial: oracle on fixtures only", "jxl": "partial: oracle on fixtures only"},
        "samples": [K.sample(c) for c in cases[:2] + cases[len(cases) // 2: len(cases) // 2 + 2]],
    })


def search(ctx):
    """tie broken and nothing found: more sequences, oracle only"""
    common.build_harness()
    saved = ctx.tier
    ctx.tier = "thorough"
    cases = gen_cases(ctx)
    ctx.tier = saved
    impl, _ = K.execute(ctx, "C07", cases, with_model=False)
    stats = {"writes": 0, "removes": 0, "unspecified": 0, "write_refused": 0, "remove_refused": 0, "counted": 0}
    for c in cases:
        oracle(ctx, c, impl[c["id"]], stats)
    ctx.coverage["search_evaluations"] = len(cases)
