"""Shared helpers for C07 / C08 / C09 (embedding round trip, same-size locality, media preservation).

* deterministic manifest-store generator (shared with coq/Model/ContRun.v :: gen_store)
* tiny asset builders for the five modelled formats (.c2pa, PNG, JPEG, GIF, RIFF) and BMFF layouts
* independent media extractors (written from the format specifications, not from the SDK code)
* Coq expression builders / result canonicalisation for the correspondence run
* source facts (coq/Generated/C07_facts.v)
"""
import base64, json, os, re, struct, zlib
from .. import common
from ..common import TieBroken, coq_bytes, coq_list

FIX = os.path.join(common.REPO, "sdk", "tests", "fixtures")
M64 = (1 << 64) - 1
PB = 33

COQ_IMPORTS = ("From C2PA Require Import Base.Bytes Model.Container Model.ContPng Model.ContJpeg Model.ContGif "
               "Model.ContRiff Model.ContRun.\nFrom Coq Require Import NArith List.\nImport ListNotations.\nOpen Scope N_scope.")

# format string -> (family, Coq tag)
MODELLED = {
    "c2pa": ("c2pa", "FC2pa"), "application/c2pa": ("c2pa", "FC2pa"),
    "png": ("png", "FPng"), "image/png": ("png", "FPng"),
    "jpg": ("jpeg", "FJpeg"), "jpeg": ("jpeg", "FJpeg"), "image/jpeg": ("jpeg", "FJpeg"),
    "gif": ("gif", "FGif"), "image/gif": ("gif", "FGif"),
    "wav": ("riff", "(FRiff false)"), "webp": ("riff", "(FRiff false)"), "audio/wav": ("riff", "(FRiff false)"),
    "image/webp": ("riff", "(FRiff false)"),
    "avi": ("riff", "(FRiff true)"), "video/avi": ("riff", "(FRiff true)"),
    "video/msvideo": ("riff", "(FRiff true)"), "video/x-msvideo": ("riff", "(FRiff true)"),
    "application/x-troff-msvideo": ("riff", "(FRiff true)"),
}
AVI_TYPES = ["avi", "video/avi", "video/msvideo", "video/x-msvideo", "application/x-troff-msvideo"]
FAMILY = {"mp4": "bmff", "heic": "bmff", "heif": "bmff", "avif": "bmff", "m4a": "bmff", "mov": "bmff",
          "tiff": "tiff", "tif": "tiff", "dng": "tiff", "svg": "svg", "mp3": "mp3", "flac": "flac", "jxl": "jxl"}


def family(fmt):
    return MODELLED[fmt][0] if fmt in MODELLED else FAMILY.get(fmt, fmt)


def poly_hash(b):
    h = 0
    for x in b:
        h = (h * PB + x + 1) & M64
    return h


# ------------------------------------------------------------------ stores

STORE_HDR = bytes.fromhex("00000000" "6a756d62" "0000001e" "6a756d64" "63327061" "00110010" "800000aa" "00389b71" "03" "6332706100")
assert len(STORE_HDR) == 38


def store(n, seed=1):
    """C2PA JUMBF superbox header (LBox = n) followed by a byte pattern; same function as gen_store in Coq"""
    body = bytes(((i * i * 7 + i * seed + seed * 13 + 5) & 0xff) for i in range(38, max(n, 38)))
    raw = (STORE_HDR + body)[:n]
    return (n.to_bytes(4, "big")[:n] + raw[4:])[:n]


def admissible(fam, b):
    """the set of store byte strings for which the property is claimed, per format (see DESIGN 6/C07)"""
    if len(b) == 0:
        return False
    if fam == "jpeg":
        return len(b) >= 21 and b[16:20] == b"c2pa"
    if fam == "jxl":
        return len(b) >= 38 and b[:38][4:] == STORE_HDR[4:] and int.from_bytes(b[:4], "big") == len(b)
    return True


# ------------------------------------------------------------------ tiny asset builders

def png_chunk(name, data, crc=None):
    c = zlib.crc32(name + data) if crc is None else crc
    return struct.pack(">I", len(data)) + name + data + struct.pack(">I", c & 0xffffffff)


PNG_SIG = bytes([137, 80, 78, 71, 13, 10, 26, 10])
XMP_MIN = b'<?xpacket begin="" id="W5M0MpCehiHzreSzNTczkc9d"?><x:xmpmeta xmlns:x="adobe:ns:meta/"></x:xmpmeta><?xpacket end="w"?>'


def build_png(rng=None, variant="plain"):
    ihdr = png_chunk(b"IHDR", struct.pack(">IIBBBBB", 1, 1, 8, 0, 0, 0, 0))
    idat = png_chunk(b"IDAT", zlib.compress(b"\x00\x00"))
    iend = png_chunk(b"IEND", b"")
    chunks = [ihdr]
    if variant in ("xmp", "rich"):
        chunks.append(png_chunk(b"iTXt", b"XML:com.adobe.xmp\0\0\0\0\0" + XMP_MIN))
    if variant in ("extra", "rich"):
        chunks.append(png_chunk(b"tEXt", b"Comment\0hello", crc=0x12345678))      # wrong CRC on purpose: opaque to the handler
        chunks.append(png_chunk(b"gAMA", struct.pack(">I", 45455)))
    if variant == "pre_cabx":            # an existing caBX chunk before IHDR
        chunks = [png_chunk(b"caBX", store(40, 9))] + chunks
    if variant == "late_cabx":           # an existing caBX chunk after IDAT
        chunks += [idat, png_chunk(b"caBX", store(45, 8))]
        return PNG_SIG + b"".join(chunks) + iend
    chunks.append(idat)
    out = PNG_SIG + b"".join(chunks) + iend
    if variant == "trailer":
        out += b"trailing bytes after IEND"
    if variant == "rand" and rng is not None:
        cs = [ihdr]
        for _ in range(rng.randrange(0, 4)):
            nm = bytes(rng.choice(b"abcdefghijklmnopqrstuvwxyzABCDEFGHIJKLMNOPQRSTUVWXYZ") for _ in range(4))
            if nm in (b"caBX", b"IEND", b"IHDR"):
                continue
            cs.append(png_chunk(nm, bytes(rng.randrange(256) for _ in range(rng.randrange(0, 20))), crc=rng.randrange(1 << 32)))
        pos = rng.randrange(0, len(cs) + 1)
        if rng.random() < 0.5:
            cs.insert(pos, png_chunk(b"caBX", store(rng.randrange(28, 60), 7)))
        out = PNG_SIG + b"".join(cs) + idat + iend + (b"xyz" if rng.random() < 0.3 else b"")
    return out


def jseg(marker, contents=None):
    if contents is None:
        return bytes([0xff, marker])
    return bytes([0xff, marker]) + struct.pack(">H", len(contents) + 2) + contents


JFIF = b"JFIF\0\x01\x01\0\0\x01\0\x01\0\0"


def jpeg_app11(box, en=b"\x02\x11", max_chunk=64000):
    """ISO 19566-5 APP11 segments carrying one JUMBF box"""
    out = []
    chunks = [box[i:i + max_chunk] for i in range(0, len(box), max_chunk)]
    for k, ch in enumerate(chunks):
        out.append(jseg(0xEB, b"JP" + en + struct.pack(">I", k + 1) + (b"" if k == 0 else box[:8]) + ch))
    return b"".join(out)


def foreign_jumbf(n=40, label=b"test"):
    """a JUMBF superbox that is not C2PA (different UUID)"""
    jumd = struct.pack(">I", 8 + 16 + 1 + len(label) + 1) + b"jumd" + bytes(range(16)) + b"\x03" + label + b"\0"
    body = jumd + bytes((i * 3) & 0xff for i in range(max(0, n - 8 - len(jumd))))
    return struct.pack(">I", 8 + len(body)) + b"jumb" + body


def build_jpeg(rng=None, variant="plain"):
    dqt = jseg(0xDB, bytes([0]) + bytes(range(1, 65)))
    sof = jseg(0xC0, bytes([8, 0, 1, 0, 1, 1, 1, 0x11, 0]))
    dht = jseg(0xC4, bytes([0] + [1] + [0] * 15 + [0]))
    sos = jseg(0xDA, bytes([1, 1, 0, 0, 63, 0])) + bytes([0x7f, 0xff, 0x00, 0xa0]) + b"\xff\xd9"
    app0 = jseg(0xE0, JFIF)
    app1 = jseg(0xE1, b"http://ns.adobe.com/xap/1.0/\0" + XMP_MIN)
    segs = {"plain": [app0, dqt, sof, dht],
            "noapp0": [dqt, sof, dht],
            "xmp": [app0, app1, dqt, sof, dht],
            "two_app0": [app0, jseg(0xE0, b"JFXX\0\x10"), app1, dqt, sof, dht],
            "com": [app0, jseg(0xFE, b"a comment"), dqt, sof, dht],
            "existing": [app0, jpeg_app11(store(60, 5)), dqt, sof, dht],
            "existing_first": [jpeg_app11(store(60, 5)), app0, dqt, sof, dht],
            "existing_late": [app0, dqt, jpeg_app11(store(70, 4)), sof, dht],
            "foreign": [app0, jpeg_app11(foreign_jumbf(50), en=b"\x00\x07"), dqt, sof, dht],
            "foreign_same_en": [app0, dqt, jpeg_app11(foreign_jumbf(50), en=b"\x02\x11"), sof, dht],
            "foreign_same_en_multi": [app0, dqt, jpeg_app11(foreign_jumbf(120), en=b"\x02\x11", max_chunk=50), sof, dht],
            "short_app11": [app0, jseg(0xEB, b"0123456789abcdefghij"), dqt, sof, dht],
            "tiny_app11": [app0, jseg(0xEB, b"0123456789"), dqt, sof, dht],
            "fill": [app0, b"\xff\xff" + dqt, b"\x00\x01" + sof, dht],
            "tem": [app0, jseg(0x01), dqt, sof, dht],
            "tem_first": [jseg(0x01), app0, dqt, sof, dht],
            "trail": [app0, dqt, sof, dht],
            }[variant]
    out = b"\xff\xd8" + b"".join(segs) + sos
    if variant == "trail":
        out += b"bytes after EOI"
    return out


def gif_subblocks(data):
    out = b""
    for i in range(0, len(data), 255):
        c = data[i:i + 255]
        out += bytes([len(c)]) + c
    return out + b"\0"


def build_gif(rng=None, variant="plain"):
    ver = b"87a" if variant in ("v87", "v87_nogct") else b"89a"
    gct = variant not in ("nogct", "v87_nogct")
    lsd = struct.pack("<HHBBB", 1, 1, (0x80 | 0) if gct else 0, 0, 0)
    pre = b"GIF" + ver + lsd + (bytes([0, 0, 0, 255, 255, 255]) if gct else b"")
    ext = []
    if variant in ("ext", "existing_mid"):
        ext.append(b"\x21\xfe" + gif_subblocks(b"a comment"))
        ext.append(b"\x21\xff\x0bNETSCAPE2.0" + gif_subblocks(b"\x01\x00\x00"))
    if variant == "xmp":
        ext.append(b"\x21\xff\x0bXMP DataXMP" + gif_subblocks(XMP_MIN + b"\x01" + bytes(range(255, -1, -1))))
    if variant == "plaintext":
        # plain text extension per GIF89a: block size 12, grid 0,0,8,8, cell 8x8, fg 1, bg 0, then text sub-blocks
        ext.append(b"\x21\x01\x0c" + struct.pack("<HHHHBBBB", 0, 0, 8, 8, 8, 8, 1, 0) + gif_subblocks(b"hi"))
    if variant in ("existing", "existing_mid"):
        ext.append(b"\x21\xff\x0bC2PA_GIF\x01\x00\x00" + gif_subblocks(store(300, 3)))
    if variant == "existing_mid":
        ext.append(b"\x21\xfe" + gif_subblocks(b"after"))
    gce = b"\x21\xf9\x04\x00\x00\x00\x00\x00"
    img = b"\x2c" + struct.pack("<HHHHB", 0, 0, 1, 1, 0) + b"\x02" + gif_subblocks(b"\x44\x01")
    tail = b"\x21\xfe" + gif_subblocks(b"late comment") if variant == "ext" else b""
    return pre + b"".join(ext) + gce + img + tail + b"\x3b"


def riff_chunk(cid, data):
    return cid + struct.pack("<I", len(data)) + data + (b"\0" if len(data) % 2 else b"")


def riff_list(cid, ty, children):
    body = ty + b"".join(children)
    return cid + struct.pack("<I", len(body)) + body


def build_riff(rng=None, variant="wav"):
    if variant == "wav":
        return riff_list(b"RIFF", b"WAVE", [riff_chunk(b"fmt ", bytes(16)), riff_chunk(b"data", bytes(range(9)))])
    if variant == "wav_list":
        return riff_list(b"RIFF", b"WAVE", [riff_chunk(b"fmt ", bytes(16)),
                                             riff_list(b"LIST", b"INFO", [riff_chunk(b"INAM", b"name"), riff_chunk(b"IART", b"art")]),
                                             riff_chunk(b"data", bytes(range(10)))])
    if variant == "wav_existing":
        return riff_list(b"RIFF", b"WAVE", [riff_chunk(b"fmt ", bytes(16)), riff_chunk(b"C2PA", store(41, 6)),
                                             riff_chunk(b"data", bytes(range(7)))])
    if variant == "wav_trailing":
        return build_riff(variant="wav") + b"junk after the RIFF chunk"
    if variant == "webp":
        return riff_list(b"RIFF", b"WEBP", [riff_chunk(b"VP8L", bytes([0x2f, 0, 0, 0, 0, 0x88, 0x88, 8]))])
    if variant == "webp_xmp":
        return riff_list(b"RIFF", b"WEBP", [riff_chunk(b"VP8X", bytes([4, 0, 0, 0, 0, 0, 0, 0, 0, 0])),
                                             riff_chunk(b"VP8L", bytes([0x2f, 0, 0, 0, 0, 0x88, 0x88, 8])),
                                             riff_chunk(b"XMP ", XMP_MIN)])
    if variant in ("avi", "avi_avix"):
        first = riff_list(b"RIFF", b"AVI ", [riff_list(b"LIST", b"hdrl", [riff_chunk(b"avih", bytes(56))]),
                                             riff_list(b"LIST", b"movi", [riff_chunk(b"00dc", bytes(range(12)))]),
                                             riff_chunk(b"idx1", bytes(16))])
        if variant == "avi":
            return first
        return first + riff_list(b"RIFF", b"AVIX", [riff_list(b"LIST", b"movi", [riff_chunk(b"00dc", bytes(range(20)))])])
    raise KeyError(variant)


def c2pa_box(manifest, purpose=b"manifest"):
    """ContentProvenanceBox as bmff_io.rs::write_c2pa_box lays it out"""
    body = bytes.fromhex("d8fec3d61b0e483c92975828877ec481") + b"\0\0\0\0" + purpose + b"\0" + struct.pack(">Q", 0) + manifest
    return struct.pack(">I", 8 + len(body)) + b"uuid" + body


def fullbox(t, payload, version=0, flags=0):
    body = bytes([version]) + flags.to_bytes(3, "big") + payload
    return struct.pack(">I", 8 + len(body)) + t + body


def box(t, payload):
    return struct.pack(">I", 8 + len(payload)) + t + payload


def build_mp4(variant="moov_first", co64=False, nchunks=3):
    """a minimal ISO BMFF file: ftyp, moov/trak/mdia/minf/stbl/{stsd,stts,stsc,stsz,stco|co64}, mdat"""
    samples = [bytes([0x10 + k]) * (8 + k) for k in range(nchunks)]
    ftyp = box(b"ftyp", b"isom" + struct.pack(">I", 512) + b"isomiso2mp41")

    def moov(offsets):
        if co64:
            tbl = fullbox(b"co64", struct.pack(">I", len(offsets)) + b"".join(struct.pack(">Q", o) for o in offsets))
        else:
            tbl = fullbox(b"stco", struct.pack(">I", len(offsets)) + b"".join(struct.pack(">I", o) for o in offsets))
        stbl = box(b"stbl", fullbox(b"stsd", struct.pack(">I", 0)) + fullbox(b"stts", struct.pack(">III", 1, len(offsets), 1))
                   + fullbox(b"stsc", struct.pack(">IIII", 1, 1, 1, 1))
                   + fullbox(b"stsz", struct.pack(">II", 0, len(samples)) + b"".join(struct.pack(">I", len(s)) for s in samples)) + tbl)
        minf = box(b"minf", fullbox(b"vmhd", bytes(8), flags=1) + stbl)
        mdia = box(b"mdia", fullbox(b"mdhd", bytes(20)) + fullbox(b"hdlr", bytes(4) + b"vide" + bytes(12) + b"v\0") + minf)
        trak = box(b"trak", fullbox(b"tkhd", bytes(80), flags=3) + mdia)
        return box(b"moov", fullbox(b"mvhd", bytes(96)) + trak)

    mlen = len(moov([0] * nchunks))
    if variant == "moov_first":
        base = len(ftyp) + mlen + 8
        offs, o = [], base
        for s in samples:
            offs.append(o)
            o += len(s)
        return ftyp + moov(offs) + box(b"mdat", b"".join(samples))
    if variant == "mdat_first":
        base = len(ftyp) + 8
        offs, o = [], base
        for s in samples:
            offs.append(o)
            o += len(s)
        return ftyp + box(b"mdat", b"".join(samples)) + moov(offs)
    raise KeyError(variant)


def bmff_c2pa_at_end(fmt_bytes, manifest):
    """take a BMFF file without manifest and append a C2PA box *after* the media data (offsets stay valid)"""
    return fmt_bytes + c2pa_box(manifest)


# ------------------------------------------------------------------ independent media extractors

class Unparsable(Exception):
    pass


def media_png(d):
    """(chunk list without caBX, bytes after IEND, number of caBX chunks)"""
    if d[:8] != PNG_SIG:
        raise Unparsable("png signature")
    off, out, n = 8, [], 0
    while True:
        if off + 12 > len(d):
            raise Unparsable("png truncated")
        ln = struct.unpack(">I", d[off:off + 4])[0]
        nm = d[off + 4:off + 8]
        if off + 12 + ln > len(d):
            raise Unparsable("png chunk overruns")
        body = d[off + 8:off + 8 + ln]
        crc = d[off + 8 + ln:off + 12 + ln]
        off += 12 + ln
        if nm == b"caBX":
            n += 1
        else:
            out.append((nm, body, crc))
        if nm == b"IEND":
            break
    return {"media": (out, d[off:]), "manifests": n}


def media_jpeg(d, keep_fill=False):
    """JPEG per ITU T.81 B.1.1: segments up to SOS, then scan data + rest as one blob.
    C2PA segments (ISO 19566-5 APP11 'JP' boxes whose JUMBF description UUID starts with 'c2pa') are removed."""
    if d[:2] != b"\xff\xd8":
        raise Unparsable("jpeg SOI")
    off, segs, fill = 2, [], 0
    tail = None
    while tail is None:
        if off >= len(d):
            raise Unparsable("jpeg truncated")
        if d[off] != 0xff:
            fill += 1
            off += 1
            continue
        while off < len(d) and d[off] == 0xff:
            off += 1
            fill += 1
        fill -= 1
        if off >= len(d):
            raise Unparsable("jpeg truncated")
        m = d[off]
        off += 1
        if m == 0xd9:
            segs.append((m, None))
            tail = d[off:]
            break
        if m == 0x01 or 0xd0 <= m <= 0xd7 or m == 0x00:
            segs.append((m, None))
            continue
        if off + 2 > len(d):
            raise Unparsable("jpeg truncated")
        ln = struct.unpack(">H", d[off:off + 2])[0]
        if ln < 2 or off + ln > len(d):
            raise Unparsable("jpeg segment length")
        body = d[off + 2:off + ln]
        off += ln
        if m == 0xda:
            segs.append((m, body))
            tail = d[off:]
        else:
            segs.append((m, body))
    # group APP11 JP boxes by En
    boxes, order = {}, []
    for i, (m, body) in enumerate(segs):
        if m == 0xeb and body is not None and len(body) >= 8 and body[:2] == b"JP":
            en = body[2:4]
            z = struct.unpack(">I", body[4:8])[0]
            boxes.setdefault(en, []).append((z, i, body))
    c2pa_idx, nman = set(), 0
    for en, parts in boxes.items():
        # split into runs starting at Z == 1
        run = []
        runs = []
        for z, i, body in parts:
            if z == 1 and run:
                runs.append(run)
                run = []
            run.append((z, i, body))
        if run:
            runs.append(run)
        for run in runs:
            first = run[0][2]
            if len(first) >= 28 and first[12:16] == b"jumb" and first[24:28] == b"c2pa":
                nman += 1
                for _, i, _ in run:
                    c2pa_idx.add(i)
    media = [s for i, s in enumerate(segs) if i not in c2pa_idx]
    return {"media": (media, tail), "manifests": nman, "fill": fill}


def media_gif(d):
    """all blocks per GIF89a; the C2PA application extension (C2PA_GIF / 01 00 00) removed"""
    if d[:3] != b"GIF" or d[3:6] not in (b"87a", b"89a") or len(d) < 13:
        raise Unparsable("gif header")
    off = 13
    packed = d[10]
    if packed & 0x80:
        off += 3 * (2 ** ((packed & 7) + 1))
    pre = d[:off]

    def subs(o):
        start = o
        while True:
            if o >= len(d):
                raise Unparsable("gif sub-blocks truncated")
            n = d[o]
            o += 1
            if n == 0:
                return d[start:o], o
            o += n
            if o > len(d):
                raise Unparsable("gif sub-block overruns")

    blocks, nman = [], 0
    while True:
        if off >= len(d):
            raise Unparsable("gif truncated")
        t = d[off]
        if t == 0x3b:
            blocks.append(("trailer", d[off:]))
            break
        if t == 0x21:
            lab = d[off + 1]
            if lab == 0xf9:
                blocks.append(("gce", d[off:off + 8]))
                off += 8
                continue
            fixed = {0xff: 12, 0x01: 13, 0xfe: 0}.get(lab)
            if fixed is None:
                raise Unparsable("gif extension label")
            hdr = d[off:off + 2 + fixed]
            sb, o2 = subs(off + 2 + fixed)
            if lab == 0xff and hdr[2:] == b"\x0bC2PA_GIF\x01\x00\x00":
                nman += 1
            else:
                blocks.append(("ext", hdr + sb))
            off = o2
            continue
        if t == 0x2c:
            p = d[off + 9]
            o = off + 10
            if p & 0x80:
                o += 3 * (2 ** ((p & 7) + 1))
            sb, o2 = subs(o + 1)
            blocks.append(("image", d[off:o2]))
            off = o2
            continue
        raise Unparsable("gif block id %d" % t)
    return {"media": (pre, blocks), "manifests": nman}


def media_riff(d):
    """top-level chunk sequence; inside the first RIFF chunk the child list without C2PA chunks
    (nested LISTs as raw bytes); the RIFF size field itself is not media"""
    if d[:4] != b"RIFF" or len(d) < 12:
        raise Unparsable("riff header")
    size = struct.unpack("<I", d[4:8])[0]
    end = min(8 + size, len(d))
    ty = d[8:12]
    off, kids, nman = 12, [], 0
    while off + 8 <= end:
        cid = d[off:off + 4]
        ln = struct.unpack("<I", d[off + 4:off + 8])[0]
        if off + 8 + ln > len(d):
            raise Unparsable("riff child overruns")
        body = d[off + 8:off + 8 + ln]
        off += 8 + ln + (ln & 1)
        if cid == b"C2PA":
            nman += 1
        else:
            kids.append((cid, body))
    rest = d[8 + size + (size & 1):] if 8 + size <= len(d) else b""
    # what follows the first RIFF chunk is media only when it is itself a sequence of RIFF chunks (AVI 'AVIX' extensions)
    extra, o = [], 0
    while o + 12 <= len(rest) and rest[o:o + 4] == b"RIFF":
        ln = struct.unpack("<I", rest[o + 4:o + 8])[0]
        if o + 8 + ln > len(rest):
            break
        extra.append(rest[o:o + 8 + ln])
        o += 8 + ln + (ln & 1)
    return {"media": (ty, kids, extra), "manifests": nman, "junk": len(rest) - sum(len(x) for x in extra)}


def bmff_boxes(d, off, end):
    while off + 8 <= end:
        sz, t = struct.unpack(">I4s", d[off:off + 8])
        hs = 8
        if sz == 1:
            sz = struct.unpack(">Q", d[off + 8:off + 16])[0]
            hs = 16
        elif sz == 0:
            sz = end - off
        if sz < hs or off + sz > end:
            raise Unparsable("bmff box size")
        yield t, off, hs, sz
        off += sz


C2PA_UUID = bytes.fromhex("d8fec3d61b0e483c92975828877ec481")


def media_bmff(d):
    """every chunk addressed through stco/co64 (with its bytes up to the next addressed offset or 64 bytes),
    every iloc extent, and the top-level box sequence without the C2PA uuid box (moov/meta payloads masked
    because they legitimately contain rewritten offsets)"""
    top, chunks, nman = [], [], 0
    offsets = []

    def walk(off, end, path):
        for t, o, hs, sz in bmff_boxes(d, off, end):
            p = path + "/" + t.decode("latin1")
            if t in (b"moov", b"trak", b"mdia", b"minf", b"stbl", b"edts", b"dinf"):
                walk(o + hs, o + sz, p)
            elif t == b"meta":
                walk(o + hs + 4, o + sz, p)
            elif t == b"stco":
                n = struct.unpack(">I", d[o + hs + 4:o + hs + 8])[0]
                for k in range(n):
                    offsets.append(("stco", struct.unpack(">I", d[o + hs + 8 + 4 * k:o + hs + 12 + 4 * k])[0]))
            elif t == b"co64":
                n = struct.unpack(">I", d[o + hs + 4:o + hs + 8])[0]
                for k in range(n):
                    offsets.append(("co64", struct.unpack(">Q", d[o + hs + 8 + 8 * k:o + hs + 16 + 8 * k])[0]))
            elif t == b"iloc":
                ver = d[o + hs]
                q = o + hs + 4
                osz, lsz = d[q] >> 4, d[q] & 15
                bsz, isz = d[q + 1] >> 4, (d[q + 1] & 15) if ver in (1, 2) else 0
                q += 2
                if ver < 2:
                    cnt = struct.unpack(">H", d[q:q + 2])[0]
                    q += 2
                else:
                    cnt = struct.unpack(">I", d[q:q + 4])[0]
                    q += 4
                for _ in range(cnt):
                    q += 2 if ver < 2 else 4
                    cm = 0
                    if ver in (1, 2):
                        cm = struct.unpack(">H", d[q:q + 2])[0] & 15
                        q += 2
                    q += 2
                    base = int.from_bytes(d[q:q + bsz], "big")
                    q += bsz
                    ec = struct.unpack(">H", d[q:q + 2])[0]
                    q += 2
                    for _e in range(ec):
                        q += isz
                        eo = int.from_bytes(d[q:q + osz], "big")
                        q += osz
                        el = int.from_bytes(d[q:q + lsz], "big")
                        q += lsz
                        if cm == 0:
                            offsets.append(("iloc", base + eo, el))

    for t, o, hs, sz in bmff_boxes(d, 0, len(d)):
        if t == b"uuid" and d[o + hs:o + hs + 16] == C2PA_UUID:
            nman += 1
            continue
        if t in (b"moov", b"meta"):
            top.append((t, sz))
            walk(o + hs + (4 if t == b"meta" else 0), o + sz, "/" + t.decode())
        else:
            top.append((t, d[o:o + sz]))
    pts = sorted(set(x[1] for x in offsets))
    for x in offsets:
        if x[0] == "iloc":
            chunks.append(("iloc", bytes(d[x[1]:x[1] + min(x[2], 4096)]), min(x[2], 4096)))
        else:
            nxt = [p for p in pts if p > x[1]]
            ln = min(64, (nxt[0] - x[1]) if nxt else 64)
            chunks.append((x[0], bytes(d[x[1]:x[1] + ln]), ln))
    return {"media": (top, chunks), "manifests": nman}


def jpeg_flags(d):
    """features of a JPEG input that put it outside the admissible set of the theorems (known finding classes)"""
    try:
        m = media_jpeg(d)
    except Exception:
        return {}
    segs = m["media"][0]
    standalone = any(body is None and mk != 0xd9 for mk, body in segs)
    clash = any(mk == 0xeb and body is not None and len(body) > 16 and body[2:4] == b"\x02\x11" for mk, body in segs)
    clash_multi = any(mk == 0xeb and body is not None and len(body) > 16 and body[2:4] == b"\x02\x11"
                      and int.from_bytes(body[4:8], "big") >= 2 for mk, body in segs)
    short = any(mk == 0xeb and body is not None and 16 < len(body) < 28 for mk, body in segs)
    return {"jpeg_standalone_marker": standalone, "jpeg_en_clash": clash, "jpeg_en_clash_multi": clash_multi, "jpeg_short_app11": short, "jpeg_fill": m["fill"] > 0}


def bmff_chunk_offsets(d):
    """all stco / co64 entries of a BMFF file, in file order"""
    out = []

    def walk(off, end):
        for t, o, hs, sz in bmff_boxes(d, off, end):
            if t in (b"moov", b"trak", b"mdia", b"minf", b"stbl"):
                walk(o + hs, o + sz)
            elif t == b"stco":
                n = struct.unpack(">I", d[o + hs + 4:o + hs + 8])[0]
                out.extend(struct.unpack(">I", d[o + hs + 8 + 4 * k:o + hs + 12 + 4 * k])[0] for k in range(n))
            elif t == b"co64":
                n = struct.unpack(">I", d[o + hs + 4:o + hs + 8])[0]
                out.extend(struct.unpack(">Q", d[o + hs + 8 + 8 * k:o + hs + 16 + 8 * k])[0] for k in range(n))
    walk(0, len(d))
    return out


EXTRACTORS = {"png": media_png, "jpeg": media_jpeg, "gif": media_gif, "riff": media_riff, "bmff": media_bmff}


def describe_media_diff(fam, a, b):
    """short human description of the first difference between two extractor results"""
    ma, mb = a["media"], b["media"]
    if fam == "bmff":
        if ma[0] != mb[0]:
            return "top-level box sequence differs: %s vs %s" % ([t for t, _ in ma[0]], [t for t, _ in mb[0]])
        for i, (x, y) in enumerate(zip(ma[1], mb[1])):
            if x != y:
                return "chunk %d (%s) addressed bytes differ: %s.. vs %s.." % (i, x[0], x[1][:8].hex(), y[1][:8].hex())
        return "number of addressed chunks differs"
    if fam == "gif" and ma[0] != mb[0]:
        return "preamble differs: %s vs %s" % (ma[0][:6], mb[0][:6])
    la, lb = (ma[1] if fam in ("gif", "riff") else ma[0]), (mb[1] if fam in ("gif", "riff") else mb[0])
    if len(la) != len(lb):
        return "segment count %d vs %d" % (len(la), len(lb))
    for i, (x, y) in enumerate(zip(la, lb)):
        if x != y:
            return "segment %d differs (%s)" % (i, str(x[0])[:12])
    return "trailer/type differs"


# ------------------------------------------------------------------ Coq side

def coq_store(spec):
    """spec: {'hex':..} or {'gen':[n,seed]}"""
    if "gen" in spec:
        return f"(gen_store {spec['gen'][0]} {spec['gen'][1]})"
    return coq_bytes(bytes.fromhex(spec["hex"]))


def store_bytes(spec):
    return store(*spec["gen"]) if "gen" in spec else bytes.fromhex(spec["hex"])


def coq_case(c):
    ops = coq_list([("W " + coq_store(o["s"])) if o["op"] == "w" else "R" for o in c["ops"]])
    return f"run0 {MODELLED[c['fmt']][1]} {coq_bytes(bytes.fromhex(c['asset']['hex']))} {ops}"


ERRNAMES = {"EInvalidAsset": "InvalidAsset", "EEmbeddingError": "EmbeddingError", "EJumbfNotFound": "JumbfNotFound",
            "ETooManyManifestStores": "TooManyManifestStores", "EIoError": "IoError", "EBadParam": "BadParam",
            "EUnsupportedType": "UnsupportedType", "EOtherError": "OtherError", "ESignature": "Signature"}
SIGNATURE_ERRS = {"PngError", "JpegError", "GifError", "RiffError"}
KINDS = {"KCai": "Cai", "KXmp": "Xmp", "KOther": "Other", "KOtherExclusion": "OtherExclusion"}


def canon_model_res(t):
    """ROk (len, hash) | RErr e  -> tuple"""
    if isinstance(t, list) and t[0] == "ROk":
        v = t[1]
        if isinstance(v, tuple):
            return ("ok", v[0], v[1])
        return ("ok", v)
    if isinstance(t, list) and t[0] == "RErr":
        return ("err", ERRNAMES.get(t[1], t[1]))
    raise ValueError(f"unexpected model term {t!r}")


def canon_model_loc(t):
    if isinstance(t, list) and t[0] == "ROk":
        return ("ok", [(a, b, KINDS[k]) for a, b, k in (t[1] if isinstance(t[1], list) else [])])
    return ("err", ERRNAMES.get(t[1], t[1]))


def canon_impl_res(v):
    if v["r"] == "ok":
        return ("ok", v["len"], int(v["h"]))
    k = v["kind"]
    return ("err", "Signature" if k in SIGNATURE_ERRS else k)


def canon_impl_loc(v):
    if v["r"] == "ok":
        return ("ok", [(a, b, k) for a, b, k in v["list"]])
    k = v["kind"]
    return ("err", "Signature" if k in SIGNATURE_ERRS else k)


def harness_case(c, prop_dump=None):
    """case for harness/src/c07.rs from an orchestrator case"""
    h = {"id": c["id"], "fmt": c["fmt"], "asset": c["asset"],
         "ops": [({"op": "w", "store": store_bytes(o["s"]).hex()} if o["op"] == "w" else {"op": "rm"}) for o in c["ops"]]}
    if prop_dump:
        h["dump"] = prop_dump
    return h


def compare_with_model(ctx, cases, impl, prop, limit=None):
    """correspondence: model (run0) vs harness, step by step; only cases with inline assets of modelled formats.
    limit: evaluate at most that many cases in the model (evenly spaced, corpus and 'must' cases first) — quick tier"""
    todo = [c for c in cases if c["fmt"] in MODELLED and "hex" in c["asset"] and not c.get("no_model")]
    if not todo:
        return 0
    if limit is not None and len(todo) > limit:
        must = [c for c in todo if c.get("grp") in (None, "corpus", "boundary", "special", "short", "exh")]
        rest = [c for c in todo if c not in must]
        k = max(0, limit - len(must))
        step = max(1, len(rest) // max(1, k))
        todo = must + rest[::step][:k]
    big = [c for c in todo if any("gen" in o.get("s", {}) and o["s"]["gen"][0] > 4000 for o in c["ops"]) or len(c["asset"]["hex"]) > 8000]
    small = [c for c in todo if c not in big]
    res = {}
    if small:
        # batches of 25 cases per Eval (one list-valued expression), 4 batches per coqc process
        batches = [small[i:i + 25] for i in range(0, len(small), 25)]
        out = common.coq_eval(prop, COQ_IMPORTS, [coq_list([coq_case(c) for c in b]) for b in batches], shard_size=4, timeout=1500)
        for b, ts in zip(batches, out):
            for c, t in zip(b, ts):
                res[c["id"]] = t
    if big:
        out = common.coq_eval(prop + "b", COQ_IMPORTS, [coq_case(c) for c in big], shard_size=2, timeout=1500)
        for c, t in zip(big, out):
            res[c["id"]] = t
    for c in todo:
        t = res[c["id"]]
        r = impl[c["id"]]
        if r.get("r") != "ok":
            ctx.disagreements.append({"case": brief(c), "impl": r.get("r"), "model": "evaluated"})
            continue
        m_read0, m_loc0, m_steps = t
        mi = [("init", canon_model_res(m_read0), canon_model_loc(m_loc0))]
        ii = [("init", canon_impl_res(r["init"]["read"]), canon_impl_loc(r["init"]["loc"]))]
        for k, (ms, s) in enumerate(zip(m_steps, r["steps"])):
            mo, mr, ml = ms
            mi.append((canon_model_res(mo), canon_model_res(mr), canon_model_loc(ml)))
            ii.append((canon_impl_res(s), canon_impl_res(s["read"]), canon_impl_loc(s["loc"])))
        if mi != ii:
            k = next(i for i, (x, y) in enumerate(zip(mi, ii)) if x != y)
            ctx.disagreements.append({"case": brief(c), "step": k - 1, "impl": ii[k], "model": mi[k]})
    return len(todo)


def brief(c):
    """a case small enough for logs/replays: long inline hex is kept (replays need it) but truncated in samples"""
    return c


def sample(c):
    d = json.loads(json.dumps(c))
    if "hex" in d.get("asset", {}) and len(d["asset"]["hex"]) > 80:
        d["asset"]["hex"] = d["asset"]["hex"][:80] + "..."
    for o in d.get("ops", []):
        if "s" in o and "hex" in o["s"] and len(o["s"]["hex"]) > 80:
            o["s"]["hex"] = o["s"]["hex"][:80] + "..."
    return d


# ------------------------------------------------------------------ assets used by the three properties

TINY = {
    "c2pa": [("c2pa", "c2pa", lambda: store(64, 2)), ("c2pa", "empty", lambda: b"")],
    "png": [("png", v, (lambda v=v: build_png(variant=v))) for v in ("plain", "xmp", "extra", "rich", "pre_cabx", "late_cabx", "trailer")],
    "jpeg": [("jpg", v, (lambda v=v: build_jpeg(variant=v))) for v in
             ("plain", "noapp0", "xmp", "two_app0", "com", "existing", "existing_first", "existing_late", "foreign", "tiny_app11", "trail")],
    "gif": [("gif", v, (lambda v=v: build_gif(variant=v))) for v in ("plain", "nogct", "ext", "xmp", "plaintext", "existing", "existing_mid", "v87", "v87_nogct")],
    "riff": [("wav", "wav", lambda: build_riff(variant="wav")), ("wav", "wav_list", lambda: build_riff(variant="wav_list")),
             ("wav", "wav_existing", lambda: build_riff(variant="wav_existing")), ("webp", "webp", lambda: build_riff(variant="webp")),
             ("webp", "webp_xmp", lambda: build_riff(variant="webp_xmp")), ("avi", "avi", lambda: build_riff(variant="avi")),
             ("avi", "avi_avix", lambda: build_riff(variant="avi_avix")), ("video/avi", "avi_avix", lambda: build_riff(variant="avi_avix"))],
}

# fixtures: (format string, file); empty files in this sandbox are skipped at run time
FIXTURES = [("png", "sample1.png"), ("jpg", "earth_apollo17.jpg"), ("gif", "sample1.gif"), ("wav", "sample1.wav"),
            ("webp", "sample1.webp"), ("webp", "test_xmp.webp"), ("avi", "test.avi"), ("mp3", "sample1.mp3"), ("svg", "sample1.svg"),
            ("mp4", "video1.mp4"), ("mp4", "video1_no_manifest.mp4"), ("tiff", "TUSCANY.TIF"), ("c2pa", "cloud_manifest.c2pa"),
            ("jxl", "sample1.jxl"), ("flac", "sample1.flac"), ("heic", "sample1.heic"), ("avif", "sample1.avif"), ("m4a", "sample1.m4a")]


def fixtures():
    out = []
    for fmt, fn in FIXTURES:
        p = os.path.join(FIX, fn)
        if os.path.exists(p) and os.path.getsize(p) > 0:
            out.append((fmt, fn))
    return out


def load_asset(a):
    if "hex" in a:
        return bytes.fromhex(a["hex"])
    if "fixture" in a:
        return open(os.path.join(FIX, a["fixture"]), "rb").read()
    return open(a["file"], "rb").read()


def step_bytes(s):
    """output bytes of a harness step (inline hex or dump file)"""
    if "hex" in s:
        return bytes.fromhex(s["hex"])
    if "file" in s:
        return open(s["file"], "rb").read()
    return None


def dump_dir(prop):
    d = os.path.join(common.CASES, prop.lower() + "_dump")
    os.makedirs(d, exist_ok=True)
    return d


# ------------------------------------------------------------------ facts from the source

def facts(ctx):
    """constants the models depend on, re-read from the handlers on every run"""
    j = common.strip_tests(common.src("sdk/src/asset_handlers/jpeg_io.rs"))
    maxseg = common.rust_int(common.fact(r"const\s+MAX_JPEG_MARKER_SIZE\s*:\s*usize\s*=\s*([^;]+);", j, "MAX_JPEG_MARKER_SIZE").group(1).split("//")[0])
    marker = [int(x, 16) for x in re.findall(r"0x([0-9a-fA-F]{2})", common.fact(r"const\s+C2PA_MARKER\s*:\s*\[u8;\s*4\]\s*=\s*\[([^\]]+)\]", j, "C2PA_MARKER").group(1))]
    en = [int(x, 16) for x in re.findall(r"0x([0-9a-fA-F]{2})", common.fact(r"let\s+en\s*=\s*vec!\[([^\]]+)\]", j, "JPEG En").group(1))]
    ci = [int(x, 16) for x in re.findall(r"0x([0-9a-fA-F]{2})", common.fact(r"let\s+ci\s*=\s*vec!\[([^\]]+)\]", j, "JPEG CI").group(1))]
    ph = common.rust_int(common.fact(r"let\s+placeholder_len\s*=\s*([^;]+);", j, "JPEG placeholder_len").group(1))
    if "rposition(|segment| segment.marker() == APP0)" not in j:
        raise TieBroken("srcfacts: jpeg_io.rs write_cai no longer inserts after the last APP0")
    p = common.strip_tests(common.src("sdk/src/asset_handlers/png_io.rs"))
    names = {}
    for k in ("CAI_CHUNK", "IMG_HDR", "PNG_END"):
        names[k] = common.fact(r"const\s+" + k + r"\s*:\s*\[u8;\s*4\]\s*=\s*\*b\"(....)\"", p, k).group(1).encode()
    pnghdr = common.rust_int(common.fact(r"const\s+PNG_HDR_LEN\s*:\s*u64\s*=\s*([^;]+);", p, "PNG_HDR_LEN").group(1))
    g = common.strip_tests(common.src("sdk/src/asset_handlers/gif_io.rs"))
    body = common.fn_body(g, r"fn\s+new_c2pa\s*\(", "ApplicationExtension::new_c2pa")
    gid = common.fact(r'identifier:\s*\*b"([^"]{8})"', body, "GIF C2PA identifier").group(1).encode()
    gauth = [int(x, 16) for x in re.findall(r"0x([0-9a-fA-F]{2})", common.fact(r"authentication_code:\s*\[([^\]]+)\]", body, "GIF auth code").group(1))]
    gsub = common.rust_int(common.fact(r"bytes\.chunks\((\d+)\)", common.fn_body(g, r"fn\s+from_decoded_bytes\s*\(", "from_decoded_bytes"), "GIF sub-block size").group(1))
    r = common.strip_tests(common.src("sdk/src/asset_handlers/riff_io.rs"))
    rid = [int(x, 16) for x in re.findall(r"0x([0-9a-fA-F]{2})", common.fact(r"const\s+C2PA_CHUNK_ID\s*:\s*ChunkId\s*=\s*ChunkId\s*\{\s*value:\s*\[([^\]]+)\]", r, "C2PA_CHUNK_ID").group(1))]
    inj = common.fn_body(r, r"fn\s+inject_c2pa\s*<", "inject_c2pa")
    if not re.search(r"if\s+is_riff_chunk\s*&&\s*\(strip_c2pa\s*\|\|\s*!data\.is_empty\(\)\)\s*\{\s*(//[^\n]*\n\s*)*children\.retain", inj):
        raise TieBroken("srcfacts: riff_io.rs inject_c2pa no longer strips the C2PA chunk on (strip_c2pa || !data.is_empty())")
    rm = common.fn_body(r, r"fn\s+remove_cai_store_from_stream\s*\(", "RIFF remove_cai_store_from_stream")
    if not re.search(r"self\.write_cai_impl\(input_stream,\s*output_stream,\s*&\[\],\s*true\)", rm):
        raise TieBroken("srcfacts: riff_io.rs remove_cai_store_from_stream is no longer write_cai_impl(.., &[], true)")
    wi = common.fn_body(r, r"fn\s+write_cai_impl\s*\(", "RIFF write_cai_impl")
    avi_lits = re.findall(r'"([a-z/\-]+)"', common.fact(r"if\s+matches!\(\s*self\.riff_format\.as_str\(\),([^)]*)\)", wi, "AVIX copy condition").group(1))
    if sorted(avi_lits) != sorted(AVI_TYPES):
        raise TieBroken(f"srcfacts: riff_io.rs AVIX copy condition changed: {avi_lits}")
    if "z == cai_seg_cnt + 1" not in j or "if seg.len() == 2" not in j:
        raise TieBroken("srcfacts: jpeg_io.rs continuation rule (z == cai_seg_cnt + 1) or the parameterless-marker offset rule changed")
    v = ("(* generated from sdk/src/asset_handlers/{jpeg,png,gif,riff}_io.rs on every run — do not edit *)\n"
         "From Coq Require Import NArith List.\nImport ListNotations.\nOpen Scope N_scope.\n"
         f"Definition F_MAX_JPEG_MARKER_SIZE : N := {maxseg}.\n"
         f"Definition F_C2PA_MARKER : list N := {coq_bytes(bytes(marker))}.\n"
         f"Definition F_JP_EN : list N := {coq_bytes(bytes(en))}.\n"
         f"Definition F_JP_CI : list N := {coq_bytes(bytes(ci))}.\n"
         f"Definition F_JPEG_PLACEHOLDER_LEN : N := {ph}.\n"
         f"Definition F_PNG_CAI_CHUNK : list N := {coq_bytes(names['CAI_CHUNK'])}.\n"
         f"Definition F_PNG_IMG_HDR : list N := {coq_bytes(names['IMG_HDR'])}.\n"
         f"Definition F_PNG_END : list N := {coq_bytes(names['PNG_END'])}.\n"
         f"Definition F_PNG_HDR_LEN : N := {pnghdr}.\n"
         f"Definition F_GIF_C2PA_ID : list N := {coq_bytes(gid)}.\n"
         f"Definition F_GIF_C2PA_AUTH : list N := {coq_bytes(bytes(gauth))}.\n"
         f"Definition F_GIF_SUB_MAX : N := {gsub}.\n"
         f"Definition F_RIFF_C2PA_ID : list N := {coq_bytes(bytes(rid))}.\n")
    common.write_if_changed(os.path.join(common.COQ, "Generated", "C07_facts.v"), v)
    ctx.facts = {"MAX_JPEG_MARKER_SIZE": maxseg, "gif_sub": gsub}


def execute(ctx, prop, cases, with_model=True):
    """ids, harness run (fixture cases dump their outputs to files), correspondence with the Coq model"""
    for i, c in enumerate(cases):
        c["id"] = i
    d = dump_dir(prop)
    hc = [harness_case(c, d if ("fixture" in c["asset"] or c.get("dump")) else None) for c in cases]
    impl = common.run_harness(prop.lower(), hc, timeout=2400)
    n = compare_with_model(ctx, cases, impl, prop, limit=(200 if ctx.quick() else None)) if with_model else 0
    return impl, n


def len_bucket(n):
    return "<=64" if n <= 64 else "65-300" if n <= 300 else "301-4096" if n <= 4096 else "4097-70000" if n <= 70000 else ">70000"
