"""C09 — embedding and removing a manifest preserves the media content."""
import json, os
from .. import common
from . import _containers as K

PROP_FILE = "Properties/C09.v"
TRUSTED = ["segment-level models of .c2pa/PNG/JPEG/GIF/RIFF handlers (coq/Model/Cont*.v); dec(enc) proved for PNG and JPEG, GIF/RIFF byte decoders tied by the correspondence run",
           "independent media extractors in vlib/props/_containers.py (PNG chunk list, JPEG segment list per T.81, GIF block list, "
           "RIFF child list + following RIFF chunks, BMFF: top-level boxes and the bytes addressed through stco/co64/iloc)",
           "BMFF is covered by the oracle on generated layouts and fixtures only (no Coq model): partial; TIFF, SVG, MP3, FLAC, JPEG XL: "
           "only remove(write(a)) = remove(a) is checked (no extractor): partial"]
ASSUMPTIONS = ["media content of a JPEG excludes fill bytes (repeated FF before a marker, stray bytes between segments): the vendored "
               "img-parts parser drops them on every rewrite; they carry no image data (remark F-JPEG-FILL, not a finding)",
               "media content of a RIFF file excludes the size field of the first RIFF chunk and bytes after it that are not RIFF chunks",
               "admissible stores and assets as for C07"]

FIVE = ["png", "jpeg", "gif", "riff"]


def facts(ctx):
    K.facts(ctx)


def opsets(n0=60):
    w = lambda n, s: {"op": "w", "s": {"gen": [n, s]}}
    return [[w(n0, 1)], [w(n0, 1), w(n0 + 200, 2)], [w(n0 + 200, 1), w(n0, 2)], [w(n0, 1), w(n0, 2)], [w(n0, 1), {"op": "rm"}], [{"op": "rm"}],
            [w(700, 3), {"op": "rm"}, w(41, 4)]]


def gen_cases(ctx):
    rng = ctx.rng
    quick = ctx.quick()
    cases = []
    sets = opsets()
    for fam in FIVE:
        for fmt, name, mk in K.TINY[fam]:
            a = mk()
            for k, ops in enumerate(sets):
                cases.append({"fmt": fmt, "name": name, "asset": {"hex": a.hex()}, "ops": json.loads(json.dumps(ops)), "grp": "tiny"})
    # random PNG chunk layouts, random store sizes
    for i in range(60 if quick else 600):
        a = K.build_png(rng, "rand")
        ops = [{"op": "w", "s": {"gen": [rng.randrange(28, 600), rng.randrange(9)]}} if rng.random() < 0.7 else {"op": "rm"} for _ in range(rng.randrange(1, 4))]
        cases.append({"fmt": "png", "name": "rand", "asset": {"hex": a.hex()}, "ops": ops, "grp": "rand"})
    # special JPEG layouts (fill bytes, stand-alone marker, foreign JUMBF boxes) and RIFF format strings
    for name in ("fill", "tem", "tem_first", "foreign_same_en", "foreign_same_en_multi", "trail"):
        a = K.build_jpeg(variant=name)
        for ops in sets[:2] + sets[4:6]:
            cases.append({"fmt": "jpg", "name": name, "asset": {"hex": a.hex()}, "ops": json.loads(json.dumps(ops)), "grp": "special"})
    # manifests spanning several JPEG APP11 segments / GIF sub-blocks, then replaced by a small one or removed
    M = ctx.facts["MAX_JPEG_MARKER_SIZE"] if getattr(ctx, "facts", None) else 64000
    for fmt, a in (("jpg", K.build_jpeg(variant="xmp")), ("gif", K.build_gif(variant="ext")), ("png", K.build_png(variant="rich"))):
        for ops in ([{"op": "w", "s": {"gen": [M + 6000, 1]}}, {"op": "w", "s": {"gen": [60, 2]}}],
                    [{"op": "w", "s": {"gen": [M + 6000, 1]}}, {"op": "rm"}]):
            cases.append({"fmt": fmt, "name": "multi", "asset": {"hex": a.hex()}, "ops": ops, "grp": "boundary"})
    for fmt in ("avi", "video/avi", "video/msvideo", "video/x-msvideo", "application/x-troff-msvideo"):
        a = K.build_riff(variant="avi_avix")
        for ops in (sets[0], sets[4]):
            cases.append({"fmt": fmt, "name": "avi_avix", "asset": {"hex": a.hex()}, "ops": json.loads(json.dumps(ops)), "grp": "special"})
    a = K.build_riff(variant="wav_trailing")
    cases.append({"fmt": "wav", "name": "wav_trailing", "asset": {"hex": a.hex()}, "ops": json.loads(json.dumps(sets[0])), "grp": "special"})
    # BMFF layouts: moov before/after mdat, 32/64-bit chunk offsets, with and without an existing C2PA box, C2PA box after the media data
    for variant in ("moov_first", "mdat_first"):
        for co64 in (False, True):
            base = K.build_mp4(variant, co64=co64)
            for nm, a in ((variant, base), (variant + "+c2pa_end", K.bmff_c2pa_at_end(base, K.store(80, 3)))):
                for ops in sets[:6]:
                    cases.append({"fmt": "mp4", "name": nm + ("/co64" if co64 else "/stco"), "asset": {"hex": a.hex()},
                                  "ops": json.loads(json.dumps(ops)), "grp": "bmff", "c2pa_after_media": nm.endswith("c2pa_end")})
    # fixtures
    for fmt, fn in K.fixtures():
        big = os.path.getsize(os.path.join(K.FIX, fn)) > 1500000
        for ops in (sets[:1] + sets[4:6] if (quick or big) else sets[:6]):
            cases.append({"fmt": fmt, "name": fn, "asset": {"fixture": fn}, "ops": json.loads(json.dumps(ops)), "grp": "fixture"})
    return cases


def corpus():
    p = os.path.join(common.VERIF, "corpus", "C09.jsonl")
    if not os.path.exists(p):
        return []
    return [json.loads(l) for l in open(p) if l.strip()]


def oracle(ctx, c, r, stats, removed):
    """media(out) = media(in) after every successful operation; records remove results for the pairwise check"""
    fam = K.family(c["fmt"])
    a0 = K.load_asset(c["asset"])
    flags = K.jpeg_flags(a0) if fam == "jpeg" else {}
    base = dict(flags, fam=fam, fmt=c["fmt"], name=c.get("name"), c2pa_after_media=bool(c.get("c2pa_after_media")),
                gif87=(fam == "gif" and a0[3:6] == b"87a"),
                riff_extra_chunks=(fam == "riff" and bool(K.media_riff(a0)["media"][2])) if fam == "riff" else False,
                avi_literal=c["fmt"] in K.AVI_TYPES)
    if r.get("r") in ("panic", "crash"):
        ctx.report_violation(c, f"implementation panicked: {r.get('msg')}", dict(base, cls="panic"))
        return
    ex = K.EXTRACTORS.get(fam)
    m0 = None
    if ex is not None:
        try:
            m0 = ex(a0)
        except Exception:
            stats["input_unparsable"] += 1
    wrote = False
    prev = a0
    for k, (o, s) in enumerate(zip(c["ops"], r["steps"])):
        if s["r"] != "ok":
            stats["refused"] += 1
            continue
        if fam == "bmff" and c.get("grp") == "bmff":
            # correspondence with Model/BmffOffsets.v: every chunk-offset entry moves by the size change of the C2PA box
            cur = K.step_bytes(s)
            try:
                e0, e1 = K.bmff_chunk_offsets(prev), K.bmff_chunk_offsets(cur)
                want = [e + len(cur) - len(prev) for e in e0]
                stats["bmff_shift_checked"] = stats.get("bmff_shift_checked", 0) + 1
                if e1 != want:
                    ctx.disagreements.append({"case": c, "step": k, "impl": e1[:6], "model": want[:6], "what": "uniform offset shift"})
            except Exception:
                pass
            prev = cur
        if o["op"] == "w" and not K.admissible(fam, K.store_bytes(o["s"])):
            return
        out = K.step_bytes(s)
        mi = dict(base, op=o["op"], step=k)
        if m0 is not None:
            stats["extracted"] += 1
            try:
                m = ex(out)
            except K.Unparsable as e:
                ctx.report_violation(c, f"step {k}: output is not a well-formed {fam} file: {e}", dict(mi, cls="unparsable"))
                return
            if m["media"] != m0["media"]:
                ctx.report_violation(c, f"step {k} ({o['op']}): media content changed: {K.describe_media_diff(fam, m0, m)}", dict(mi, cls="media"))
                return
        # remove after at least one write vs remove of the original
        if o["op"] == "rm":
            key = (c["fmt"], c.get("name"), K.poly_hash(a0[:4096]), len(a0))
            if k == 0 and len(c["ops"]) == 1:
                removed.setdefault(key, {})["orig"] = (s["len"], s["h"])
            elif wrote and k == len(c["ops"]) - 1 and all(x["op"] == "w" for x in c["ops"][:k]):
                removed.setdefault(key, {}).setdefault("after", []).append((s["len"], s["h"], c, mi))
        if o["op"] == "w":
            wrote = True


def run(ctx):
    if not getattr(ctx, "no_build", False):
        common.build_harness()
    if not getattr(ctx, "facts", None):
        try:
            K.facts(ctx)
        except common.TieBroken:
            ctx.facts = None
    if ctx.replay:
        cases = [ctx.replay["case"]] if "case" in ctx.replay else [d["case"] for d in ctx.replay.get("disagreements", [])]
        if "pair" in ctx.replay.get("case", {}):
            cases.append(dict(ctx.replay["case"], ops=[{"op": "rm"}]))
    else:
        cases = corpus() + gen_cases(ctx)
    impl, nmodel = K.execute(ctx, "C09", cases)
    stats = {"extracted": 0, "refused": 0, "input_unparsable": 0, "remove_pairs": 0, "by_family": {}, "groups": {}}
    distinct = set()
    removed = {}
    for c in cases:
        fam = K.family(c["fmt"])
        stats["by_family"][fam] = stats["by_family"].get(fam, 0) + 1
        stats["groups"][c.get("grp", "corpus")] = stats["groups"].get(c.get("grp", "corpus"), 0) + 1
        distinct.add((c["fmt"], c.get("name"), json.dumps(c["ops"], sort_keys=True)))
        oracle(ctx, c, impl[c["id"]], stats, removed)
    # remove (write a b) = remove a, byte for byte
    for key, v in removed.items():
        if "orig" not in v:
            continue
        for ln, h, c, mi in v.get("after", []):
            stats["remove_pairs"] += 1
            if (ln, h) != v["orig"]:
                cc = dict(c, pair="compared with the single operation [rm] on the same asset")
                ctx.report_violation(cc, f"remove(write(a,b)) is {ln} bytes (hash {h}), remove(a) is {v['orig'][0]} bytes (hash {v['orig'][1]})",
                                     dict(mi, cls="remove-write"))
    ctx.coverage.update({
        "evaluations": len(cases), "distinct_nontrivial": len(distinct),
        "rule": "corpus + every tiny asset variant of PNG/JPEG/GIF/RIFF x {write, grow, shrink, equal, write+remove, remove, write/remove/write} "
                "+ random PNG chunk layouts + special JPEG/RIFF layouts + generated BMFF layouts (moov before/after mdat, stco/co64, C2PA box "
                "before/after the media data) + fixtures of every writable format; non-trivial = at least one operation; distinct by (format, asset, operations)",
        "distribution": stats,
        "model_compared": nmodel,
        "level_by_format": {"png": "full", "jpeg": "full (bytes)", "gif": "full (segment level; GIF87a header upgrade is F-GIF-87A)",
                            "riff": "full for the first RIFF chunk (segment level); extra RIFF/AVIX chunks by extractor",
                            "bmff": "partial: oracle only (F-BMFF)", "tiff": "partial: remove(write)=remove only", "svg": "partial: remove(write)=remove only",
                            "mp3": "partial: remove(write)=remove only", "flac": "partial: remove(write)=remove only", "jxl": "partial: remove(write)=remove only"},
        "samples": [K.sample(c) for c in cases[:2] + cases[len(cases) // 2: len(cases) // 2 + 2]],
    })


def search(ctx):
    common.build_harness()
    saved = ctx.tier
    ctx.tier = "thorough"
    cases = gen_cases(ctx)
    ctx.tier = saved
    impl, _ = K.execute(ctx, "C09", cases, with_model=False)
    stats = {"extracted": 0, "refused": 0, "input_unparsable": 0, "remove_pairs": 0}
    removed = {}
    for c in cases:
        oracle(ctx, c, impl[c["id"]], stats, removed)
    ctx.coverage["search_evaluations"] = len(cases)
