"""C37 — revocation evidence is bound to the signing certificate."""
import hashlib, json, os, re, time
from .. import common
from ..common import TieBroken
from . import _tsocsp as P
from . import c36 as T

PROP_FILE = "Properties/C37.v"
TRUSTED = ["ASN.1/OCSP decoding, SHA-1/SHA-256 of the certId, the responder signature check and certificate path building are "
           "oracles of the model (Section variables of Model/Ocsp.v); the correspondence run feeds the model the generator's ground "
           "truth about them",
           "openssl 3.5 CLI (`openssl ocsp` responder, dgst, x509) and the python DER builder of crafted responses (vlib/props/_tsocsp.py)",
           "harness: scripted signer (Signer::ocsp_val), mock OCSP responder behind Context::with_resolver for the asserted and fetch "
           "routes; add-only hook cose_sign::verif_cose_sign_unchecked (shared with C05/C06)"]
ASSUMPTIONS = ["system clock between 2026-01-01 and 2029-12-31", "debug-profile harness"]

OC = {"signingCredential.ocsp.revoked": "OcRevoked", "signingCredential.ocsp.notRevoked": "OcNotRevoked",
      "signingCredential.ocsp.unknown": "OcUnknown", "signingCredential.ocsp.inaccessible": "OcInaccessible"}


def facts(ctx):
    T.facts(ctx)          # Model/Ocsp.v reuses the EKU gate of Model/Timestamp.v (Generated/C36_facts.v)
    o = common.strip_tests(common.src("sdk/src/crypto/ocsp/mod.rs"))
    body = common.fn_body(o, r"pub\(crate\) fn from_der_checked\s*\(", "from_der_checked")
    seq = re.findall(r"validation_codes::SIGNING_CREDENTIAL_([A-Z_]+)\)", body)
    want = ["REVOKED", "NOT_REVOKED", "REVOKED", "REVOKED", "REVOKED", "OCSP_UNKNOWN"]
    if seq != want:
        raise TieBroken(f"srcfacts: status constants of from_der_checked changed: {seq}")
    m = common.fact(r"response_data\.produced_at\.to_utc\(\)\.timestamp\(\)\s*\+\s*\(([\d\s*]+)\)", body, "grace period without nextUpdate")
    grace = common.rust_int(m.group(1))
    for must, what in ((r"if !cert_id_matches_signer\(&single_response\.cert_id, signing_cert_chain\)\s*\{\s*continue;", "certId binding"),
                       (r"st\.timestamp\(\) < this_update\s*\|\|\s*\(st\.timestamp\(\) >= this_update && st\.timestamp\(\) <= next_update\)", "good: range with a signing time"),
                       (r"now >= this_update", "good: range without a signing time"),
                       (r"reason == CrlReason::RemoveFromCRL", "removeFromCRL branch"),
                       (r"revoked_at > st\.timestamp\(\)", "removeFromCRL: before revocation"),
                       (r"st\.timestamp\(\) < utc_with_offset\.timestamp\(\)", "revoked with reason: signed before revocation"),
                       (r"validate_ocsp_sig\(&sig_alg, &hash_alg, &sig_val, &tbs, &signing_key_der\)\.is_ok\(\)", "responder signature check"),
                       (r"output\.revoked_at = None;\s*return Ok\(output\);", "quiet return for a later revocation"),
                       (r"validation_log\.append\(&internal_validation_log\);\s*Ok\(output\)", "internal log appended at the end only")):
        if not re.search(must, body, re.S):
            raise TieBroken(f"srcfacts: from_der_checked no longer contains: {what}")
    mb = common.fn_body(o, r"fn cert_id_matches_signer\s*\(", "cert_id_matches_signer")
    for must in (r"cert_id\.serial_number != subject\.tbs_certificate\.serial_number", r"cert_id\.issuer_name_hash\.as_ref\(\) == expected_name_hash\.as_slice\(\)\s*&&\s*cert_id\.issuer_key_hash\.as_ref\(\) == expected_key_hash\.as_slice\(\)",
                 r"signing_cert_chain\.first\(\), signing_cert_chain\.get\(1\)"):
        if not re.search(must, mb, re.S):
            raise TieBroken("srcfacts: cert_id_matches_signer changed")
    hb = common.fn_body(o, r"fn hash_by_oid\s*\(", "hash_by_oid")
    algs = re.findall(r'"([\d.]+)"\s*=>\s*Some', hb)
    if algs != ["1.3.14.3.2.26", "2.16.840.1.101.3.4.2.1"]:
        raise TieBroken(f"srcfacts: certId hash algorithms changed: {algs}")
    c = common.strip_tests(common.src("sdk/src/crypto/cose/ocsp.rs"))
    cb = common.fn_body(c, r"pub fn check_ocsp_status\s*\(", "check_ocsp_status")
    shape = [r"certificate_status_should_override\s*\.unwrap_or\(false\)", r"if let Some\(ocsp_response_der\) = get_ocsp_der\(sign1\)", r"ocsp_log\.has_status\(validation_status::SIGNING_CREDENTIAL_REVOKED\)",
             r"CertificateTrustError::CertificateNotTrusted", r"ocsp_log\.has_status\(validation_status::SIGNING_CREDENTIAL_NOT_REVOKED\)",
             r"errors mean we don't interpret the value: fall through", r"OcspFetchPolicy::FetchAllowed =>", r"OcspFetchPolicy::DoNotFetch =>"]
    pos = -1
    for s in shape:
        mm = re.compile(s).search(cb, pos + 1)
        if not mm:
            raise TieBroken(f"srcfacts: check_ocsp_status no longer has the expected branch order at {s!r}")
        pos = mm.start()
    sb = common.fn_body(c, r"fn check_stapled_ocsp_response\s*\(", "check_stapled_ocsp_response")
    for must, what in ((r"new_ctp\.clear_ekus\(\);\s*new_ctp\.add_valid_ekus\(OCSP_OID_STR\.as_bytes\(\)\)", "responder EKU restriction"),
                       (r"if !has_ocsp_signing_eku\(first_cert\) \{\s*return Ok\(OcspResponse::default\(\)\);", "explicit id-kp-OCSPSigning requirement (fix b2c9a9e81)"),
                       (r"OcspResponse::from_der_checked\(\s*ocsp_response_der,\s*&signing_cert_chain,\s*signing_time,", "binding to the signer's chain"),
                       (r"extend_ocsp_cert_chain\(ocsp_certs, &signing_cert_chain\)", "responder path completion"),
                       (r"validation_log\.append\(&current_validation_log\);\s*Ok\(ocsp_data\)", "log appended for usable responses only")):
        if not re.search(must, sb, re.S):
            raise TieBroken(f"srcfacts: check_stapled_ocsp_response no longer contains: {what}")
    cl = common.src("sdk/src/claim.rs")
    if not re.search(r"let fetch_policy = if context\.settings\(\)\.verify\.ocsp_fetch \{\s*OcspFetchPolicy::FetchAllowed\s*\} else \{\s*OcspFetchPolicy::DoNotFetch", cl):
        raise TieBroken("srcfacts: claim.rs check_ocsp_status fetch policy changed")
    vb = common.fn_body(cl, r"pub\(crate\) fn verify_claim\s*\(", "verify_claim")
    if not re.search(r"check_ocsp_status\(\s*&sign1,\s*data,\s*ctp,\s*svi\.certificate_statuses\.get\(&certificate_serial_num\),\s*svi\.timestamps\.get\(claim\.label\(\)\),\s*validation_log,\s*context,\s*\)\?;", vb):
        raise TieBroken("srcfacts: verify_claim no longer aborts on check_ocsp_status errors")
    sr = common.src("sdk/src/store.rs")
    if not re.search(r"for ocsp_der in certificate_status_assertion\.as_ref\(\) \{\s*for candidate in svi\.manifest_map\.values\(\) \{\s*let signing_cert_chain = candidate\s*\.cose_sign1\(\)"
                     r".*?OcspResponse::from_der_checked\(\s*ocsp_der,\s*&signing_cert_chain,\s*None,\s*&mut bind_log,\s*\) \{\s*if !response\.certificate_serial_num\.is_empty\(\)", sr, re.S):
        raise TieBroken("srcfacts: store.rs binding of certificate-status assertions changed (expected: bound to the manifest the response names)")
    out = ("(* generated from sdk/src/crypto/ocsp/mod.rs, cose/ocsp.rs on every run — do not edit *)\n"
           "From Coq Require Import ZArith.\n"
           f"Definition NO_NEXT_UPDATE_GRACE : Z := {grace}%Z.\n"
           "(* store.rs binds a certificate-status assertion to the chain of the manifest whose signer it names (fix 0aa703aa5) *)\n"
           "Definition ASSERTION_BOUND_TO_CARRIER : bool := false.\n")
    common.write_if_changed(os.path.join(common.COQ, "Generated", "C37_facts.v"), out)
    ctx.facts37 = {"grace": grace}


# ------------------------------------------------------------------ recipes

IMPORTS = ("From Coq Require Import List NArith ZArith Bool.\nFrom C2PA Require Import Base.Bytes Model.Timestamp Model.Ocsp.\n"
           "Import ListNotations.\nOpen Scope Z_scope.")
DAY = 86400
RESP_KEY = {"ok": 21, "other": 22, "noeku": 23, "ca": 24, "self": 25, "old": 26}
RESP_WINDOW = {"old": (P.ep("20230101000000Z"), P.ep("20250601000000Z"))}
SIGNER_SERIAL, OTHER_SERIAL = 77, 78
_mat = {}


def material():
    if not _mat:
        _mat["signer"] = P.cred("valid", "-ocsp", aia=True)          # names an OCSP responder: usable on every route
        _mat["other"] = P.cred("valid", "-ocsp-b", aia=True)
        _mat["anchors"] = P.anchors()
        _mat["tsa"] = T.material()["tsas"]["ok"]
    return _mat


def single(about="signer", status="good", this=-100, nxt=DAY, revoked_at=-5000, reason=None):
    return {"about": about, "status": status, "this": this, "next": nxt, "revoked_at": revoked_at, "reason": reason}


def resp(singles, responder="ok", embed="responder", wrong_key=False, corrupt=None, status_code=0, mode="craft", garbage=False):
    return {"mode": mode, "singles": singles, "responder": responder, "embed": embed, "wrong_key": wrong_key, "corrupt": corrupt,
            "status_code": status_code, "garbage": garbage, "produced": -50}


def responder_arg(kind):
    if kind == "self":
        return material()["signer"]["spec"]
    return kind


def build_der(rc, now):
    """the DER of a response recipe; absolute times = now + offset (an attested signing time is absolute)"""
    m = material()
    if rc["garbage"]:
        return hashlib.sha256(json.dumps(rc, sort_keys=True).encode()).digest() * 8
    sg, ot = m["signer"]["spec"], m["other"]["spec"]
    if rc["mode"] == "openssl":
        s = rc["singles"][0]
        about = sg if s["about"] == "signer" else ot
        return P.ocsp_response(about, s["status"], responder=rc["responder"], revoked_at=None if s["status"] != "revoked" else now + s["revoked_at"],
                               reason=s["reason"], ndays=max(1, (s["next"] or DAY) // DAY), cache=False)
    ss = []
    for s in rc["singles"]:
        if s["about"] == "signer":
            cid = P.cert_id(sg, P.INTER)
        elif s["about"] == "signer_sha256":
            cid = P.cert_id(sg, P.INTER, "sha256")
        elif s["about"] == "signer_wrong_issuer":
            cid = P.cert_id(sg, P.INTER2)                 # the signer's serial under another issuer
        elif s["about"] == "signer_wrong_key":
            cid = P.cert_id(sg, P.INTER, key_issuer=P.INTER2)      # right serial and issuer name, another issuer key
        else:
            cid = P.cert_id(ot, P.INTER)
        ss.append(P.single_response(cid, s["status"], now + s["this"], None if s["next"] is None else now + s["next"],
                                    None if s["status"] != "revoked" else now + s["revoked_at"], s["reason"]))
    return P.craft_ocsp(ss, responder=responder_arg(rc["responder"]), produced_at=now + rc["produced"], embed=rc["embed"],
                        wrong_key=rc["wrong_key"], corrupt=rc["corrupt"], status=rc["status_code"])


def mk_case(name, route="stapled", ocsp=None, token=None, override=None, serve=None, cred2="same", ocsp2=None, build_override=True):
    return {"name": name, "route": route, "ocsp": ocsp, "token": token, "override": override, "serve": serve, "cred2": cred2, "ocsp2": ocsp2,
            "build_override": build_override}


def to_harness(c, now):
    m = material()
    sg = m["signer"]
    h = {"id": c["id"], "cred": {"chain": sg["chain"], "key": sg["key"], "alg": sg["alg"]}, "anchors": m["anchors"], "claim_v": 2, "token": None,
         "ocsp": None if c["ocsp"] is None else build_der(c["ocsp"], now).hex()}
    if c["override"] is not None:
        h["override"] = c["override"]
    if c["token"] is not None:
        tc = T.mk_case("valid", {"tsa_kind": "ok", "gen_time": c["token"]})
        h["token"] = tc["token"]
    if c["route"] == "fetch":
        h["read_serve"] = build_der(c["serve"], now).hex()
        h["url"] = P.AIA_URL
        h["read_settings"] = {"verify": {"ocsp_fetch": True, "remote_manifest_fetch": False}}
    if c["route"] == "asserted":
        a = {"serve": build_der(c["serve"], now).hex(), "url": P.AIA_URL, "build_override": c["build_override"], "token2": None,
             "ocsp2": None if c["ocsp2"] is None else build_der(c["ocsp2"], now).hex()}
        if c["cred2"] == "other":
            o = m["other"]
            a["cred2"] = {"chain": o["chain"], "key": o["key"], "alg": o["alg"]}
        h["assert"] = a
    return h


def corpus():
    p = os.path.join(common.VERIF, "corpus", "C37.jsonl")
    if not os.path.exists(p):
        return []
    return [json.loads(l) for l in open(p) if l.strip()]


REV = lambda **kw: single(status="revoked", **kw)


def structured():
    out = [mk_case("no-response")]
    S = single
    # openssl responder: good / revoked / unknown for the signer; for another certificate; wrong responder
    for st, kw in (("good", {}), ("revoked", {"reason": "keyCompromise"}), ("revoked", {}), ("unknown", {})):
        out.append(mk_case(f"openssl-{st}-{kw.get('reason')}", ocsp=resp([S(status=st, **kw)], mode="openssl")))
        out.append(mk_case(f"openssl-other-cert-{st}", ocsp=resp([S(about="other", status=st, **kw)], mode="openssl")))
        out.append(mk_case(f"openssl-wrong-responder-{st}", ocsp=resp([S(status=st, **kw)], mode="openssl", responder="other")))
    # crafted: every way of not being validly signed / not concerning the signer, for revoked and for good
    for st in ("revoked", "good"):
        base = [S(status=st)]
        for name, kw in (("ok", {}), ("responder-other", {"responder": "other"}), ("responder-noeku", {"responder": "noeku"}),
                         ("responder-self", {"responder": "self"}), ("responder-ca", {"responder": "ca"}), ("responder-old", {"responder": "old"}),
                         ("sig-corrupt", {"corrupt": "sig"}), ("tbs-altered", {"corrupt": "tbs"}), ("wrong-key", {"wrong_key": True}),
                         ("no-certs", {"embed": "none"}), ("with-ca", {"embed": "responder+ca"}), ("status-tryLater", {"status_code": 3}),
                         ("garbage", {"garbage": True})):
            out.append(mk_case(f"craft-{st}-{name}", ocsp=resp(base, **kw)))
        for about in ("other", "signer_wrong_issuer", "signer_wrong_key", "signer_sha256"):
            out.append(mk_case(f"craft-{st}-about-{about}", ocsp=resp([S(about=about, status=st)])))
    # several single responses
    # the signer's entry first, another certificate's afterwards (a responder answering a multi-certificate request)
    out.append(mk_case("signer-revoked+other-good", ocsp=resp([REV(), S(about="other")])))
    out.append(mk_case("signer-revoked-keyCompromise+other-good", ocsp=resp([REV(reason="keyCompromise"), S(about="other")])))
    out.append(mk_case("signer-revoked+other-good+other-good", ocsp=resp([REV(), S(about="other"), S(about="signer_wrong_issuer")])))
    out.append(mk_case("signer-unknown+other-good", ocsp=resp([S(status="unknown"), S(about="other")])))
    out.append(mk_case("signer-good-not-yet+other-good", ocsp=resp([S(this=5000), S(about="other")])))
    out.append(mk_case("signer-good+other-revoked", ocsp=resp([S(), REV(about="other")])))
    out.append(mk_case("signer-unknown+other-revoked", ocsp=resp([S(status="unknown"), REV(about="other")])))
    out.append(mk_case("openssl-style other-good+signer-revoked+other-good", ocsp=resp([S(about="other"), REV(), S(about="other")])))
    out.append(mk_case("other-good+signer-revoked", ocsp=resp([S(about="other"), REV()])))
    out.append(mk_case("other-revoked+signer-good", ocsp=resp([REV(about="other"), S()])))
    out.append(mk_case("signer-good+signer-revoked", ocsp=resp([S(), REV()])))
    out.append(mk_case("signer-revoked+signer-good", ocsp=resp([REV(), S()])))
    out.append(mk_case("signer-unknown", ocsp=resp([S(status="unknown")])))
    out.append(mk_case("signer-unknown+revoked", ocsp=resp([S(status="unknown"), REV()])))
    # time rules: expired / not yet valid good responses, no nextUpdate, reasons, revocation before / after an attested signing time
    out.append(mk_case("good-not-yet", ocsp=resp([S(this=5000)])))
    out.append(mk_case("good-expired-no-time", ocsp=resp([S(this=-30 * DAY, nxt=-20 * DAY)])))
    out.append(mk_case("good-no-next-update", ocsp=resp([S(nxt=None)])))
    for reason in ("keyCompromise", "removeFromCRL", "certificateHold", "unspecified"):
        out.append(mk_case(f"revoked-{reason}", ocsp=resp([REV(reason=reason)])))
        out.append(mk_case(f"revoked-future-{reason}", ocsp=resp([REV(reason=reason, revoked_at=5000)])))
    g = "20250601120000Z"
    off = P.ep(g) - int(time.time())          # offsets are relative to now: this is the signing time
    out.append(mk_case("tst+good-in-range", token=g, ocsp=resp([S(this=off - 100, nxt=off + DAY)])))
    out.append(mk_case("tst+good-expired-at-signing", token=g, ocsp=resp([S(this=off - 30 * DAY, nxt=off - 20 * DAY)])))
    out.append(mk_case("tst+good-issued-later", token=g, ocsp=resp([S()])))
    out.append(mk_case("tst+revoked-before-signing", token=g, ocsp=resp([REV(revoked_at=off - 5000, reason="keyCompromise")])))
    out.append(mk_case("tst+revoked-after-signing", token=g, ocsp=resp([REV(revoked_at=off + 5000, reason="keyCompromise")])))
    out.append(mk_case("tst+revoked-after-signing-noreason", token=g, ocsp=resp([REV(revoked_at=off + 5000)])))
    out.append(mk_case("tst+revoked-at-signing", token=g, ocsp=resp([REV(revoked_at=off, reason="keyCompromise")])))
    out.append(mk_case("tst+removeFromCRL-after", token=g, ocsp=resp([REV(revoked_at=off + 5000, reason="removeFromCRL")])))
    out.append(mk_case("tst+responder-old", token="20240601120000Z", ocsp=resp([REV(revoked_at=-900 * DAY)], responder="old")))
    # override setting without any asserted response
    out.append(mk_case("override-on-revoked", ocsp=resp([REV()]), override=True))
    out.append(mk_case("override-on-junk", ocsp=resp([S(about="other")]), override=True))
    # fetch route (mock responder behind the Context's resolver): what a junk staple hides
    out.append(mk_case("fetch-revoked", route="fetch", serve=resp([REV()])))
    out.append(mk_case("fetch-good", route="fetch", serve=resp([S()])))
    out.append(mk_case("fetch-revoked+junk-staple", route="fetch", serve=resp([REV()]), ocsp=resp([S(about="other")])))
    out.append(mk_case("fetch-revoked+garbage-staple", route="fetch", serve=resp([REV()]), ocsp=resp([], garbage=True)))
    out.append(mk_case("fetch-revoked+good-staple", route="fetch", serve=resp([REV()]), ocsp=resp([S()])))
    # asserted route: manifest B carries a certificate-status assertion fetched for its parent A
    out.append(mk_case("assert-same-signer-revoked", route="asserted", serve=resp([REV()])))
    out.append(mk_case("assert-same-signer-good", route="asserted", serve=resp([S()])))
    out.append(mk_case("assert-other-signer-revoked", route="asserted", serve=resp([REV()]), cred2="other"))
    out.append(mk_case("assert-same-signer-revoked+junk-staple-on-A", route="asserted", serve=resp([REV()]), ocsp=resp([S(about="other")])))
    out.append(mk_case("assert-same-signer-other-cert", route="asserted", serve=resp([REV(about="other")])))
    out.append(mk_case("assert-same-signer-wrong-responder", route="asserted", serve=resp([REV()], responder="other")))
    return out


def gen_case(rng):
    token = rng.choice([None, None, None, "20250601120000Z", "20240601120000Z"])
    base = (P.ep(token) - int(time.time())) if token else 0          # offsets are relative to now; with a token, place them around it

    def rnd_single():
        about = rng.choice(["signer", "signer", "signer", "other", "signer_wrong_issuer", "signer_wrong_key", "signer_sha256"])
        st = rng.choice(["good", "revoked", "revoked", "unknown"])
        around = base if rng.random() < 0.7 else 0
        return single(about=about, status=st, this=around + rng.choice([-100, -100, 5000, -30 * DAY]),
                      nxt=rng.choice([around + DAY, around + DAY, None, around - 20 * DAY]),
                      revoked_at=around + rng.choice([-5000, -5000, 5000, 0, -400 * DAY]),
                      reason=rng.choice([None, "keyCompromise", "removeFromCRL", "superseded"]) if st == "revoked" else None)
    rc = resp([rnd_single() for _ in range(rng.choice([1, 1, 1, 2, 3]))],
              responder=rng.choice(["ok", "ok", "ok", "other", "noeku", "self", "ca", "old"]),
              embed=rng.choice(["responder", "responder", "responder+ca", "none"]), wrong_key=rng.random() < 0.08,
              corrupt=rng.choice([None, None, None, None, "sig", "tbs"]))
    return mk_case("rnd", ocsp=rc, token=token, override=rng.choice([None, None, True, False]))


# ------------------------------------------------------------------ ground truth and the model term

def b(x):
    return "true" if x else "false"


def coq_eku(ocsp, email):
    return ("{| eku_any := false; eku_server_auth := false; eku_client_auth := false; eku_code_signing := false; "
            f"eku_email_protection := {b(email)}; eku_time_stamping := false; eku_ocsp_signing := {b(ocsp)}; "
            "eku_other_nonempty := false; eku_other_allowed := false |}")


def coq_responder(kind):
    nb, na = RESP_WINDOW.get(kind, (P.ep("20200101000000Z"), P.ep("20450101000000Z")))
    if kind == "self":
        nb, na = material()["signer"]["nb"], material()["signer"]["na"]
    eku = "None" if kind == "ca" else f"Some ({coq_eku(kind in ('ok', 'other', 'old'), kind in ('noeku', 'self'))})"
    return (f"{{| tc_key := {RESP_KEY[kind]}%N; tc_not_before := {nb}; tc_not_after := {na}; tc_v3 := true; tc_is_ca := {b(kind == 'ca')}; "
            f"tc_eku := {eku}; tc_x509_ok := true |}}")


def coq_response(rc, now):
    if rc is None:
        return "None"
    if rc["garbage"] or rc["status_code"] != 0:
        return ("(Some {| rp_decodes := false; rp_certs := None; rp_sig_alg_ok := true; rp_tbs := []; rp_signature := []; "
                "rp_produced_at := 0; rp_singles := [] |})")
    key = RESP_KEY[rc["responder"]]
    ss = []
    for s in rc["singles"]:
        serial = SIGNER_SERIAL if s["about"] != "other" else OTHER_SERIAL
        alg = "IdSha256" if s["about"] == "signer_sha256" else "IdSha1"
        name, k = ("[9; 9]%N", "[9; 8]%N") if s["about"] == "signer_wrong_issuer" else (("[1; 2]%N", "[9; 8]%N") if s["about"] == "signer_wrong_key" else ("[1; 2]%N", "[3; 4]%N"))
        cid = (f"{{| ci_alg := Some {alg}; ci_name_hash := toyIH {alg} {name}; ci_key_hash := toyIH {alg} {k}; ci_serial := {serial}%N |}}")
        if s["status"] == "good":
            st = "Good"
        elif s["status"] == "unknown":
            st = "UnknownStatus"
        else:
            r = "None" if s["reason"] is None else ("Some RemoveFromCRL" if s["reason"] == "removeFromCRL" else "Some OtherReason")
            st = f"Revoked ({now + s['revoked_at']}) ({r})"
        if rc["mode"] == "openssl":
            this, nxt = now, f"Some ({now + max(1, (s['next'] or DAY) // DAY) * DAY})"
            if s["status"] == "revoked" and s["reason"] is None:
                st = f"Revoked ({now + s['revoked_at']}) None"
        else:
            this, nxt = now + s["this"], "None" if s["next"] is None else f"Some ({now + s['next']})"
        ss.append(f"{{| sr_id := {cid}; sr_status := {st}; sr_this_update := {this}; sr_next_update := {nxt} |}}")
    certs = "None" if rc["embed"] == "none" else f"Some [{coq_responder(rc['responder'])}]"
    sig = "[99; 8]%N" if rc["wrong_key"] else ("[%d; 0; 8]%%N" % key if rc["corrupt"] == "sig" else "[%d; 8]%%N" % key)
    tbs = "[9]%N" if rc["corrupt"] == "tbs" else "[8]%N"
    return (f"(Some {{| rp_decodes := true; rp_certs := {certs}; rp_sig_alg_ok := true; rp_tbs := {tbs}; rp_signature := {sig}; "
            f"rp_produced_at := {now + rc['produced']}; rp_singles := [{'; '.join(ss)}] |}})")


CHAIN = "(Some {| sc_serial := 77%N; sc_issuer_name := [1; 2]%N; sc_issuer_key := [3; 4]%N |})"
CHAIN_OTHER = "(Some {| sc_serial := 78%N; sc_issuer_name := [1; 2]%N; sc_issuer_key := [3; 4]%N |})"
ORACLES = "toyIH toyVerifyR (fun _ => None) (fun c _ => negb (N.eqb (tc_key c) 22))"


def unopt(x):
    return x[len("(Some "):-1] if x.startswith("(Some ") else None


def model_expr(c, now):
    st = "None" if c["token"] is None else f"(Some ({P.ep(c['token'])}))"
    cf = f"{{| cf_override := {b(c['override'] is True)}; cf_fetch := {b(c['route'] == 'fetch')} |}}"
    if c["route"] == "asserted":
        # both claims of the store: the parent A (signer 77, its own staple) and the active claim B (cred2, staple ocsp2);
        # the served response reaches a claim if it names that claim's signer (store.rs after fix 0aa703aa5)
        served = unopt(coq_response(c["serve"], now))
        rec_a, rec_b = CHAIN[len("(Some "):-1], (CHAIN if c["cred2"] == "same" else CHAIN_OTHER)[len("(Some "):-1]
        tb = 77 if c["cred2"] == "same" else 78
        cfb = "{| cf_override := false; cf_fetch := false |}"
        sup = lambda t: f"(if assertion_supplies toyIH toyVerifyR [{rec_a}; {rec_b}] r {t}%N {now} then [r] else [])"
        return (f"let r := {served} in "
                f"(check_ocsp_status {ORACLES} {cfb} {coq_response(c['ocsp'], now)} {sup(77)} None (Some {rec_a}) None {now}, "
                f"check_ocsp_status {ORACLES} {cfb} {coq_response(c['ocsp2'], now)} {sup(tb)} None (Some {rec_b}) None {now})")
    fetched = coq_response(c["serve"], now) if c["route"] == "fetch" else "None"
    return f"check_ocsp_status {ORACLES} {cf} {coq_response(c['ocsp'], now)} [] {fetched} {CHAIN} {st} {now}"


def model_view(term):
    if len(term) == 3:          # asserted route: ((parent claim), (active claim)) printed as (s, l, (s', l')); the read fails if either check fails
        a, bb = model_view((term[0], term[1])), model_view(term[2])
        if not (a["survives"] and bb["survives"]):
            return {"survives": False, "codes": ["OcRevoked"]}
        return {"survives": True, "codes": sorted(set(a["codes"] + bb["codes"]))}
    status, codes = term
    return {"survives": not (status == "StatusRevoked"), "codes": sorted(codes if isinstance(codes, list) else [])}


def impl_view(r):
    if r.get("r") != "ok":
        return {"survives": False, "codes": ["OcRevoked"] if r.get("kind") == "CertificateTrustError" else ["?" + str(r.get("kind"))]}
    codes = sorted(OC[x] for x in r["failure"] + r["success"] + r["informational"] if x in OC)
    return {"survives": True, "codes": codes}


def says(rc, c, now):
    """what the response says about the signer, from the recipe alone: (validly_signed, concerns, revoked_for_signer, contradicting)"""
    if rc is None:
        return None
    st = None if c["token"] is None else P.ep(c["token"])
    well_formed = not rc["garbage"] and rc["status_code"] == 0
    auth = rc["responder"] in ("ok", "ca") or (rc["responder"] == "old" and st is not None and RESP_WINDOW["old"][0] <= st <= RESP_WINDOW["old"][1])
    unclear = rc["responder"] == "old" and not auth       # expired responder certificate: validity of the signature is a matter of time
    signed = well_formed and auth and not rc["wrong_key"] and rc["corrupt"] is None
    mine = [s for s in rc["singles"] if s["about"] in ("signer", "signer_sha256")] if well_formed else []
    rev = [s for s in mine if s["status"] == "revoked" and s["reason"] != "removeFromCRL" and (st is None or now + s["revoked_at"] <= st)]
    contra = [s for s in mine if s["status"] != "revoked" or s["reason"] == "removeFromCRL" or (st is not None and now + s["revoked_at"] > st)]
    return {"well_formed": well_formed, "signed": signed, "unclear": unclear, "embedded": rc["embed"] != "none", "concerns": bool(mine),
            "revoked": bool(rev), "contradicting": bool(contra), "responder": rc["responder"]}


def verdict(r):
    if r.get("r") != "ok":
        return ("no-report", r.get("stage"), r.get("kind"))
    return (r["state"], tuple(sorted(set(r["failure"]))), tuple(sorted(set(x for x in r["failure"] + r["success"] + r["informational"] if x in OC))))


def twin_key(c):
    return json.dumps([c["route"], c["token"], c["override"], c["serve"], c["cred2"], c["build_override"]], sort_keys=True)


def evaluate(ctx, cases, with_model=True):
    now = int(time.time())
    # twins: the same manifest without the staple, for the "never change the verdict" clause
    twins = {}
    extra = []
    for c in cases:
        if c["ocsp"] is not None and c["route"] in ("stapled", "fetch"):
            k = twin_key(c)
            if k not in twins:
                t = dict(c)
                t["ocsp"], t["name"], t["twin"] = None, "twin:" + c["name"], True
                twins[k] = t
                extra.append(t)
    allc = cases + extra
    for i, c in enumerate(allc):
        c["id"] = i
    impl = common.run_harness("c37", [to_harness(c, now) for c in allc], jobs=12)
    model = common.coq_eval("C37", IMPORTS, [model_expr(c, now) for c in allc], shard_size=60) if with_model else None
    stats = {"routes": {}, "responders": {}, "statuses": {}, "irrelevant": 0, "revoked_bound": 0, "no_report": 0, "states": {}, "codes": {},
             "unspecified": 0, "requests_at_read": 0}
    distinct = set()
    for i, c in enumerate(allc):
        r = impl[c["id"]]
        mi = {k: v for k, v in c.items() if k != "id"}
        stats["routes"][c["route"]] = stats["routes"].get(c["route"], 0) + 1
        rc = c["ocsp"]
        if rc is not None:
            stats["responders"][rc["responder"]] = stats["responders"].get(rc["responder"], 0) + 1
            for s in rc["singles"]:
                kk = f"{s['about']}/{s['status']}"
                stats["statuses"][kk] = stats["statuses"].get(kk, 0) + 1
            distinct.add(json.dumps([c["route"], c["token"], c["override"], rc, c["serve"]], sort_keys=True))
        if r.get("r") == "ok":
            stats["states"][r["state"]] = stats["states"].get(r["state"], 0) + 1
            for x in r["failure"] + r["success"] + r["informational"]:
                if x in OC:
                    stats["codes"][x] = stats["codes"].get(x, 0) + 1
        else:
            stats["no_report"] += 1
        if r.get("r") in ("panic", "crash"):
            ctx.report_violation(c, f"implementation panicked: {r.get('msg')}", mi)
            continue
        if r.get("stage") in ("signer", "sign", "sign-b"):
            ctx.report_violation(c, f"signing failed unexpectedly at {r.get('stage')}: {r.get('kind')} {r.get('detail')}", mi)
            continue
        # no network: reading must not fetch unless the case is about the fetch route
        reqs = r.get("requests") or []
        if reqs and c["route"] != "fetch":
            stats["requests_at_read"] += 1
            ctx.report_violation(c, f"a request was made while reading with ocsp_fetch off: {reqs[:2]}", mi)
        valid = r.get("r") == "ok" and r["state"] in ("Valid", "Trusted")
        # ---- sentence 1: stapled / asserted "revoked" for the signing certificate => never Valid / Trusted
        ev = says(rc, c, now) if c["route"] in ("stapled", "fetch") else says(c["serve"], c, now)
        mi["says"] = ev
        if c["route"] == "asserted" and c["build_override"] is not True:
            ev = None
        if ev and ev["signed"] and ev["concerns"] and ev["revoked"] and not ev["contradicting"] and c["route"] in ("stapled", "asserted"):
            if ev["embedded"] or ev["responder"] == "ca":
                stats["revoked_bound"] += 1
                if c["route"] == "asserted" and not r.get("has_status_assertion", True) and r.get("r") == "ok":
                    stats["unspecified"] += 1          # the builder did not keep the response: nothing is asserted
                elif valid:
                    ctx.report_violation(c, f"the {'stapled' if c['route'] == 'stapled' else 'asserted'} OCSP response reports the signing certificate "
                                            f"revoked but the manifest is reported {r['state']}", mi)
            else:
                stats["unspecified"] += 1
        # ---- sentence 2: responses that do not concern the signer / are not validly signed never change the verdict
        if rc is not None and c["route"] in ("stapled", "fetch") and not c.get("twin"):
            e2 = says(rc, c, now)
            irrelevant = (not e2["well_formed"]) or (not e2["concerns"]) or (not e2["signed"] and not e2["unclear"])
            if irrelevant:
                stats["irrelevant"] += 1
                t = twins[twin_key(c)]
                vt, vr = verdict(impl[t["id"]]), verdict(r)
                if vt != vr:
                    ctx.report_violation(c, f"an OCSP response that does not concern the signing certificate / is not validly signed changes the verdict: "
                                            f"{vt} without it, {vr} with it", mi)
        # ---- correspondence
        if model is not None:
            mv, iv = model_view(model[i]), impl_view(r)
            if c["route"] == "asserted":
                mv["codes"], iv["codes"] = sorted(set(mv["codes"])), sorted(set(iv["codes"]))
            if mv != iv:
                ctx.disagreements.append({"case": mi, "impl": iv, "model": mv})
    return stats, len(distinct), len(allc)


def run(ctx):
    if not getattr(ctx, "no_build", False):
        common.build_harness()
    if ctx.replay:
        cases = [ctx.replay["case"]] if "case" in ctx.replay else [d["case"] for d in ctx.replay.get("disagreements", [])]
        cases = [{k: v for k, v in c.items() if k not in ("id", "says", "twin")} for c in cases]
    else:
        cases = corpus() + structured()
        cases += [gen_case(ctx.rng) for _ in range(50 if ctx.quick() else 800)]
    stats, distinct, n = evaluate(ctx, cases)
    ctx.coverage.update({
        "evaluations": n, "distinct_nontrivial": distinct,
        "rule": "corpus + structured families (`openssl ocsp` responder: good / revoked / unknown, other certificate, wrong responder; crafted responses: "
                "responder other CA / no OCSPSigning EKU / the signer itself / the issuing CA / expired, corrupted signature, altered tbsResponseData, wrong key, "
                "no certificates, non-successful status, garbage; certId for another serial / another issuer / SHA-256; several single responses; "
                "thisUpdate / nextUpdate / revocation time before and after now or an attested signing time; reasons incl. removeFromCRL) on the stapled route "
                "(Signer::ocsp_val), the asserted route (certificate-status assertion fetched through a mock responder) and the fetch route (mock responder), "
                "+ the same manifests without the staple (twins), + seeded random recipes; non-trivial = has a stapled response; distinct by recipe",
        "distribution": stats,
        "traces_validated_against_impl": n,
        "samples": [{k: v for k, v in c.items() if k in ("name", "route", "token", "override")} | {"ocsp": c["ocsp"]} for c in cases[3:5] + cases[40:42]],
    })


def search(ctx):
    common.build_harness()
    cases = structured() + [gen_case(ctx.rng) for _ in range(800)]
    evaluate(ctx, cases, with_model=False)
    ctx.coverage["search_evaluations"] = len(cases)
