"""C03 — signing round trip: signed output validates and reports what was signed."""
import json, os, re
from .. import common, e2egen as G
from ..common import TieBroken, coq_list

PROP_FILE = "Properties/C03.v"
TRUSTED = ["DataHash::pad_to_size exactness is a Section hypothesis of c03_two_pass_exact (proved under C14); the run "
           "re-pads every observed DataHash in the model and compares pad/pad2",
           "signature box content has the reserve size in both passes (C14); container embedding is the abstract "
           "composition pre ++ wrap(jumbf) ++ post (C07/C08/C12)",
           "CBOR/serde encoding of arbitrary payloads, COSE, X.509 trust: exercised by the differential run only",
           "payloads are represented in the model by their position in the definition"]
ASSUMPTIONS = ["test trust anchors of sdk/tests/fixtures/test_settings.toml; no time-stamp authority; debug-profile harness",
               "assertion labels contain no '/' and do not use the reserved `__<n>` instance syntax (label grammar)"]

CREATED_ACTION = {"action": "c2pa.created", "digitalSourceType": "http://cv.iptc.org/newscodes/digitalsourcetype/digitalCapture"}


# ------------------------------------------------------------------ facts

def facts(ctx):
    st = common.strip_tests(common.src("sdk/src/store.rs"))
    body = common.fn_body(st, r"fn\s+start_save_stream\s*\(", "Store::start_save_stream")
    m = common.fact(r"let\s+padding\s*:\s*Vec<u8>\s*=\s*vec!\[\s*0x0\s*;\s*(\d+)\s*\]\s*;\s*hash\.add_padding\(padding\)", body, "DataHash slack padding")
    slack = int(m.group(1))
    size_check = bool(re.search(r"data\s*=\s*self\.to_jumbf_internal\(reserve_size\)\?;\s*if\s+jumbf_size\s*!=\s*data\.len\(\)\s*\{\s*return\s+Err\(Error::JumbfCreationError\)", body))
    if not size_check:
        raise TieBroken("srcfacts: start_save_stream no longer rejects a second serialisation of a different size")
    if not re.search(r"pc\.update_data_hash\(hash\)\?", body):
        raise TieBroken("srcfacts: start_save_stream no longer patches the data hash with update_data_hash")
    cl = common.strip_tests(common.src("sdk/src/claim.rs"))
    ub = common.fn_body(cl, r"fn\s+update_data_hash\s*\(", "Claim::update_data_hash")
    repad = bool(re.search(r"let\s+original_len\s*=\s*target_assertion\.assertion\(\)\.data\(\)\.len\(\);\s*data_hash\.pad_to_size\(original_len\)\?", ub))
    if not repad:
        raise TieBroken("srcfacts: update_data_hash no longer pads to the placeholder's length")
    dh = common.strip_tests(common.src("sdk/src/assertions/data_hash.rs"))
    pb = common.fn_body(dh, r"fn\s+pad_to_size\s*\(", "DataHash::pad_to_size")
    guard = bool(re.search(r"if\s+curr_size\s*>\s*desired_size\s*\{\s*return\s+Err\(Error::JumbfCreationError\)", pb))
    if not guard:
        raise TieBroken("srcfacts: pad_to_size no longer rejects a target below the current size")
    fb = common.fn_body(cl, r"fn\s+assertion_hashed_uri_from_label\s*\(", "Claim::assertion_hashed_uri_from_label")
    if ".contains(assertion_label)" in fb or not re.search(r"\.url\(\)\.rsplit\('/'\)\.next\(\)\s*==\s*Some\(assertion_label\)", fb) or fb.count(".find(is_match)") != 3:
        raise TieBroken("srcfacts: assertion_hashed_uri_from_label no longer matches the label exactly against the last URI segment (fix 9afceaf9c)")
    bt = common.strip_tests(common.src("sdk/src/builder.rs"))
    tc = common.fn_body(bt, r"fn\s+to_claim\s*\(", "Builder::to_claim")
    # every arm of the generated label space passes the definition's created flag (CreativeWork since fix 937eabecd)
    for arm, pat in (("CreativeWork", r"CreativeWork::LABEL\s*=>\s*\{[^}]*add_assertion\(&mut claim, &cw, manifest_assertion\.created\(\)\)"),
                     ("Exif", r"Exif::LABEL\s*=>\s*\{[^}]*add_assertion\(&mut claim, &exif, manifest_assertion\.created\(\)\)"),
                     ("Metadata", r"Metadata::LABEL\s*=>\s*\{[^}]*add_assertion\(&mut claim, &metadata, manifest_assertion\.created\(\)\)")):
        if not re.search(pat, tc):
            raise TieBroken("srcfacts: the %s arm of Builder::to_claim no longer passes manifest_assertion.created()" % arm)
    if tc.count("manifest_assertion.created(),") < 2:
        raise TieBroken("srcfacts: the user assertion arms of Builder::to_claim no longer pass manifest_assertion.created()")
    ctx.facts = {"slack": slack, "lookup_exact_last_segment": True, "created_passed_by_arms": 5}
    ni = common.fn_body(cl, r"fn\s+next_instance\s*\(", "Claim::next_instance")
    ctx.facts["next_instance_contains"] = ".contains(&label)" in ni
    v = ("(* generated from sdk/src/store.rs, sdk/src/claim.rs, sdk/src/assertions/data_hash.rs on every run — do not edit *)\n"
         "From Coq Require Import NArith Bool.\nOpen Scope N_scope.\n"
         f"Definition DH_SLACK : N := {slack}.\n"
         f"Definition SIZE_CHECK_PRESENT : bool := {'true' if size_check else 'false'}.\n"
         f"Definition PAD_GUARD_PRESENT : bool := {'true' if guard else 'false'}.\n"
         f"Definition REPAD_TO_ORIGINAL : bool := {'true' if repad else 'false'}.\n")
    common.write_if_changed(os.path.join(common.COQ, "Generated", "C03_facts.v"), v)


# ------------------------------------------------------------------ generation

THUMB_FORMATS = {"image/jpeg", "image/png", "image/webp", "image/gif", "image/tiff", "image/svg+xml"}


def gen_case(rng, srcs, i, signed_ing):
    key = rng.choice(sorted(srcs))
    mime, src = srcs[key]
    alg = G.ALGS[i % len(G.ALGS)]
    version = 1 if rng.random() < 0.15 else 2
    thumbs = rng.random() < 0.3
    mode = rng.choice(["embedded"] * 6 + ["sidecar", "remote_embed", "remote_sidecar"])
    settings = {"builder": {"thumbnail": {"enabled": thumbs}}}
    if rng.random() < 0.12:
        settings["core"] = {"prefer_compress_manifests": True}
    d = {"title": G.gen_string(rng, rng.choice([0, 1, 8, 23, 24, 255, 256])) if rng.random() < 0.9 else None,
         "claim_generator_info": [{"name": "verif " + G.gen_string(rng, 3), "version": "0.%d" % rng.randrange(10)}]}
    if d["title"] is None:
        del d["title"]
    elif rng.random() < 0.25:
        d["title"] = rng.choice([" ", "\t", ""]) + d["title"] + rng.choice([" ", "  ", "\n", ".jpg "])    # leading/trailing whitespace is content
    if version == 1 and rng.random() < 0.5:
        d["claim_generator_info"].append({"name": "second-tool"})     # claim v2 allows exactly one
    if rng.random() < 0.2:
        d["claim_generator_info"][0]["com.verif.extra"] = "x" * rng.choice([1, 24, 256])
    if version == 1:
        d["claim_version"] = 1
    if rng.random() < 0.4:
        d["hash_alg"] = rng.choice(G.HASH_ALGS)
    if rng.random() < 0.1:
        d["vendor"] = "verif"
    spec = {"src": src, "alg": alg, "settings": settings, "definition": d}
    if rng.random() < 0.2:
        n = rng.choice([1, 23, 24, 255, 256, 4000, 65535, 65536, 70000])
        d["thumbnail"] = {"format": "image/jpeg", "identifier": "thumb-res"}
        spec["resources"] = {"thumb-res": bytes(rng.randrange(256) for _ in range(min(n, 64))).hex() * (max(1, n // 64)) }
    # ingredients
    ings = []
    k = rng.choice([0, 0, 0, 1, 1, 2])
    have_parent = False
    for j in range(k):
        rel = rng.choice(["componentOf", "inputTo", "parentOf"])
        if rel == "parentOf" and have_parent:
            rel = "componentOf"
        have_parent |= rel == "parentOf"
        isrc = rng.choice(signed_ing if isinstance(signed_ing, list) else [signed_ing]) if (signed_ing and rng.random() < 0.3 and version == 2) else rng.choice(
            [{"fixture": "libpng-test.png", "fmt": "image/png"}, {"hex": G.gif().hex(), "fmt": "image/gif"}, {"hex": G.wav().hex(), "fmt": "audio/wav"}])
        ings.append({"json": {"title": "ing %d %s" % (j, G.gen_string(rng, 4)), "relationship": rel, "label": "ing%d" % j}, "src": isrc})
    if ings:
        spec["ingredients"] = ings
    # actions
    acts = []
    parent = [g for g in ings if g["json"]["relationship"] == "parentOf"]
    if parent:
        acts.append({"action": "c2pa.opened", "parameters": {"ingredientIds": [parent[0]["json"]["label"]]}})
    else:
        acts.append(dict(CREATED_ACTION))
    for g in ings:
        if g["json"]["relationship"] == "componentOf":
            acts.append({"action": "c2pa.placed", "parameters": {"ingredientIds": [g["json"]["label"]]}})
    if rng.random() < 0.4:
        acts.append({"action": "c2pa.edited", "description": G.gen_string(rng, rng.choice([3, 24, 256]))})
    asserts = [{"label": rng.choice(["c2pa.actions", "c2pa.actions.v2"]), "data": {"actions": acts}}]
    if rng.random() < 0.3:
        asserts[0]["created"] = True
    pool = []
    for _ in range(rng.choice([0, 1, 2, 3, 3, 4, 6])):
        lab = G.gen_label(rng, pool)
        while re.sub(r"(\.v\d+)+$", "", lab).endswith("_") or "__" in lab:   # `__<n>` is the instance syntax: such labels are outside the definition space
            lab = re.sub(r"_+((?:\.v\d+)*)$", r"a\1", lab).replace("__", "_")
        pool.append(lab)
        a = {"label": lab, "data": G.gen_payload(rng, allow_big=rng.random() < 0.5)}
        if rng.random() < 0.4:
            a["kind"] = "Json"
        if rng.random() < 0.35:
            a["created"] = True
        asserts.append(a)
    # well-known metadata labels (each has its own arm, or the user arm, in to_claim): kinds and created flags vary
    if rng.random() < 0.3:
        wk = rng.choice(["stds.exif", "stds.exif", "stds.iptc", "stds.iptc.photo-metadata", "stds.schema-org.CreativeWork",
                         "org.verif.metadata", "com.verif-2.metadata"])
        if wk == "stds.exif":
            data = {"@context": {"exif": "http://ns.adobe.com/exif/1.0/"}, "exif:GPSLatitude": "39,21.102N"}
        elif wk.startswith("stds.iptc"):
            data = {"@context": {"Iptc4xmpExt": "http://iptc.org/std/Iptc4xmpExt/2008-02-29/", "dc": "http://purl.org/dc/elements/1.1/"},
                    "dc:creator": [G.gen_string(rng, 4)]}
        elif wk == "stds.schema-org.CreativeWork":
            data = {"@context": "https://schema.org", "@type": "CreativeWork", "author": [{"@type": "Person", "name": G.gen_string(rng, 5)}]}
        else:
            data = {"@context": {"dc": "http://purl.org/dc/elements/1.1/"}, "dc:subject": G.gen_string(rng, 5)}
        a = {"label": wk, "data": data}
        if rng.random() < 0.5 or wk.endswith(".metadata"):
            a["kind"] = "Json"
        if rng.random() < 0.5:
            a["created"] = True
        asserts.append(a)
    if rng.random() < 0.5:
        a0 = asserts.pop(0)
        asserts.insert(rng.randrange(len(asserts) + 1), a0)
    for idx, a in enumerate(asserts):
        if not a["label"].startswith("c2pa.actions"):
            a["data"]["_i"] = idx
    d["assertions"] = asserts
    if mode in ("sidecar", "remote_sidecar"):
        spec["no_embed"] = True
    if mode in ("remote_embed", "remote_sidecar"):
        spec["remote_url"] = "https://verif.invalid/manifests/%d.c2pa" % i
    return {"spec": spec, "want_jumbf": True, "meta": {"src": key, "mime": mime, "mode": mode, "thumbs": thumbs, "version": version}}


def corpus():
    p = os.path.join(common.VERIF, "corpus", "C03.jsonl")
    if not os.path.exists(p):
        return []
    return [json.loads(l) for l in open(p) if l.strip()]


# ------------------------------------------------------------------ oracle helpers

VERSION_RE = re.compile(r"^(.*?)((?:\.v\d+)+)$")


def claim_label(l):
    return "c2pa.actions.v2" if l.startswith("c2pa.actions") else l


def version_split(l):
    """('org.x', 3) for 'org.x.v3' (the C2PA label grammar's version suffix; repetitions of the same suffix are
    removed together, as trim_end_matches does); (l, None) otherwise"""
    m = re.match(r"^(.*)\.v(\d+)$", l)
    if not m:
        return (l, None)
    sfx, root = ".v" + m.group(2), l
    while root.endswith(sfx):
        root = root[:-len(sfx)]
    return (root, int(m.group(2)))


def label_with_instance(l, i):
    return l if not i else "%s__%d" % (l, i)


def created_substring_class(case, rep_assertions, hash_labels):
    """F-CREATED-SUBSTR: a gathered assertion whose (instance) label is a substring of a created assertion's URL"""
    defs = case["spec"]["definition"]["assertions"]
    created_urls = ["self#jumbf=c2pa.assertions/" + label_with_instance(a["label"], a.get("instance", 0)) for a in rep_assertions if a.get("created")]
    created_urls += ["self#jumbf=c2pa.assertions/" + h for h in hash_labels]
    # use the supplied flags: a supplied-gathered assertion reported as created
    return created_urls


def check_report(case, r, ctx, stats):
    """the property, on the implementation output alone; returns list of (why, matcher_input)"""
    spec = case["spec"]
    d = spec["definition"]
    out = []
    rep = r["report"]
    if rep["state"] != "Trusted" or rep["failure"]:
        out.append(("signing succeeded but reading the output gives %s %s" % (rep["state"], rep["failure"][:4]), None))
        return out
    v = r["view"]
    am = v["manifests"].get(v["active_manifest"] or "")
    if am is None:
        out.append(("no active manifest in the report", None))
        return out
    if "title" in d and am.get("title") != d["title"]:
        out.append(("title %r reported as %r" % (d["title"][:40], str(am.get("title"))[:40]), None))
    if "title" not in d and am.get("title") not in (None,):
        stats["title_defaulted"] = stats.get("title_defaulted", 0) + 1
    mime = case["meta"]["mime"]
    if am.get("format") is not None and am["format"] != mime:
        out.append(("format %r reported as %r" % (mime, am.get("format")), None))
    if am.get("format") is None:
        stats["format_absent_v2"] = stats.get("format_absent_v2", 0) + 1
        if case["meta"]["version"] == 1:
            out.append(("v1 claim reports no format", None))
    # claim generator
    gi = am.get("claim_generator_info") or []
    want = d["claim_generator_info"]
    if len(gi) != len(want):
        out.append(("claim_generator_info has %d entries, %d supplied" % (len(gi), len(want)), None))
    else:
        for g, w in zip(gi, want):
            g2 = {k: x for k, x in g.items() if k != "org.contentauth.c2pa_rs"}
            if not G.json_equal(g2, w):
                out.append(("claim_generator_info %s reported as %s" % (json.dumps(w)[:80], json.dumps(g2)[:80]), None))
    if case["meta"]["version"] != (am.get("claim_version") or 0):
        out.append(("claim_version %s reported as %s" % (case["meta"]["version"], am.get("claim_version")), None))
    # assertions: every supplied one exactly once, nothing else
    reported = list(am.get("assertions") or [])
    reported = [ra for ra in reported if not str(ra.get("label", "")).startswith("c2pa.hash.")]   # SDK-generated hard binding
    used = [False] * len(reported)
    for idx, a in enumerate(d["assertions"]):
        lab = claim_label(a["label"])
        root, ver = version_split(lab)
        hit = None
        for k, ra in enumerate(reported):
            # label.v1 and label are the same label in C2PA (v1 is never written)
            ok_label = ra.get("label") == lab or (ver == 1 and ra.get("label") == root)
            if used[k] or not ok_label:
                continue
            if lab == "c2pa.actions.v2":
                sup = [(x.get("action"), x.get("digitalSourceType"), x.get("description")) for x in a["data"]["actions"]]
                got = [(x.get("action"), x.get("digitalSourceType"), x.get("description")) for x in (ra.get("data") or {}).get("actions", [])]
                if sup == got:
                    hit = k
                    break
            elif G.json_equal(ra.get("data"), a["data"]):
                hit = k
                break
        if hit is None and ver is not None and ver >= 2 and lab != "c2pa.actions.v2":
            # F-USER-VERSION: the data is reported under the label without its version suffix
            for k, ra in enumerate(reported):
                if not used[k] and ra.get("label") == root and G.json_equal(ra.get("data"), a["data"]):
                    used[k] = True
                    ra["_src"] = idx
                    mi = dict(case)
                    mi["version_suffix_dropped"] = True
                    out.append(("assertion #%d label %s reported as %s (version suffix dropped)" % (idx, a["label"], root), mi))
                    hit = -1
                    break
            if hit == -1:
                continue
        if hit is None:
            cands = [ra for ra in reported if ra.get("label") == lab]
            why = "assertion #%d %s (%d bytes) not reported with its data" % (idx, a["label"], len(json.dumps(a["data"])))
            if cands:
                why += "; reported under that label: " + json.dumps(cands[0].get("data"))[:120]
            out.append((why, None))
            continue
        used[hit] = True
        ra = reported[hit]
        ra["_src"] = idx
        want_json = a.get("kind") == "Json" or a["label"] in ("stds.exif", "stds.schema-org.CreativeWork") or a["label"].endswith(".metadata")
        if lab != "c2pa.actions.v2" and (ra.get("kind") == "Json") != want_json:
            out.append(("assertion %s kind %s reported as %s" % (a["label"], a.get("kind", "Cbor"), ra.get("kind", "Cbor")), None))
        if case["meta"]["version"] >= 2 and bool(ra.get("created")) != bool(a.get("created")):
            # is this the known substring class?  (a supplied-gathered label contained in a created assertion's URL)
            urls = ["self#jumbf=c2pa.assertions/" + label_with_instance(x["label"], x.get("instance", 0))
                    for k2, x in enumerate(reported) if x.get("_src") is not None and d["assertions"][x["_src"]].get("created")]
            urls += ["self#jumbf=c2pa.assertions/" + label_with_instance(claim_label(x["label"]), 0) for x in d["assertions"] if x.get("created")]
            urls += ["self#jumbf=c2pa.assertions/" + h for h in r.get("_hash_labels", ["c2pa.hash.data"])]
            me = label_with_instance(ra["label"], ra.get("instance", 0))
            sub = (not a.get("created")) and any(me in u for u in urls)
            mi = dict(case)
            mi["created_substring"] = bool(sub)
            mi["creative_work_created"] = a["label"] == "stds.schema-org.CreativeWork" and bool(a.get("created"))
            out.append(("assertion #%d %s supplied as %s but reported as %s" % (idx, a["label"], "created" if a.get("created") else "gathered",
                                                                            "created" if ra.get("created") else "gathered"), mi))
    for k, ra in enumerate(reported):
        if not used[k]:
            out.append(("reported assertion %s was not supplied" % ra.get("label"), None))
    # Reader::json() presentation of the same data
    jm = (v.get("json_manifests") or {}).get(v["active_manifest"]) or {}
    ja = [x for x in (jm.get("assertions") or []) if not str(x.get("label", "")).startswith("c2pa.hash.")]
    if len(ja) == len(reported):
        for ra, x in zip(reported, ja):
            src = ra.get("_src")
            if src is None or ra["label"] == "c2pa.actions.v2":
                continue
            sup = d["assertions"][src]["data"]
            if not G.json_equal(x.get("data"), sup):
                mi = dict(case)
                mi["number_array_in_payload"] = G.has_number_array(sup)
                out.append(("Reader::json() renders the data of assertion #%d %s differently from what was supplied: %s"
                            % (src, ra["label"], json.dumps(x.get("data"))[:100]), mi))
    # ingredients
    ri = am.get("ingredients") or []
    wi = spec.get("ingredients") or []
    if len(ri) != len(wi):
        out.append(("%d ingredients supplied, %d reported" % (len(wi), len(ri)), None))
    else:
        for g, w in zip(ri, wi):
            for f in ("title", "relationship", "label"):
                if f == "label":
                    continue
                if g.get(f) != w["json"].get(f):
                    out.append(("ingredient %s %r reported as %r" % (f, w["json"].get(f), g.get(f)), None))
            if g.get("format") not in (None, w["src"]["fmt"]):
                out.append(("ingredient format %r reported as %r" % (w["src"]["fmt"], g.get("format")), None))
    # thumbnail
    if "thumbnail" in d:
        t = (v["verif_resources"].get(v["active_manifest"]) or {}).get("thumbnail")
        want_bytes = bytes.fromhex(spec["resources"]["thumb-res"])
        import hashlib
        if not t or t["data"].get("sha256") != hashlib.sha256(want_bytes).hexdigest() or t["format"] != "image/jpeg":
            out.append(("supplied thumbnail (%d bytes) not reported: %s" % (len(want_bytes), json.dumps(t)[:120]), None))
    if am.get("redactions"):
        out.append(("redactions reported but none supplied", None))
    # mode
    mode = case["meta"]["mode"]
    if mode in ("sidecar", "remote_sidecar") and r.get("embedded_len"):
        out.append(("no_embed requested but the output asset carries a manifest store", None))
    if mode in ("embedded", "remote_embed") and not r.get("embedded_equals_returned"):
        out.append(("embedded manifest store differs from the bytes returned by sign()", None))
    return out


# ------------------------------------------------------------------ model expressions

def model_defn(case, r):
    d = case["spec"]["definition"]
    v = r["view"]
    am = v["manifests"][v["active_manifest"]]
    thumb = am.get("thumbnail") is not None
    ings = case["spec"].get("ingredients") or []
    alist = coq_list(["mkA %s %s %s" % (G.coq_string(a["label"]), "true" if a.get("kind") == "Json" else "false",
                                        "true" if a.get("created") else "false") for a in d["assertions"]])
    return "mkD %d %s %s %s false" % (case["meta"]["version"], "true" if thumb else "false",
                                     coq_list(["false"] * len(ings)), alist)


IMPORTS = ("From Coq Require Import List NArith Bool String.\nFrom C2PA Require Import Base.Cbor Base.Bytes Model.SignFlow.\n"
           "Import ListNotations.\nOpen Scope string_scope.\nOpen Scope N_scope.")


def hash_labels_of(parts):
    return [a["label"] for a in parts["assertions"] if a["label"].startswith("c2pa.hash.")]


def evaluate(ctx, cases, with_model=True):
    impl = common.run_harness("c03", cases, timeout=3000)
    stats = {"outcome": {}, "by_format": {}, "by_alg": {}, "by_mode": {}, "claim_v1": 0, "with_ingredients": 0, "compressed": 0,
             "hash_alg": {}, "payload_size_class": {"<24": 0, "<256": 0, "<65536": 0, ">=65536": 0}, "sign_err_kinds": {},
             "unspecified": {}, "datahash_checked": 0, "size_model_checked": 0}
    distinct = set()
    exprs, expr_cases = [], []
    pad_exprs, pad_cases = [], []
    size_exprs, size_cases = [], []
    for c in cases:
        r = impl[c["id"]]
        meta = c["meta"]
        stats["by_format"][meta["src"]] = stats["by_format"].get(meta["src"], 0) + 1
        stats["by_alg"][c["spec"]["alg"]] = stats["by_alg"].get(c["spec"]["alg"], 0) + 1
        stats["by_mode"][meta["mode"]] = stats["by_mode"].get(meta["mode"], 0) + 1
        stats["claim_v1"] += meta["version"] == 1
        stats["with_ingredients"] += bool(c["spec"].get("ingredients"))
        stats["compressed"] += bool(c["spec"]["settings"].get("core"))
        ha = c["spec"]["definition"].get("hash_alg", "default")
        stats["hash_alg"][ha] = stats["hash_alg"].get(ha, 0) + 1
        for a in c["spec"]["definition"]["assertions"]:
            n = len(json.dumps(a["data"]))
            stats["payload_size_class"]["<24" if n < 24 else "<256" if n < 256 else "<65536" if n < 65536 else ">=65536"] += 1
        distinct.add(json.dumps([c["spec"]["definition"]["assertions"], meta], sort_keys=True, default=str)[:4000])
        stats["outcome"][r["r"]] = stats["outcome"].get(r["r"], 0) + 1
        if r["r"] in ("panic", "crash"):
            ctx.report_violation(c, "implementation panicked: %s" % r.get("msg"))
            continue
        if r["r"] == "sign_err":
            k = r["kind"]
            stats["sign_err_kinds"][k] = stats["sign_err_kinds"].get(k, 0) + 1
            unsupported = (k == "XmpNotSupported" and meta["mode"].startswith("remote")) or k == "UnsupportedType"
            if unsupported:
                stats["unspecified"]["remote URL needs XMP support"] = stats["unspecified"].get("remote URL needs XMP support", 0) + 1
            else:
                ctx.report_violation(c, "signing a well-formed definition failed: %s %s" % (k, r.get("detail", "")[:160]))
            continue
        if r["r"] == "read_err":
            ctx.report_violation(c, "signing succeeded but the output cannot be read: %s %s" % (r["kind"], r.get("detail", "")[:160]))
            continue
        # parse the returned manifest store
        parts = None
        try:
            jb = bytes.fromhex(r.pop("jumbf"))
            ms = G.store_manifests(jb)
            parts = G.manifest_parts(ms[r["view"]["active_manifest"]])
            r["_hash_labels"] = hash_labels_of(parts)
            r["_jumbf_len"] = len(jb)
            r["_manifest_count"] = len(ms)
            r["_store_parts"] = [G.manifest_parts(b) for b in ms.values()]
        except Exception as ex:
            if c["spec"]["settings"].get("core"):
                # compressed manifests (brob boxes) are not unpacked here; the binding is a box hash
                parts = {"assertions": []}
                r["_hash_labels"] = ["c2pa.hash.boxes"]
                stats["unspecified"]["compressed store not parsed"] = stats["unspecified"].get("compressed store not parsed", 0) + 1
            else:
                ctx.report_violation(c, "returned manifest store is not a parsable JUMBF: %r" % (ex,))
                continue
        for why, mi in check_report(c, r, ctx, stats):
            ctx.report_violation(c, why, mi)
        if with_model and parts.get("claim") is not None and r.get("_store_parts"):
            ok, ms_expr, boxes = True, [], []
            for mp in r["_store_parts"]:
                if any(len(a["content"]) != 1 or a["content"][0][0] not in (b"cbor", b"json") for a in mp["assertions"]) or mp["claim"] is None or mp["signature"] is None:
                    ok = False      # thumbnails (bfdb+bidb), uuid boxes: outside the modelled box shapes
                    break
                ms_expr.append("mkM %d %s %d %d %d %d" % (len(mp["label"].encode()),
                               coq_list(["(%d,%d)" % (len(a["label"].encode()), len(a["content"][0][1])) for a in mp["assertions"]]),
                               mp["claim_label_len"], len(mp["claim"]), len(mp["signature"]), mp["other"]))
                boxes.append([a["box_len"] for a in mp["assertions"]])
            if ok:
                size_exprs.append("c03_sizes %s" % coq_list(ms_expr))
                size_cases.append((c, boxes, r["_jumbf_len"]))
        if with_model:
            exprs.append("c03_eval (%s) %s" % (model_defn(c, r), G.coq_string((r["_hash_labels"] or ["c2pa.hash.data"])[0])))
            expr_cases.append((c, r))
            dh = [a for a in parts["assertions"] if a["label"] == "c2pa.hash.data"]
            if dh and dh[0]["content"] and dh[0]["content"][0][0] == b"cbor":
                data = dh[0]["content"][0][1]
                try:
                    val, _ = G.cbor_decode(data)
                    ex = [(e["start"], e["length"]) for e in (val.get("exclusions") or [])]
                    pad_exprs.append("c03_repad %d %d %s %d" % (len(val.get("alg", "")), len(val["hash"]),
                                                                coq_list(["(%d,%d)" % e for e in ex]), len(data)))
                    pad_cases.append((c, val, len(data)))
                except Exception as exn:
                    ctx.disagreements.append({"case": c, "impl": "c2pa.hash.data not decodable: %r" % (exn,), "model": None})
    # ---- correspondence
    if with_model and exprs:
        res = common.coq_eval("C03", IMPORTS, exprs, shard_size=40)
        for (c, r), mo in zip(expr_cases, res):
            v = r["view"]
            am = v["manifests"][v["active_manifest"]]
            got = [(a["label"], a.get("instance", 0), a.get("kind") == "Json", bool(a.get("created")), a.get("_src"))
                   for a in am.get("assertions") or []]
            masserts, mings, mthumb = mo
            want = []
            for t in masserts:
                lab, inst, js, cr, src = t
                want.append((lab, inst, js == "true", cr == "true", (src[1] if isinstance(src, list) else None)))
            if got != want:
                ctx.disagreements.append({"case": c, "impl": got, "model": want})
            elif len(mings) != len(am.get("ingredients") or []):
                ctx.disagreements.append({"case": c, "impl": "ingredients %d" % len(am.get("ingredients") or []), "model": len(mings)})
    if with_model and size_exprs:
        res = common.coq_eval("C03size", IMPORTS, size_exprs, shard_size=60)
        for (c, boxes, total), mo in zip(size_cases, res):
            stats["size_model_checked"] += 1
            mboxes, mtotal = mo
            if [list(x) for x in mboxes] != boxes or mtotal != total:
                ctx.disagreements.append({"case": c, "impl": {"assertion_boxes": boxes, "store": total}, "model": [mboxes, mtotal]})
    if with_model and pad_exprs:
        res = common.coq_eval("C03pad", IMPORTS, pad_exprs, shard_size=60)
        for (c, val, n), mo in zip(pad_cases, res):
            stats["datahash_checked"] += 1
            base, padded = mo
            pad2 = len(val["pad2"]) if val.get("pad2") is not None else None
            got = (n, len(val["pad"]), pad2)
            if padded == "None":
                want = None
            else:
                sz, p, p2 = padded[1]
                want = (sz, p, (p2[1] if isinstance(p2, list) else None))
            if got != want:
                ctx.disagreements.append({"case": c, "impl": {"datahash_len_pad_pad2": got}, "model": want})
    return stats, len(distinct)


def run(ctx):
    if not getattr(ctx, "no_build", False):
        common.build_harness()
    if ctx.replay:
        cases = [ctx.replay["case"]] if "case" in ctx.replay else [d["case"] for d in ctx.replay.get("disagreements", [])]
    else:
        thorough = not ctx.quick()
        srcs = G.sources(thorough)
        signed_ing = {"fixture": "C.jpg", "fmt": "image/jpeg"}
        cases = corpus()
        n = 56 if ctx.quick() else 700
        cases += [gen_case(ctx.rng, srcs, i, signed_ing) for i in range(n)]
    for i, c in enumerate(cases):
        c["id"] = i
    stats, distinct = evaluate(ctx, cases)
    ctx.coverage.update({
        "evaluations": len(cases), "distinct_nontrivial": distinct,
        "rule": "corpus + seeded definitions (labels from the label grammar incl. duplicates / substrings of each other, JSON payloads "
                "straddling 24/256/65536 bytes, thumbnails on/off/supplied, 0-2 ingredients incl. a signed one, actions) x 7 signing algs "
                "(round robin) x hash algs x claim v1/v2 x embedded/sidecar/remote x compressed x formats; non-trivial = signed; "
                "distinct by (assertions, settings)",
        "distribution": stats,
        "samples": [json.loads(json.dumps(c, default=str)[:0] or "{}") or {"meta": c["meta"], "alg": c["spec"]["alg"],
                    "labels": [a["label"] for a in c["spec"]["definition"]["assertions"]]} for c in cases[:4]],
    })


def search(ctx):
    common.build_harness()
    srcs = G.sources(False)
    cases = [gen_case(ctx.rng, srcs, i, {"fixture": "C.jpg", "fmt": "image/jpeg"}) for i in range(300)]
    for i, c in enumerate(cases):
        c["id"] = i
    evaluate(ctx, cases, with_model=False)
    ctx.coverage["search_evaluations"] = len(cases)
