"""C30 — Remote manifest references round-trip through XMP."""
import json, os, re
from .. import common
from ..common import TieBroken

PROP_FILE = "Properties/C30.v"
TRUSTED = ["the XML tokenizer (quick-xml Reader / Attributes) is not modelled: documents are split around the first rdf:Description "
           "start tag by a python tokenizer (vlib/props/c30.py split_xmp), on the input and again on the implementation's output",
           "quick-xml escape/unescape transcribed from quick-xml 0.41 (checked by the correspondence run on every value)",
           "asset handlers' XMP segment read/write (read_xmp, embed_reference_to_stream) are exercised by the oracle, not modelled"]
ASSUMPTIONS = ["debug-profile harness (overflow checks on)", "remote fetching disabled (verify.remote_manifest_fetch = false) so the reader reports the URL"]

IMPORTS = ("From C2PA Require Import Base.Bytes Model.XmpAttr Generated.C30_facts.\n"
           "From Coq Require Import NArith List.\nImport ListNotations.\nOpen Scope N_scope.")
SPECIAL = "&<>\"'"
PROV = "dcterms:provenance"


# ------------------------------------------------------------------ facts
def facts(ctx):
    t = common.strip_tests(common.src("sdk/src/utils/xmp_inmemory_utils.rs"))
    ext = common.fn_body(t, r"fn\s+extract_xmp_key\s*\(", "extract_xmp_key")
    unesc = bool(re.search(r"\bunescape\w*\s*\(", ext))
    if not unesc and "String::from_utf8(attribute.value.to_vec())" not in ext:
        raise TieBroken("srcfacts: extract_xmp_key neither unescapes nor returns the raw attribute bytes as before")
    add = common.fn_body(t, r"fn\s+add_xmp_key\s*\(", "add_xmp_key")
    for need, what in [("elem.push_attribute((key, value))", "push_attribute((key, value))"),
                       ("elem.extend_attributes([attr])", "extend_attributes([attr])"),
                       ("orig_length.max(4096)", "minimum padded length 4096"),
                       ('"<?xpacket end"', "trailer search string"),
                       ("orig_length - xpacket_end_length", "target length with trailer"),
                       (".trim_end()", "trim before the trailer"),
                       ("saturating_sub", "saturating padding length")]:
        if need not in add:
            raise TieBroken(f"srcfacts: add_xmp_key no longer has {what}")
    m = common.fact(r'const\s+XMP_END\s*:\s*&\[u8\]\s*=\s*b"((?:[^"\\]|\\.)*)";', t, "XMP_END")
    xmp_end = m.group(1).replace('\\"', '"')
    if xmp_end != '<?xpacket end="w"?>':
        raise TieBroken(f"srcfacts: XMP_END changed to {xmp_end!r}")
    pad = common.fn_body(t, r"fn\s+write_xmp_padding\s*<", "write_xmp_padding")
    if "remaining.min(99)" not in pad:
        raise TieBroken("srcfacts: write_xmp_padding no longer writes chunks of 99 spaces")
    ap = common.fn_body(t, r"pub\s+fn\s+add_provenance\s*\(", "add_provenance")
    if not ('"xmlns:dcterms"' in ap and '"http://purl.org/dc/terms/"' in ap and '"dcterms:provenance"' in ap):
        raise TieBroken("srcfacts: add_provenance no longer writes xmlns:dcterms then dcterms:provenance")
    m = common.fact(r'pub\s+const\s+MIN_XMP\s*:\s*&str\s*=\s*r#"(.*?)"#;', t, "MIN_XMP")
    min_xmp = m.group(1)
    lock = common.src("Cargo.lock")
    qv = re.search(r'name = "quick-xml"\nversion = "([^"]+)"', lock)
    v = ("(* generated from sdk/src/utils/xmp_inmemory_utils.rs on every run — do not edit *)\n"
         "(* does extract_xmp_key unescape the attribute value it returns? *)\n"
         f"Definition EXTRACT_UNESCAPES : bool := {'true' if unesc else 'false'}.\n")
    common.write_if_changed(os.path.join(common.COQ, "Generated", "C30_facts.v"), v)
    ctx.facts = {"EXTRACT_UNESCAPES": unesc, "MIN_XMP": min_xmp, "quick_xml": qv.group(1) if qv else None}


# ------------------------------------------------------------------ python tokenizer (trusted): split around the first rdf:Description
WS = " \t\r\n"


def split_xmp(xmp):
    """-> dict(pre, attrs [(k, raw, quote)], empty, post, trailer, orig_len) | None when there is no parsable rdf:Description"""
    orig_len = len(xmp.encode("utf-8"))
    pos = xmp.rfind("<?xpacket end")
    trailer = pos >= 0
    body = xmp[:pos].rstrip() if trailer else xmp
    m = re.search(r"<rdf:Description(?=[\s/>])", body)
    base = {"trailer": trailer, "orig_len": orig_len, "body": body}
    if not m:
        return dict(base, pre=body, attrs=None, empty=False, post="")
    i = m.end()
    attrs = []
    n = len(body)
    while True:
        while i < n and body[i] in WS:
            i += 1
        if i >= n:
            return None
        if body[i] == ">":
            empty, end = False, i + 1
            break
        if body.startswith("/>", i):
            empty, end = True, i + 2
            break
        j = i
        while j < n and body[j] not in WS + "=>/":
            j += 1
        key = body[i:j]
        while j < n and body[j] in WS:
            j += 1
        if j >= n or body[j] != "=" or not key:
            return None
        j += 1
        while j < n and body[j] in WS:
            j += 1
        if j >= n or body[j] not in "\"'":
            return None
        q = body[j]
        e = body.find(q, j + 1)
        if e < 0:
            return None
        attrs.append((key, body[j + 1:e], q))
        i = e + 1
    return dict(base, pre=body[:m.start()], attrs=attrs, empty=empty, post=body[end:])


def tag_hit(segment, key):
    """first <key>text</key> in a segment (the element form extract_xmp_key also accepts)"""
    m = re.search(r"<%s>(.*?)</%s>" % (re.escape(key), re.escape(key)), segment, re.S)
    return m.group(1) if m else None


def xml_escape(v):
    return v.replace("&", "&amp;").replace("<", "&lt;").replace(">", "&gt;").replace("'", "&apos;").replace('"', "&quot;")


# ------------------------------------------------------------------ Coq terms
def cb(s):
    b = s.encode("utf-8")
    return "[" + ";".join(str(x) for x in b) + "]%N" if b else "[]"


def model_expr(c, sp, unesc_flag="EXTRACT_UNESCAPES"):
    key = c.get("key")
    hit = tag_hit(sp["pre"], key or PROV)
    desc = "None" if sp["attrs"] is None else \
        "(Some ([" + "; ".join(f"({cb(k)}, {cb(raw)})" for k, raw, _ in sp["attrs"]) + f"], {'true' if sp['empty'] else 'false'}))"
    d = (f"{{| pre := {cb(sp['pre'])}; desc := {desc}; post := {cb(sp['post'])}; "
         f"trailer := {'true' if sp['trailer'] else 'false'}; orig_len := {sp['orig_len']} |}}")
    return (f"run_add {unesc_flag} {('(Some %s)' % cb(hit)) if hit is not None else 'None'} {d} "
            f"{('(Some %s)' % cb(key)) if key is not None else 'None'} {cb(c['value'])}")


def ub(l):
    return bytes(l).decode("utf-8", errors="replace")


# ------------------------------------------------------------------ generation
HOSTS = ["https://example.com/manifests/m.c2pa", "http://cai.example.org:8080/a/b", "https://e.com/m"]


def gen_url(rng, special=None):
    u = rng.choice(HOSTS)
    special = rng.random() < 0.6 if special is None else special
    parts = []
    for _ in range(rng.randrange(0, 4)):
        k = rng.choice(["a", "id", "q", "tok"])
        v = rng.choice(["1", "x%20y", "%C3%A9", "é", "a+b", "urn:uuid:1234", "A_b-9~."])
        parts.append(f"{k}={v}")
    if parts:
        sep = "&" if special else ";"
        u += "?" + sep.join(parts)
    if special:
        u += rng.choice(["", "&x=<y>", "?q=\"v\"", "&s='t'", "&amp;", "&lt;", "&#38;", "&&", "&a;b", "<>", "'\""])
    if rng.random() < 0.3:
        u += "#" + rng.choice(["frag", "a=1&b=2" if special else "a=1", "%23"])
    return u


def gen_value(rng):
    r = rng.random()
    if r < 0.7:
        return gen_url(rng)
    if r < 0.8:
        return "".join(rng.choice(SPECIAL + "ab;#x ") for _ in range(rng.randrange(0, 12)))
    return rng.choice(["", "self#jumbf=c2pa/urn:uuid:1/c2pa.claim", "&", "&amp;", "&amp;amp;", "a;b", "&#x41;", "tab\there", "line\nbreak", "é€😀", " lead", "trail "])


ATTR_POOL = [("rdf:about", ""), ("xmlns:xmp", "http://ns.adobe.com/xap/1.0/"), ("xmlns:dc", "http://purl.org/dc/elements/1.1/"),
             ("xmlns:dcterms", "http://purl.org/dc/terms/"), ("xmlns:xmpMM", "http://ns.adobe.com/xap/1.0/mm/"),
             ("xmpMM:DocumentID", "xmp.did:1234"), ("xmpMM:InstanceID", "xmp.iid:5678"), ("dc:format", "image/jpeg"),
             ("dcterms:provenance", "https://old.example/m?x=1&amp;y=2"), ("xmp:CreatorTool", "Tool &amp; Co &lt;1&gt;"),
             ("photoshop:Credit", "it&apos;s"), ("xmp:Label", "a  b"), ("dc:title", "é€")]


def gen_xmp(rng):
    """a packet with a controlled shape: header, optional wrappers, the rdf:Description tag in varied spelling, children, trailer"""
    r = rng.random()
    head = rng.choice(['<?xpacket begin="" id="W5M0MpCehiHzreSzNTczkc9d"?>', '<?xpacket begin="﻿" id="W5M0MpCehiHzreSzNTczkc9d"?>\n', ""])
    wrap_o = rng.choice(['<x:xmpmeta xmlns:x="adobe:ns:meta/" x:xmptk="t">', '<x:xmpmeta xmlns:x="adobe:ns:meta/">\n  '])
    rdf_o = '<rdf:RDF xmlns:rdf="http://www.w3.org/1999/02/22-rdf-syntax-ns#">' + rng.choice(["", "\n   ", " "])
    if r < 0.05:
        body = head + wrap_o + rdf_o + "</rdf:RDF></x:xmpmeta>"          # no rdf:Description at all
    else:
        attrs = rng.sample(ATTR_POOL, rng.randrange(0, 7))
        if rng.random() < 0.04 and attrs:
            attrs.append(attrs[0])                                         # duplicated attribute -> XmpReadError
        parts = []
        for k, v in attrs:
            q = '"' if rng.random() < 0.75 else "'"
            if q == "'" and rng.random() < 0.15:
                v = v + rng.choice(['"', 'say "hi"'])                     # legal: a double quote inside single quotes
            parts.append(rng.choice([" ", "\n    ", "  ", "\t"]) + k + rng.choice(["=", "=", " = ", "= "]) + q + v + q)
        empty = rng.random() < 0.3
        tag = "<rdf:Description" + "".join(parts) + rng.choice(["", " ", "\n  "]) + ("/>" if empty else ">")
        children = "" if empty else rng.choice([" ", "", "\n   <dc:creator><rdf:Seq><rdf:li>me &amp; you</rdf:li></rdf:Seq></dc:creator>\n  ",
                                                '<rdf:Description rdf:about="" dcterms:provenance="inner"/>']) + "</rdf:Description>"
        second = rng.choice(["", "", '\n  <rdf:Description rdf:about="" dcterms:provenance="second" xmp:Rating="3"/>'])
        pre_elem = "<dcterms:provenance>early</dcterms:provenance>" if rng.random() < 0.03 else ""
        body = head + wrap_o + rdf_o + pre_elem + tag + children + second + "</rdf:RDF>" + rng.choice(["", "\n"]) + "</x:xmpmeta>"
    t = rng.random()
    if t < 0.55:
        pad = rng.choice(["", "\n", " " * 20 + "\n", ("\n" + " " * 99) * rng.choice([1, 3, 25, 41]) + "\n"])
        body += pad + rng.choice(['<?xpacket end="w"?>', '<?xpacket end="w"?>', '<?xpacket end="r"?>', "<?xpacket end='w'?>"])
    elif t < 0.65:
        body += rng.choice(["   \n", "\n\n"])
    return body


def gen_rt(rng):
    r = rng.random()
    c = {"op": "rt", "xmp": None if r < 0.15 else gen_xmp(rng), "key": None if rng.random() < 0.7 else rng.choice(
        ["dcterms:provenance", "xmpMM:InstanceID", "k", "xmp:Label", "dc:format"]), "value": gen_value(rng)}
    return c


CANDIDATES = [("jpg", "IMG_0003.jpg"), ("jpg", "earth_apollo17.jpg"), ("image/jpeg", "no_manifest.jpg"), ("png", "libpng-test.png"),
              ("png", "sample1.png"), ("tiff", "test.tiff"), ("gif", "sample1.gif"), ("svg", "sample1.svg"), ("webp", "test.webp"),
              ("webp", "test_xmp.webp"), ("wav", "sample1.wav"), ("avi", "test.avi"), ("mp4", "video1_no_manifest.mp4"),
              ("m4a", "sample1.m4a"), ("heic", "sample1.heic"), ("avif", "sample1.avif"), ("mp3", "sample1.mp3"),
              ("flac", "sample1.flac"), ("jxl", "sample1.jxl"), ("pdf", "basic.pdf")]
PLAIN = "https://example.com/manifests/plain.c2pa"


def corpus():
    p = os.path.join(common.VERIF, "corpus", "C30.jsonl")
    if not os.path.exists(p):
        return []
    return [json.loads(l) for l in open(p) if l.strip()]


# ------------------------------------------------------------------ evaluation
def flags(value, sp, got):
    return {"value_special": any(ch in value for ch in SPECIAL),
            "got_is_escaped": got is not None and got == xml_escape(value) and got != value,
            "existing_dquote": bool(sp and sp["attrs"] and any('"' in raw for _, raw, _ in sp["attrs"]))}


def short(c):
    return {k: (v if not isinstance(v, str) or len(v) < 300 else v[:300] + "...") for k, v in c.items()}


def eval_rt(ctx, cases, stats, min_xmp, with_model=True):
    for c in cases:
        xmp = c["xmp"] if c["xmp"] is not None else min_xmp
        sp = split_xmp(xmp)
        c["_sp"] = sp
        c["others"] = [k for k, _, _ in sp["attrs"]] if sp and sp["attrs"] else []
    send = [{k: v for k, v in c.items() if not k.startswith("_")} for c in cases]
    impl = common.run_harness("c30", send)
    # the tokenizer is external to the model: when the first add_xmp_key of add_provenance has already broken the packet
    # (F-XMP-QUOTE class) the second call's tokenizer error cannot be predicted by the model; those go to the oracle only
    def modelled(c):
        sp = c["_sp"]
        return sp is not None and not (c["key"] is None and sp["attrs"] and any('"' in raw for _, raw, _ in sp["attrs"]))
    todo = [c for c in cases if modelled(c)] if with_model else []
    model = common.coq_eval("C30", IMPORTS, [model_expr(c, c["_sp"]) for c in todo], shard_size=40) if todo else []
    mres = {c["id"]: model[i] for i, c in enumerate(todo)}
    for c in cases:
        r = impl[c["id"]]
        sp = c["_sp"]
        key = c["key"] or PROV
        pub = short({k: v for k, v in c.items() if not k.startswith("_")})
        if r["r"] == "crash":
            ctx.report_violation(pub, f"harness died: {r.get('msg')}")
            continue
        # ---- classification
        if sp is None:
            cls = "untokenised"
        elif sp["attrs"] is None:
            cls = "no_description"
        elif len({k for k, _, _ in sp["attrs"]}) != len(sp["attrs"]):
            cls = "duplicate_attribute"
        elif tag_hit(sp["pre"], key) is not None:
            cls = "element_form_before_description"
        elif sp["trailer"] and sp["orig_len"] < 19:
            cls = "truncated_trailer"
        else:
            cls = "specified"
        stats["rt_classes"][cls] = stats["rt_classes"].get(cls, 0) + 1
        # ---- oracle
        if cls == "specified":
            mi = dict(pub, **flags(c["value"], sp, r.get("got")))
            if mi["value_special"]:
                stats["special_values"] += 1
            if r["r"] != "ok":
                ctx.report_violation(pub, f"embedding failed on a well-formed packet: {r.get('kind') or r.get('msg')}", mi)
            else:
                if r.get("got") != c["value"]:
                    ctx.report_violation(pub, f"embedded {c['value']!r} but extraction returns {r.get('got')!r}", mi)
                else:
                    stats["roundtrips_ok"] += 1
                for k2, b, a in zip(c["others"], r.get("others_before", []), r.get("others_after", [])):
                    if k2 != key and not (c["key"] is None and k2 == "xmlns:dcterms") and a != b:
                        ctx.report_violation(pub, f"existing property {k2} read {b!r} before embedding and {a!r} after", mi)
                        break
                else:
                    stats["others_preserved"] += 1
        # ---- correspondence
        if c["id"] in mres:
            code, mout, mattrs, mgot = mres[c["id"]]
            mgot = None if mgot == "None" else ub(mgot[1])
            if r["r"] == "panic":
                ok = code == 2
            elif r["r"] == "err":
                ok = code == 0
            else:
                ok = code == 1 and ub(mout) == r["out"]
                fl = flags(c["value"], sp, r.get("got"))
                if ok and cls in ("specified", "element_form_before_description") and not fl["existing_dquote"]:
                    # the output splits again into what the model says it is, and extraction agrees
                    sp2 = split_xmp(r["out"])
                    ok = (sp2 is not None and sp2["attrs"] is not None
                          and [(k, raw) for k, raw, _ in sp2["attrs"]] == [(ub(k), ub(raw)) for k, raw in mattrs]
                          and mgot == r.get("got"))
                elif ok and cls == "no_description":
                    ok = mgot is None and r.get("got") is None or tag_hit(sp["pre"], key) is not None
            stats["model_cases"] += 1
            if not ok:
                ctx.disagreements.append({"case": pub, "impl": short({k: v for k, v in r.items() if k in ("r", "kind", "got", "out")}),
                                          "model": [code, ub(mout)[:300], mgot]})


def attrs_of(xmp):
    sp = split_xmp(xmp) if xmp is not None else None
    return sp, ({k: raw for k, raw, _ in sp["attrs"]} if sp and sp["attrs"] else {})


def eval_assets(ctx, cases, stats):
    impl = common.run_harness("c30", cases, timeout=3000)
    for c in cases:
        r = impl[c["id"]]
        tag = f"{c['op']}:{c['format']}:{c['fixture']}"
        if r["r"] in ("panic", "crash"):
            ctx.report_violation(c, f"implementation panicked: {r.get('msg')}")
            continue
        if r["r"] == "err" and c["op"] == "api" and r.get("embedded") is None:
            stats["unspecified_invalid_url"] = stats.get("unspecified_invalid_url", 0) + 1
            continue
        if r["r"] == "err":
            # the plain-URL baseline worked on this fixture (run() keeps only those), so a failure depends on the URL
            ctx.report_violation(c, f"embedding a remote reference failed: {r.get('kind')} {r.get('detail', '')}",
                                 dict(c, **flags(c["url"], None, None)))
            continue
        stats["asset_cases"][tag] = stats["asset_cases"].get(tag, 0) + 1
        # the public API embeds url::Url::parse(url).to_string() (Claim::set_remote_manifest); that is "the URL that was embedded"
        want = r.get("embedded") if c["op"] == "api" else c["url"]
        if want is None:
            stats["unspecified_invalid_url"] = stats.get("unspecified_invalid_url", 0) + 1
            continue
        if want != c["url"]:
            stats["urls_normalised_by_builder"] = stats.get("urls_normalised_by_builder", 0) + 1
        mi = dict(c, embedded=want, **flags(want, None, r.get("got")))
        if c["op"] == "api" and r.get("reader") != "RemoteManifestUrl":
            ctx.report_violation(c, f"reader did not report a remote manifest URL: {r.get('reader')}", mi)
        elif r.get("got") != want:
            ctx.report_violation(c, f"embedded {want!r} but the reader reports {r.get('got')!r}", mi)
        else:
            stats["asset_roundtrips_ok"] += 1
        if c["op"] == "handler" and r.get("xmp_before") is not None:
            spb, before = attrs_of(r["xmp_before"])
            spa, after = attrs_of(r.get("xmp_after"))
            stats["assets_with_xmp"] += 1
            lost = [k for k, v in before.items() if k not in (PROV, "xmlns:dcterms") and after.get(k) != v]
            if lost:
                ctx.report_violation(c, f"existing XMP properties changed by embedding: {lost[:4]}",
                                     dict(mi, existing_dquote=any('"' in v for v in before.values())))
            elif spb and spa and spb["post"].rstrip() != spa["post"].rstrip():
                ctx.report_violation(c, "XMP element content changed by embedding", mi)


def new_stats():
    return {"rt_classes": {}, "special_values": 0, "roundtrips_ok": 0, "others_preserved": 0, "model_cases": 0,
            "asset_cases": {}, "asset_roundtrips_ok": 0, "assets_with_xmp": 0, "unsupported_or_unusable_fixtures": []}


def usable_fixtures(stats):
    """formats/fixtures on which a plain URL can be embedded and read back (handler level and public API)"""
    probe = []
    for i, (fmt, fx) in enumerate(CANDIDATES):
        if os.path.exists(os.path.join(common.REPO, "sdk/tests/fixtures", fx)) and os.path.getsize(os.path.join(common.REPO, "sdk/tests/fixtures", fx)) > 0:
            probe.append({"id": 2 * i, "op": "handler", "format": fmt, "fixture": fx, "url": PLAIN})
            probe.append({"id": 2 * i + 1, "op": "api", "format": fmt, "fixture": fx, "url": PLAIN})
    res = common.run_harness("c30", probe, timeout=3000)
    hs, apis = [], []
    for p in probe:
        r = res[p["id"]]
        ok = r.get("r") == "ok" and r.get("got") == PLAIN
        if ok:
            (hs if p["op"] == "handler" else apis).append((p["format"], p["fixture"]))
        else:
            stats["unsupported_or_unusable_fixtures"].append(f"{p['op']}:{p['format']}:{p['fixture']}:{r.get('kind') or r.get('reader') or r.get('r')}")
    return hs, apis


def run(ctx):
    if not getattr(ctx, "no_build", False):
        common.build_harness()
    if not getattr(ctx, "facts", None):
        facts(ctx)
    min_xmp = ctx.facts["MIN_XMP"]
    stats = new_stats()
    if ctx.replay:
        cases = [ctx.replay["case"]] if "case" in ctx.replay else [d["case"] for d in ctx.replay.get("disagreements", [])]
        for c in cases:
            c.pop("others", None)
    else:
        cases = corpus()
        nrt, nh, na = (300, 3, 1) if ctx.quick() else (3000, 14, 3)
        cases += [gen_rt(ctx.rng) for _ in range(nrt)]
        hs, apis = usable_fixtures(stats)
        if not hs or not apis:
            raise TieBroken(f"no fixture accepts a plain remote reference: {stats['unsupported_or_unusable_fixtures'][:5]}")
        for fmt, fx in hs:
            cases += [{"op": "handler", "format": fmt, "fixture": fx, "url": gen_url(ctx.rng, special=(j % 2 == 0))} for j in range(nh)]
        for fmt, fx in apis:
            cases += [{"op": "api", "format": fmt, "fixture": fx, "url": gen_url(ctx.rng, special=(j % 2 == 0))} for j in range(na)]
        stats["formats_handler"] = sorted({f for f, _ in hs})
        stats["formats_api"] = sorted({f for f, _ in apis})
    for i, c in enumerate(cases):
        c["id"] = i
    rts = [c for c in cases if c["op"] == "rt"]
    assets = [c for c in cases if c["op"] in ("handler", "api")]
    if rts:
        eval_rt(ctx, rts, stats, min_xmp)
    if assets:
        eval_assets(ctx, assets, stats)
    distinct = len({(c["xmp"], c["key"], c["value"]) for c in rts if c["_sp"] is not None and c["_sp"]["attrs"] is not None}
                   | {(c["op"], c["format"], c["fixture"], c["url"]) for c in assets})
    ctx.coverage.update({
        "evaluations": len(cases), "distinct_nontrivial": distinct,
        "rule": "corpus + seeded XMP packets (varied header/trailer/padding, attribute spelling with both quote styles, empty-element and "
                "start tags, nested and second rdf:Description, duplicates, element-form key, no rdf:Description) x values (URLs with queries, "
                "fragments, percent-encoding, the five XML special characters, entity look-alikes, unicode) through add/extract hooks; + every "
                "fixture format that accepts a plain remote reference x URLs at handler level (embed_reference_to_stream + XmpInfo) and "
                "through Builder::set_remote_url + set_no_embed + Reader; non-trivial = packet with an rdf:Description or an asset case; "
                "distinct by (packet, key, value) / (format, fixture, url)",
        "distribution": stats,
        "traces_validated_against_impl": stats["model_cases"],
        "samples": [short({k: v for k, v in c.items() if not k.startswith("_") and k != "others"}) for c in (rts[:2] + assets[:2])],
    })


def search(ctx):
    common.build_harness()
    if not getattr(ctx, "facts", None):
        try:
            facts(ctx)
        except TieBroken:
            ctx.facts = {"MIN_XMP": None}
    stats = new_stats()
    min_xmp = ctx.facts.get("MIN_XMP") or ""
    cases = [gen_rt(ctx.rng) for _ in range(5000)]
    if not min_xmp:
        cases = [c for c in cases if c["xmp"] is not None]
    hs, apis = usable_fixtures(stats)
    for fmt, fx in hs:
        cases += [{"op": "handler", "format": fmt, "fixture": fx, "url": gen_url(ctx.rng, special=(j % 2 == 0))} for j in range(10)]
    for i, c in enumerate(cases):
        c["id"] = i
    eval_rt(ctx, [c for c in cases if c["op"] == "rt"], stats, min_xmp, with_model=False)
    eval_assets(ctx, [c for c in cases if c["op"] != "rt"], stats)
    ctx.coverage["search_evaluations"] = len(cases)
