"""C32 — c2patool never clobbers outputs and its signed files validate.

Model: coq/Model/CliPaths.v (decision of cli/src/main.rs as effect lists over a finite predicate record).
Tie: (a) anchors re-read from main.rs / store.rs / bmff_hash.rs on every run (Generated/C32_facts.v),
     (c) the realisable predicate cube materialised as directory states + command lines, run against the
         c2patool binary built from the current tree; snapshots before/after are compared with the model's
         effect list; independent oracle = the property text on the snapshots and a read-back of every
         file reported as signed.  The Rust harness is not used (python drives the binary)."""
import hashlib, itertools, json, os, re, shutil, subprocess, time
from concurrent.futures import ThreadPoolExecutor
from .. import common
from ..common import TieBroken

PROP_FILE = "Properties/C32.v"
TRUSTED = ["c2patool is observed through its exit code, stdout and a recursive snapshot (type, sha256, mtime, inode) of a per-case directory",
           "file-system races, symlinked outputs, `init trust` (network) and `-p/--parent` are outside the predicate record",
           "the remote URL used with --remote is unreachable (no network): remote_ok = false in every materialised case"]
ASSUMPTIONS = ["Linux, debug build of c2patool from the current working tree (cargo build --offline -p c2patool)",
               "signing with the es256 sample key of cli/sample; read-back trusts cli/sample/trust_anchors.pem"]

TOOL = os.path.join(common.REPO, "target", "debug", "c2patool")
WORK = os.path.join(common.BUILD, "c32")
OUTS = ["ONone", "OAbsent", "ONoParent", "OFile", "ODir"]
SAMES = ["Different", "Same", "Alias"]
SCS = ["SAbsent", "SFile", "SDir"]
FRAGS = ["FNone", "FNoGlob", "FGlob"]
FIELDS = ["has_manifest", "early", "out", "same", "ext_match", "force", "sidecar", "sc", "remote", "remote_ok",
          "fragment", "finit", "fseg", "ingredient"]
DOMS = [[False, True], [False, True], OUTS, SAMES, [False, True], [False, True], [False, True], SCS, [False, True],
        [False, True], FRAGS, [False, True], [False, True], [False, True]]
INIT = "BigBuckBunny_2s_init.mp4"
SEG = "BigBuckBunny_2s1.m4s"
OLD_T = 978307200  # 2001-01-01: any write moves mtime


# ------------------------------------------------------------------ facts

def facts(ctx):
    """anchors of the transcription.  A missing anchor is reported as a broken tie, but the facts are still regenerated
    and the run (cube + oracle) goes on: a changed main.rs must be judged by its behaviour, not only by its text."""
    errs = []
    try:
        _facts(ctx, errs)
    except TieBroken as ex:
        errs.append(str(ex))
    if errs:
        if hasattr(ctx, "tie_errors"):
            ctx.tie_errors.extend(errs)
        else:
            raise TieBroken("; ".join(errs))


def _facts(ctx, errs):
    t = common.strip_tests(common.src("cli/src/main.rs"))
    body = common.fn_body(t, r"fn\s+main\s*\(\s*\)\s*->\s*Result<\(\)>\s*", "fn main")
    body = re.sub(r"(?m)^\s*//.*$", "", body)
    anchors = [
        (r"if\s+ext_normal\(&output\)\s*!=\s*ext_normal\(path\)\s*\{\s*bail!", "extension test"),
        (r"if\s+output\.exists\(\)\s*\{\s*if\s+args\.force\s*&&\s*output\s*!=\s*\*path\s*\{\s*remove_file\(&output\)\?;\s*\}\s*else\s+if\s+!args\.force\s*\{\s*bail!",
         "exists/force test of the single-file output"),
        (r"if\s+\*path\s*!=\s*output\s*\{\s*builder\s*\.sign_file\(signer\.as_ref\(\),\s*path,\s*&output\)", "sign_file branch"),
        (r"file\.persist\(&output\)", "in-place persist"),
        (r"if\s+args\.sidecar\s*\{\s*let\s+sidecar\s*=\s*output\.with_extension\(\"c2pa\"\);\s*let\s+mut\s+file\s*=\s*File::create\(&sidecar\)\?;", "sidecar block"),
        (r"File::create\(&sidecar\)", "sidecar File::create"),
        (r"if\s+output\.exists\(\)\s*&&\s*!output\.is_dir\(\)\s*\{\s*bail!", "fragment output must be a directory"),
        (r"else\s+if\s+args\.parent\.is_some\(\)\s*\|\|\s*args\.sidecar\s*\|\|\s*args\.remote\.is_some\(\)\s*\{\s*bail!", "options needing a manifest"),
        (r"if\s+!folder_mode_output_path_ok\(&output\)\s*\{\s*bail!", "folder mode: output must be a folder"),
        (r"if\s+output\.exists\(\)\s*\{\s*if\s+args\.force\s*\{\s*remove_dir_all\(&output\)\?;\s*\}\s*else\s*\{\s*bail!", "folder mode exists/force test"),
        (r"create_dir_all\(&output\)\?;", "folder mode create_dir_all"),
        (r"else\s*\{\s*bail!\(\"Output path required with manifest definition\"\)", "output required"),
    ]
    pos = []
    for rx, what in anchors:
        m = re.search(rx, body)
        if not m:
            errs.append(f"srcfacts: main.rs no longer contains the {what} (pattern {rx!r}); re-transcribe Model/CliPaths.v")
        pos.append(m.start() if m else -1)
    order = [1, 2, 3, 4, 5]   # exists test < sign_file < persist < sidecar block < File::create(sidecar)
    if min(pos) >= 0 and ([pos[i] for i in order] != sorted(pos[i] for i in order) or not (pos[0] < pos[1]) or not (pos[8] < pos[9] < pos[10])):
        errs.append("srcfacts: the order of the output decisions in main.rs changed; re-transcribe Model/CliPaths.v")
    counts = {"remove_file(": 1, "remove_dir_all(": 1, "File::create(": 4, "std::fs::write(": 1, "copy(": 1, "create_dir_all(": 2}
    for k, n in counts.items():
        got = len(re.findall(r"(?<![\w])" + re.escape(k), body))
        if got != n:
            errs.append(f"srcfacts: fn main has {got} calls of {k}..) where the model accounts for {n}")
    # is the sidecar write guarded by an existence/force test?  (true since 5fdfaf69f; F-CLI-SIDECAR fixed)
    g1 = bool(re.search(r"sidecar\w*\.exists\(\)[^;{}]*!\s*args\.force|!\s*args\.force[^;{}]*sidecar\w*\.exists\(\)", body))
    g1b = bool(re.search(r"with_extension\(\"c2pa\"\)\s*\.exists\(\)[^;{}]*!\s*args\.force", body))
    st = common.strip_tests(common.src("sdk/src/store.rs"))
    fb = common.fn_body(st, r"pub\s+fn\s+save_to_bmff_fragmented\s*<", "save_to_bmff_fragmented")
    if not re.search(r"save_jumbf_to_file\(&unsigned_jumbf,\s*init_path,\s*Some\(&output_file\)\)", fb):
        errs.append("srcfacts: save_to_bmff_fragmented no longer writes the init segment with save_jumbf_to_file")
    g2 = bool(re.search(r"output_file\s*\.\s*(exists|try_exists)\(\)", fb))
    bh = common.strip_tests(common.src("sdk/src/assertions/bmff_hash.rs"))
    mb = common.fn_body(bh, r"pub\s+fn\s+add_merkle_for_fragmented\s*\(", "add_merkle_for_fragmented")
    if not re.search(r"\.create_new\(true\)\s*\.write\(true\)\s*\.open\(&dest_path\)", mb):
        errs.append("srcfacts: fragments are no longer written with create_new(true)")
    sg = "true" if (g1 or g1b) else "false"
    fg = "true" if g2 else "false"
    v = ("(* generated from cli/src/main.rs and sdk/src/store.rs on every run — do not edit *)\n"
         f"Definition sidecar_write_guarded : bool := {sg}.\n"
         f"Definition frag_init_guarded : bool := {fg}.\n")
    common.write_if_changed(os.path.join(common.COQ, "Generated", "C32_facts.v"), v)
    ctx.facts = {"sidecar_write_guarded": g1 or g1b, "frag_init_guarded": g2}


# ------------------------------------------------------------------ the predicate cube

def realisable(r):
    if r["remote_ok"]:
        return False
    if r["same"] != "Different" and (r["out"] != "OFile" or not r["ext_match"]):
        return False
    if r["out"] == "ONone" and (not r["ext_match"] or r["sc"] != "SAbsent"):
        return False
    if r["out"] == "ONoParent" and r["sc"] != "SAbsent":
        return False
    if (r["finit"] or r["fseg"]) and not (r["out"] == "ODir" and r["fragment"] == "FGlob" and r["has_manifest"]):
        return False
    return True


def cube():
    out = []
    for vals in itertools.product(*DOMS):
        r = dict(zip(FIELDS, vals))
        if realisable(r):
            out.append(r)
    return out


def coq_rec(r):
    def b(x):
        return "true" if x else "false"
    return "(Build_cli " + " ".join(b(r[f]) if isinstance(r[f], bool) else r[f] for f in FIELDS) + ")"


def corpus():
    p = os.path.join(common.VERIF, "corpus", "C32.jsonl")
    if not os.path.exists(p):
        return []
    return [json.loads(l) for l in open(p) if l.strip()]


# ------------------------------------------------------------------ fixtures / binary

def build_tool():
    rc, out, err, dt = common.sh("cargo build --offline -p c2patool", cwd=common.REPO, timeout=3000)
    if rc != 0 or not os.path.exists(TOOL):
        raise TieBroken("c2patool does not build from the current tree:\n" + err[-2000:])
    return dt


def tool(args, cwd, tmp, timeout=120):
    env = {"HOME": os.path.join(cwd, "home"), "XDG_CONFIG_HOME": os.path.join(cwd, "home", "cfg"), "TMPDIR": tmp,
           "PATH": os.environ.get("PATH", ""), "RUST_BACKTRACE": "0"}
    try:
        p = subprocess.run([TOOL] + args, cwd=cwd, env=env, capture_output=True, text=True, timeout=timeout)
        return p.returncode, p.stdout, p.stderr
    except subprocess.TimeoutExpired:
        return 124, "", "timeout"


def manifest_json():
    s = os.path.join(common.REPO, "cli", "sample")
    return json.dumps({
        "alg": "es256", "private_key": os.path.join(s, "es256_private.key"), "sign_cert": os.path.join(s, "es256_certs.pem"),
        "claim_generator_info": [{"name": "verif", "version": "1"}], "title": "t",
        "assertions": [{"label": "c2pa.actions", "data": {"actions": [
            {"action": "c2pa.created", "digitalSourceType": "http://cv.iptc.org/newscodes/digitalsourcetype/digitalCapture"}]}}]})


def fixtures():
    fx = os.path.join(WORK, "fix")
    shutil.rmtree(WORK, ignore_errors=True)
    os.makedirs(os.path.join(fx, "trust"))
    os.makedirs(os.path.join(WORK, "tmp"))
    sdkfx = os.path.join(common.REPO, "sdk", "tests", "fixtures")
    shutil.copy(os.path.join(sdkfx, "IMG_0003.jpg"), os.path.join(fx, "plain.jpg"))
    shutil.copy(os.path.join(sdkfx, "C.jpg"), os.path.join(fx, "signed.jpg"))
    os.makedirs(os.path.join(fx, "frag", "rend"))
    for n in (INIT, SEG):
        shutil.copy(os.path.join(sdkfx, "bunny", "bunny_89283bps", n), os.path.join(fx, "frag", "rend", n))
    shutil.copy(os.path.join(common.REPO, "cli", "sample", "trust_anchors.pem"), os.path.join(fx, "trust", "c2pa-trust-list.pem"))
    open(os.path.join(fx, "m.json"), "w").write(manifest_json())
    # a signed fragmented rendition (input of the no-manifest modes with the fragment sub-command)
    rc, so, se = tool([os.path.join("frag", "rend", INIT), "-m", "m.json", "-o", "sfrag", "fragment", "--fragments_glob", SEG],
                      fx, os.path.join(WORK, "tmp"))
    if rc != 0 or not os.path.exists(os.path.join(fx, "sfrag", "rend", INIT)):
        raise TieBroken("fixture: c2patool cannot sign the fragmented fixture: " + se[-400:])
    return fx


def snapshot(root):
    snap = {}
    for d, dirs, files in os.walk(root):
        for n in list(dirs) + files:
            p = os.path.join(d, n)
            rel = os.path.relpath(p, root)
            st = os.lstat(p)
            if os.path.islink(p):
                snap[rel] = ["l", os.readlink(p)]
            elif os.path.isdir(p):
                snap[rel] = ["d"]
            else:
                snap[rel] = ["f", hashlib.sha256(open(p, "rb").read()).hexdigest()[:16], st.st_mtime_ns, st.st_ino]
    return snap


def put(path, content):
    os.makedirs(os.path.dirname(path), exist_ok=True)
    with open(path, "w") as f:
        f.write(content)
    os.utime(path, (OLD_T, OLD_T))


def materialise(r, w, fx):
    """build the directory state of record r under w; returns (argv, paths) — paths maps the model's abstract paths
    to paths relative to w"""
    frag = r["fragment"] != "FNone"
    os.makedirs(os.path.join(w, "src", "rend"))
    os.makedirs(os.path.join(w, "o"))
    if frag:
        sdir = os.path.join(fx, "frag" if r["has_manifest"] else "sfrag", "rend")
        for n in (INIT, SEG):
            shutil.copy(os.path.join(sdir, n), os.path.join(w, "src", "rend", n))
            os.utime(os.path.join(w, "src", "rend", n), (OLD_T, OLD_T))
        inp, ext = os.path.join("src", "rend", INIT), ".mp4"
    else:
        inp, ext = os.path.join("src", "rend", "in.jpg"), ".jpg"
        shutil.copy(os.path.join(fx, "plain.jpg" if r["has_manifest"] else "signed.jpg"), os.path.join(w, inp))
        os.utime(os.path.join(w, inp), (OLD_T, OLD_T))
    shutil.copy(os.path.join(fx, "m.json"), os.path.join(w, "m.json"))
    os.utime(os.path.join(w, "m.json"), (OLD_T, OLD_T))
    out = None
    if r["out"] != "ONone":
        name = "out" + (ext if r["ext_match"] else ".png")
        if r["same"] == "Same":
            out = inp
        elif r["same"] == "Alias":
            out = os.path.join("src", "rend", "..", "rend", os.path.basename(inp))   # PathBuf != input, same file
        elif r["out"] == "ONoParent":
            out = os.path.join("np", "deep", name)
        else:
            out = os.path.join("o", name)
        if r["same"] == "Different":
            if r["out"] == "OFile":
                put(os.path.join(w, out), "OLD-OUTPUT")
            elif r["out"] == "ODir":
                put(os.path.join(w, out, "keep.txt"), "KEEP")
                # files of an earlier run, named like the ones the folder modes write
                for n in ("ingredient.json", "manifest_store.json", "manifest_data.c2pa", "detailed.json"):
                    put(os.path.join(w, out, n), "OLD-" + n)
                if r["finit"]:
                    put(os.path.join(w, out, "rend", INIT), "OLD-INIT")
                if r["fseg"]:
                    put(os.path.join(w, out, "rend", SEG), "OLD-SEG")
    paths = {"PIn": inp}
    if out is not None:
        no = os.path.normpath(out)
        sc = os.path.splitext(no)[0] + ".c2pa"
        paths.update({"POut": no, "POutParent": os.path.dirname(no), "PSidecar": sc, "PFragDir": os.path.join(no, "rend"),
                      "PFragSeg": os.path.join(no, "rend", SEG), "PFragInit": os.path.join(no, "rend", INIT)})
        if r["sc"] == "SFile":
            put(os.path.join(w, sc), "OLD-SIDECAR")
        elif r["sc"] == "SDir":
            put(os.path.join(w, sc, "keep.txt"), "KEEP")
    argv = [inp]
    if r["has_manifest"]:
        argv += ["-m", "m.json"]
    if out is not None:
        argv += ["-o", out]
    if r["force"]:
        argv.append("-f")
    if r["sidecar"]:
        argv.append("--sidecar")
    if r["remote"]:
        argv += ["--remote", "http://127.0.0.1:9/none.c2pa"]
    if r["ingredient"]:
        argv.append("--ingredient")
    if r["early"]:
        argv.append("--info")
    if r["fragment"] == "FNoGlob":
        argv.append("fragment")
    elif r["fragment"] == "FGlob":
        argv += ["fragment", "--fragments_glob", SEG]
    return argv, paths


def touched(a, b):
    return a != b


def run_case(c, fx):
    r = c["rec"]
    w = os.path.join(WORK, "run", str(c["id"]))
    tmp = os.path.join(WORK, "tmp", str(c["id"]))
    shutil.rmtree(w, ignore_errors=True)
    os.makedirs(w)
    os.makedirs(tmp, exist_ok=True)
    argv, paths = materialise(r, w, fx)
    before = snapshot(w)
    rc, so, se = tool(argv, w, tmp)
    after = snapshot(w)
    res = {"id": c["id"], "argv": argv, "rc": rc, "paths": paths, "before": before, "after": after,
           "stderr": se.strip().splitlines()[0][:200] if se.strip() else "", "readback": None}
    m = re.search(r'"validation_state":\s*"(\w+)"', so)
    res["reported"] = m.group(1) if m else None
    # read back what was reported as signed
    if rc == 0 and r["has_manifest"] and not r["early"] and "POut" in paths:
        sett = os.path.join(fx, "trust", "c2pa.toml")
        if r["fragment"] == "FGlob":
            a = ["--settings", sett, paths["PFragInit"], "fragment", "--fragments_glob", SEG]
        else:
            a = ["--settings", sett, paths["POut"]]
        rc2, so2, se2 = tool(a, w, tmp)
        m2 = re.search(r'"validation_state":\s*"(\w+)"', so2)
        res["readback"] = {"rc": rc2, "state": m2.group(1) if m2 else None, "err": (se2.strip().splitlines() or [""])[0][:200]}
    shutil.rmtree(w, ignore_errors=True)
    shutil.rmtree(tmp, ignore_errors=True)
    return res


# ------------------------------------------------------------------ model effects -> predicted snapshot

def predict(before, effects, paths):
    """apply the model's effect list to the before-snapshot.  Values: ['d'] | ['f', ...before entry] | ['f','NEW'] ; plus a set
    of directories that may receive arbitrary new children"""
    st = {k: list(v) for k, v in before.items()}
    wild = set()

    def mkdir(p):
        parts = p.split(os.sep)
        for i in range(1, len(parts) + 1):
            st.setdefault(os.sep.join(parts[:i]), ["d"])
    for e in effects:
        if isinstance(e, str):
            continue
        k, ap = e
        if ap == "POutChild":
            if k == "Write":
                wild.add(paths["POut"])
            continue
        p = paths[ap]
        if k == "Remove":
            st.pop(p, None)
        elif k == "Write":
            st[p] = ["f", "NEW"]
        elif k == "RemoveTree":
            for q in [q for q in st if q == p or q.startswith(p + os.sep)]:
                del st[q]
        elif k == "Mkdir":
            mkdir(p)
    return st, wild


def compare(pred, wild, before, after):
    diffs = []
    for p in sorted(set(pred) | set(after)):
        if any(p.startswith(wd + os.sep) for wd in wild) and p not in pred:
            continue
        a, b = pred.get(p), after.get(p)
        if a is None or b is None:
            diffs.append(f"{p}: model {'absent' if a is None else a[0]} / tool {'absent' if b is None else b[0]}")
        elif a[0] != b[0]:
            diffs.append(f"{p}: model {a[0]} / tool {b[0]}")
        elif a[0] == "f":
            if a[1] == "NEW":
                if p in before and before[p] == b:
                    diffs.append(f"{p}: model writes it / tool left it untouched")
            elif a != b:
                diffs.append(f"{p}: model leaves it untouched / tool wrote it")
        elif a != b:
            diffs.append(f"{p}: {a} / {b}")
    for wd in wild:
        if not any(p.startswith(wd + os.sep) for p in after):
            diffs.append(f"{wd}: model writes children / tool wrote none")
    return diffs


def norm_effects(t):
    out = []
    for e in (t if isinstance(t, list) else [t]):
        out.append(e if isinstance(e, str) else (e[0], e[1]))
    return out


# ------------------------------------------------------------------ evaluation

def matcher_input(r, res, clobbered):
    p = res["paths"]
    roles = []
    for q in clobbered:
        if q == p.get("PSidecar"):
            roles.append("sidecar")
        elif q == p.get("PFragInit"):
            roles.append("frag_init")
        elif q == p.get("POut"):
            roles.append("output")
        elif q == p.get("PIn"):
            roles.append("input")
        else:
            roles.append("other:" + q)
    d = dict(r)
    d["clobbered"] = sorted(set(roles))
    d["argv"] = res["argv"]
    return d


def evaluate(ctx, cases, with_model=True):
    fx = fixtures()
    t0 = time.time()
    with ThreadPoolExecutor(max_workers=16) as ex:
        results = list(ex.map(lambda c: run_case(c, fx), cases))
    ctx.coverage["tool_runs_wall_s"] = round(time.time() - t0, 1)
    model = None
    if with_model:
        model = common.coq_eval("C32", "From C2PA Require Import Model.CliPaths.\nFrom Coq Require Import List.\nImport ListNotations.",
                                [f"decide {coq_rec(c['rec'])}" for c in cases], shard_size=400)
    stats = {"rc0": 0, "refused_or_failed": 0, "signed_and_read_back": 0, "force": 0, "existing_target": 0,
             "by_mode": {}, "clobber_checks": 0}
    distinct = set()
    for i, (c, res) in enumerate(zip(cases, results)):
        r = c["rec"]
        case = {"rec": r, "argv": res["argv"]}
        before, after = res["before"], res["after"]
        mode = ("early" if r["early"] else ("manifest-" + r["fragment"]) if r["has_manifest"] else ("folder" if r["out"] != "ONone" else "read-only"))
        stats["by_mode"][mode] = stats["by_mode"].get(mode, 0) + 1
        stats["rc0" if res["rc"] == 0 else "refused_or_failed"] += 1
        stats["force"] += 1 if r["force"] else 0
        if r["out"] in ("OFile", "ODir") or r["sc"] != "SAbsent":
            stats["existing_target"] += 1
            distinct.add(tuple(r[f] for f in FIELDS))
        if res["rc"] == 124:
            ctx.report_violation(case, "c2patool timed out", matcher_input(r, res, []))
            continue
        # ---- oracle 1 (property text): without force nothing that existed is modified, replaced or deleted
        clob = []
        for p, b in before.items():
            a = after.get(p)
            if a is None or a[0] != b[0] or (b[0] != "d" and touched(a, b)):
                clob.append(p)
        stats["clobber_checks"] += len(before)
        if clob and not r["force"]:
            what = ", ".join(f"{p} ({'deleted' if p not in after else 'modified'})" for p in clob[:4])
            ctx.report_violation(case, f"without --force c2patool changed existing {what}; exit code {res['rc']}",
                                 matcher_input(r, res, clob))
        # ---- oracle 2: every file reported as signed reads back Valid
        if res["readback"] is not None:
            stats["signed_and_read_back"] += 1
            rb = res["readback"]
            if rb["state"] not in ("Valid", "Trusted"):
                ctx.report_violation(case, f"c2patool exited 0 after signing but the output reads back as {rb['state']} (rc {rb['rc']}: {rb['err']})",
                                     matcher_input(r, res, []))
            if res["reported"] not in ("Valid", "Trusted") and r["fragment"] == "FNone":
                ctx.report_violation(case, f"c2patool exited 0 but its own report says validation_state={res['reported']}",
                                     matcher_input(r, res, []))
        # ---- correspondence
        if model is not None:
            eff = norm_effects(model[i])
            pred, wild = predict(before, eff, res["paths"])
            diffs = compare(pred, wild, before, after)
            ok_model = eff[-1] == "Report"
            if eff != ["Report"] and ok_model != (res["rc"] == 0):
                diffs.append(f"exit code {res['rc']} ({res['stderr']}) but the model ends with {eff[-1]}")
            if diffs:
                ctx.disagreements.append({"case": case, "impl": diffs[:6], "model": [list(e) if not isinstance(e, str) else e for e in eff]})
    return stats, len(distinct)


def pick_cases(ctx):
    full = cube()
    ctx.coverage["cube_size"] = len(full)
    cor = corpus()
    if ctx.quick():
        # the complete cube over the decision-relevant predicates with remote/early/ingredient at their defaults,
        # plus a seeded sample of the rest
        def is_core(r):
            return (not r["remote"] and not r["early"] and r["fragment"] != "FNoGlob"
                    and (not r["ingredient"] or (not r["has_manifest"] and not r["sidecar"] and r["fragment"] == "FNone")))
        core = [r for r in full if is_core(r)]
        rest = [r for r in full if not is_core(r)]
        pick = core + ctx.rng.sample(rest, min(len(rest), 120))
    else:
        pick = full
    seen = set()
    cases = []
    for r in [c["rec"] for c in cor] + pick:
        k = tuple(r[f] for f in FIELDS)
        if k in seen:
            continue
        seen.add(k)
        cases.append({"rec": r})
    return cases, len(full)


def run(ctx):
    if not getattr(ctx, "no_build", False):
        ctx.coverage["c2patool_build_s"] = round(build_tool(), 1)
    if ctx.replay:
        cases = [{"rec": ctx.replay["case"]["rec"]}] if "case" in ctx.replay else [{"rec": d["case"]["rec"]} for d in ctx.replay.get("disagreements", [])]
        full = None
    else:
        cases, full = pick_cases(ctx)
    for i, c in enumerate(cases):
        c["id"] = i
    stats, distinct = evaluate(ctx, cases)
    # the python cube and the Coq cube are the same set
    n = common.coq_eval("C32", "From C2PA Require Import Model.CliPaths.\nFrom Coq Require Import List NArith.",
                        ["N.of_nat (length (filter realisable all_cli))", "N.of_nat (length all_cli)"])
    if full is not None and n[0] != full:
        raise TieBroken(f"python cube has {full} realisable records, Coq has {n[0]}")
    ctx.coverage.update({
        "evaluations": len(cases), "distinct_nontrivial": distinct,
        "rule": "realisable records of the predicate cube (complete in the thorough tier; in the quick tier complete for "
                "remote=early=false, fragment<>FNoGlob, ingredient only in the folder modes, plus a seeded sample of 120 others), corpus first; non-trivial = some target "
                "(output or sidecar) exists before the run; distinct by record",
        "domain_size": n[1], "realisable": n[0],
        "distribution": stats,
        "samples": [{"argv": " ".join(materialise_preview(c["rec"])), "rec": {k: v for k, v in c["rec"].items() if v not in (False, "Different", "SAbsent", "FNone")}}
                    for c in cases[:2] + cases[len(cases) // 2: len(cases) // 2 + 2]],
    })


def materialise_preview(r):
    a = ["c2patool", "<in>"]
    if r["has_manifest"]:
        a += ["-m", "m.json"]
    if r["out"] != "ONone":
        a += ["-o", "<out:%s%s>" % (r["out"], "" if r["same"] == "Different" else "," + r["same"])]
    for f, s in (("force", "-f"), ("sidecar", "--sidecar"), ("remote", "--remote URL"), ("ingredient", "--ingredient"), ("early", "--info")):
        if r[f]:
            a.append(s)
    if r["fragment"] != "FNone":
        a.append("fragment" + (" --fragments_glob G" if r["fragment"] == "FGlob" else ""))
    return a


def search(ctx):
    """tie broken and nothing found yet: the complete cube, oracle only"""
    build_tool()
    cases = [{"rec": r} for r in cube()]
    for i, c in enumerate(cases):
        c["id"] = i
    evaluate(ctx, cases, with_model=False)
    ctx.coverage["search_evaluations"] = len(cases)
