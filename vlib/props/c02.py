"""C02 — tamper evidence: manifest store bytes cannot change undetected."""
import hashlib, json, os, re, struct
from .. import common
from ..common import TieBroken, coq_list
from .c01 import tiny_jpeg

PROP_FILE = "Properties/C02.v"
TRUSTED = ["JUMBF / CBOR / COSE / X.509 parsing is outside the Coq model (the run flips every byte of real stores instead)",
           "the SDK hashes re-serialised boxes (calc_assertion_box_hash, build_manifest_box): the model's box contents are the parsed "
           "contents; bytes that parse to the same content are covered by the oracle only (report must not change)",
           "abstract store of the run: python JUMBF walker + minimal CBOR reader; digests replaced by tokens (identity digest)",
           "JSON report compared through a 64-bit FNV digest of Reader::json() minus validation time"]
ASSUMPTIONS = ["stores built by the SDK itself (ed25519 test certificate, claim v2, no time stamp, no redactions, no compressed manifests)",
               "carriers: JPEG APP11 (single segment) and sidecar .c2pa read with the asset"]
GOOD = ("Valid", "Trusted")
ROLLBACK = ("drop_active_manifest", "swap_manifests")
UNMODELLED = ("extra_box_in_store", "trailing_free_box", "trailing_bytes")      # boxes the abstract view does not represent


# ------------------------------------------------------------------ facts

def facts(ctx):
    st = common.strip_tests(common.src("sdk/src/store.rs"))
    m = common.fact(r"const\s+MAX_INGREDIENT_DEPTH\s*:\s*usize\s*=\s*([^;]+);", st, "MAX_INGREDIENT_DEPTH")
    depth = common.rust_int(m.group(1))
    ic = common.fn_body(st, r"fn\s+ingredient_checks\s*\(", "Store::ingredient_checks")
    for needle, what in [("vec_compare(&c2pa_manifest.hash(), &ingredient_hashes.manifest_box_hash)", "manifest box hash test"),
                         ("verify_by_alg(&alg, &c2pa_manifest.hash(), &ingredient.data()?, None)", "legacy claim hash test"),
                         ("&ingredient_hashes.signature_box_hash", "claimSignature hash test"),
                         ("if depth >= MAX_INGREDIENT_DEPTH", "depth limit"), ("visited.insert(ingredient.label().to_owned())", "visited set"),
                         ("INGREDIENT_MANIFEST_MISSING", "missing ingredient manifest")]:
        if needle not in ic:
            raise TieBroken(f"srcfacts: ingredient_checks changed ({what}): Model/StoreIntegrity.v is out of date")
    cl = common.strip_tests(common.src("sdk/src/claim.rs"))
    vi = common.fn_body(cl, r"fn\s+verify_internal\s*\(", "Claim::verify_internal")
    for needle, what in [("vec_compare(ca.hash(), &assertion.hash())", "hashed-URI re-hash"), ("ca_tracking_list.swap_remove(index)", "tracking list"),
                         ("if !ca_tracking_list.is_empty()", "undeclared assertions"), ("ASSERTION_MISSING", "missing assertion"),
                         ("svi.redactions.iter().any(", "redaction skip"), ("if !vi.validated", "signature verdict")]:
        if needle not in vi:
            raise TieBroken(f"srcfacts: verify_internal changed ({what}): Model/StoreIntegrity.v is out of date")
    v = ("(* generated from sdk/src/store.rs on every run — do not edit *)\n"
         f"Definition max_ingredient_depth : nat := {depth}.\n")
    common.write_if_changed(os.path.join(common.COQ, "Generated", "C02_facts.v"), v)
    ctx.facts = {"MAX_INGREDIENT_DEPTH": depth}


# ------------------------------------------------------------------ JUMBF walker and minimal CBOR reader

def cbor(b, p=0):
    """returns (value, next) — enough of RFC 8949 for claims and ingredient assertions"""
    ib = b[p]; mt, ai = ib >> 5, ib & 31; p += 1
    if ai < 24: n = ai
    elif ai == 24: n = b[p]; p += 1
    elif ai == 25: n = struct.unpack(">H", b[p:p + 2])[0]; p += 2
    elif ai == 26: n = struct.unpack(">I", b[p:p + 4])[0]; p += 4
    elif ai == 27: n = struct.unpack(">Q", b[p:p + 8])[0]; p += 8
    elif ai == 31: n = None
    else: raise ValueError("cbor ai")
    if mt == 0: return n, p
    if mt == 1: return -1 - n, p
    if mt in (2, 3):
        if n is None:
            out = b""
            while b[p] != 0xFF:
                x, p = cbor(b, p); out += x if isinstance(x, bytes) else x.encode()
            return (out if mt == 2 else out.decode("utf8", "replace")), p + 1
        x = bytes(b[p:p + n])
        if len(x) != n: raise ValueError("cbor short")
        return (x if mt == 2 else x.decode("utf8", "replace")), p + n
    if mt == 4:
        out = []
        if n is None:
            while b[p] != 0xFF:
                x, p = cbor(b, p); out.append(x)
            return out, p + 1
        for _ in range(n):
            x, p = cbor(b, p); out.append(x)
        return out, p
    if mt == 5:
        out = {}
        if n is None:
            while b[p] != 0xFF:
                k, p = cbor(b, p); x, p = cbor(b, p); out[k if not isinstance(k, (list, dict)) else str(k)] = x
            return out, p + 1
        for _ in range(n):
            k, p = cbor(b, p); x, p = cbor(b, p); out[k if not isinstance(k, (list, dict)) else str(k)] = x
        return out, p
    if mt == 6:
        return cbor(b, p)
    if ai == 25: return ("f16", n), p
    if ai == 26: return struct.unpack(">f", struct.pack(">I", n))[0], p
    if ai == 27: return struct.unpack(">d", struct.pack(">Q", n))[0], p
    return {20: False, 21: True, 22: None, 23: None}.get(ai, ("simple", n)), p


class Box:
    __slots__ = ("typ", "start", "hdr", "end", "label", "kids", "parent", "desc")

    def __init__(self, typ, start, hdr, end, parent):
        self.typ, self.start, self.hdr, self.end, self.parent = typ, start, hdr, end, parent
        self.label, self.kids, self.desc = None, [], None


def walk(buf, start, end, parent=None):
    out, p = [], start
    while p + 8 <= end:
        l, t = struct.unpack(">I4s", buf[p:p + 8]); hdr = 8
        if l == 1 and p + 16 <= end:
            l = struct.unpack(">Q", buf[p + 8:p + 16])[0]; hdr = 16
        elif l == 0:
            l = end - p
        if l < hdr or p + l > end:
            break
        b = Box(t, p, hdr, p + l, parent)
        if t == b"jumb":
            b.kids = walk(buf, p + hdr, p + l, b)
            if b.kids and b.kids[0].typ == b"jumd":
                d = b.kids[0]; b.desc = d
                body = buf[d.start + d.hdr:d.end]
                if len(body) >= 17 and body[16] & 2:
                    z = body.find(b"\0", 17)
                    b.label = body[17:z if z >= 0 else len(body)].decode("utf8", "replace")
        out.append(b); p += l
    return out


def path_of(b):
    out = []
    while b is not None:
        if b.typ == b"jumb":
            out.append(b.label or "?")
        b = b.parent
    return "/".join(reversed(out))


class StoreView:
    """abstract view of a serialised manifest store: manifests with claim bytes, signature bytes, assertion boxes"""

    def __init__(self, buf):
        self.buf = buf
        top = walk(buf, 0, len(buf))
        if len(top) != 1 or top[0].typ != b"jumb":
            raise TieBroken("store is not a single JUMBF superbox")
        self.top = top[0]
        self.manifests = []
        for mb in self.top.kids[1:]:
            if mb.typ != b"jumb":
                continue
            m = {"box": mb, "label": mb.label, "assertions": [], "claim": None, "sig": None, "other": []}
            for k in mb.kids[1:]:
                if k.typ == b"jumb" and k.label == "c2pa.assertions":
                    m["assertions"] = [a for a in k.kids[1:] if a.typ == b"jumb"]
                    m["astore"] = k
                elif k.typ == b"jumb" and (k.label or "").startswith("c2pa.claim"):
                    m["claim"] = k
                elif k.typ == b"jumb" and k.label == "c2pa.signature":
                    m["sig"] = k
                else:
                    m["other"].append(k)
            self.manifests.append(m)

    def content(self, sb):
        """payload of the first content box of a superbox"""
        c = sb.kids[1]
        return bytes(self.buf[c.start + c.hdr:c.end])

    def all_boxes(self):
        out, st = [], [self.top]
        while st:
            b = st.pop(); out.append(b); st.extend(b.kids)
        return out

    def innermost(self, q):
        b, found = self.top, None
        if not (b.start <= q < b.end):
            return None
        while True:
            found = b
            nxt = next((k for k in b.kids if k.start <= q < k.end), None)
            if nxt is None:
                return found
            b = nxt

    def classify(self, q):
        """(manifest index | None, field class, path)"""
        b = self.innermost(q)
        if b is None:
            return None, "outside", ""
        mi = None
        for i, m in enumerate(self.manifests):
            if m["box"].start <= q < m["box"].end:
                mi = i
        part = "header" if q < b.start + b.hdr else ("desc" if b.typ == b"jumd" else "payload")
        if b.typ == b"jumb":
            part = "header" if q < b.start + b.hdr else "gap"
        anc, kind = b, "other"
        while anc is not None:
            if anc.typ == b"jumb":
                if mi is not None and anc in self.manifests[mi]["assertions"]:
                    kind = "assertion"; break
                if mi is not None and anc is self.manifests[mi]["claim"]:
                    kind = "claim"; break
                if mi is not None and anc is self.manifests[mi]["sig"]:
                    kind = "signature"; break
                if mi is not None and anc is self.manifests[mi].get("astore"):
                    kind = "assertion_store"; break
                if mi is not None and anc is self.manifests[mi]["box"]:
                    kind = "manifest"; break
            anc = anc.parent
        else:
            kind = "store"
        return mi, f"{kind}.{part}", path_of(b)


# ------------------------------------------------------------------ abstract model instance (tokens)

class Tokens:
    def __init__(self):
        self.t = {}

    def of(self, b):
        if b not in self.t:
            self.t[b] = len(self.t) + 1
        return self.t[b]


def abstract(view, tok, labels):
    """[(label id, claim token, sig token, [(assertion label id, data token, raw assertion box)], claim bytes)]"""
    out = []
    for m in view.manifests:
        if m["claim"] is None or m["sig"] is None:
            raise TieBroken("manifest without claim or signature box")
        cb, sb = view.content(m["claim"]), view.content(m["sig"])
        boxes = []
        for a in m["assertions"]:
            data = bytes(view.buf[a.start + 8:a.end])
            boxes.append((labels.of(a.label), tok.of(data), a, data))
        out.append({"label": labels.of(m["label"]), "name": m["label"], "claim": cb, "ct": tok.of(cb), "st": tok.of(sb), "boxes": boxes})
    return out


def refs_of_claim(cb):
    c, _ = cbor(cb)
    refs = []
    for key in ("created_assertions", "gathered_assertions", "assertions"):
        for r in c.get(key, []) or []:
            refs.append((r["url"].split("/")[-1], bytes(r["hash"])))
    return refs, c


def coq_manifest(m, repl=None):
    """repl: {('claim'|'sig'|('box', i)): token}"""
    repl = repl or {}
    ct = repl.get("claim", m["ct"]); st = repl.get("sig", m["st"])
    bx = coq_list([f"AB {l} [{repl.get(('box', i), t)}]" for i, (l, t, _, _) in enumerate(m["boxes"])])
    return f"MF {m['label']} [{ct}] [{st}] {bx} true"


def build_model(view, name):
    """prelude defining the token instance of H / Hm / Verify / claim_refs / ingredient_of for this store"""
    tok, labels = Tokens(), Tokens()
    ms = abstract(view, tok, labels)
    reftab, ingtab = [], []
    for m in ms:
        refs, claim = refs_of_claim(m["claim"])
        by_label = {view_label: (l, t, a, data) for (l, t, a, data), view_label in zip(m["boxes"], [a.label for _, _, a, _ in m["boxes"]])}
        rl = []
        for lab, h in refs:
            if lab not in by_label:
                raise TieBroken(f"{name}: claim lists assertion {lab} that is not in the assertion store")
            l, t, a, data = by_label[lab]
            # tie the token digest to the real one: the hashed URI is sha256 of the assertion superbox contents
            if hashlib.sha256(data).digest() != h:
                raise TieBroken(f"{name}: hashed URI of {lab} is not sha256 of the assertion box contents")
            rl.append(f"({l}, [{t}])")
        reftab.append(f"([{m['ct']}], {coq_list(rl)})")
        m["refs"] = refs
    # ingredient links: c2pa.ingredient* assertions with an activeManifest / c2pa_manifest hashed URI
    for m in ms:
        for (l, t, a, data) in m["boxes"]:
            if not (a.label or "").startswith("c2pa.ingredient"):
                continue
            body, _ = cbor(view.content(a))
            hu = body.get("activeManifest") or body.get("c2pa_manifest") or body.get("active_manifest")
            if not hu:
                continue
            target = hu["url"].split("/")[-1]
            tm = next((x for x in ms if x["name"] == target), None)
            if tm is None:
                raise TieBroken(f"{name}: ingredient target {target} not in the store")
            mb = next(x["box"] for x in view.manifests if x["label"] == target)
            if hashlib.sha256(bytes(view.buf[mb.start + 8:mb.end])).digest() != bytes(hu["hash"]):
                raise TieBroken(f"{name}: ingredient manifest hash is not sha256 of the manifest superbox contents")
            ingtab.append(f"(({l}, [{t}]), ({tm['label']}, {coq_manifest(tm)}))")
            m.setdefault("ings", []).append((l, tm["label"]))
    pairs = coq_list([f"([{m['ct']}], [{m['st']}])" for m in ms])
    prelude = f"""From C2PA Require Import Base.Bytes Model.Bind Model.StoreIntegrity.
From Coq Require Import NArith List Bool.
Import ListNotations.
Open Scope N_scope.
Definition hid (x : bytes) : bytes := x.
Definition hm (m : manifest) : bytes :=
  m_label m :: m_claim m ++ 0 :: m_sig m ++ 0 :: flat_map (fun b => a_label b :: a_data b ++ [0]) (m_boxes m).
Definition pairs : list (bytes * bytes) := {pairs}.
Definition verify (c g : bytes) : bool := existsb (fun p => vec_compare (fst p) c && vec_compare (snd p) g) pairs.
Definition reftab : list (bytes * list (N * bytes)) := {coq_list(reftab)}.
Definition refs (c : bytes) : list (N * bytes) :=
  match find (fun p => vec_compare (fst p) c) reftab with Some p => snd p | None => [] end.
Definition reds (_ : bytes) : list (N * N) := [].
Definition ingtab : list ((N * bytes) * (N * manifest)) := {coq_list(ingtab)}.
Definition ingof (l : N) (d : bytes) : ing :=
  match find (fun p => (fst (fst p) =? l) && vec_compare (snd (fst p)) d) ingtab with
  | Some p => IngRef (fst (snd p)) (hm (snd (snd p))) None
  | None => IngNone
  end.
Definition run (s : list manifest) : bool := validate_store hid hm verify refs reds ingof 200 s.
"""
    return prelude, ms, tok, labels


# ------------------------------------------------------------------ structure edits (serialised here, sidecar carrier)

def _raw(view, b):
    return bytes(view.buf[b.start:b.end])


def _sup(children):
    body = b"".join(children)
    return struct.pack(">I4s", 8 + len(body), b"jumb") + body


def _manifest(view, m, assertions=None, kid_order=None):
    kids = []
    for k in m["box"].kids:
        if assertions is not None and k is m.get("astore"):
            kids.append(_sup([_raw(view, k.kids[0])] + assertions))
        else:
            kids.append(_raw(view, k))
    if kid_order:
        kids = [kids[0]] + [kids[i] for i in kid_order]
    return _sup(kids)


def unsigned_twins(view, a):
    """copies of assertion superbox a with one payload byte changed so that the box still parses: a letter inside a
    run of letters (text strings of CBOR/JSON payloads), or any byte of a binary data box"""
    raw = bytearray(_raw(view, a))
    out = []
    for k in a.kids[1:]:
        lo, hi = k.start + k.hdr - a.start, k.end - a.start
        if k.typ == b"bidb":
            cand = [lo + (hi - lo) // 2]
        elif k.typ in (b"cbor", b"json"):
            cand = [i for i in range(lo + 2, hi - 2) if all(97 <= raw[j] <= 122 for j in (i - 2, i - 1, i, i + 1, i + 2))]
            cand = cand[::max(1, len(cand) // 3)][:3]
        else:
            cand = []
        for i in cand:
            t = bytearray(raw)
            t[i] = 122 if t[i] != 122 else 121
            out.append(bytes(t))
    return out[:3]


def structure_edits(view):
    """JUMBF-level edits: (name, new store bytes)"""
    desc = _raw(view, view.top.kids[0])
    mans = [_raw(view, m["box"]) for m in view.manifests]
    am = view.manifests[-1]
    ab = [_raw(view, a) for a in am["assertions"]]
    out = []

    def store(ms, tail=b""):
        return _sup([desc] + ms) + tail
    if len(ab) >= 2:
        out.append(("swap_assertions", store(mans[:-1] + [_manifest(view, am, [ab[1], ab[0]] + ab[2:])])))
        out.append(("rotate_assertions", store(mans[:-1] + [_manifest(view, am, ab[1:] + ab[:1])])))
    for i in range(len(ab)):
        out.append((f"dup_assertion_{i}", store(mans[:-1] + [_manifest(view, am, ab + [ab[i]])])))
        out.append((f"drop_assertion_{i}", store(mans[:-1] + [_manifest(view, am, ab[:i] + ab[i + 1:])])))
    # a second box under an already declared label whose payload was never signed: after and before the original
    for mi_, m_ in enumerate(view.manifests):
        mab = [_raw(view, a) for a in m_["assertions"]]
        for i, a in enumerate(m_["assertions"]):
            for vi, twin in enumerate(unsigned_twins(view, a)):
                for where in ("after", "before"):
                    boxes = mab + [twin] if where == "after" else mab[:i] + [twin] + mab[i:]
                    newm = _manifest(view, m_, boxes)
                    out.append((f"twin_{where}_m{mi_}_a{i}_v{vi}", store(mans[:mi_] + [newm] + mans[mi_ + 1:])))
    nk = len(am["box"].kids) - 1
    if nk >= 2:
        out.append(("reverse_manifest_children", store(mans[:-1] + [_manifest(view, am, kid_order=list(range(nk, 0, -1)))])))
    out.append(("dup_active_manifest", store(mans + [mans[-1]])))
    out.append(("trailing_free_box", store(mans, b"\x00\x00\x00\x08free")))
    out.append(("trailing_bytes", store(mans, b"\x00" * 7)))
    out.append(("extra_box_in_store", store(mans + [b"\x00\x00\x00\x0cfree\x00\x00\x00\x00"])))
    if len(mans) >= 2:
        out.append(("swap_manifests", store([mans[1], mans[0]] + mans[2:])))
        out.append(("drop_active_manifest", store(mans[:-1])))
        out.append(("drop_parent_manifest", store(mans[1:])))
        out.append(("dup_parent_manifest", store([mans[0]] + mans)))
        pm = view.manifests[0]
        pab = [_raw(view, a) for a in pm["assertions"]]
        if len(pab) >= 2:
            out.append(("swap_parent_assertions", store([_manifest(view, pm, [pab[1], pab[0]] + pab[2:])] + mans[1:])))
            out.append(("dup_parent_assertion", store([_manifest(view, pm, pab + [pab[0]])] + mans[1:])))
    return out


# ------------------------------------------------------------------ run

def store_recipes():
    src = "hex:" + tiny_jpeg().hex()
    return [{"name": "single", "shape": "single", "src": src}, {"name": "parent", "shape": "parent", "src": src},
            {"name": "thumbs", "shape": "thumbs", "src": src}]


def corpus():
    p = os.path.join(common.VERIF, "corpus", "C02.jsonl")
    return [json.loads(l) for l in open(p) if l.strip()] if os.path.exists(p) else []


def small_box(b):
    """boxes whose every byte is worth a case-bit flip: description boxes and embedded-file description boxes"""
    return b.typ in (b"jumd", b"bfdb")


def gen_positions(view, rng, quick, budget=560, light=False):
    """[(position, bits)]; light: one bit per ordinary byte (second carrier of the same store in the thorough tier)"""
    n = len(view.buf)
    if not quick:
        small = set()
        for b in view.all_boxes():
            if small_box(b):
                small.update(range(b.start, b.end))
        return [(q, (0, 1, 2, 3, 4, 5, 6, 7) if q in small else ((0,) if light else (0, 5, 7))) for q in range(n)]
    must, bounds = {}, set()
    for b in view.all_boxes():
        for x in (b.start, b.start + 3, b.start + 4, b.start + 7, b.start + b.hdr, b.end - 1):
            for d in (-1, 0, 1):
                if 0 <= x + d < n:
                    bounds.add(x + d)
        if b.typ == b"bfdb":                       # toggles + media type (+ file name): every byte, incl. the case bit
            for x in range(b.start + b.hdr, b.end):
                must[x] = (0, 5, 7)
        elif b.typ == b"jumd":                     # type UUID, toggles, first label bytes; a few more label bytes with the case bit
            for x in range(b.start + b.hdr, min(b.end, b.start + b.hdr + 20)):
                bounds.add(x)
            for x in rng.sample(range(b.start + b.hdr + 17, b.end), min(3, max(0, b.end - b.start - b.hdr - 17))):
                must[x] = (0, 5, 7)
        elif not b.kids and b.end - b.start - b.hdr > 0:   # a few positions inside every leaf box of every kind
            for x in rng.sample(range(b.start + b.hdr, b.end), min(3, b.end - b.start - b.hdr)):
                must.setdefault(x, (0, 5))
    pos = dict(must)
    for x in rng.sample(sorted(bounds), min(len(bounds), 260)):
        pos.setdefault(x, (0, 7))
    while len(pos) < min(budget, n):
        pos.setdefault(rng.randrange(n), (0, 7))
    return sorted(pos.items())


def run(ctx):
    _run(ctx, ctx.quick(), 560, True)


def search(ctx):
    """tie broken and nothing found yet: denser positions on every store, all structure edits, oracle only"""
    n0 = len(ctx.violations)
    _run(ctx, True, 2500, False)
    ctx.coverage["search_evaluations"] = ctx.coverage.get("evaluations", 0)


def _run(ctx, quick, budget, with_model):
    if not getattr(ctx, "no_build", False):
        common.build_harness()
    recipes = store_recipes()
    prep_cases = [{"id": i, "op": "prepare", "fresh": True, "store": r} for i, r in enumerate(recipes)]
    prep = common.run_harness("c02", prep_cases, jobs=len(prep_cases))
    stores = {}
    for i, r in enumerate(recipes):
        p = prep[i]
        if p.get("r") != "ok":
            raise TieBroken(f"cannot build store {r['name']}: {json.dumps(p)[:300]}")
        for k in ("read_emb", "read_side"):
            if p[k].get("state") not in GOOD:
                raise TieBroken(f"freshly signed store {r['name']} does not validate ({k}): {json.dumps(p[k])[:300]}")
        stores[r["name"]] = {"recipe": r, "jpeg": {"buf": bytes.fromhex(p["store"]), "base": p["read_emb"]},
                             "c2pa": {"buf": bytes.fromhex(p["side"]), "base": p["read_side"]}}
        for car in ("jpeg", "c2pa"):
            stores[r["name"]][car]["view"] = StoreView(stores[r["name"]][car]["buf"])
    cases = []
    if ctx.replay:
        cases = [ctx.replay["case"]] if "case" in ctx.replay else [d["case"] for d in ctx.replay.get("disagreements", [])]
    else:
        for c in corpus():                       # symbolic: first position of a field class (layouts are re-signed every run)
            s = stores[c["store"]]; v = s[c["carrier"]]["view"]
            want, wm = c["m"]["field"], c["m"].get("manifest")
            q = next((q for q in range(len(v.buf)) if v.classify(q)[1] == want and (wm is None or v.classify(q)[0] == wm)), None)
            if q is not None:
                cases.append({"op": "mut", "store": s["recipe"], "carrier": c["carrier"], "m": {"k": "flip", "pos": q + 4, "bit": c["m"]["bit"]}})
        for name, s in stores.items():
            for car in ("jpeg", "c2pa"):
                v = s[car]["view"]
                for q, bits in gen_positions(v, ctx.rng, quick, budget, light=(car == "jpeg")):
                    for bit in bits:
                        cases.append({"op": "mut", "store": s["recipe"], "carrier": car, "m": {"k": "flip", "pos": q, "bit": bit}})
                    if not quick and car == "c2pa" and v.buf[q] != 0 and q % 4 == 0:
                        cases.append({"op": "mut", "store": s["recipe"], "carrier": car, "m": {"k": "set", "pos": q, "val": 0}})
                cases.append({"op": "mut", "store": s["recipe"], "carrier": car, "m": {"k": "none", "pos": 0}})
            for ename, nb in structure_edits(s["c2pa"]["view"]):
                cases.append({"op": "mut", "store": s["recipe"], "carrier": "c2pa", "m": {"k": "replace", "edit": ename, "hex": nb.hex()}})
    for i, c in enumerate(cases):
        c["id"] = i
    impl = common.run_harness("c02", cases, jobs=16)
    stats = {"read_error": 0, "panic": 0, "state": {}, "fields": {}, "accepted_unchanged": {}, "per_store": {}}
    model_jobs = {}
    for c in cases:
        s = stores[c["store"]["name"]]; car = c["carrier"]; v = s[car]["view"]; base = s[car]["base"]
        r = impl[c["id"]]
        q = c["m"].get("pos", 0)
        if c["m"]["k"] == "replace":
            mi_idx, field, path = None, "structure." + c["m"].get("edit", "edit"), ""
        else:
            mi_idx, field, path = v.classify(q) if c["m"]["k"] != "none" else (None, "none", "")
        stats["fields"][field] = stats["fields"].get(field, 0) + 1
        key = f"{c['store']['name']}/{car}"
        stats["per_store"][key] = stats["per_store"].get(key, 0) + 1
        mi = {"store": c["store"]["name"], "carrier": car, "m": c["m"], "field": field, "path": path, "manifest": mi_idx}
        good = False
        if r.get("r") in ("panic", "crash"):
            stats["panic"] += 1
            ctx.report_violation(c, f"implementation panicked: {str(r.get('msg'))[:200]}", mi)
        elif r.get("r") != "ok":
            stats["read_error"] += 1
        else:
            st = r["state"]
            stats["state"][st] = stats["state"].get(st, 0) + 1
            if st in GOOD:
                good = True
                same = (r["jh"] == base["jh"] and r["failure"] == base["failure"] and r["success"] == base["success"]
                        and r["informational"] == base["informational"] and r["deltas"] == base["deltas"] and r["state"] == base["state"])
                if c["m"]["k"] == "replace" and c["m"].get("edit", "").startswith("twin_"):
                    ctx.report_violation(c, f"state {st} although the store holds a second box under a declared assertion label whose payload "
                                            f"no hashed URI covers ({c['m']['edit']}): a changed assertion payload was accepted", mi)
                elif not same:
                    ctx.report_violation(c, f"state {st} after a change at store offset {q} ({field} of {path}) but the report differs from the "
                                            f"untampered read (json digest {r['jh']} vs {base['jh']}; codes {r['success']} vs {base['success']})", mi)
                elif c["m"]["k"] != "none":
                    stats["accepted_unchanged"][field] = stats["accepted_unchanged"].get(field, 0) + 1
                    ex = stats.setdefault("accepted_examples", {}).setdefault(field, [])
                    if len(ex) < 6 and c["m"]["k"] != "replace":
                        b = v.innermost(q)
                        ex.append({"store": key, "path": path, "box": b.typ.decode("latin1"), "off_in_box": q - b.start, "bit": c["m"].get("bit")})
        model_jobs.setdefault(key, []).append((c, mi_idx, field, good))
    # correspondence with the abstract model: payload-level fields
    modelled = 0
    def model_one(key, jobs):
        n_mod, dis = 0, []
        name, car = key.split("/")
        v = stores[name][car]["view"]
        prelude, ms, tok, labels = build_model(v, key)
        exprs, meta = [], []
        for c, mi_idx, field, good in jobs:
            kind = field.split(".")[0]
            q = c["m"].get("pos", 0)
            repl = None
            if c["m"]["k"] == "replace" and c["m"].get("edit") in UNMODELLED:
                continue
            if c["m"]["k"] == "replace":
                try:
                    ev = StoreView(bytes.fromhex(c["m"]["hex"]))
                    ems = abstract(ev, tok, labels)
                except Exception:
                    continue
                exprs.append("run " + coq_list([coq_manifest(m) for m in ems]))
                meta.append((c, good))
                continue
            if c["m"]["k"] == "none":
                repl = {}
            elif field in ("claim.payload",):
                repl = {"claim": 9001}
            elif field in ("signature.payload",):
                repl = {"sig": 9002}
            elif kind == "assertion" and mi_idx is not None:
                idx = next((i for i, (_, _, a, _) in enumerate(ms[mi_idx]["boxes"]) if a.start + 8 <= q < a.end), None)
                if idx is not None and field in ("assertion.payload",):
                    repl = {("box", idx): 9003}
            if repl is None:
                continue                  # headers, description boxes, gaps: structure level, outside the abstract model
            s_expr = coq_list([coq_manifest(m, repl if i == mi_idx or (mi_idx is None and not repl) else None) for i, m in enumerate(ms)])
            exprs.append(f"run {s_expr}")
            meta.append((c, good))
        res = common.coq_eval("C02_" + key.replace("/", "_"), prelude, exprs, shard_size=120)
        for (c, good), mo in zip(meta, res):
            n_mod += 1
            mv = (mo == "true")
            # payload edits that parse to the same content (e.g. inside ignored CBOR padding) may be accepted by the
            # implementation with an unchanged report: the model works on parsed content, so only the direction
            # "implementation accepts a changed payload => model must accept" is a disagreement when the report changed,
            # which the oracle already reports; here: the model must reject what the implementation rejects for
            # payload fields, and accept the untouched store.
            short = {k: (x if k != "m" else {kk: vv for kk, vv in x.items() if kk != "hex"}) for k, x in c.items()}
            if c["m"]["k"] == "none":
                if not (mv and good):
                    dis.append({"case": short, "impl": good, "model": mo})
            elif c["m"]["k"] == "replace":
                # structure edits: the abstract verdict must agree with the implementation, except that the abstract
                # model has no hard binding (an older manifest made active again is caught by C01's data hash)
                if mv != good and not (mv and c["m"].get("edit") in ROLLBACK):
                    dis.append({"case": short, "impl": good, "model": mo})
            elif mv:
                dis.append({"case": short, "impl": good, "model": mo})
        return n_mod, dis

    from concurrent.futures import ThreadPoolExecutor
    if with_model:
        with ThreadPoolExecutor(max_workers=max(1, len(model_jobs))) as ex:
            for n_mod, dis in ex.map(lambda kv: model_one(*kv), list(model_jobs.items())):
                modelled += n_mod
                ctx.disagreements.extend(dis)
    if os.environ.get("VERIF_DEBUG"):
        json.dump(ctx.violations, open(os.path.join(common.CASES, "C02_violations.json"), "w"), default=str)
    distinct = len({(c["store"]["name"], c["carrier"], json.dumps(c["m"], sort_keys=True)) for c in cases if c["m"]["k"] != "none"})
    ctx.coverage.update({
        "evaluations": len(cases), "distinct_nontrivial": distinct,
        "rule": "per store shape (single manifest; parent + active manifest with parentOf ingredient; the same with claim thumbnail + component ingredient with thumbnail) and carrier (embedded JPEG APP11, sidecar .c2pa): "
                "quick = all JUMBF field boundaries (box start, type, header end, end, description boxes) sampled to 260 + seeded positions up to 520, "
                "plus every byte of embedded-file description boxes and a few positions inside every leaf box, x flip bit 0 / 7 (and the case bit 5 inside description boxes); structure edits incl. unsigned twins of every assertion box before/after the original; thorough = every byte of the sidecar carrier x flip bit 0/5/7 (all 8 bits in description boxes; set 0 on every 4th byte) and every byte of the JPEG carrier x flip bit 0; non-trivial = changes a store byte; distinct by (store, carrier, mutation)",
        "distribution": stats, "model_evaluations": modelled,
        "stores": {k: {"jpeg_len": len(s["jpeg"]["buf"]), "c2pa_len": len(s["c2pa"]["buf"]), "manifests": len(s["jpeg"]["view"].manifests)} for k, s in stores.items()},
        "samples": [{"store": c["store"]["name"], "carrier": c["carrier"], "m": c["m"]} for c in cases[:2] + cases[len(cases) // 2: len(cases) // 2 + 2]],
    })
