"""Run harness cases with more parallelism than common.run_harness allows for small case counts
(end-to-end cases cost 0.3-3 s each).  Same contract: returns {id: result}; a shard that dies marks its
first unfinished case as a crash."""
import json, os, subprocess
from .. import common


def run_harness(prop, cases, jobs=16, timeout=3000, tag="par"):
    os.makedirs(common.CASES, exist_ok=True)
    n = max(1, min(jobs, len(cases)))
    shards = [cases[i::n] for i in range(n)]
    procs = []
    for k, shard in enumerate(shards):
        path = os.path.join(common.CASES, f"{prop}_{tag}_{k}.jsonl")
        with open(path, "w") as f:
            for c in shard:
                f.write(json.dumps(c) + "\n")
        procs.append((shard, subprocess.Popen([common.HARNESS_BIN, prop.lower(), path], stdout=subprocess.PIPE,
                                              stderr=subprocess.PIPE, text=True)))
    out = {}
    for shard, p in procs:
        try:
            so, se = p.communicate(timeout=timeout)
        except subprocess.TimeoutExpired:
            p.kill()
            so, se = p.communicate()
            se += "\nTIMEOUT"
        for line in so.splitlines():
            if line.strip():
                try:
                    r = json.loads(line)
                    out[r["id"]] = r
                except Exception:
                    pass
        for c in shard:
            if c["id"] not in out:
                out[c["id"]] = {"id": c["id"], "r": "crash", "msg": f"harness died rc={p.returncode}: {se[-300:]}"}
                break
        for c in shard:
            out.setdefault(c["id"], {"id": c["id"], "r": "crash", "msg": "not run (an earlier case of the shard crashed the harness)"})
    return out
