"""C33 — CAWG identity assertions bind exactly the referenced assertions.

facts(): code strings, the X.509 status remap table, the tolerated-failure rule and two "does this error branch log a
status code" flags, re-read from sdk/src/identity/**, validation_results.rs -> coq/Generated/C33_facts.v.
run(): (1) unit level — IdentityAssertion::validate_partial_claim (hook) on synthetic claims / identity assertions in both
tracker modes vs the Gallina model (Model/Identity.v) evaluated with vm_compute; (2) end to end — assets built with the
SDK's IdentityAssertionBuilder + X509CredentialHolder over generated referenced-assertion sets, altered before the claim
is hashed (C2PA layer stays consistent) or in the finished asset, read sync/async, inline or through
Reader::post_validate_async(CawgValidator), under generated CAWG trust settings.  Oracle = the property text."""
import json, os, re
from .. import common
from ..common import TieBroken, coq_list

PROP_FILE = "Properties/C33.v"
TRUSTED = ["COSE_Sign1 / X.509 verification and the claims-aggregation verifier are Section variables (outcome supplied per case by construction: "
           "signed for this payload / for another payload / not a COSE structure)",
           "CBOR encoding of the signer payload is a Section variable assumed injective where a theorem needs it",
           "regex `/c2pa/[^/]+/` transcribed by hand (Model/Identity.v strip_abs), tied by the unit-level correspondence",
           "Model/ValState.v (C04) for the manifest state"]
ASSUMPTIONS = ["fixture certificates of sdk/tests/fixtures/certs (test roots) as CAWG credentials", "no network (OCSP / remote fetch off)"]

IDENT = "sdk/src/identity/"


def coq_b(s):
    return 'b "%s"' % s.replace('"', '""')


def status_literals(body):
    return re.findall(r'\.validation_status\(\s*"([^"]+)"\s*\)', body)


def facts(ctx):
    vr = common.src("sdk/src/validation_results.rs")
    consts = dict(re.findall(r'pub const (\w+)\s*:\s*&str\s*=\s*"([^"]*)"\s*;', vr))
    m = common.fact(r'const\s+CAWG_X509_STATUS_PREFIX\s*:\s*&str\s*=\s*"([^"]+)"', vr, "CAWG_X509_STATUS_PREFIX")
    prefix = m.group(1)
    tol_body = common.fn_body(vr, r"fn\s+is_tolerated_manifest_failure_code\s*\(", "is_tolerated_manifest_failure_code")
    tol_exact = [consts[n] for n in re.findall(r"code\s*==\s*(?:validation_status::)?(\w+)", tol_body) if n in consts]
    tol_pref = re.findall(r"code\.starts_with\((\w+)\)", tol_body)
    if tol_pref != ["CAWG_X509_STATUS_PREFIX"] or len(tol_exact) != 1:
        raise TieBroken(f"srcfacts: is_tolerated_manifest_failure_code changed shape: exact={tol_exact} prefixes={tol_pref}")

    a = common.strip_tests(common.src(IDENT + "identity_assertion/assertion.rs"))
    pad_body = common.fn_body(a, r"fn\s+check_padding\s*<", "check_padding")
    pad_codes = set(status_literals(pad_body))
    if len(pad_codes) != 1:
        raise TieBroken(f"srcfacts: check_padding logs {pad_codes}")
    ties = []          # shape changes that do not prevent the facts from being written: reported at the end, the run goes on
    if not re.search(r"pad1\.iter\(\)\.all\(\|b\|\s*\*b\s*==\s*0\)", pad_body) or \
            not re.search(r"pad2\.iter\(\)\.all\(\|b\|\s*\*b\s*==\s*0\)", pad_body) or "return Ok(())" not in pad_body:
        ties.append("srcfacts: check_padding no longer has the shape modelled (pad1 / pad2 all-zero test over every byte, early Ok)")
    vp = common.fn_body(a, r"pub\(crate\)\s+fn\s+validate_partial_claim\s*\(", "validate_partial_claim")
    order = [vp.find("self.check_padding("), vp.find(".check_against_partial_claim("), vp.find("let sig_type")]
    if -1 in order or order != sorted(order):
        raise TieBroken("srcfacts: validate_partial_claim no longer checks padding, then the claim, then the signature")
    sigtypes = re.findall(r'sig_type\s*==\s*"([^"]+)"', vp)
    if len(sigtypes) != 2:
        raise TieBroken(f"srcfacts: sig_type dispatch changed: {sigtypes}")
    vp_head = vp[:vp.rfind("} else {")]
    wf = [c for c in status_literals(vp_head)]
    named = re.findall(r"\.validation_status\(\s*(CAWG_\w+)\s*\)", vp)
    if len(wf) != 1:
        raise TieBroken(f"srcfacts: literal status codes of validate_partial_claim: {wf}")
    if named not in (["CAWG_X509_SIGNATURE_MISMATCH", "CAWG_X509_SIGNATURE_VALIDATED"],
                     ["CAWG_X509_SIGNATURE_MISMATCH", "CAWG_X509_SIGNATURE_MISMATCH", "CAWG_X509_SIGNATURE_VALIDATED"]):
        raise TieBroken(f"srcfacts: named status codes of validate_partial_claim: {named}")
    # the final else branch (unknown sig_type): does it log anything?
    tail = vp[vp.rfind("} else {"):]
    ust = status_literals(tail)
    ust_logs = bool(ust) or ".validation_status(" in tail
    ust_code = ust[0] if ust else "cawg.identity.sig_type.unknown"
    # the catch-all arm of the COSE error mapping: does it log anything (and if so the mismatch code)?
    ca = re.search(r"\n\s*e\s*=>\s*(\{.*?\n\s*\}|ValidationError::SignatureError\(e\.to_string\(\)\)),?\s*\n\s*\}\)", vp, re.S)
    if not ca:
        raise TieBroken("srcfacts: cannot find the catch-all arm of the COSE error mapping in validate_partial_claim")
    se_logs = ".validation_status(" in ca.group(1)
    if se_logs and "CAWG_X509_SIGNATURE_MISMATCH" not in ca.group(1):
        raise TieBroken("srcfacts: the catch-all COSE error arm logs a code other than CAWG_X509_SIGNATURE_MISMATCH")

    sp = common.strip_tests(common.src(IDENT + "identity_assertion/signer_payload.rs"))
    cap = common.fn_body(sp, r"fn\s+check_against_partial_claim\s*<", "check_against_partial_claim")
    cap_codes = status_literals(cap)
    if len(cap_codes) < 3:
        raise TieBroken(f"srcfacts: check_against_partial_claim logs {cap_codes}")
    mm = re.search(r"if\s+claim_assertion\.hash\(\)\s*!=\s*ref_assertion\.hash\(\)\s*\{(.*?)\n\s*\}\s*\n\s*\}\s*else\s*\{", cap, re.S)
    if not mm:
        raise TieBroken("srcfacts: cannot find the hash comparison branch of check_against_partial_claim")
    mm_logs = ".validation_status(" in mm.group(1)
    rest_codes = status_literals(cap[mm.end():])
    if len(rest_codes) != 3:
        raise TieBroken(f"srcfacts: codes after the hash comparison: {rest_codes}")
    c_mismatch, c_hard, c_dup = rest_codes
    if mm_logs:
        c_mm = status_literals(mm.group(1))
        if c_mm and c_mm[0] != c_mismatch:
            raise TieBroken("srcfacts: the hash-mismatch branch logs a different code than the not-in-claim branch")
    hb = common.fact(r'label\.starts_with\("([^"]+)"\)', cap, "hard binding label prefix").group(1)
    rx = common.fact(r'ABSOLUTE_URL_PREFIX\s*:\s*LazyLock<Regex>\s*=\s*LazyLock::new\(\|\|\s*Regex::new\("([^"]+)"\)', sp, "ABSOLUTE_URL_PREFIX").group(1)
    if rx != "/c2pa/[^/]+/":
        raise TieBroken(f"srcfacts: ABSOLUTE_URL_PREFIX is now {rx!r}: Model/Identity.v strip_abs transcribes /c2pa/[^/]+/")

    bld = common.strip_tests(common.src(IDENT + "builder/identity_assertion_builder.rs"))
    content = common.fn_body(bld, r"impl DynamicAssertion for IdentityAssertionBuilder", "IdentityAssertionBuilder")
    marker = common.fact(r'a\.url\(\)\.contains\("([^"]+)"\)', content, "hard binding marker of content()").group(1)
    fin = common.fn_body(bld, r"fn\s+finalize_identity_assertion\s*\(", "finalize_identity_assertion")
    if "pad1: vec![]" not in fin or not re.search(r"vec!\[\s*0u8;", fin):
        ties.append("srcfacts: finalize_identity_assertion no longer zero-fills the padding")

    rm = common.strip_tests(common.src(IDENT + "x509/x509_status_remap.rs"))
    rbody = common.fn_body(rm, r"fn\s+remap_x509_cose_status_codes\s*\(", "remap_x509_cose_status_codes")
    pairs = re.findall(r"validation_status::(\w+)\s*=>\s*\{?\s*validation_status::(\w+)", rbody)
    if len(pairs) < 4 or "_ => continue" not in rbody:
        raise TieBroken(f"srcfacts: remap table: {pairs}")
    for o, n in pairs:
        if o not in consts or n not in consts:
            raise TieBroken(f"srcfacts: unknown constant in remap table: {o} {n}")

    cose_codes = []
    for f in ("sign1.rs", "verifier.rs", "certificate_profile.rs"):
        t = common.strip_tests(common.src("sdk/src/crypto/cose/" + f))
        for n in re.findall(r"\.validation_status\(\s*(?:validation_status::)?(\w+)\s*\)", t):
            if n not in consts:
                raise TieBroken(f"srcfacts: {f} logs unknown constant {n}")
            if consts[n] not in cose_codes:
                cose_codes.append(consts[n])

    # both consumers swallow the error: only logged codes are visible
    val = common.strip_tests(common.src(IDENT + "validator.rs"))
    man = common.src("sdk/src/manifest.rs")
    if not re.search(r"validate_partial_claim_async\([^;]*?\.await\s*\.ok\(\)", val, re.S) or \
            not re.search(r"validate_partial_claim\(&partial_claim, validation_log, context\)\s*\.ok\(\)", man):
        raise TieBroken("srcfacts: CawgValidator / Manifest::from_store no longer discard the validation error with .ok()")

    ident_fail = [pad_codes.copy().pop(), c_mismatch, c_hard, c_dup]
    x509_fail = [consts[n] for _, n in pairs if consts[n] != consts.get("CAWG_X509_CREDENTIAL_TRUSTED")] + [consts["CAWG_X509_SIGNATURE_MISMATCH"]]
    x509_fail = list(dict.fromkeys(x509_fail))
    all_cawg_consts = sorted(set(v for v in consts.values() if v.startswith("cawg.")))
    lit = set()
    for root, _, fs in os.walk(os.path.join(common.REPO, IDENT)):
        if "/tests" in root:
            continue
        for fn in fs:
            if fn.endswith(".rs"):
                t = common.strip_tests(open(os.path.join(root, fn), encoding="utf-8").read())
                lit.update(c for c in status_literals(t) if c.startswith("cawg."))
    all_cawg = sorted(set(all_cawg_consts) | lit)

    L = lambda xs: coq_list([coq_b(x) for x in xs])
    v = ("(* generated by vlib/props/c33.py from sdk/src/identity/**, validation_results.rs, crypto/cose — do not edit *)\n"
         "From Coq Require Import List NArith String.\nFrom C2PA Require Import Base.Bytes Model.ByteStr.\nImport ListNotations.\nOpen Scope N_scope.\n\n"
         f"Definition c_pad_invalid : bytes := {coq_b(ident_fail[0])}.\n"
         f"Definition c_assertion_mismatch : bytes := {coq_b(c_mismatch)}.\n"
         f"Definition c_hard_binding_missing : bytes := {coq_b(c_hard)}.\n"
         f"Definition c_assertion_duplicate : bytes := {coq_b(c_dup)}.\n"
         f"Definition c_x509_mismatch : bytes := {coq_b(consts['CAWG_X509_SIGNATURE_MISMATCH'])}.\n"
         f"Definition c_x509_validated : bytes := {coq_b(consts['CAWG_X509_SIGNATURE_VALIDATED'])}.\n"
         f"Definition c_well_formed : bytes := {coq_b(wf[0])}.\n"
         f"Definition c_sig_type_unknown : bytes := {coq_b(ust_code)}.\n"
         f"Definition sig_type_x509 : bytes := {coq_b(sigtypes[0])}.\n"
         f"Definition sig_type_ica : bytes := {coq_b(sigtypes[1])}.\n"
         f"Definition hard_binding_label_prefix : bytes := {coq_b(hb)}.\n"
         f"Definition builder_hard_binding_marker : bytes := {coq_b(marker)}.\n"
         f"Definition abs_prefix_head : bytes := {coq_b('/c2pa/')}.\n"
         "(* does the branch log a status code before returning Err? *)\n"
         f"Definition mismatch_branch_logs : bool := {'true' if mm_logs else 'false'}.\n"
         f"Definition unknown_sig_type_logs : bool := {'true' if ust_logs else 'false'}.\n"
         f"Definition sigerr_branch_logs : bool := {'true' if se_logs else 'false'}.\n"
         "(* remap_x509_cose_status_codes: (C2PA code, CAWG code); every other code is left as it is *)\n"
         "Definition remap_table : list (bytes * bytes) := " + coq_list([f"({coq_b(consts[o])}, {coq_b(consts[n])})" for o, n in pairs]) + ".\n"
         "(* every code the COSE layer reached from verify_signature can log (sign1.rs, verifier.rs, certificate_profile.rs) *)\n"
         f"Definition cose_layer_codes : list bytes := {L(cose_codes)}.\n"
         "(* failure codes of the identity layer proper, and of the X.509 signature check *)\n"
         f"Definition identity_failure_codes : list bytes := {L(ident_fail)}.\n"
         f"Definition x509_failure_codes : list bytes := {L(x509_fail)}.\n"
         f"Definition all_cawg_codes : list bytes := {L(all_cawg)}.\n"
         "(* is_tolerated_manifest_failure_code *)\n"
         f"Definition c33_tolerated_exact : list bytes := {L(tol_exact)}.\n"
         f"Definition c33_tolerated_prefixes : list bytes := {L([prefix])}.\n")
    common.write_if_changed(os.path.join(common.COQ, "Generated", "C33_facts.v"), v)
    ctx.facts = {"mm_logs": mm_logs, "ust_logs": ust_logs, "se_logs": se_logs, "codes": {"pad": ident_fail[0], "mismatch": c_mismatch, "hard": c_hard, "dup": c_dup,
                 "x509_mismatch": consts["CAWG_X509_SIGNATURE_MISMATCH"], "x509_validated": consts["CAWG_X509_SIGNATURE_VALIDATED"],
                 "well_formed": wf[0], "ust": ust_code}, "prefix": prefix, "tol_exact": tol_exact,
                 "remap": {consts[o]: consts[n] for o, n in pairs}, "all_cawg": all_cawg}
    # the C04 facts (tolerated lists used by Proofs/ValStateProofs.v) are regenerated as well
    from . import c04
    keep = ctx.facts
    try:
        c04.facts(ctx)
    finally:
        ctx.facts = keep
    if ties:
        raise TieBroken("; ".join(ties))


# ---------------------------------------------------------------------------------------------------------------
# shared vocabulary

ERRNAME = {"EInvalidPadding": "InvalidPadding", "EAssertionMismatch": "AssertionMismatch", "EAssertionNotInClaim": "AssertionNotInClaim",
           "ENoHardBinding": "NoHardBindingAssertion", "EDuplicate": "DuplicateAssertionReference", "ESignatureMismatch": "SignatureMismatch",
           "ESignatureError": "SignatureError", "EUnknownSigType": "UnknownSignatureType"}
X509 = "cawg.x509.cose"
ICA = "cawg.identity_claims_aggregation"
REL = "self#jumbf=c2pa.assertions/"
ABS = "self#jumbf=/c2pa/urn:c2pa:11111111-2222-3333-4444-555555555555/c2pa.assertions/"
LABELS = ["c2pa.hash.data", "c2pa.actions.v2", "cawg.training-mining", "stds.schema-org.CreativeWork", "c2pa.hash.bmff.v3",
          "c2pa.thumbnail.claim", "org.verif.a", "org.verif.a__1", "c2pa.hash.boxes"]


def strip_abs(u):
    return re.sub(r"/c2pa/[^/]+/", "", u, count=1)


def covers(trust, alg):
    a = trust.get("anchors", "none")
    return a == "c2pa" or (a == "partial" and alg == "ed25519")


def trust_items(trust, alg):
    if not trust.get("verify", True):
        return []
    return [("signingCredential.trusted", "S")] if covers(trust, alg) else [("signingCredential.untrusted", "F")]


def spec_components(claim, refs, sig_type, pad1, pad2, sig):
    """the property's own reading of 'created over the referenced assertions and unchanged': list of defects"""
    bad = []
    if any(x != 0 for x in bytes.fromhex(pad1)) or (pad2 is not None and any(x != 0 for x in bytes.fromhex(pad2))):
        bad.append("padding")
    for u, h in refs:
        hit = [c for c in claim if c[0] == u or strip_abs(c[0]) == u]
        if not hit:
            bad.append("ref-not-in-claim")
        elif hit[0][1] != h:
            bad.append("ref-hash")
    if not any("/" in u and u.rsplit("/", 1)[1].startswith("c2pa.hash.") for u, _ in refs):
        bad.append("no-hard-binding")
    if len(set(u for u, _ in refs)) != len(refs):
        bad.append("duplicate-ref")
    if sig_type != X509:
        bad.append("sig-type")
    elif sig != "valid":
        bad.append("signature")
    return bad


def coq_str(s):
    return "[" + ";".join(str(x) for x in s.encode()) + "]"


def coq_hex(h):
    return "[" + ";".join(str(x) for x in bytes.fromhex(h)) + "]"


def coq_refs(rs):
    return coq_list([f"HR {coq_str(u)} {coq_hex(h)}" for u, h in rs])


def coq_vout(items, res):
    return "(VO " + coq_list([f"IT {coq_str(c)} {'K' + k}" for c, k in items]) + f" {res})"


def model_expr(facts, stop, claim, refs, sig_type, roles, pad1, pad2, vout):
    p2 = "None" if pad2 is None else f"(Some {coq_hex(pad2)})"
    ia = f"(IA (SP {coq_refs(refs)} {coq_str(sig_type)} {coq_list([coq_str(r) for r in roles])}) [] {coq_hex(pad1)} {p2})"
    return (f"run_validate {'true' if facts['mm_logs'] else 'false'} {'true' if facts['ust_logs'] else 'false'} {'true' if facts['se_logs'] else 'false'} "
            f"{'true' if stop else 'false'} {coq_refs(claim)} {ia} {vout}")


def decode_model(t):
    """parsed Coq term of (list item * result) -> (items [(code, kind)], result name)"""
    items_t, res_t = t
    items = []
    for it in items_t:
        items.append((bytes(it["icode"]).decode("utf-8", "replace"), it["ikind_"][1:]))
    if res_t == "ROk":
        res = "ok"
    else:
        e = res_t[1]
        res = ERRNAME[e[0] if isinstance(e, list) else e]
    return items, res


IMPORTS = ("From C2PA Require Import Base.Bytes Model.ByteStr Generated.C33_facts Model.Identity.\n"
           "From Coq Require Import NArith List.\nImport ListNotations.\nOpen Scope N_scope.")


def vout_for(sig, trust, alg):
    """outcome of COSE verification by construction of the signature"""
    ti = trust_items(trust, alg)
    if sig == "valid":
        return ti, "VOk"
    if sig == "other":
        return ti, "VMismatch"
    if sig == "garbage":      # well-formed COSE_Sign1 without an algorithm
        return [("algorithm.unsupported", "F")], "VErr"
    if sig == "nocert":       # algorithm but no certificate chain: the error is returned without any log
        return [], "VErr"
    return [("claimSignature.mismatch", "F")], "VParse"    # not a COSE_Sign1 at all: parse_cose_sign1 fails (and logs)


# ---------------------------------------------------------------------------------------------------------------
# unit level

LONG = [4095, 4096, 4097, 5000, 8200]


def long_pad(rng, n, where):
    """n zero bytes with one non-zero byte at first | mid | last | p4095 | p4096 | late (>= 4096), or all zero"""
    b = bytearray(n)
    pos = {"first": 0, "mid": n // 2, "last": n - 1, "p4095": 4095, "p4096": 4096, "late": 4096 + rng.randrange(max(1, n - 4096)), "zero": None}[where]
    if pos is not None and pos < n:
        b[pos] = rng.choice([1, 0x80, 0xff])
    return b.hex()


def long_pads(rng):
    where = rng.choice(["first", "mid", "last", "p4095", "p4096", "late", "late", "zero"])
    n = rng.choice(LONG)
    if rng.random() < 0.5:
        return long_pad(rng, n, where), rng.choice([None, "00" * 5])
    return rng.choice(["", "00" * 3, "00" * n]), long_pad(rng, n, where)


def gen_unit_long(rng, i, which, n, where):
    """deterministic family: everything in order except one byte of one long padding field"""
    c = {"id": i, "op": "unit", "claim": [[REL + "c2pa.hash.data", "aa"]], "refs": [[REL + "c2pa.hash.data", "aa"]], "sig_type": X509, "roles": [],
         "pad1": "00" * 3, "pad2": None, "sig": "valid", "cawg_alg": "ed25519", "stop": rng.random() < 0.5, "trust": {"verify": False, "anchors": "none"}}
    c["pad" + str(which)] = long_pad(rng, n, where)
    return c


def gen_unit(rng, i):
    n = rng.choice([1, 2, 2, 3, 4, 5])
    labels = rng.sample(LABELS, n)
    if rng.random() < 0.75 and not any(l.startswith("c2pa.hash.") for l in labels):
        labels[rng.randrange(n)] = "c2pa.hash.data"
    absolute = rng.random() < 0.3
    pool = ["01", "02", "0102", "aa", "ab" * 16, "cd" * 32]
    claim = []
    for l in labels:
        pre = ABS if (absolute and rng.random() < 0.8) else REL
        claim.append([pre + l, rng.choice(pool)])
    if rng.random() < 0.1:       # the same assertion listed under both url forms / twice
        u, h = rng.choice(claim)
        claim.insert(rng.randrange(len(claim) + 1), [rng.choice([strip_abs(u), u, ABS + u.rsplit("/", 1)[1]]), rng.choice([h, rng.choice(pool)])])
    refs = [list(c) for c in claim if rng.random() < 0.7 or c[0].rsplit("/", 1)[1].startswith("c2pa.hash.")]
    if absolute and rng.random() < 0.6:
        refs = [[strip_abs(u), h] for u, h in refs]
    r = rng.random()
    if refs and r < 0.12:
        refs[rng.randrange(len(refs))][1] = rng.choice(pool)
    elif r < 0.22:
        refs.insert(rng.randrange(len(refs) + 1), [rng.choice([REL + "org.verif.missing", "no-slash-url", REL, "self#jumbf=/c2pa//c2pa.assertions/x",
                                                               "/c2pa/a/" + REL + "c2pa.hash.data", REL + "c2pa.hash.data/", ""]), rng.choice(pool)])
    elif refs and r < 0.32:
        refs.insert(rng.randrange(len(refs) + 1), list(rng.choice(refs)))
    elif r < 0.40:
        refs = [x for x in refs if "c2pa.hash." not in x[0]]
    elif r < 0.43:
        rng.shuffle(refs)
    elif r < 0.45:
        refs = []
    sig_type = X509 if rng.random() < 0.85 else rng.choice(["cawg.x509.cosf", "", "CAWG.X509.COSE", ICA, X509 + " "])
    z = lambda k: "00" * k
    pad1 = rng.choice([z(0), z(0), z(3), z(40), z(3), "000100", "ff", z(20) + "80"])
    pad2 = rng.choice([None, None, z(0), z(2), z(9), "0001", "01" + z(7)])
    if rng.random() < 0.07:
        pad1, pad2 = long_pads(rng)
    sig = rng.choice(["valid", "valid", "valid", "other", "garbage", "empty", "nocert"])
    trust = rng.choice([{"verify": False, "anchors": "none"}, {"verify": True, "anchors": "c2pa"}, {"verify": True, "anchors": "none"},
                        {"verify": True, "anchors": "partial"}, {"verify": True, "anchors": "c2pa", "user": True}])
    return {"id": i, "op": "unit", "claim": claim, "refs": refs, "sig_type": sig_type, "roles": rng.choice([[], [], ["cawg.creator"], ["a", "b"]]),
            "pad1": pad1, "pad2": pad2, "sig": sig, "cawg_alg": rng.choice(["ed25519", "ed25519", "es256", "es384"]), "stop": rng.random() < 0.4, "trust": trust}


def check_outcome(ctx, c, mi, bad, failure, success, validated, res_ok, where, stats):
    """the property on one observed outcome.  failure/success: lists of codes."""
    cawg_fail = [x for x in failure if x.startswith("cawg.")]
    if not bad:
        stats["created"] += 1
        allowed = {"cawg.x509.credential.untrusted"} if (c["trust"].get("verify", True) and not covers(c["trust"], c["cawg_alg"])) else set()
        if not validated or not res_ok:
            ctx.report_violation(c, f"{where}: an identity assertion created over the referenced assertions did not validate: failure={failure} success={success}", mi)
        elif set(cawg_fail) - allowed:
            ctx.report_violation(c, f"{where}: an unchanged identity assertion is reported with {sorted(set(cawg_fail) - allowed)}", mi)
        return
    stats["changed"] += 1
    for b in bad:
        stats["defects"][b] = stats["defects"].get(b, 0) + 1
    if cawg_fail:
        stats["flagged"] += 1
        return
    if not validated and not res_ok:
        mi2 = dict(mi)
        mi2["cls"] = "silent"
        mi2["defects"] = bad
        stats["silent"] += 1
        ctx.report_violation(c, f"silent: {where}: changed component(s) {bad} rejected without any cawg.* failure code (failure={failure})", mi2)
    else:
        ctx.report_violation(c, f"{where}: changed component(s) {bad} accepted: no cawg.* failure code, success={success}", mi)


def new_stats():
    return {"created": 0, "changed": 0, "flagged": 0, "silent": 0, "defects": {}, "errors": {}, "unspecified": 0}


def eval_unit(ctx, cases, with_model=True):
    impl = common.run_harness("c33", cases)
    stats = new_stats()
    todo = []
    for c in cases:
        r = impl[c["id"]]
        mi = dict(c)
        if r["r"] in ("panic", "crash"):
            ctx.report_violation(c, f"implementation panicked: {r.get('msg')}", mi)
            continue
        if r["r"] != "ok":
            stats["errors"][r.get("stage", "?")] = stats["errors"].get(r.get("stage", "?"), 0) + 1
            continue
        items = [tuple(x) for x in r["items"]]
        stats["errors"][r["res"]] = stats["errors"].get(r["res"], 0) + 1
        if c["sig_type"] == ICA:
            stats["unspecified"] += 1           # the claims-aggregation verifier is not part of this property
            continue
        failure = [k for k, kind in items if kind == "F"]
        success = [k for k, kind in items if kind == "S"]
        for k in failure:
            if not k.startswith("cawg."):
                ctx.report_violation(c, f"unit: failure code without the cawg. prefix logged by identity validation: {k}", mi)
        bad = spec_components(c["claim"], c["refs"], c["sig_type"], c["pad1"], c["pad2"], c["sig"])
        validated = "cawg.identity.well-formed" in success and "cawg.x509.signature.validated" in success
        check_outcome(ctx, c, mi, bad, failure, success, validated, r["res"] == "ok", "unit", stats)
        todo.append(c)
    if with_model and todo:
        exprs = []
        for c in todo:
            its, res = vout_for(c["sig"], c["trust"], c["cawg_alg"])
            exprs.append(model_expr(ctx.facts, c["stop"], c["claim"], c["refs"], c["sig_type"], c["roles"], c["pad1"], c["pad2"], coq_vout(its, res)))
        out = common.coq_eval("C33u", IMPORTS, exprs, shard_size=80)
        for c, t in zip(todo, out):
            mitems, mres = decode_model(t)
            r = impl[c["id"]]
            ir = ([tuple(x) for x in r["items"]], r["res"])
            if ir != (mitems, mres):
                ctx.disagreements.append({"case": c, "impl": ir, "model": (mitems, mres)})
    return stats, len(todo)


# ---------------------------------------------------------------------------------------------------------------
# end to end

EXTRA = [
    {"label": "cawg.training-mining", "data": {"entries": {"cawg.ai_inference": {"use": "notAllowed"}, "cawg.ai_generative_training": {"use": "notAllowed"}}}},
    {"label": "org.verif.note", "data": {"note": "VERIFTOKEN-NOTE-0001"}},
    {"label": "org.verif.other", "data": {"text": "VERIFTOKEN-OTHER-0002", "n": 7}},
    {"label": "stds.schema-org.CreativeWork", "data": {"@context": "https://schema.org", "@type": "CreativeWork", "author": [{"@type": "Person", "name": "VERIFTOKEN-AUTHOR-0003"}]}, "kind": "Json"},
]
TOKENS = {"org.verif.note": "VERIFTOKEN-NOTE-0001", "org.verif.other": "VERIFTOKEN-OTHER-0002", "stds.schema-org.CreativeWork": "VERIFTOKEN-AUTHOR-0003"}
TRUSTS = [{"verify": False, "anchors": "none"}, {"verify": True, "anchors": "c2pa"}, {"verify": True, "anchors": "none"},
          {"verify": True, "anchors": "partial"}, {"verify": True, "anchors": "c2pa", "user": True}]
PAYLOAD_FIELDS = ["ref_hash", "ref_url", "sig_type", "role"]
# which defect a mutation introduces, in the vocabulary of spec_components (None: decided from the decoded assertion)
PRE_KINDS = ["flip:pad1", "flip:pad2", "flip:sigval", "flip:sig_protected", "flip:sig_other", "flip:ref_hash", "flip:ref_url", "flip:sig_type",
             "flip:role", "dup_ref", "drop_hard", "add_missing", "alter_hash", "sig_type", "pad1", "pad2"]


def gen_e2e_long(rng, c):
    """the SDK reserves (and zero-fills) several KiB of padding; one byte of pad1 / pad2 is then changed, before the claim
    is hashed or in the finished asset, at the first / middle / last / 4096th / a later position"""
    c["fmt"], c["asset"] = "image/jpeg", rng.choice(["C.jpg", "no_manifest.jpg"])
    c["reserve_extra"] = rng.choice([3700, 4200, 6000, 9000])
    at = rng.choice(["first", "mid", "last", "p4095", "p4096", "late", "late", "late", None])
    which = rng.choice([1, 1, 2])
    if at is None:
        if which == 2:
            c["pre"] = {"k": "pad", "which": 2, "long_pad2": True, "zero": True}
        return c
    if which == 2:
        c["pre"] = {"k": "pad", "which": 2, "long_pad2": True, "at": at, "off": rng.randrange(0, 4096)}
    elif rng.random() < 0.6:
        c["pre"] = {"k": "pad", "which": 1, "at": at, "off": rng.randrange(0, 4096)}
    else:
        c[rng.choice(["pre", "post"])] = {"k": "flip", "field": "pad1", "at": at, "off": rng.randrange(0, 4096), "xor": rng.choice([1, 0x80])}
    return c


def gen_e2e(rng, i, force=None, longpad=None):
    k = rng.randrange(0, len(EXTRA) + 1)
    extra = rng.sample(EXTRA, k)
    refs = [e["label"] for e in extra if rng.random() < 0.7]
    if rng.random() < 0.1:
        refs.append("org.verif.absent")          # a label that no assertion carries: simply not referenced
    c = {"id": i, "op": "e2e", "fmt": "image/jpeg", "asset": rng.choice(["C.jpg", "no_manifest.jpg", "IMG_0003.jpg"]),
         "c2pa_alg": rng.choice(["es256", "ed25519", "ps256", "es384"]), "cawg_alg": rng.choice(["ed25519", "ed25519", "es256", "es384"]),
         "extra": extra, "refs": refs, "roles": rng.choice([[], [], ["cawg.creator"], ["cawg.editor", "cawg.publisher"]]),
         "pre": None, "post": None, "trust": rng.choice(TRUSTS), "decode": rng.random() < 0.6, "mode": rng.choice(["sync", "async", "async"])}
    if rng.random() < 0.12:
        c["fmt"], c["asset"] = "image/png", "libpng-test.png"
    c["post_validate"] = not c["decode"]
    if longpad or (longpad is None and rng.random() < 0.12):
        return gen_e2e_long(rng, c)
    kind = force if force is not None else (None if rng.random() < 0.2 else rng.choice(PRE_KINDS + ["ref_data"]))
    level = "pre" if (kind in ("dup_ref", "drop_hard", "add_missing", "alter_hash", "sig_type", "pad1", "pad2") or rng.random() < 0.65) else "post"
    if kind is None:
        pass
    elif kind == "ref_data":
        labs = [l for l in refs if l in TOKENS]
        if labs:
            c["post"] = {"k": "flip", "field": "ref_data", "token": TOKENS[rng.choice(labs)], "off": rng.randrange(0, 12), "xor": rng.choice([1, 2, 4])}
    elif kind.startswith("flip:"):
        f = kind[5:]
        if f == "role" and not c["roles"]:
            c["roles"] = ["cawg.creator"]
        m = {"k": "flip", "field": f, "idx": rng.randrange(0, 4), "off": rng.randrange(0, 4096), "xor": rng.choice([1, 1, 2, 4])}
        c[level] = m
    elif kind in ("pad1", "pad2"):
        c["pre"] = {"k": "pad", "which": 1 if kind == "pad1" else 2, "off": rng.randrange(0, 4096), "len": rng.randrange(1, 9)}
    else:
        m = {"k": kind, "idx": rng.randrange(0, 4), "resign": rng.random() < 0.75, "off": rng.randrange(0, 32)}
        if kind == "sig_type":
            m["value"] = rng.choice(["cawg.x509.cosf", "cawg.x509", "", "CAWG.X509.COSE"])
        if kind == "add_missing":
            m["label"] = rng.choice(["org.verif.not.in.claim", "c2pa.hash.nothing", "c2pa.actions"])
        if kind == "dup_ref":
            m["at"] = rng.randrange(0, 4)
        c["pre"] = m
    return c


def eval_e2e(ctx, cases, with_model=True):
    impl = common.run_harness("c33", cases, timeout=3000)
    stats = new_stats()
    stats.update({"not_applied": 0, "levels": {"none": 0, "pre": 0, "post": 0}, "fields": {}, "states": {}, "c2pa_layer_reports": 0,
                  "invalidated_by_cawg": 0, "paths": {"sync": 0, "async": 0, "post_validate": 0}, "sign_errors": {}})
    todo = []
    distinct = set()
    for c in cases:
        r = impl[c["id"]]
        mi = dict(c)
        if r["r"] in ("panic", "crash"):
            ctx.report_violation(c, f"implementation panicked / died: {r.get('msg')}", mi)
            continue
        if r["r"] != "ok":
            key = f"{r.get('stage')}:{r.get('kind')}"
            stats["sign_errors"][key] = stats["sign_errors"].get(key, 0) + 1
            if r.get("stage") == "read":
                ctx.report_violation(c, f"e2e: reading the asset failed with {r.get('kind')}: {r.get('detail')}", mi)
            elif not (c["pre"] or {}).get("k"):
                ctx.report_violation(c, f"e2e: signing with an unaltered SDK identity assertion failed: {r.get('kind')}: {r.get('detail')}", mi)
            continue
        ia = r["ia"]
        fin = r["post"] if c.get("post_validate") and isinstance(r.get("post"), dict) and "state" in r["post"] else r["read"]
        if c.get("post_validate") and (not isinstance(r.get("post"), dict) or "state" not in r["post"]):
            ctx.report_violation(c, f"e2e: post_validate_async failed: {r.get('post')}", mi)
            continue
        stats["paths"][c["mode"]] += 1
        if c.get("post_validate"):
            stats["paths"]["post_validate"] += 1
        m = c["pre"] or c["post"]
        level = "pre" if c["pre"] else "post" if c["post"] else "none"
        note = ia.get("note") if level == "pre" else r.get("post_note") if level == "post" else ""
        applied = bool(m) and not str(note or "").startswith("NOT-APPLIED")
        if m and not applied:
            stats["not_applied"] += 1
            level = "none"
        stats["levels"][level] += 1
        field = (m.get("field") if m.get("k") == "flip" else m.get("k")) if (m and applied) else "none"
        stats["fields"][field] = stats["fields"].get(field, 0) + 1
        failure, success = fin["failure"], fin["success"]
        cawg_fail = [x for x in failure if x.startswith("cawg.")]
        other_fail = [x for x in failure if not x.startswith("cawg.")] + fin.get("deltas", [])
        validated = "cawg.identity.well-formed" in success and "cawg.x509.signature.validated" in success
        stats["states"][fin["state"]] = stats["states"].get(fin["state"], 0) + 1
        distinct.add((json.dumps(c["refs"]), json.dumps(m), json.dumps(c["trust"]), c["decode"], c["mode"], c["cawg_alg"]))
        if ia.get("undecodable"):
            stats["unspecified"] += 1
            continue
        # ---- what was changed, read off the decoded identity assertion and the claim it was built against
        claim, refs = ia["claim"], ia["refs"]
        pad1 = "00" if ia["pad1_zero"] else "01"
        pad2 = None if ia["pad2"] is None else ("00" if ia["pad2_zero"] else "01")
        sigclass = "valid"
        unspecified = None
        if applied:
            if m.get("k") == "flip":
                f = m["field"]
                if f in ("sigval",) or f in PAYLOAD_FIELDS:
                    sigclass = "other"
                elif f == "sig_protected":
                    sigclass = "protected"
                elif f == "sig_other":
                    unspecified = "byte outside the protected header and the signature value of the COSE_Sign1 (unprotected header / framing)"
                elif f == "ref_data":
                    unspecified = "referenced assertion data changed, claim and signer payload untouched: reported by the C2PA layer"
            elif not m.get("resign", True) and m.get("k") != "pad":
                sigclass = "other"
        bad = spec_components(claim, refs, ia["sig_type"], pad1, pad2, "valid" if sigclass == "valid" else "other")
        if applied and level == "pre" and other_fail:
            ctx.report_violation(c, f"e2e: a change confined to the identity assertion (made before the claim was hashed) produced non-CAWG failures {other_fail}", mi)
        if unspecified:
            stats["unspecified"] += 1
            if field == "ref_data":
                if not failure:
                    ctx.report_violation(c, "e2e: a byte of a referenced assertion was changed in the asset and nothing at all was reported", mi)
                else:
                    stats["c2pa_layer_reports"] += 1
        else:
            if applied and not bad:
                bad = ["signature"] if sigclass != "valid" else bad
            if applied and not bad and m.get("k") == "flip":
                bad = [field]
            check_outcome(ctx, c, mi, bad, failure, success, validated, validated, "e2e", stats)
        for k in cawg_fail:
            pass
        # ---- CAWG failures never make the manifest Invalid
        c2pa_ok = not other_fail and "claimSignature.validated" in success and "claimSignature.insideValidity" in success
        if c2pa_ok and fin["state"] == "Invalid":
            mi2 = dict(mi)
            mi2["cls"] = "invalidated"
            mi2["blame"] = cawg_fail
            stats["invalidated_by_cawg"] += 1
            ctx.report_violation(c, f"invalidated: e2e: the only failures are CAWG failures {cawg_fail} but the manifest is Invalid", mi2)
        if not applied and fin["state"] == "Invalid":
            ctx.report_violation(c, f"e2e: unaltered asset with an SDK identity assertion is Invalid: {failure}", mi)
        # ---- correspondence input
        if not unspecified and sigclass in ("valid", "other"):
            todo.append((c, claim, refs, ia, pad1, pad2, sigclass, cawg_fail, [x for x in success if x.startswith("cawg.")]))
    if with_model and todo:
        exprs = []
        for c, claim, refs, ia, pad1, pad2, sigclass, _, _ in todo:
            its, res = vout_for(sigclass, c["trust"], c["cawg_alg"])
            exprs.append(model_expr(ctx.facts, False, claim, refs, ia["sig_type"], ia.get("roles", []), pad1, pad2, coq_vout(its, res)))
        out = common.coq_eval("C33e", IMPORTS, exprs, shard_size=40)
        for (c, claim, refs, ia, pad1, pad2, sigclass, cf, cs), t in zip(todo, out):
            mitems, mres = decode_model(t)
            mf = sorted(k for k, kind in mitems if kind == "F")
            ms = sorted(k for k, kind in mitems if kind == "S")
            if (sorted(cf), sorted(cs)) != (mf, ms):
                ctx.disagreements.append({"case": c, "impl": {"failure": sorted(cf), "success": sorted(cs)}, "model": {"failure": mf, "success": ms, "result": mres}})
    return stats, len(distinct)


def corpus():
    p = os.path.join(common.VERIF, "corpus", "C33.jsonl")
    if not os.path.exists(p):
        return []
    return [json.loads(l) for l in open(p) if l.strip()]


def run(ctx):
    if not getattr(ctx, "no_build", False):
        common.build_harness()
    if not hasattr(ctx, "facts"):
        facts(ctx)
    if ctx.replay:
        cases = [ctx.replay["case"]] if "case" in ctx.replay else [d["case"] for d in ctx.replay.get("disagreements", [])]
    else:
        cases = corpus()
        nu, ne = (300, 90) if ctx.quick() else (3000, 700)
        cases += [gen_unit(ctx.rng, 0) for _ in range(nu)]
        wheres = ["first", "mid", "last", "p4095", "p4096", "late", "zero"]
        cases += [gen_unit_long(ctx.rng, 0, w, n, wh) for w in (1, 2) for n in ((4097, 8200) if ctx.quick() else LONG) for wh in wheres]
        cases += [gen_e2e(ctx.rng, 0, force=k, longpad=False) for k in PRE_KINDS + ["ref_data", None, None]]
        cases += [gen_e2e(ctx.rng, 0, longpad=True) for _ in range(10 if ctx.quick() else 60)]
        cases += [gen_e2e(ctx.rng, 0) for _ in range(ne)]
    for i, c in enumerate(cases):
        c["id"] = i
    unit = [c for c in cases if c.get("op") == "unit"]
    e2e = [c for c in cases if c.get("op") != "unit"]
    su, nu_ = eval_unit(ctx, unit) if unit else (new_stats(), 0)
    se, ne_ = eval_e2e(ctx, e2e) if e2e else (new_stats(), 0)
    ctx.coverage.update({
        "evaluations": len(cases), "distinct_nontrivial": nu_ + ne_,
        "rule": "corpus + seeded unit cases (claim x references x padding x signature class x tracker mode x trust) through the validate_partial_claim hook "
                "+ seeded end-to-end cases (referenced-assertion sets x component mutation before/after claim hashing x trust x sync/async x inline/post_validate); "
                "non-trivial = reached the identity validation; e2e distinct by (refs, mutation, trust, path, alg)",
        "distribution": {"unit": su, "e2e": se},
        "traces_validated_against_impl": len(cases),
        "samples": [{k: (v if len(json.dumps(v)) < 160 else "...") for k, v in c.items()} for c in (unit[:2] + e2e[:2])],
        "long_paddings": {"unit": sum(1 for c in unit if len(c.get("pad1") or "") > 8000 or len(c.get("pad2") or "") > 8000),
                          "e2e": sum(1 for c in e2e if c.get("reserve_extra"))},
    })


def search(ctx):
    common.build_harness()
    cases = [gen_unit(ctx.rng, 0) for _ in range(3000)] + [gen_e2e(ctx.rng, 0) for _ in range(400)]
    cases += [gen_unit_long(ctx.rng, 0, w, n, wh) for w in (1, 2) for n in LONG for wh in ("first", "mid", "last", "p4095", "p4096", "late", "late")]
    cases += [gen_e2e(ctx.rng, 0, longpad=True) for _ in range(40)]
    for i, c in enumerate(cases):
        c["id"] = i
    eval_unit(ctx, [c for c in cases if c["op"] == "unit"], with_model=False)
    eval_e2e(ctx, [c for c in cases if c["op"] != "unit"], with_model=False)
    ctx.coverage["search_evaluations"] = len(cases)
