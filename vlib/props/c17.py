"""C17 — BMFF mdat hashing is independent of how the payload is chunked."""
import hashlib, json, os, re, subprocess
from .. import common
from ..common import TieBroken, coq_bytes, coq_list
from .c16 import coq_eval_files

PROP_FILE = "Properties/C17.v"
TRUSTED = ["SHA-2 is not modelled: a recorded leaf carries its content; python hashes it (empty content -> empty digest, as hash_by_alg does)",
           "BMFF container handling (box parsing, exclusions, placeholder patching) is exercised by the end-to-end run only, not modelled",
           "harness builds the MP4 (ftyp free mdat.. moov) and patches the manifest over the free box like inject_manifest_into_free_box"]
ASSUMPTIONS = ["the fixed leaf size is not changed between calls for one mdat",
               "theorems are per mdat; the pairing of several mdats with their MerkleMaps (repaired F-MDAT-ORDER) is covered by the end-to-end run and a source anchor only",
               "debug-profile harness; 64-bit usize"]


def sha(b):
    return hashlib.sha256(b).hexdigest() if b else ""       # hash_by_alg(alg, &[], None) == vec![]


def payload(n, seed):
    x = seed & 0x7fffffff
    out = bytearray()
    for _ in range(n):
        x = (x * 1103515245 + 12345) & 0x7fffffff
        out.append((x >> 16) & 0xff)
    return bytes(out)


# ------------------------------------------------------------------ facts

def _norm(t):
    return re.sub(r"\s+", " ", t)


def facts(ctx):
    mk = common.strip_tests(common.src("sdk/src/utils/merkle.rs"))
    add = _norm(common.fn_body(mk, r"pub fn add_merkle_leaf\s*\(", "add_merkle_leaf"))
    if "let mut hash_start = 0;" not in add:
        raise TieBroken("srcfacts: add_merkle_leaf no longer starts with hash_start = 0")
    skip = int(common.fact(r"let to_skip = std::cmp::min\((\d+) - \*skipped, data\.len\(\)\);", add, "header skip").group(1))
    setf = _norm(common.fn_body(mk, r"pub fn set_fixed_size\s*\(", "set_fixed_size"))
    kb = int(common.fact(r"Some\(size \* (\d+)\)", setf, "KB multiplier").group(1))
    for pat, what in [
        ("if !large_size && !self.merkle_leaves.contains_key(&mdat_id) && !self.fixed_size_remainder.contains_key(&mdat_id) {", "first-call test"),
        ("if data.is_empty() { return Ok(()); }", "empty-chunk return"),
        ("let skipped = self.header_skipped.entry(mdat_id).or_insert(0);", "per-mdat header skip counter"),
        ("*skipped += to_skip;", "header skip accounting"),
        ("if to_skip == data.len() { return Ok(()); } hash_start = to_skip; }", "chunk inside the excluded prefix"),
        ("let mut data_left = data_len - hash_start as u64;", "data_left"),
        ("std::cmp::min(fixed_size - fixed_size_buffer.len(), data_len as usize)", "remainder to_copy"),
        ("let to_copy = std::cmp::min(*fixed_size, data_left as usize);", "leaf to_copy"),
        ("if fixed_size_buffer.len() == *fixed_size {", "remainder completion test"),
        ("if to_copy == 0 {", "end of data test"),
        ("if to_copy < *fixed_size {", "new remainder test"),
        ("self.fixed_size_remainder.insert(mdat_id, remainder);", "remainder insert"),
        ("let fragment_hash = hash_by_alg(self.alg.as_str(), &data[hash_start..], None);", "variable leaf hash"),
        ("let fragment_length = data_len - hash_start as u64;", "variable leaf length"),
    ]:
        if pat not in add:
            raise TieBroken(f"srcfacts: add_merkle_leaf {what} no longer reads `{pat}`")
    b = common.strip_tests(common.src("sdk/src/assertions/bmff_hash.rs"))
    excl = set(re.findall(r"const MDAT_EXCLUSION_SIZE: u64 = (\d+);", b))
    if len(excl) != 1:
        raise TieBroken(f"srcfacts: MDAT_EXCLUSION_SIZE definitions disagree or are gone: {sorted(excl)}")
    excl = int(excl.pop())
    val = _norm(common.fn_body(b, r"fn validate_merkle_maps_mdat_boxes\s*\(", "validate_merkle_maps_mdat_boxes"))
    minf = int(common.fact(r"if fixed_block_size <= (\d+) \{", val, "validator fixed block size floor").group(1))
    for pat, what in [
        ("let mut block_start = box_info.start().saturating_add(MDAT_EXCLUSION_SIZE);", "validator region start"),
        ("let mut bytes_left = box_info.size().saturating_sub(MDAT_EXCLUSION_SIZE);", "validator region size"),
        ("let leaf_length = std::cmp::min(bytes_left, fixed_block_size);", "validator fixed leaf length"),
        ("if box_info.size().saturating_sub(MDAT_EXCLUSION_SIZE) != variable_block_sizes.iter().sum::<u64>()", "validator variable size check"),
        ("if ranges.len() != mm.count {", "validator count check"),
        ("let mut mdat_ranges = BTreeMap::new();", "validator ranges kept in mdat order"),
        ("for (mm, ranges) in mm_vec.iter().zip(mdat_ranges.values()) {", "validator pairing of maps and ranges"),
        ("if !mm.check_merkle_tree(alg, &hash, range_index, &None) {", "validator leaf check"),
    ]:
        if pat not in val:
            raise TieBroken(f"srcfacts: validate_merkle_maps_mdat_boxes {what} no longer reads `{pat}`")
    cm = _norm(common.fn_body(b, r"fn create_mms_from_mdat_leaves\s*\(", "create_mms_from_mdat_leaves"))
    for pat, what in [("fixed_block_size: Some(std::cmp::min(leaf_len, fixed_block_size as u64)),", "fixedBlockSize = min(total, fixed)"),
                      ("variable_block_sizes: Some(leaf_sizes),", "variableBlockSizes"), ("count: leaf_hashes.len(),", "count")]:
        if pat not in cm:
            raise TieBroken(f"srcfacts: create_mms_from_mdat_leaves {what} no longer reads `{pat}`")
    bl = common.strip_tests(common.src("sdk/src/builder.rs"))
    up = _norm(common.fn_body(bl, r"pub fn update_hash_from_stream<R>\s*\(", "update_hash_from_stream"))
    if "for (mdat_id, remainder) in &self.bmff_hasher.fixed_size_remainder {" not in up or \
            "leaves.push((remainder.len() as u64, fragment_hash.clone()))" not in up:
        raise TieBroken("srcfacts: update_hash_from_stream no longer flushes the pending remainders as last leaves")
    sub = int(common.fact(r'ExclusionsMap::new\("/mdat"\.to_owned\(\)\); let subset_mdat = SubsetMap \{ offset: (\d+), length: 0, \};', up, "mdat subset offset").group(1))
    io = common.src("sdk/src/asset_handlers/bmff_io.rs")
    std = int(common.fact(r"const HEADER_SIZE: u64 = (\d+);", io, "HEADER_SIZE").group(1))
    lrg = int(common.fact(r"const HEADER_SIZE_LARGE: u64 = (\d+);", io, "HEADER_SIZE_LARGE").group(1))
    v = ("(* generated from sdk/src/utils/merkle.rs, sdk/src/assertions/bmff_hash.rs, sdk/src/builder.rs on every run — do not edit *)\n"
         "From Coq Require Import NArith.\nOpen Scope N_scope.\n"
         f"Definition HEADER_SKIP : N := {skip}.\n"
         f"Definition MDAT_EXCLUSION_SIZE : N := {excl}.\nDefinition MDAT_SUBSET_OFFSET : N := {sub}.\n"
         f"Definition KB : N := {kb}.\nDefinition MIN_FIXED_BLOCK_EXCL : N := {minf}.\n"
         f"Definition STD_HEADER : N := {std}.\nDefinition LARGE_HEADER : N := {lrg}.\n")
    common.write_if_changed(os.path.join(common.COQ, "Generated", "C17_facts.v"), v)
    ctx.facts = {"HEADER_SKIP": skip, "MDAT_EXCLUSION_SIZE": excl, "KB": kb, "MIN_FIXED": minf}


# ------------------------------------------------------------------ classes: the input shapes of the repaired findings F-MDAT8 / F-MDAT-EMPTY
# (kept so that a regression is attributed) and of the open class F-MDAT-FBS1

def lead(chunks):
    t = 0
    for c in chunks:
        if len(c) <= 8:
            t += len(c)
        else:
            break
    return t


def effective(large, chunks):
    if large:
        return list(chunks)
    k = 0
    while k < len(chunks) and len(chunks[k]) <= 8:
        k += 1
    return list(chunks[k:])


def classes(fixed, large, chunks):
    p = b"".join(chunks)
    q = p[0 if large else 8:]
    return {"mdat8": (not large) and lead(chunks) > 0,
            "empty": fixed is None and any(len(c) == 0 for c in chunks),
            "fbs1": fixed is not None and len(q) == 1}


def spec_fixed(p, large, fs):
    q = p[0 if large else 8:]
    return [q[i:i + fs] for i in range(0, len(q), fs)]


# ------------------------------------------------------------------ cases

def split(p, lens):
    out, pos = [], 0
    for l in lens:
        out.append(p[pos:pos + l])
        pos += l
    assert pos == len(p)
    return out


def rand_lens(rng, n):
    lens = []
    left = n
    while left > 0:
        r = rng.random()
        l = rng.randrange(0, 9) if r < 0.25 else rng.randrange(0, 40) if r < 0.6 else rng.randrange(0, left + 1)
        l = min(l, left)
        lens.append(l)
        left -= l
    while rng.random() < 0.15:
        lens.insert(rng.randrange(0, len(lens) + 1), 0)
    return lens


def acc_case(rng, a=None, b=None):
    """one mdat (id 0) fed chunk by chunk to the accumulator hook; small leaf sizes set in bytes"""
    large = rng.random() < 0.4
    mode = rng.random()
    fixed, fixed_kb = None, None
    if mode < 0.55:
        fixed = rng.choice([1, 2, 3, 4, 5, 7, 8, 9, 16, 31])
    elif mode < 0.65:
        fixed_kb = 1
    n = rng.choice([0, 1, 7, 8, 9, 10, 16, 17, 24, 40, 64, 100]) if fixed_kb is None else rng.choice([1030, 2056, 2500])
    if a is not None:
        n = max(n, a + b + rng.choice([0, 1, 9, 20]))
        lens = [a, b] + rand_lens(rng, n - a - b)
    else:
        lens = rand_lens(rng, n)
    p = payload(n, rng.randrange(1 << 30))
    return {"k": "acc", "fixed": fixed, "fixed_kb": fixed_kb, "calls": [[0, large, c.hex()] for c in split(p, lens)]}


def acc_multi_case(rng):
    """several mdats interleaved (different header kinds), one leaf size"""
    fixed = rng.choice([None, 3, 4, 8, 16])
    ids = rng.sample(range(0, 6), rng.choice([2, 3]))
    streams = {}
    for i in ids:
        n = rng.randrange(0, 60)
        streams[i] = (rng.random() < 0.4, split(payload(n, rng.randrange(1 << 30)), rand_lens(rng, n)))
    calls = []
    pos = {i: 0 for i in ids}
    while any(pos[i] < len(streams[i][1]) for i in ids):
        i = rng.choice([j for j in ids if pos[j] < len(streams[j][1])])
        calls.append([i, streams[i][0], streams[i][1][pos[i]].hex()])
        pos[i] += 1
    return {"k": "acc", "fixed": fixed, "fixed_kb": None, "calls": calls}


def e2e_case(rng, fixed_kb, large, first=None, second=None, n=None, mdats=1):
    ms = []
    for _ in range(mdats):
        if fixed_kb == 64:
            nn = n or rng.choice([70000, 140000, 150001])
        else:
            nn = n or rng.choice([1500, 2057, 3080, 4100])
        if first is not None and not ms:
            rest = nn - first - (second or 0)
            lens = [first] + ([second] if second is not None else []) + big_lens(rng, rest)
        else:
            lens = big_lens(rng, nn)
        ms.append({"large": large if not ms else rng.random() < 0.3, "len": nn, "seed": rng.randrange(1, 1 << 30), "splits": lens})
    fs = None if fixed_kb is None else fixed_kb * 1024
    nleaves = sum((m["len"] // fs + 2) if fs else len(m["splits"]) + 1 for m in ms)
    return {"k": "e2e", "fixed_kb": fixed_kb, "nleaves": nleaves, "mdats": ms}


def big_lens(rng, n):
    lens, left = [], n
    while left > 0:
        l = min(left, rng.choice([left, rng.randrange(9, max(10, left // 2 + 10)), rng.randrange(9, 2000), 1024, 1023, 1025]))
        lens.append(l)
        left -= l
    return lens


def corpus():
    p = os.path.join(common.VERIF, "corpus", "C17.jsonl")
    if not os.path.exists(p):
        return []
    return [json.loads(l) for l in open(p) if l.strip()]


# ------------------------------------------------------------------ model

PREAMBLE = """From C2PA Require Import Base.Bytes Model.Merkle Model.MerkleAcc Generated.C17_facts.
From Coq Require Import NArith List.
Import ListNotations.
Open Scope N_scope.
Definition c17_acc (fixed : option N) (calls : list (N * bool * bytes)) (ids : list N) :=
  let (m, e) := acc_run fixed calls [] in
  (map (fun id => let st := acc_get m id in (id, leaves st, rem st, skipped st)) ids, e).
Definition c17_mdat (fixed : option N) (large : bool) (hdr : bytes) (cs : list bytes) :=
  match run_chunks fixed large cs fresh_state with
  | AErr e => inl e
  | AOk st => match leaves (flush st) with
              | None => inr None
              | Some l => match create_mm fixed l with
                          | AErr e => inl e
                          | AOk mm => inr (Some (mm_count mm, mm_hashes mm, mm_fixed mm, mm_var mm, validate_mdat (hdr ++ concat cs) mm))
                          end
              end
  end.
"""


def coq_fixed(c):
    if c.get("fixed") is not None:
        return f"(Some {c['fixed']})"
    if c.get("fixed_kb") is not None:
        return f"(Some (fixed_of_kb {c['fixed_kb']}))"
    return "None"


def fixed_bytes(c):
    if c.get("fixed") is not None:
        return c["fixed"]
    return None if c.get("fixed_kb") is None else c["fixed_kb"] * 1024


def mdat_header(large, n):
    if large:
        return (1).to_bytes(4, "big") + b"mdat" + (n + 16).to_bytes(8, "big")
    return (n + 8).to_bytes(4, "big") + b"mdat"


def model_exprs(c):
    """list of Gallina expressions for a case (one for acc, one per mdat for e2e)"""
    if c["k"] == "acc":
        calls = coq_list([f"({i}, {'true' if lg else 'false'}, {coq_bytes(bytes.fromhex(h))})" for i, lg, h in c["calls"]])
        ids = sorted({i for i, _, _ in c["calls"]})
        return [f"c17_acc {coq_fixed(c)} {calls} {coq_list([str(i) for i in ids])}"]
    out = []
    for m in c["mdats"]:
        p = payload(m["len"], m["seed"])
        cs = coq_list([coq_bytes(x) for x in split(p, m["splits"])])
        out.append(f"c17_mdat {coq_fixed(c)} {'true' if m['large'] else 'false'} {coq_bytes(mdat_header(m['large'], m['len']))} {cs}")
    return out


def undigest(d):
    """digest stand-in of the model -> what the implementation stores"""
    if not d:
        return ""
    assert d[0] == 0
    return sha(bytes(d[1:]))


def opt(x):
    return None if x == "None" else x[1]


# ------------------------------------------------------------------ harness (own runner: e2e cases are slow, one process per shard)

def run_cases(cases, jobs=16):
    os.makedirs(common.CASES, exist_ok=True)
    cost = lambda c: 400 if c["k"] == "e2e" else 1
    order = sorted(cases, key=lambda c: -cost(c))
    shards = [order[k::jobs] for k in range(jobs)]
    procs = []
    for k, sh in enumerate(shards):
        if not sh:
            continue
        path = os.path.join(common.CASES, f"c17_in_{k}.jsonl")
        with open(path, "w") as f:
            for c in sh:
                f.write(json.dumps(c) + "\n")
        out = open(path + ".out", "w")
        procs.append((sh, path, out, subprocess.Popen([common.HARNESS_BIN, "c17", path], stdout=out, stderr=subprocess.DEVNULL)))
    res = {}
    for sh, path, out, pr in procs:
        try:
            pr.wait(timeout=1700)
        except subprocess.TimeoutExpired:
            pr.kill()
        out.close()
        for line in open(path + ".out"):
            if line.strip():
                try:
                    r = json.loads(line)
                    res[r["id"]] = r
                except Exception:
                    pass
        for c in sh:
            if c["id"] not in res:
                res[c["id"]] = {"id": c["id"], "r": "crash", "msg": f"harness died rc={pr.returncode}"}
                break
    return res


# ------------------------------------------------------------------ evaluation

def evaluate(ctx, cases, model_ids):
    impl = run_cases(cases)
    mcases = [c for c in cases if c["id"] in model_ids]
    exprs, owner = [], []
    for c in mcases:
        for k, e in enumerate(model_exprs(c)):
            exprs.append(e)
            owner.append((c["id"], k))
    model = coq_eval_files("C17", PREAMBLE, exprs) if exprs else []
    mres = {}
    for (cid, k), r in zip(owner, model):
        mres.setdefault(cid, {})[k] = r
    st = {"acc_cases": 0, "e2e_cases": 0, "modes": {"variable": 0, "fixed": 0}, "headers": {"standard": 0, "large": 0},
          "classes": {"mdat8": 0, "empty": 0, "fbs1": 0, "multi_mdat": 0, "clean": 0}, "e2e_states": {}, "first_chunk_lengths": {},
          "leaf_sizes": {}, "model_cases": len(mcases), "splits_checked": 0}
    distinct = set()
    for c in cases:
        r = impl[c["id"]]
        fs = fixed_bytes(c)
        st["modes"]["variable" if fs is None else "fixed"] += 1
        st["leaf_sizes"][str(fs)] = st["leaf_sizes"].get(str(fs), 0) + 1
        if r["r"] in ("panic", "crash"):
            ctx.report_violation(c, f"implementation panicked: {r.get('msg')}")
            continue
        if c["k"] == "acc":
            st["acc_cases"] += 1
            streams = {}
            for i, lg, h in c["calls"]:
                streams.setdefault(i, [lg, []])[1].append(bytes.fromhex(h))
            distinct.add(("acc", fs, json.dumps(c["calls"])[:2000]))
            for i, (lg, chunks) in sorted(streams.items()):
                st["splits_checked"] += 1
                st["headers"]["large" if lg else "standard"] += 1
                st["first_chunk_lengths"][str(min(len(chunks[0]), 33))] = st["first_chunk_lengths"].get(str(min(len(chunks[0]), 33)), 0) + 1
                cl = classes(fs, lg, chunks)
                for k_, v_ in cl.items():
                    st["classes"][k_] += 1 if v_ else 0
                st["classes"]["clean"] += 0 if any(cl.values()) else 1
                if fs is not None and fs >= 1 and r["err"] is None:
                    # oracle (property text): fixed-size leaves are a function of the concatenated payload only
                    want = spec_fixed(b"".join(chunks), lg, fs)
                    full = [w for w in want if len(w) == fs]
                    tail = want[-1] if want and len(want[-1]) < fs else b""
                    got = r["leaves"].get(str(i), [])
                    gl = [[n, h] for n, h in got]
                    if gl != [[fs, sha(w)] for w in full] or r["rem"].get(str(i), "") != tail.hex():
                        mi = dict(c)
                        mi.update(cl)
                        mi["mdat"] = i
                        ctx.report_violation(single_stream(c, i), f"mdat {i}: recorded fixed-size leaves ({len(gl)} full + pending {len(r['rem'].get(str(i), '')) // 2} bytes) "
                                             f"differ from the {fs}-byte pieces of the payload after the header skip ({len(full)} full + {len(tail)} bytes)", mi)
                elif r["err"] is not None:
                    ctx.report_violation(c, f"add_merkle_leaf failed: {r['err']}")
            mo = mres.get(c["id"], {}).get(0)
            if mo is not None:
                rows, e = mo
                mr = {"leaves": {}, "rem": {}, "skipped": {}, "err": None if e == "None" else [e[1][0], {"AIo": "IoError", "AOther": "OtherError", "ABadParam": "BadParam"}[e[1][1]]]}
                for idn, lv, rm, skd in rows:
                    if skd:
                        mr["skipped"][str(idn)] = skd
                    if lv != "None":
                        mr["leaves"][str(idn)] = [[n, sha(bytes(cnt))] for n, cnt in lv[1]]
                    if rm != "None":
                        mr["rem"][str(idn)] = bytes(rm[1]).hex()
                ir = {"leaves": r["leaves"], "rem": r["rem"], "skipped": r.get("skipped", {}), "err": r["err"]}
                if mr != ir:
                    ctx.disagreements.append({"case": c, "impl": {k: str(v)[:300] for k, v in ir.items() if mr[k] != v},
                                              "model": {k: str(v)[:300] for k, v in mr.items() if ir[k] != v}})
        else:
            st["e2e_cases"] += 1
            distinct.add(("e2e", fs, json.dumps(c["mdats"])))
            cls = {"mdat8": False, "empty": False, "fbs1": False}
            with_leaves = 0
            for m in c["mdats"]:
                p = payload(m["len"], m["seed"])
                chunks = split(p, m["splits"])
                st["splits_checked"] += 1
                st["headers"]["large" if m["large"] else "standard"] += 1
                st["first_chunk_lengths"][str(min(len(chunks[0]), 33))] = st["first_chunk_lengths"].get(str(min(len(chunks[0]), 33)), 0) + 1
                for k_, v_ in classes(fs, m["large"], chunks).items():
                    cls[k_] = cls[k_] or v_
                q = p[0 if m["large"] else 8:]
                with_leaves += 1 if len(q) > 0 else 0
            cls["multi_mdat"] = with_leaves >= 2
            for k_, v_ in cls.items():
                st["classes"][k_] += 1 if v_ else 0
            st["classes"]["clean"] += 0 if any(cls.values()) else 1
            mi = dict(c)
            mi.update(cls)
            state = r.get("report", {}).get("state") if r["r"] == "ok" else f"error at {r.get('at')}: {r.get('kind')}"
            st["e2e_states"][state] = st["e2e_states"].get(state, 0) + 1
            # oracle (property text): signs, and reads back Valid for every way of splitting the payload
            if r["r"] != "ok":
                ctx.report_violation(c, f"placeholder workflow failed at {r.get('at')}: {r.get('kind')} {r.get('detail', '')[:200]}", mi)
            elif state not in ("Valid", "Trusted") or r["report"]["failure"]:
                ctx.report_violation(c, f"asset reads back {state} {r['report']['failure']} (chunk lengths {[m['splits'][:6] for m in c['mdats']]})", mi)
            if r["r"] == "ok" and fs is not None:
                # oracle: with a fixed leaf size the recorded leaves depend only on the concatenated payload
                for idx, m in enumerate(c["mdats"]):
                    want = [sha(w) for w in spec_fixed(payload(m["len"], m["seed"]), m["large"], fs)]
                    got = next((x["hashes"] for x in r["maps"] if x["id"] == idx), [])
                    if got != want:
                        ctx.report_violation(c, f"mdat {idx}: {len(got)} recorded leaves differ from the {len(want)} fixed-size pieces of the payload", mi)
                        break
            mo = mres.get(c["id"])
            if mo is not None and r.get("maps") is not None:
                mmaps, verdicts = [], []
                for idx in range(len(c["mdats"])):
                    x = mo[idx]
                    if x[0] == "inl":
                        mmaps.append({"id": idx, "err": x[1]})
                    elif x[1] != "None":
                        cnt, hs, fx, vr, vd = x[1][1]
                        mmaps.append({"id": idx, "count": cnt, "fixed": opt(fx), "var": opt(vr), "hashes": [undigest(h) for h in hs]})
                        verdicts.append(vd)
                ir = [{k: x[k] for k in ("id", "count", "fixed", "var", "hashes")} for x in sorted(r["maps"], key=lambda x: x["id"])]
                if mmaps != ir:
                    ctx.disagreements.append({"case": c, "impl": str(ir)[:400], "model": str(mmaps)[:400], "what": "MerkleMaps"})
                elif r["r"] == "ok" and not cls["multi_mdat"]:
                    mv = all(v == ["VOk", "tt"] for v in verdicts)
                    iv = state in ("Valid", "Trusted")
                    if mv != iv:
                        ctx.disagreements.append({"case": c, "impl": state, "model": str(verdicts), "what": "validation verdict"})
    return st, len(distinct)


def single_stream(c, i):
    d = dict(c)
    d.pop("id", None)
    d["calls"] = [x for x in c["calls"] if x[0] == i]
    return d


def build_cases(ctx):
    q = ctx.quick()
    rng = ctx.rng
    cases = corpus()
    # all split points of the first two chunks (0..32 bytes; quick: 0..12 plus a sample), every mode drawn per case
    pts = range(0, 33)
    pairs = [(a, b) for a in pts for b in pts]
    if q:
        pairs = [(a, b) for a, b in pairs if a <= 12 and b <= 12 and (a + b) % 2 == 0] + rng.sample(pairs, 120)
    cases += [acc_case(rng, a, b) for a, b in pairs]
    cases += [acc_case(rng) for _ in range(150 if q else 1500)]
    cases += [acc_multi_case(rng) for _ in range(40 if q else 300)]
    firsts = [0, 1, 4, 7, 8, 9, 16, 32] if q else list(range(0, 33))
    for kb in (None, 1, 64):
        for large in (False, True):
            for a in firsts:
                if kb == 64 and q and a not in (0, 8, 9):
                    continue
                cases.append(e2e_case(rng, kb, large, first=a, second=rng.choice([None, 0, 5, 9, 32])))
    cases += [e2e_case(rng, rng.choice([None, 1, 1, 64]), rng.random() < 0.4) for _ in range(12 if q else 150)]
    cases += [e2e_case(rng, rng.choice([None, 1]), False, mdats=2) for _ in range(4 if q else 24)]
    for i, c in enumerate(cases):
        c["id"] = i
    model_ids = {c["id"] for c in cases if c["k"] == "acc" or (fixed_bytes(c) or 0) <= 1024 and sum(m["len"] for m in c["mdats"]) <= 9000}
    return cases, model_ids


def run(ctx):
    if not getattr(ctx, "no_build", False):
        common.build_harness()
    if ctx.replay:
        cases = [ctx.replay["case"]] if "case" in ctx.replay else [d["case"] for d in ctx.replay.get("disagreements", [])]
        cases = [c for c in cases if c.get("k") in ("acc", "e2e")]
        for i, c in enumerate(cases):
            c["id"] = i
        model_ids = {c["id"] for c in cases if c["k"] == "acc" or sum(m["len"] for m in c["mdats"]) <= 9000}
    else:
        cases, model_ids = build_cases(ctx)
    st, distinct = evaluate(ctx, cases, model_ids)
    ctx.coverage.update({
        "evaluations": st["splits_checked"], "distinct_nontrivial": distinct,
        "rule": "accumulator hook: every split point (a, b) of the first two chunks in 0..32 (quick: 0..12 even sums + 120 sampled) with random tails, "
                "random multi-way splits incl. empty chunks, interleaved mdats, leaf sizes 1..31 bytes / 1 KiB / none, standard and large headers; "
                "end to end (generated MP4, placeholder workflow, read back): first chunk 0..32 x {none, 1 KiB, 64 KiB} x {standard, large} + random multi-way splits + two-mdat assets; "
                "model evaluated on every accumulator case and every end-to-end case up to 9000 payload bytes (MerkleMaps and verdict compared); distinct by (kind, leaf size, chunks)",
        "distribution": st, "cases": len(cases),
        "samples": [{k: (v if len(json.dumps(v)) < 160 else json.dumps(v)[:160] + "...") for k, v in c.items()} for c in cases[:2] + cases[-2:]],
    })


def search(ctx):
    common.build_harness()
    cases = [acc_case(ctx.rng, a, b) for a in range(0, 33) for b in range(0, 33)] + [acc_case(ctx.rng) for _ in range(3000)]
    cases += [e2e_case(ctx.rng, kb, large, first=a) for kb in (None, 1) for large in (False, True) for a in range(0, 33)]
    for i, c in enumerate(cases):
        c["id"] = i
    evaluate(ctx, cases, set())
    ctx.coverage["search_evaluations"] = len(cases)
