"""C14 — reserved-size padding is exact and signing succeeds for any ample reserve."""
import json, os, re
from .. import common
from ..common import TieBroken, coq_list

PROP_FILE = "Properties/C14.v"
TRUSTED = ["a COSE_Sign1 / DataHash is abstracted to its CBOR size arithmetic (Base/Cbor.v); the arithmetic is checked "
           "against coset/ciborium and c2pa_cbor by the correspondence run (actual serialised sizes are compared)",
           "coset 0.4.2 Header::to_cbor_value duplicate-label rejection transcribed in Model/PadCose.v (has_dup)",
           "signature / certificate bytes are irrelevant to the size and are not modelled"]
ASSUMPTIONS = ["debug-profile harness (overflow checks on); 64-bit usize; sizes far below 2^63",
               "test signers of sdk/tests/fixtures/certs without time-stamp authority and OCSP (unprotected header has no extra entries)",
               "allocation failure for absurd reserves (>> 70000 over the minimum) is outside the model"]

ALGS = ["ed25519", "es256", "es384", "es512", "ps256", "ps384", "ps512"]
IMPORTS = ("From C2PA Require Import Base.Bytes Base.Cbor Model.PadCose Model.PadData.\n"
           "From Coq Require Import NArith ZArith List.\nImport ListNotations.\nOpen Scope N_scope.")
SIZE_ERRORS = ("BoxSizeTooSmall", "CoseSigboxTooSmall")
KNOWN_LO, KNOWN_HI, KNOWN_FROM = 1, 262, 65543          # class of F-PADCOSE (mirrors known_gap in PadCoseProofs.v)
SKIPPED = [25, 258, 65539, 65540]


# ------------------------------------------------------------------ facts

def _utf8(s):
    return "[" + "; ".join(str(b) for b in s.encode()) + "]"


def facts(ctx):
    t = common.strip_tests(common.src("sdk/src/crypto/cose/sign.rs"))
    pad = common.fact(r'const\s+PAD\s*:\s*&str\s*=\s*"([^"]*)"\s*;', t, "PAD").group(1)
    pad2 = common.fact(r'const\s+PAD2\s*:\s*&str\s*=\s*"([^"]*)"\s*;', t, "PAD2").group(1)
    off = common.rust_int(common.fact(r"const\s+PAD_OFFSET\s*:\s*usize\s*=\s*([^;]+);", t, "PAD_OFFSET").group(1))
    body = common.fn_body(t, r"fn\s+pad_cose_sig\s*\(", "pad_cose_sig")
    flat = re.sub(r"\s+", " ", re.sub(r"//[^\n]*", "", body))
    lit = common.fact(r'header_pair\.0\s*==\s*Label::Text\(\s*"([^"]*)"\.to_string\(\)\s*\)', flat, "label literal compared in the loop").group(1)
    if lit != pad:
        raise TieBroken(f"srcfacts: the loop looks for label {lit!r} but PAD is {pad!r}")
    sub = common.rust_int(common.fact(r"vec!\[0u8;\s*last_pad\s*-\s*(\d+)\s*\]", flat, "last_pad - N").group(1))
    need = [(r"if cur_size == end_size \{ return Ok\(cur_vec\); \}", "equal-size early return"),
            (r"if cur_size \+ PAD_OFFSET > end_size \{ return Err\(CoseError::BoxSizeTooSmall\); \}", "too-small test"),
            (r"let mut target_guess = end_size - cur_size - PAD_OFFSET;", "initial guess"),
            (r"let mut last_pad = 0;", "last_pad initial value"),
            (r"if let Value::Bytes\(b\) = &header_pair\.1 \{ last_pad = b\.len\(\); \}", "last_pad assignment"),
            (r"header_pair\.1 = Value::Bytes\(vec!\[0u8; target_guess\]\);", "pad replacement"),
            (r"if !padding_found \{ sign1_clone\.unprotected\.rest\.push\(\( Label::Text\(PAD\.to_string\(\)\), Value::Bytes\(vec!\[0u8; target_guess\]\), \)\); return pad_cose_sig\(&mut sign1_clone, Some\(end_size\)\); \}", "first pad push + recursion"),
            (r"match new_cbor\.len\(\) < end_size \{ true => target_guess \+= 1, false if new_cbor\.len\(\) == end_size => return Ok\(new_cbor\), false => break,", "adjust loop arms"),
            (r"sign1\.unprotected\.rest\.push\(\( Label::Text\(PAD2\.to_string\(\)\),", "second pad push"),
            (r"\)\); pad_cose_sig\(sign1, Some\(end_size\)\) \}$", "final recursion")]
    for pat, what in need:
        if not re.search(pat, flat):
            raise TieBroken(f"srcfacts: pad_cose_sig no longer has the modelled shape ({what})")
    d = common.strip_tests(common.src("sdk/src/assertions/data_hash.rs"))
    dbody = re.sub(r"\s+", " ", re.sub(r"//[^\n]*", "", common.fn_body(d, r"pub\s+fn\s+pad_to_size\s*\(", "DataHash::pad_to_size")))
    div = common.rust_int(common.fact(r"let pad2_size = last_pad\s*/\s*(\d+)\s*;", dbody, "last_pad / N").group(1))
    dneed = [(r"if curr_size > desired_size \{ return Err\(Error::JumbfCreationError\); \}", "too-small test"),
             (r"let mut last_pad = 0;", "last_pad initial value"),
             (r"if curr_size == desired_size \{ break; \}", "exit test"),
             (r"if desired_size > curr_size \{ self\.pad\.push\(0x0\); curr_size = self\.to_assertion\(\)\?\.data\(\)\.len\(\); last_pad \+= 1; \}", "push one byte"),
             (r"Some\(_pad2\) => return Err\(Error::JumbfCreationError\),", "second overshoot"),
             (r"None => \{ .*self\.pad\.clear\(\); let pad2_size = .*; self\.pad2 = Some\(ByteBuf::from\(vec!\[0u8; pad2_size\]\)\); return self\.pad_to_size\(desired_size\); \}", "second pad")]
    for pat, what in dneed:
        if not re.search(pat, dbody):
            raise TieBroken(f"srcfacts: DataHash::pad_to_size no longer has the modelled shape ({what})")
    common.fact(r'#\[serde\(with = "serde_bytes"\)\]\s*pub pad: Vec<u8>,', d, "DataHash.pad field")
    common.fact(r'#\[serde\(skip_serializing_if = "Option::is_none"\)\]\s*pub pad2: Option<serde_bytes::ByteBuf>,', d, "DataHash.pad2 field")
    v = ("(* generated from sdk/src/crypto/cose/sign.rs and sdk/src/assertions/data_hash.rs on every run — do not edit *)\n"
         "From Coq Require Import NArith List.\nImport ListNotations.\nOpen Scope N_scope.\n"
         "(* const PAD / PAD2 (UTF-8 bytes of the text labels), PAD_OFFSET, and the literal in `last_pad - 10` *)\n"
         f"Definition PAD : list N := {_utf8(pad)}.\n"
         f"Definition PAD2 : list N := {_utf8(pad2)}.\n"
         f"Definition PAD_OFFSET : N := {off}.\n"
         f"Definition PAD2_SUB : N := {sub}.\n"
         "(* DataHash: serde field names of the two padding fields, and the divisor in `last_pad / 2` *)\n"
         f"Definition DH_PAD_KEY : list N := {_utf8('pad')}.\n"
         f"Definition DH_PAD2_KEY : list N := {_utf8('pad2')}.\n"
         f"Definition DH_PAD2_DIV : N := {div}.\n")
    common.write_if_changed(os.path.join(common.COQ, "Generated", "C14_facts.v"), v)
    ctx.facts = {"PAD": pad, "PAD2": pad2, "PAD_OFFSET": off, "PAD2_SUB": sub, "DH_PAD2_DIV": div}


# ------------------------------------------------------------------ CBOR sizes (python side, independent of the model)

def hdr(n):
    return 1 if n < 24 else 2 if n < 256 else 3 if n < 65536 else 5 if n < (1 << 32) else 9


def bstr(n):
    return hdr(n) + n


def int_size(z):
    return hdr(z if z >= 0 else -1 - z)


def label_size(l):
    return bstr(len(l["t"].encode())) if "t" in l else int_size(l["i"])


def value_size(v):
    if "b" in v:
        return bstr(v["b"])
    if "t" in v:
        return bstr(v["t"])
    if "i" in v:
        return int_size(v["i"])
    return v["o"]


def synth_norest(c):
    """size of the coset-built Sign1 with an empty `rest`: tag, array head, protected bstr({1:-7}), map, nil, signature"""
    kid = c.get("kid", 0)
    return 1 + 1 + 4 + 1 + ((1 + bstr(kid)) if kid else 0) + 1 + bstr(c.get("sig", 64))


def synth_size(c):
    nf = 1 if c.get("kid", 0) else 0
    n = nf + len(c["rest"])
    return synth_norest(c) - hdr(nf) + hdr(n) + sum(label_size(l) + value_size(v) for l, v in c["rest"])


def coq_label(l):
    return f"LText {_utf8(l['t'])}" if "t" in l else f"LInt ({l['i']})%Z"


def coq_value(v):
    return f"VBytes {v['b']}" if "b" in v else f"VOther {value_size(v)}"


def coq_sign1(size_norest, nfields, rest):
    return f"(Sign1 {size_norest - hdr(nfields)} {nfields} {coq_list([f'({coq_label(l)}, {coq_value(v)})' for l, v in rest])})"


def canon_rest_impl(rest):
    return [(("t", l["t"]) if "t" in l else ("i", l["i"]), ("b", v["b"]) if "b" in v else ("o", value_size(v))) for l, v in rest]


def canon_rest_model(rest):
    out = []
    for l, v in rest:
        lab = ("t", bytes(l[1]).decode()) if l[0] == "LText" else ("i", l[1])
        out.append((lab, ("b", v[1]) if v[0] == "VBytes" else ("o", v[1])))
    return out


# ------------------------------------------------------------------ generation

def in_known(g):
    return KNOWN_LO <= g <= KNOWN_HI or g >= KNOWN_FROM


def windows(rng, quick):
    """stratified gap ranges around the CBOR head boundaries (24, 256, 65536 + label/offset) and the class borders"""
    w = [[-10, 45], [250, 300], [65520, 65560], [69990, 70010]]
    for _ in range(3 if quick else 0):
        a = rng.randrange(300, 65000)
        w.append([a, a + 40])
    return w


LABEL_POOL = [{"t": "pad"}, {"t": "pad2"}, {"t": "sigTst2"}, {"t": "sigTst"}, {"t": "rVals"}, {"i": 33}, {"i": -5},
              {"i": 1000}, {"t": "p"}, {"t": "padd"}, {"t": "x" * 30}]


def gen_synth(rng, kind):
    c = {"mode": "synth", "sig": rng.choice([0, 23, 64, 64, 132, 256, 512]), "kid": rng.choice([0, 0, 0, 4, 30])}
    rest = []
    if kind == "fresh":                      # what the SDK produces: no pad, distinct labels, small map
        labs = rng.sample([l for l in LABEL_POOL if l.get("t") != "pad"], rng.choice([0, 0, 1, 2, 3]))
        rest = [[l, rng.choice([{"b": rng.randrange(0, 300)}, {"t": rng.randrange(0, 40)}, {"i": rng.randrange(0, 70000)}])] for l in labs]
    elif kind == "bigmap":                   # crosses the 23 -> 24 entries boundary of the map head
        n = rng.choice([21, 22, 23, 23, 24, 25])
        n -= 1 if c["kid"] else 0
        rest = [[{"i": 100 + i}, {"i": i}] for i in range(n)]
    else:                                    # prepadded / duplicates: drives the adjust loop and the second pad
        labs = [rng.choice(LABEL_POOL) for _ in range(rng.choice([0, 1, 2, 3]))]
        if kind == "prepadded":
            labs = [l for l in labs if l.get("t") != "pad"]
            labs.insert(rng.randrange(0, len(labs) + 1), {"t": "pad"})
            if rng.random() < 0.3:
                labs.append({"t": "pad2"})
        rest = []
        for l in labs:
            if l.get("t") == "pad":
                v = rng.choice([{"b": rng.choice([0, 1, 5, 9, 10, 11, 22, 23, 24, 40, 200, 255, 256, 300, 70000])},
                                {"b": rng.randrange(0, 400)}, {"t": 3}])
            else:
                v = rng.choice([{"b": rng.randrange(0, 300)}, {"t": rng.randrange(0, 40)}, {"i": rng.randrange(0, 70000)}])
            rest.append([l, v])
    c["rest"] = rest
    size0 = synth_size(c)
    r = rng.random()
    if kind == "prepadded" and r < 0.6:
        # aim at a size the single pad cannot reach: E - (size0 - bstr(p)) in the skipped set
        p = next((v["b"] for l, v in rest if l.get("t") == "pad" and "b" in v), 0)
        gap = rng.choice(SKIPPED) - bstr(p) + rng.choice([-1, 0, 0, 0, 1])
    elif r < 0.5:
        gap = rng.choice([-8, -1, 0, 0, 1, 2, 6, 7, 8, 23, 24, 29, 30, 31, 32, 255, 256, 261, 262, 263, 264, 270,
                          65541, 65542, 65543, 65544, 69999])
    elif r < 0.85:
        gap = rng.randrange(0, 1200)
    else:
        gap = rng.randrange(0, 70001)
    c["end"] = None if rng.random() < 0.03 else max(0, size0 + gap)
    c["kind"] = kind
    return c


def gen_data(rng, big=False):
    c = {"mode": "data", "name": rng.choice(["jumbf manifest", "", "n" * 30]), "alg": rng.choice(["sha256", "sha384", "sha512"]),
         "hash": rng.choice([0, 32, 32, 48, 64]),
         "excl": [[rng.choice([0, 20, 1 << 20, 1 << 40]), rng.choice([1, 2, 70000, 1 << 33])] for _ in range(rng.choice([0, 1, 1, 2, 10]))]}
    r = rng.random()
    if r < 0.7:
        c["pad0"], c["pad2"] = 0, None
    elif r < 0.85:
        c["pad0"], c["pad2"] = rng.choice([1, 5, 23, 24, 100, 255, 256, 300]), None
    else:
        c["pad0"], c["pad2"] = rng.choice([0, 3, 24]), rng.choice([0, 7, 12, 128])
    size_pad0 = bstr(c["pad0"])
    r = rng.random()
    if big:
        d = rng.choice([65539, 65540, 65541, 65538]) - size_pad0 if r < 0.6 else rng.randrange(60000, 70001)
    elif r < 0.08:
        d = rng.choice([0, 0, 1])
    elif r < 0.35:
        d = rng.choice(SKIPPED[:2]) - size_pad0 + rng.choice([-1, 0, 0, 1])
    elif r < 0.6:
        d = rng.randrange(-2, 60)
    elif r < 0.8:
        d = rng.randrange(230, 300)
    else:
        d = rng.randrange(0, 3000)
    c["delta"] = d
    return c


def corpus():
    p = os.path.join(common.VERIF, "corpus", "C14.jsonl")
    if not os.path.exists(p):
        return []
    return [json.loads(l) for l in open(p) if l.strip()]


def gen_cases(ctx):
    rng, quick = ctx.rng, ctx.quick()
    cases = corpus()
    # (1) pad_cose_sig on the Sign1 of every real signer, swept over gaps
    full = [rng.choice(ALGS)] if quick else ALGS
    for alg in ALGS:
        for tss in ([2] if quick else [1, 2]):
            if alg in full and tss == 2:
                step = 10000
                for a in range(-10, 70011, step):
                    cases.append({"mode": "real_sweep", "alg": alg, "tss": tss, "gaps": [[a, min(a + step - 1, 70010)]]})
            else:
                for w in windows(rng, quick):
                    cases.append({"mode": "real_sweep", "alg": alg, "tss": tss, "gaps": [w]})
    # (2) the real signing path with a chosen box size
    gaps = [0, 1, 262, 263, 65542, 65543] if quick else [0, 1, 6, 7, 8, 30, 31, 255, 262, 263, 264, 1000, 9999, 65542, 65543, 70000]
    for alg in (rng.sample(ALGS, 2) if quick else ALGS):
        for g in gaps:
            cases.append({"mode": "sign", "alg": alg, "tss": rng.choice([1, 2]), "gap": g})
    # (3) Builder::sign with a signer reporting the reserve
    for alg in (["ed25519"] if quick else ["ed25519", "es256", "ps256"]):
        for g in ([0, 1, 263, 5000] if quick else [0, 1, 7, 262, 263, 300, 5000, 65542, 65543]):
            cases.append({"mode": "e2e", "alg": alg, "gap": g})
    # (4) coset-built structures through the hook
    n = 300 if quick else 3000
    for i in range(n):
        cases.append(gen_synth(rng, ["fresh", "fresh", "prepadded", "prepadded", "bigmap", "mixed"][i % 6]))
    # (5) DataHash::pad_to_size
    for i in range(150 if quick else 1500):
        cases.append(gen_data(rng))
    for i in range(2 if quick else 24):
        cases.append(gen_data(rng, big=True))
    return cases


# ------------------------------------------------------------------ evaluation

def model_exprs(cases, impl):
    """one Gallina expression per case that needs the model (needs the sizes reported by the harness)"""
    exprs, owners = [], []
    for c in cases:
        r = impl[c["id"]]
        m = c["mode"]
        if m == "synth":
            nf = 1 if c.get("kid", 0) else 0
            s = coq_sign1(synth_norest(c), nf, c["rest"])
            e = "None" if c["end"] is None else f"(Some {c['end']})"
            exprs.append(f"(ser_size {s}, pad_cose_sig_top {s} {e})")
        elif m == "real_sweep" and r.get("r") == "sweep":
            d = r["desc"]
            s = coq_sign1(d["size_norest"], d["nfields"], d["rest"])
            a, b = c["gaps"][0]
            a = max(a, -d["base"])
            exprs.append(f"(ser_size {s}, rle (sweep (N.to_nat {b - a + 1}) {s} {d['base'] + a}))")
        elif m in ("sign", "e2e") and "desc" in r:
            d = r["desc"]
            s = coq_sign1(d["size_norest"], d["nfields"], d["rest"])
            exprs.append(f"(ser_size {s}, pad_cose_sig_top {s} (Some {r['end']}))")
        elif m == "data" and "size_fresh" in r:
            p2 = "None" if c["pad2"] is None else f"(Some {c['pad2']})"
            exprs.append(f"(dh_size (DH {r['size_fresh'] - 1} {c['pad0']} {p2}), pad_to_size_top (DH {r['size_fresh'] - 1} {c['pad0']} {p2}) {r['desired']})")
        else:
            continue
        owners.append(c["id"])
    return exprs, owners


CODES = {0: "ok", 2: "err:BoxSizeTooSmall", 3: "err:CborGenerationError", 4: "panic", 5: "outoffuel"}


def model_outcome(t):
    """pres term -> canonical tuple"""
    if t == "PPanic":
        return ("panic",)
    if t == "POutOfFuel":
        return ("outoffuel",)
    if t[0] == "PErr":
        return ("err", t[1])
    return ("ok", t[2], canon_rest_model(t[1]["rest"]))


def report_cose(ctx, case, base, lo, hi, code, where):
    """oracle for COSE padding on inputs inside the property's domain: gaps lo..hi (>= 0) all had outcome `code` != ok"""
    pieces = []
    for a, b in ((lo, min(hi, 0)), (max(lo, KNOWN_LO), min(hi, KNOWN_HI)), (max(lo, KNOWN_HI + 1), min(hi, KNOWN_FROM - 1)), (max(lo, KNOWN_FROM), hi)):
        if a <= b:
            pieces.append((a, b))
    for a, b in pieces:
        kind = code.split(":")[-1]
        if code == "panic":
            why = f"{where}: panic at reserve = minimum + {a}"
        elif kind in SIZE_ERRORS:
            why = (f"{where}: reserve {base + a} >= minimal size {base} (gap {a}..{b}) fails with a size error ({kind}) "
                   f"although reserve = minimum succeeds")
        else:
            why = f"{where}: reserve = minimum + {a}..{b} fails with {code}"
        rc = dict(case)
        if case["mode"] == "real_sweep":
            rc["gaps"] = [[a, a]]
        ctx.report_violation(rc, why, {"kind": "cose", "gap_lo": a, "gap_hi": b, "mode": case["mode"]})


def evaluate(ctx, cases, with_model=True):
    impl = common.run_harness("c14", cases, timeout=3000)
    model = {}
    if with_model:
        exprs, owners = model_exprs(cases, impl)
        # sweeps are heavy: one expression per shard for them, many light ones together
        heavy = [i for i, e in enumerate(exprs) if " rle " in e and int(re.search(r"N\.to_nat (\d+)", e).group(1)) > 1500]
        light = [i for i in range(len(exprs)) if i not in set(heavy)]
        for idxs, shard in ((heavy, 1), (light, 60)):
            if idxs:
                res = common.coq_eval("C14" + ("s" if shard == 1 else ""), IMPORTS, [exprs[i] for i in idxs], shard_size=shard)
                for i, t in zip(idxs, res):
                    model[owners[i]] = t
    st = {"modes": {}, "outcomes": {}, "sweep_calls": 0, "sweep_runs": {}, "e2e_states": {}, "synth_kinds": {},
          "data": {"ok": 0, "err": 0, "second_pad_used": 0, "unspecified": 0}, "oracle_unspecified": 0, "real_bases": {}}
    distinct = set()
    nobase_seen = set()
    evaluations = 0
    for c in cases:
        r = impl[c["id"]]
        m = c["mode"]
        st["modes"][m] = st["modes"].get(m, 0) + 1
        mo = model.get(c["id"])
        if r["r"] == "nobase":
            # the harness obtains the unpadded Sign1 by signing with reserves 20000, 40000 and 60000 (each far above
            # any minimum, at most one of them can fall into the known class): all three failed
            if c.get("alg") not in nobase_seen:
                nobase_seen.add(c.get("alg"))
                ctx.report_violation(c, f"cose_sign({c.get('alg')}) fails for each of the reserves 20000, 40000 and 60000: {r.get('detail')}", {"kind": "cose-nobase"})
            continue
        if r["r"] in ("crash", "badmode", "unimplemented"):
            ctx.tie_errors.append(f"harness could not run case {json.dumps(c)[:200]}: {r.get('msg') or r['r']}")
            continue
        if m == "real_sweep":
            d = r["desc"]
            base = d["base"]
            st["real_bases"][c["alg"]] = base
            st["sweep_calls"] += r["calls"]
            evaluations += r["calls"]
            # oracle
            for a, b, code in r["runs"]:
                st["sweep_runs"][code] = st["sweep_runs"].get(code, 0) + (b - a + 1)
                distinct.add((c["alg"], a, b, code))
                if code.startswith("ok-badlen"):
                    ctx.report_violation(dict(c, gaps=[[a, a]]), f"padded COSE has length {code.split(':')[1]} != reserve {base + a}", {"kind": "cose-len"})
                elif code == "panic":
                    report_cose(ctx, c, base, a, b, code, f"pad_cose_sig({c['alg']})")
                elif code != "ok" and b >= 0:
                    report_cose(ctx, c, base, max(a, 0), b, code, f"pad_cose_sig({c['alg']})")
                elif code == "ok" and a < 0:
                    ctx.report_violation(dict(c, gaps=[[a, a]]), f"reserve below the unpadded size {base} accepted", {"kind": "cose-below"})
            # correspondence
            if mo is not None:
                msz, mruns = mo
                a0 = max(c["gaps"][0][0], -base)
                mr, g = [], a0
                for code, k in mruns:
                    mr.append([g, g + k - 1, CODES.get(code, f"code{code}")])
                    g += k
                if msz != ["Some", base] or mr != [list(x) for x in r["runs"]]:
                    ctx.disagreements.append({"case": c, "impl": {"size": base, "runs": r["runs"][:8]}, "model": {"size": msz, "runs": mr[:8]}})
            continue
        evaluations += 1
        if m in ("sign", "e2e"):
            d = r["desc"]
            base, gap = d["base"], c["gap"]
            out = r["r"] if r["r"] != "err" else "err:" + r["kind"]
            st["outcomes"][f"{m}:{out}"] = st["outcomes"].get(f"{m}:{out}", 0) + 1
            distinct.add((m, c["alg"], gap))
            if m == "e2e" and r["r"] == "ok":
                st["e2e_states"][r["state"]] = st["e2e_states"].get(r["state"], 0) + 1
            where = "cose_sign" if m == "sign" else "Builder::sign"
            if r["r"] == "panic":
                report_cose(ctx, c, base, gap, gap, "panic", f"{where}({c['alg']})")
            elif r["r"] == "ok":
                if m == "sign" and r["len"] != r["end"]:
                    ctx.report_violation(c, f"padded COSE has length {r['len']} != reserve {r['end']}", {"kind": "cose-len"})
                if gap < 0:
                    ctx.report_violation(c, f"reserve below the unpadded size {base} accepted", {"kind": "cose-below"})
            elif gap >= 0:
                report_cose(ctx, c, base, gap, gap, "err:" + r.get("kind", "?"), f"{where}({c['alg']})")
            if mo is not None:
                msz, mres = mo
                mres = model_outcome(mres)
                if r["r"] == "ok":
                    ir = ("ok",)
                elif r["r"] == "panic":
                    ir = ("panic",)
                else:
                    ir = ("err", "BoxSizeTooSmall" if r.get("kind") in SIZE_ERRORS else r.get("kind"))
                if msz != ["Some", base] or mres[:1] + (mres[1:2] if mres[0] == "err" else ()) != ir:
                    ctx.disagreements.append({"case": c, "impl": {"size": base, "r": ir}, "model": {"size": msz, "r": mres[:2]}})
            continue
        if m == "synth":
            kind = c.get("kind", "corpus")
            st["synth_kinds"][kind] = st["synth_kinds"].get(kind, 0) + 1
            out = r["r"] if r["r"] != "err" else "err:" + r["kind"]
            st["outcomes"][f"synth:{out}"] = st["outcomes"].get(f"synth:{out}", 0) + 1
            labs = [json.dumps(l, sort_keys=True) for l, _ in c["rest"]]
            nf = 1 if c.get("kid", 0) else 0
            in_domain = (not any(l.get("t") == "pad" for l, _ in c["rest"]) and len(set(labs)) == len(labs)
                         and nf + len(c["rest"]) + 1 < 24)
            size0 = r.get("size0")
            distinct.add(("synth", json.dumps(c["rest"]), c["sig"], c["kid"], c["end"]))
            # oracle
            if r["r"] == "ok" and c["end"] is not None and r["len"] != c["end"]:
                ctx.report_violation(c, f"padded COSE has length {r['len']} != reserve {c['end']}", {"kind": "cose-len"})
            if r["r"] == "ok" and not r.get("same_sig", True):
                ctx.report_violation(c, "padding changed the signature or the protected header", {"kind": "cose-content"})
            if in_domain and size0 is not None and c["end"] is not None:
                gap = c["end"] - size0
                if r["r"] == "panic":
                    report_cose(ctx, c, size0, gap, gap, "panic", "pad_cose_sig(synthetic)")
                elif r["r"] == "err" and gap >= 0:
                    report_cose(ctx, c, size0, gap, gap, "err:" + r["kind"], "pad_cose_sig(synthetic)")
                elif r["r"] == "ok" and gap < 0:
                    ctx.report_violation(c, f"reserve below the unpadded size {size0} accepted", {"kind": "cose-below"})
            else:
                st["oracle_unspecified"] += 1
            # correspondence: serialised size of the input, outcome, and the padded header
            if mo is not None:
                msz, mres = mo
                mres = model_outcome(mres)
                isz = ["Some", size0] if size0 is not None else "None"
                if r["r"] == "ok":
                    ir = ("ok", r["len"], canon_rest_impl(r.get("rest", [])))
                elif r["r"] == "panic":
                    ir = ("panic",)
                else:
                    ir = ("err", r["kind"])
                if size0 is not None and size0 != synth_size(c):
                    ctx.disagreements.append({"case": c, "impl": {"size": size0}, "model": {"python_size": synth_size(c)}})
                elif msz != isz or mres != ir:
                    ctx.disagreements.append({"case": c, "impl": {"size": isz, "r": str(ir)[:300]}, "model": {"size": msz, "r": str(mres)[:300]}})
            continue
        if m == "data":
            fresh2 = c["pad2"] is None
            delta = r["desired"] - r["size0"]
            distinct.add(("data", r["size_fresh"], c["pad0"], c["pad2"], delta))
            if r["r"] == "panic":
                ctx.report_violation(c, f"DataHash::pad_to_size panicked: {r.get('msg')}", {"kind": "data"})
            elif r["r"] == "ok":
                st["data"]["ok"] += 1
                if r["pad2"] is not None and fresh2:
                    st["data"]["second_pad_used"] += 1
                if r["len"] != r["desired"]:
                    ctx.report_violation(c, f"data hash padded to {r['len']} bytes, desired {r['desired']}", {"kind": "data"})
            else:
                st["data"]["err"] += 1
                if fresh2 and delta >= 0:
                    ctx.report_violation(c, f"DataHash::pad_to_size failed ({r['kind']}) for a target {delta} bytes above the current size {r['size0']}", {"kind": "data"})
                elif not fresh2:
                    st["data"]["unspecified"] += 1
            if mo is not None:
                msz, mres = mo
                if mres == "DErr":
                    mr = ("err",)
                elif mres == "DOutOfFuel":
                    mr = ("outoffuel",)
                else:
                    dd = mres[1]
                    p2 = dd["dpad2"]
                    mr = ("ok", dd["dpad"], None if p2 == "None" else p2[1])
                ir = ("ok", r["pad"], r["pad2"]) if r["r"] == "ok" else ("panic",) if r["r"] == "panic" else ("err",)
                if msz != r["size0"] or mr != ir or (r["r"] == "err" and r["kind"] != "JumbfCreationError"):
                    ctx.disagreements.append({"case": c, "impl": {"size": r["size0"], "r": ir, "kind": r.get("kind")}, "model": {"size": msz, "r": mr}})
    return st, len(distinct), evaluations


def run(ctx):
    if not getattr(ctx, "no_build", False):
        common.build_harness()
    if ctx.replay:
        cases = [ctx.replay["case"]] if "case" in ctx.replay else [d["case"] for d in ctx.replay.get("disagreements", [])]
    else:
        cases = gen_cases(ctx)
    for i, c in enumerate(cases):
        c["id"] = i
    st, distinct, evaluations = evaluate(ctx, cases)
    ctx.coverage.update({
        "evaluations": evaluations, "distinct_nontrivial": distinct,
        "rule": "corpus + pad_cose_sig (hook) on the real Sign1 of each of the 7 test signers for every gap in -10..70010 "
                "(thorough: all algorithms, both time-stamp layouts; quick: one algorithm in full, stratified windows around "
                "0/24/256/65536 and the class borders for the others) + cose_sign and Builder::sign at chosen reserves + "
                "seeded coset-built structures (fresh / pre-padded / duplicate labels / 23-25 map entries) + DataHash::pad_to_size "
                "targets dense around the skipped sizes 25/258/65539/65540; an evaluation is one padding call; "
                "distinct = distinct (structure, reserve) or outcome run",
        "distribution": st, "cases": len(cases),
        "traces_validated_against_impl": len(cases),
        "samples": [{k: (v if len(json.dumps(v)) < 200 else json.dumps(v)[:200] + "...") for k, v in c.items()}
                    for c in cases[:2] + cases[len(cases) // 2: len(cases) // 2 + 2] + cases[-1:]],
    })


def search(ctx):
    """tie broken and nothing found yet: every algorithm in full plus more synthetic and data cases, oracle only"""
    common.build_harness()
    rng = ctx.rng
    cases = []
    for alg in ALGS:
        for a in range(-10, 70011, 10000):
            cases.append({"mode": "real_sweep", "alg": alg, "tss": 2, "gaps": [[a, min(a + 9999, 70010)]]})
    cases += [gen_synth(rng, "fresh") for _ in range(3000)]
    cases += [gen_data(rng) for _ in range(1500)] + [gen_data(rng, big=True) for _ in range(16)]
    for i, c in enumerate(cases):
        c["id"] = i
    _, _, n = evaluate(ctx, cases, with_model=False)
    ctx.coverage["search_evaluations"] = n
