"""C24 — contexts are isolated and safe to share across threads.

facts(): from sdk/src/context.rs the fields of `Context` with their interior-mutability wrappers, every method of
`impl Context` with its receiver and (for `&self` methods) its write footprint; from sdk/src/settings/mod.rs the
functions that touch the thread-local SETTINGS and the builder-style API with a "touches the thread-local" flag; the
process-global cell inventory of the SDK (scanner of C38) -> coq/Generated/C24_facts.v.  Properties/C24.v requires the
footprints to be the ones Model/Contexts.v has steps for.
run(): 1-16 OS threads x shared / distinct `Arc<Context>` x seeded programs of sign / read / cancel / check / signer /
resolver / settings-builder / legacy thread-local calls with seeded sleeps and yields (harness/src/c24.rs runs every case
concurrently and then one thread after the other on fresh contexts).  Oracle from the property text; correspondence =
the Gallina model run on the observed start order, compared operation by operation (symbolic results)."""
import json, os, re
from .. import common
from ..common import TieBroken, coq_list

PROP_FILE = "Properties/C24.v"
TRUSTED = ["Rust's memory model: each modelled step is atomic (AtomicBool Release/Acquire, OnceLock exactly-once initialisation); "
           "Send/Sync exclude data races on everything reachable from &Context  [ASSUMED, not proved]",
           "operations (sign/read) are functions of the context's settings, their input and the flag: checked by the run (same inputs -> same digest), "
           "and by the global-cell inventory (no other shared mutable state in the SDK)",
           "footprints of the `&self` methods of Context are read off the source text by regular expressions",
           "observed start order (a global ticket taken before each operation) stands for the interleaving in the correspondence run"]
ASSUMPTIONS = ["std threads on the host scheduler: interleavings explored are the ones the OS produces under seeded sleeps/yields (no exhaustive scheduler)",
               "no network"]

INTERIOR = ["AtomicBool", "AtomicUsize", "AtomicU32", "AtomicU64", "OnceLock", "OnceCell", "LazyLock", "Cell", "RefCell", "Mutex", "RwLock", "UnsafeCell"]
BUILDER_API = ["new", "with_json", "with_toml", "with_file", "with_string", "with_value", "set_value", "get_value", "update_from_str"]
TLS_FNS = ["SETTINGS", "set_thread_local_value", "get_thread_local_value", "get_thread_local_settings", "set_settings_value", "get_settings_value",
           "from_string", "from_toml", "from_file", "reset", "reset_default_settings", "to_toml", "to_pretty_toml"]


def cs(s):
    return '"' + s.replace('"', '""') + '"'


def methods_of(text, impl_re):
    """[(name, receiver, body)] of the fns inside the first impl block matching impl_re"""
    body = common.fn_body(text, impl_re, impl_re)
    out = []
    for m in re.finditer(r"(?:pub(?:\([a-z]+\))?\s+)?(?:async\s+)?fn\s+(\w+)\s*(?:<[^({]*>)?\s*\(([^)]*)", body):
        name, params = m.group(1), m.group(2)
        first = params.split(",")[0].strip()
        recv = "&mut self" if first.startswith("&mut self") else "&self" if first.startswith("&self") else \
               "self" if first in ("self", "mut self") else "none"
        try:
            fb = common.fn_body(body[m.start():], r"fn\s+" + name + r"\b", name)
        except TieBroken:
            fb = ""
        out.append((name, recv, fb))
    return out


def facts(ctx):
    t = re.sub(r"^[ \t]*//[^\n]*$", "", common.strip_tests(common.src("sdk/src/context.rs")), flags=re.M)
    sb = common.fn_body(t, r"pub struct Context\s*\{", "struct Context")
    fields = re.findall(r"^\s*(\w+)\s*:\s*([^,\n]+),", re.sub(r"///[^\n]*", "", sb), re.M)
    if not fields:
        raise TieBroken("srcfacts: cannot read the fields of struct Context")
    enums = {n: common.fn_body(t, r"enum\s+" + n + r"\s*\{", n) for n in re.findall(r"enum\s+(\w+State)\s*\{", t)}
    interior = []
    for name, ty in fields:
        full = ty + " " + enums.get(ty.strip(), "")
        for w in INTERIOR:
            if re.search(r"\b" + w + r"\b", full):
                interior.append((name, w))
    if re.search(r"unsafe\s+impl[^{;]*\b(Send|Sync)\b[^{;]*\bContext\b", t):
        raise TieBroken("srcfacts: context.rs now has an unsafe impl Send/Sync for Context")
    ms = methods_of(t, r"\nimpl Context\s*\{")
    if len(ms) < 15:
        raise TieBroken(f"srcfacts: only {len(ms)} methods found in impl Context")
    shared = []
    for name, recv, body in ms:
        if recv != "&self":
            continue
        fp = []
        if re.search(r"\.store\(\s*true\b", body):
            fp.append("flag_set")
        if re.search(r"\.store\(\s*false\b", body) or re.search(r"\.(swap|fetch_\w+|compare_exchange\w*)\(", body):
            fp.append("flag_other_write")
        if "get_or_init" in body:
            fp.append("once_init")
        if re.search(r"self\.settings\s*=[^=]|&mut\s+self\.", body) or re.search(r"\.(borrow_mut|lock|write|set)\(", body):
            fp.append("other_write")
        shared.append((name, fp))
    resets = len(re.findall(r"cancel_flag\s*\.\s*store\(\s*false", t))
    init_bodies = [b for n, r, b in ms if "get_or_init" in b]
    inits_pure = all(not re.search(r"\bstatic\b|thread_local|SETTINGS|get_thread_local", b) for b in init_bodies)

    s = re.sub(r"^[ \t]*//[^\n]*$", "", common.strip_tests(common.src("sdk/src/settings/mod.rs")), flags=re.M)
    if not re.search(r"thread_local!\(\s*static SETTINGS\s*:\s*RefCell<Value>", s):
        raise TieBroken("srcfacts: the thread-local SETTINGS of settings/mod.rs changed shape")
    sm = []
    for im in re.finditer(r"\nimpl Settings\s*\{", s):
        sm += methods_of(s[im.start():], r"\nimpl Settings\s*\{")
    by = {}
    for n, r, b in sm:
        by.setdefault(n, b)
    builder = []
    for n in BUILDER_API:
        if n not in by:
            if n in ("with_file",):
                continue
            raise TieBroken(f"srcfacts: Settings::{n} not found")
        # the body may only call other builder-API functions of Settings: no thread-local accessor, directly or by name
        touches = any(re.search(r"\b" + w + r"\b", by[n]) for w in TLS_FNS if w not in BUILDER_API)
        builder.append((n, touches))
    tls_writers = sorted(n for n, b in by.items() if re.search(r"SETTINGS\s*\.\s*set\(", b))
    tls_readers = sorted(set(n for n, b in by.items() if "SETTINGS" in b) - set(tls_writers))
    free = re.findall(r"\nfn\s+(\w+)|\npub(?:\(crate\))?\s+fn\s+(\w+)", s)
    for a, b_ in free:
        n = a or b_
        try:
            fb = common.fn_body(s, r"fn\s+" + n + r"\b", n)
        except TieBroken:
            continue
        if "SETTINGS" in fb and n not in tls_readers and n not in tls_writers:
            tls_readers.append(n)

    from . import c38
    cells = [(c["name"], c["kind"]) for c in c38.scan()["cells"]]

    v = ("(* generated by vlib/props/c24.py from sdk/src/context.rs, sdk/src/settings/mod.rs and the SDK-wide static scan — do not edit *)\n"
         "From Coq Require Import List String Bool.\nImport ListNotations.\nOpen Scope string_scope.\n\n"
         "(* fields of struct Context *)\n"
         f"Definition context_fields : list string := {coq_list([cs(n) for n, _ in fields])}.\n"
         "(* interior-mutability wrappers reachable from the fields of Context: (field, wrapper) *)\n"
         f"Definition context_interior : list (string * string) := {coq_list([f'({cs(a)}, {cs(b)})' for a, b in interior])}.\n"
         "(* every `&self` method of impl Context with its write footprint *)\n"
         "Definition shared_methods : list (string * list string) := "
         + coq_list([f"({cs(n)}, {coq_list([cs(x) for x in fp])})" for n, fp in shared]) + ".\n"
         f"Definition exclusive_methods : list string := {coq_list([cs(n) for n, r, _ in ms if r in ('&mut self', 'self')])}.\n"
         f"Definition cancel_flag_resets : nat := {resets}.\n"
         f"Definition cell_initialisers_use_own_settings_only : bool := {'true' if inits_pure else 'false'}.\n"
         "(* builder-style API of Settings: (function, does its body mention a thread-local accessor?) *)\n"
         f"Definition settings_builder_api : list (string * bool) := {coq_list([f'({cs(n)}, {str(b).lower()})' for n, b in builder])}.\n"
         f"Definition tls_writers : list string := {coq_list([cs(n) for n in tls_writers])}.\n"
         f"Definition tls_readers : list string := {coq_list([cs(n) for n in sorted(tls_readers)])}.\n"
         "(* process-global cells of the SDK that are not plain immutable statics: (name, kind) *)\n"
         f"Definition global_cells : list (string * string) := {coq_list([f'({cs(a)}, {cs(b)})' for a, b in cells])}.\n")
    common.write_if_changed(os.path.join(common.COQ, "Generated", "C24_facts.v"), v)
    ctx.facts = {"shared": shared, "interior": interior, "builder": builder, "tls_writers": tls_writers, "cells": cells}


# ---------------------------------------------------------------------------------------------------------------
# differential run

SPECS = [
    {"settings": {"builder": {"claim_generator_info": {"name": "ctxA"}, "thumbnail": {"enabled": False}}}, "signer_alg": "es256"},
    {"settings": {"builder": {"claim_generator_info": {"name": "ctxB"}, "thumbnail": {"enabled": True}}, "verify": {"verify_trust": False}}, "signer_alg": "ed25519"},
    {"settings": {"verify": {"verify_trust": False}, "builder": {"thumbnail": {"enabled": False}}}, "signer_alg": "ps256"},
    {"settings": {"builder": {"claim_generator_info": {"name": "ctxD"}, "thumbnail": {"enabled": False}}, "verify": {"verify_after_sign": True}}, "signer_alg": "es384"},
    {"settings": {"builder": {"thumbnail": {"enabled": False}}}, "no_signer": True},
]
ASSETS = {"c": {"fixture": "C.jpg", "fmt": "image/jpeg"}, "ca": {"fixture": "CA.jpg", "fmt": "image/jpeg"},
          "png": {"fixture": "libpng-test.png", "fmt": "image/png"}, "plain": {"fixture": "no_manifest.jpg", "fmt": "image/jpeg"},
          "bad": {"fixture": "E-sig-CA.jpg", "fmt": "image/jpeg"}}
READ_ASSETS = ["c", "ca", "bad", "plain"]
SIGN_ASSETS = ["png", "plain", "png"]
TOMLS = ["[verify]\nverify_trust = false\n", "[builder.thumbnail]\nenabled = false\n", "[core]\nmerkle_tree_chunk_size_in_kb = 7\n",
         "[verify]\nverify_after_sign = false\n", "this is not toml ]["]
BUILDS = [{"json": "{\"verify\":{\"verify_trust\":false}}"}, {"json": "{\"core\":{\"merkle_tree_chunk_size_in_kb\":9}}"}, {"json": "{not json"},
          {"toml": "[builder.thumbnail]\nenabled = false\n"}, {"path": "verify.verify_trust", "value": False}, {"path": "no.such.path", "value": 1},
          {"json": "{\"trust\":{\"trust_anchors\":\"not a pem\"}}"},
          # whole sections (JSON tables) through with_value / set_value
          {"path": "verify", "table": True, "patch": {"verify_after_sign": False, "verify_trust": False}},
          {"path": "builder.thumbnail", "table": True, "patch": {"enabled": False}},
          {"path": "core", "table": True, "patch": {"merkle_tree_chunk_size_in_kb": 11}, "set": True},
          {"path": "verify", "table": True, "patch": {"ocsp_fetch": True}, "set": True}]
# two contexts whose allow-lists differ: each must refuse the other's host, whoever built its resolver first
NET_SPECS = [{"settings": {"core": {"allowed_network_hosts": ["127.0.0.1:1"]}}, "no_signer": True},
             {"settings": {"core": {"allowed_network_hosts": ["127.0.0.2:1"]}}, "no_signer": True}]
NET_URIS = ["http://127.0.0.1:1/x", "http://127.0.0.2:1/x"]
INPUTS = {}          # op key -> small integer (model input id)


def input_id(key):
    return INPUTS.setdefault(key, len(INPUTS) + 1)


def op_key(op):
    k = op["op"]
    if k in ("read", "legacy_read"):
        return f"{k}:{op['asset']}"
    if k == "sign":
        return f"sign:{op['asset']}:{op['title']}"
    if k == "builder":
        return "builder:" + json.dumps({x: op[x] for x in ("json", "toml", "path", "value", "table", "patch", "set") if x in op}, sort_keys=True)
    if k == "resolve":
        return "resolve:" + op["uri"]
    if k == "tls_set":
        return "tls_set:" + op["toml"]
    return k


def gen_case(rng, i, cancel=None):
    n = rng.choice([1, 2, 2, 3, 4, 4, 6, 8, 8, 12, 16])
    shape = rng.choice(["shared", "distinct", "mixed", "mixed"])
    k = 1 if shape == "shared" else n if shape == "distinct" else rng.randrange(1, min(n, 4) + 1)
    specs = [rng.randrange(len(SPECS)) for _ in range(k)]
    with_cancel = (rng.random() < 0.3) if cancel is None else cancel
    heavy = n <= 4
    threads = []
    for t in range(n):
        nops = rng.randrange(2, 6 if heavy else 4)
        prog = []
        for _ in range(nops):
            c = t % k if shape == "distinct" else rng.randrange(k)
            r = rng.random()
            if r < 0.24:
                op = {"op": "read", "ctx": c, "asset": rng.choice(READ_ASSETS)}
            elif r < 0.40:
                op = {"op": "sign", "ctx": c, "asset": rng.choice(SIGN_ASSETS), "title": rng.choice(["t1", "t2"])}
            elif r < 0.48:
                op = {"op": "check", "ctx": c}
            elif r < 0.56:
                op = {"op": "signer", "ctx": c}
            elif r < 0.62:
                op = {"op": "resolver", "ctx": c}
            elif r < 0.74:
                op = dict({"op": "builder"}, **rng.choice(BUILDS))
            elif r < 0.82:
                op = {"op": "tls_set", "toml": rng.choice(TOMLS)}
            elif r < 0.88:
                op = {"op": "tls_get"}
            elif r < 0.94:
                op = {"op": "legacy_read", "asset": rng.choice(["c", "plain"])}
            elif with_cancel:
                op = {"op": "cancel", "ctx": c}
            else:
                op = {"op": "check", "ctx": c}
            if rng.random() < 0.5:
                op["pre_us"] = rng.choice([0, 50, 300, 1500, 6000, 20000])
            if rng.random() < 0.3:
                op["yields"] = rng.randrange(1, 20)
            prog.append(op)
        threads.append(prog)
    return {"id": i, "contexts": [SPECS[s] for s in specs], "spec_ids": specs, "threads": threads, "assets": ASSETS, "shape": shape}


def gen_net_case(rng, i):
    """contexts with different allow-lists, every thread resolves both hosts through one of them; seeded start order"""
    n = rng.choice([2, 2, 3, 4])
    order = rng.sample([0, 1], 2)
    threads = []
    for t in range(n):
        c = order[t % 2]
        prog = [{"op": "resolve", "ctx": c, "uri": u} for u in rng.sample(NET_URIS, 2)]
        if rng.random() < 0.5:
            prog.insert(0, {"op": "resolver", "ctx": c})
        prog[0]["pre_us"] = 0 if t % 2 == 0 else rng.choice([0, 300, 3000])
        threads.append(prog)
    return {"id": i, "contexts": NET_SPECS, "spec_ids": [100, 101], "threads": threads, "assets": ASSETS, "shape": "net"}


def alone_baseline(keys):
    """each (spec, operation) alone, on a fresh context in a fresh process: what the operation does when nothing else ever ran"""
    out = {}
    for spec_id, op in keys:
        op = json.loads(op)
        spec = NET_SPECS[spec_id - 100] if spec_id >= 100 else SPECS[spec_id]
        o = {k: v for k, v in op.items() if k not in ("pre_us", "yields")}
        o["ctx"] = 0
        case = {"id": 0, "contexts": [spec], "spec_ids": [spec_id], "threads": [[o]], "assets": ASSETS, "shape": "alone"}
        r = common.run_harness("c24", [case])[0]
        if r.get("r") == "ok" and r["seq"]["ops"]:
            out[(spec_id, op_key(op))] = r["seq"]["ops"][0]["res"]
    return out


def canon(res, addr_map):
    """result without addresses (replaced by a per-run small id)"""
    r = dict(res)
    if "addr" in r:
        r["addr"] = addr_map.setdefault(r["addr"], len(addr_map))
    return json.dumps(r, sort_keys=True)


def is_cancelled_res(res):
    return res.get("k") == "err" and res.get("kind") == "OperationCancelled"


def evaluate(ctx, cases, with_model=True):
    impl = common.run_harness("c24", cases, timeout=3000, jobs=6)
    stats = {"threads": {}, "shapes": {}, "ops": {}, "with_cancel": 0, "ops_compared": 0, "ops_on_cancelled_ctx": 0, "undetermined": 0,
             "cancelled_results": 0, "overlapping_pairs": 0, "max_parallel": 0, "cell_reads": 0}
    distinct = set()
    models = []
    need_alone = []
    for c in cases:
        r = impl[c["id"]]
        mi = {k: v for k, v in c.items() if k != "assets"}
        if r["r"] != "ok":
            ctx.report_violation(c, f"harness run failed: {r.get('r')} {r.get('msg')}", mi)
            continue
        n = len(c["threads"])
        stats["threads"][n] = stats["threads"].get(n, 0) + 1
        stats["shapes"][c["shape"]] = stats["shapes"].get(c["shape"], 0) + 1
        cancelled_ctx = set(op["ctx"] for p in c["threads"] for op in p if op["op"] == "cancel")
        if cancelled_ctx:
            stats["with_cancel"] += 1
        distinct.add(json.dumps([c["spec_ids"], [[op_key(o) for o in p] for p in c["threads"]]]))
        if not r.get("main_tls_same", False):
            ctx.report_violation(c, "the thread-local settings of the spawning thread changed", mi)
        table = {}                     # (spec, op key) -> canonical result on never-cancelled contexts
        runs = {}
        for which in ("seq", "conc"):
            run = r[which]
            amap = {}
            byop = {}
            cells = {}
            for o in run["ops"]:
                if o["i"] < 0:
                    ctx.report_violation(c, f"{which}: a thread panicked", mi)
                    continue
                op = c["threads"][o["t"]][o["i"]]
                res = o["res"]
                byop[(o["t"], o["i"])] = (op, res, canon(res, amap), o["start"], o["end"])
                if res.get("k") == "cell":
                    cells.setdefault((op["ctx"], op["op"]), set()).add(res["addr"])
                    stats["cell_reads"] += 1
                if op["op"] == "builder" and res.get("tls_same") is not True:
                    ctx.report_violation(c, f"{which}: a settings-builder call changed the calling thread's thread-local settings: {op_key(op)}", mi)
                if res.get("k") in ("panic", "bad-op"):
                    ctx.report_violation(c, f"{which}: {res}", mi)
            for (cx, kind), addrs in cells.items():
                if len(addrs) > 1:
                    ctx.report_violation(c, f"{which}: Context::{kind}() of context {cx} returned {len(addrs)} different objects: the write-once cell was initialised more than once", mi)
            for cx, f in enumerate(run["final"]):
                if f["cancelled"] != (cx in cancelled_ctx):
                    ctx.report_violation(c, f"{which}: context {cx} ends with cancelled={f['cancelled']} but {'a' if cx in cancelled_ctx else 'no'} thread cancelled it", mi)
            runs[which] = byop
        # ---- the property: concurrent == sequential, operation by operation
        for key, (op, res, can, start, end) in runs["conc"].items():
            stats["ops"][op["op"]] = stats["ops"].get(op["op"], 0) + 1
            if key not in runs["seq"]:
                continue
            sres, scan = runs["seq"][key][1], runs["seq"][key][2]
            on_cancelled = "ctx" in op and op["ctx"] in cancelled_ctx
            fkey = (c["spec_ids"][op["ctx"]] if "ctx" in op else -1, op_key(op))
            if not on_cancelled:
                stats["ops_compared"] += 1
                # write-once cells: the address differs between runs, everything else must agree
                a = json.loads(can)
                b = json.loads(scan)
                a.pop("addr", None)
                b.pop("addr", None)
                if is_cancelled_res(res) or is_cancelled_res(sres):
                    ctx.report_violation(c, f"thread {key[0]} op {key[1]} ({op_key(op)} on context {op.get('ctx')}) was cancelled although no thread cancelled that context "
                                            f"(contexts cancelled in this case: {sorted(cancelled_ctx)})", mi)
                elif a != b:
                    ctx.report_violation(c, f"thread {key[0]} op {key[1]} ({op_key(op)} on context {op.get('ctx')}): concurrent result {json.dumps(a)[:300]} "
                                            f"differs from the sequential result {json.dumps(b)[:300]}", mi)
                if op["op"] in ("read", "sign", "signer", "check") and "ctx" in op:
                    prev = table.setdefault(fkey, json.dumps(a, sort_keys=True))
                    if prev != json.dumps(a, sort_keys=True):
                        ctx.report_violation(c, f"the same operation {fkey} on equally configured, never cancelled contexts gave two results", mi)
            else:
                stats["ops_on_cancelled_ctx"] += 1
                if is_cancelled_res(res):
                    stats["cancelled_results"] += 1
                # program order: after its own cancel a thread must see the flag
                own_before = any(o["op"] == "cancel" and o["ctx"] == op["ctx"] for o in c["threads"][key[0]][:key[1]])
                if own_before and op["op"] == "check" and res.get("cancelled") is not True:
                    ctx.report_violation(c, f"thread {key[0]} cancelled context {op['ctx']} and then read is_cancelled() == false", mi)
                if own_before and op["op"] == "read" and not is_cancelled_res(res):
                    ctx.report_violation(c, f"thread {key[0]} cancelled context {op['ctx']} and a later read on it returned {json.dumps(res)[:200]}", mi)
        # ---- thread-local values at the end of every thread: same in both runs; untouched where the program has no legacy write
        for t, prog in enumerate(c["threads"]):
            ct, st = r["conc"]["tls"][t], r["seq"]["tls"][t]
            writes = [op_key(o) for o in prog if o["op"] == "tls_set"]
            if ct != st:
                ctx.report_violation(c, f"thread {t} ends with different thread-local settings in the concurrent and the sequential run", mi)
            elif not writes and ct != r.get("main_tls", ct):
                blame = [op_key(o) for o in prog if o["op"] == "builder"]
                ctx.report_violation(c, f"thread {t} made no legacy settings call but its thread-local settings changed; settings-builder calls of that thread: {blame}", mi)
        # ---- operations whose alone-result is known (fresh context, fresh process)
        for which in ("conc", "seq"):
            for key, (op, res, can, start, end) in runs[which].items():
                if op["op"] == "resolve":
                    need_alone.append((c, mi, which, key, op, res))
        # ---- parallelism actually achieved (coverage only)
        iv = sorted((v[3], v[4], k[0]) for k, v in runs["conc"].items())
        par = 0
        for a in range(len(iv)):
            live = sum(1 for b in range(len(iv)) if iv[b][0] <= iv[a][0] <= iv[b][1] and iv[b][2] != iv[a][2])
            par = max(par, live + 1)
            stats["overlapping_pairs"] += live
        stats["max_parallel"] = max(stats["max_parallel"], par)
        models.append((c, runs["conc"], cancelled_ctx, r["conc"]["final"]))
    if need_alone:
        base = alone_baseline(sorted({(c["spec_ids"][op["ctx"]], json.dumps({k: v for k, v in op.items() if k not in ("pre_us", "yields", "ctx")}, sort_keys=True)) for c, _, _, _, op, _ in need_alone}))
        stats["alone_compared"] = 0
        for c, mi, which, key, op, res in need_alone:
            b = base.get((c["spec_ids"][op["ctx"]], op_key(op)))
            if b is None:
                continue
            stats["alone_compared"] += 1
            if b != res:
                ctx.report_violation(c, f"{which}: thread {key[0]} op {key[1]} ({op_key(op)} through the resolver of context {op['ctx']}, allow-list "
                                        f"{c['contexts'][op['ctx']]['settings']['core']['allowed_network_hosts']}) gave {json.dumps(res)} but the same request through an equally "
                                        f"configured context that is alone in its process gives {json.dumps(b)}", mi)
    models = [m for m in models if m[0]["shape"] != "net"]
    if with_model and models:
        exprs = [model_expr(c, byop) for c, byop, _, _ in models]
        out = common.coq_eval("C24", MODEL_IMPORTS, exprs, shard_size=20)
        for (c, byop, cancelled_ctx, final), t in zip(models, out):
            compare_model(ctx, c, byop, cancelled_ctx, final, t, stats)
    return stats, len(distinct)


MODEL_IMPORTS = ("From C2PA Require Import Model.Contexts.\nFrom Coq Require Import List Bool Arith.\nImport ListNotations.\n"
                 "Arguments RUnit {R V T}.\nArguments RFlag {R V T} b.\nArguments RCell {R V T} v.\nArguments RRes {R V T} r.\nArguments RTls {R V T} t.")


def schedule(c, byop):
    return sorted(byop.items(), key=lambda kv: kv[1][3])


def model_expr(c, byop):
    evs = []
    for (t, i), (op, res, can, start, end) in schedule(c, byop):
        k = op["op"]
        if k == "read":
            a = f"Op nat {op['ctx']} {input_id(op_key(op))} false"
        elif k == "sign":
            a = f"Op nat {op['ctx']} {input_id(op_key(op))} true"
        elif k == "cancel":
            a = f"Cancel nat {op['ctx']}"
        elif k == "check":
            a = f"Check nat {op['ctx']}"
        elif k == "signer":
            a = f"Init nat {op['ctx']} true"
        elif k == "resolver":
            a = f"Init nat {op['ctx']} false"
        elif k == "builder":
            a = f"Build nat {input_id(op_key(op))}"
        elif k == "tls_set":
            a = f"TlsSet nat {input_id(op_key(op))}"
        elif k == "tls_get":
            a = "TlsGet nat"
        else:
            a = f"Legacy nat {input_id(op_key(op))}"
        evs.append(f"({t}, {a})")
    specs = coq_list([str(s) for s in c["spec_ids"]])
    nctx = len(c["spec_ids"])
    return ("let w0 := W nat (bool * nat) (list nat) (fun c => CX nat (bool * nat) (nth c " + specs + " 0) false (fun _ => None) (fun _ => 0)) (fun _ => []) in "
            "let r := run nat nat (list nat * nat * bool) (bool * nat) (list nat) (fun s i f => ([s], i, f)) (fun k s => (k, s)) (fun i => ([], i, false)) "
            "(fun t i => t ++ [i]) (fun t i => (0 :: t, i, false)) w0 " + coq_list(evs) + " in "
            f"(snd r, map (fun c => (cancelled _ _ (ctxs _ _ _ (fst r) c), inits _ _ (ctxs _ _ _ (fst r) c) true, inits _ _ (ctxs _ _ _ (fst r) c) false)) (seq 0 {nctx}))")


def compare_model(ctx, c, byop, cancelled_ctx, final, t, stats):
    results, fin = t
    sched = schedule(c, byop)
    if len(results) != len(sched):
        ctx.disagreements.append({"case": c, "impl": len(sched), "model": len(results)})
        return
    cancels = [(v[0]["ctx"], v[3], v[4], k[0]) for k, v in sched if v[0]["op"] == "cancel"]
    symtab = {}
    for (key, (op, res, can, start, end)), m in zip(sched, results):
        # an operation that overlaps a cancel of its context by another thread has no determined flag
        if "ctx" in op and any(cx == op["ctx"] and th != key[0] and not (ce < start or end < cs_) for cx, cs_, ce, th in cancels):
            stats["undetermined"] += 1
            continue
        head = m[0] if isinstance(m, list) else m
        bad = None
        if head == "RFlag":
            if res.get("cancelled") is not (m[1] == "true"):
                bad = "flag"
        elif head == "RUnit":
            if res.get("k") not in ("unit", "err"):
                bad = "unit"
        elif head == "RCell":
            if res.get("k") not in ("cell", "err"):
                bad = "cell"
            sym = json.dumps(m)
            obs = json.dumps({"k": res.get("k"), "alg": res.get("alg"), "kind": res.get("kind")})
            if symtab.setdefault(sym, obs) != obs:
                bad = "cell value is not a function of (cell, settings)"
        elif head in ("RRes", "RTls"):
            sym = json.dumps(m)
            if head == "RRes" and m[1][2] == "true":
                if op["op"] in ("read", "sign") and not is_cancelled_res(res):
                    # Context::signer() failing (no signer configured) precedes any checkpoint
                    if not (res.get("k") == "err" and res.get("kind") == "MissingSignerSettings"):
                        bad = "model says cancelled, implementation returned " + json.dumps(res)[:120]
            elif head == "RRes" and is_cancelled_res(res):
                bad = "model: flag not set, implementation: OperationCancelled"
            else:
                r2 = {k: v for k, v in res.items() if k != "addr"}
                obs = json.dumps(r2, sort_keys=True)
                if symtab.setdefault(sym, obs) != obs:
                    bad = f"results are not a function of the symbolic result {sym}"
        if bad:
            ctx.disagreements.append({"case": {k: v for k, v in c.items() if k != "assets"}, "op": [key, op], "impl": res, "model": m, "why": bad})
            return
    for cx, (f, m) in enumerate(zip(final, fin)):
        if f["cancelled"] is not (m[0] == "true") or m[1] > 1 or m[2] > 1:
            ctx.disagreements.append({"case": {k: v for k, v in c.items() if k != "assets"}, "impl": final, "model": fin, "why": "final world"})
            return


def corpus():
    p = os.path.join(common.VERIF, "corpus", "C24.jsonl")
    if not os.path.exists(p):
        return []
    out = []
    for l in open(p):
        if l.strip():
            c = json.loads(l)
            c["assets"] = ASSETS
            out.append(c)
    return out


def run(ctx):
    if not getattr(ctx, "no_build", False):
        common.build_harness()
    if ctx.replay:
        cases = [ctx.replay["case"]] if "case" in ctx.replay else [d["case"] for d in ctx.replay.get("disagreements", [])]
        for c in cases:
            c.setdefault("assets", ASSETS)
    else:
        cases = corpus()
        n = 40 if ctx.quick() else 450
        cases += [gen_case(ctx.rng, 0) for _ in range(n)]
        cases += [gen_net_case(ctx.rng, 0) for _ in range(3 if ctx.quick() else 20)]
    for i, c in enumerate(cases):
        c["id"] = i
    stats, distinct = evaluate(ctx, cases)
    ctx.coverage.update({
        "evaluations": sum(len(p) for c in cases for p in c["threads"]) * 2, "distinct_nontrivial": distinct,
        "rule": "each case = per-thread programs over 1..k contexts, run concurrently (one OS thread per program, barrier start, seeded sleeps/yields) and "
                "sequentially on fresh contexts; evaluations = operations executed (both runs); distinct by (context specs, programs)",
        "cases": len(cases), "distribution": stats,
        "traces_validated_against_impl": len(cases),
        "samples": [{"spec_ids": c["spec_ids"], "shape": c["shape"], "threads": [[op_key(o)[:40] for o in p] for p in c["threads"][:3]]} for c in cases[:3]],
    })


def search(ctx):
    common.build_harness()
    cases = [gen_case(ctx.rng, 0) for _ in range(300)] + [gen_net_case(ctx.rng, 0) for _ in range(10)]
    for i, c in enumerate(cases):
        c["id"] = i
    evaluate(ctx, cases, with_model=False)
    ctx.coverage["search_evaluations"] = len(cases)
