"""Parallel harness runner for end-to-end properties whose cases cost seconds each (C20, C21):
one shard per worker regardless of the number of cases (common.run_harness shards by 50 cases)."""
import json, os, subprocess
from .. import common


def run_par(prop, cases, jobs=None, timeout=3000, group_key=None):
    os.makedirs(common.CASES, exist_ok=True)
    if jobs is None:
        jobs = int(os.environ.get("VERIF_E2E_JOBS", "12"))
    n = max(1, min(jobs, len(cases)))
    if group_key is None:
        shards = [cases[i::n] for i in range(n)]
    else:
        # keep cases with the same key in the same worker (the harness caches what they share), balance by size
        groups = {}
        for c in cases:
            groups.setdefault(group_key(c), []).append(c)
        shards = [[] for _ in range(n)]
        for g in sorted(groups.values(), key=len, reverse=True):
            # split very large groups so that no worker gets more than its share
            cap = max(1, (len(cases) + n - 1) // n)
            for i in range(0, len(g), cap):
                min(shards, key=len).extend(g[i:i + cap])
        shards = [s for s in shards if s]
    procs = []
    for k, shard in enumerate(shards):
        path = os.path.join(common.CASES, f"{prop}_par_in_{k}.jsonl")
        with open(path, "w") as f:
            for c in shard:
                f.write(json.dumps(c) + "\n")
        procs.append((shard, subprocess.Popen([common.HARNESS_BIN, prop.lower(), path], stdout=subprocess.PIPE,
                                              stderr=subprocess.PIPE, text=True)))
    out = {}
    for shard, p in procs:
        try:
            so, se = p.communicate(timeout=timeout)
        except subprocess.TimeoutExpired:
            p.kill()
            so, se = p.communicate()
            se += "\nTIMEOUT"
        for line in so.splitlines():
            if line.strip():
                try:
                    r = json.loads(line)
                    out[r["id"]] = r
                except Exception:
                    pass
        for c in shard:
            if c["id"] not in out:
                out[c["id"]] = {"id": c["id"], "r": "crash", "msg": f"harness died rc={p.returncode}: {se[-300:]}"}
    return out


def coq_str(s):
    return '"' + s.replace('"', '""') + '"%string'
