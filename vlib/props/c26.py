"""C26 — the network host allow-list is enforced on every request."""
import json, os, re
from .. import common
from ..common import TieBroken
from . import httpres as H

PROP_FILE = "Properties/C26.v"
TRUSTED = ["http::Uri component extraction (scheme/host/port) and url::Url::join are observed through the harness, not modelled",
           "the wrapper order is read from sdk/src/context.rs by regex (Generated/C26_facts.v); the harness builds the same "
           "stack RedirectResolver(RestrictedResolver(mock)) because the SDK's own builder hard-wires the real HTTP client",
           "std str methods (to_ascii_lowercase, strip_prefix, rsplit_once, ends_with, eq_ignore_ascii_case) transcribed"]
ASSUMPTIONS = ["the transport is a scripted mock (sync and async stacks both run, must agree)",
               "patterns outside the documented grammar ([scheme://][*.]host[:port]) are checked against the model only"]

HOSTS = ["example.org", "sub.example.org", "a.b.example.org", "contentauthenticity.org", "192.0.2.1", "localhost", "xn--bcher-kva.example",
         "example.com", "cdn.example.net", "8.8.8.8", "[::1]", "[2001:db8::1]", "ex-ample.org", "org", "e"]


def ascii_lower(s):
    return "".join(chr(ord(c) + 32) if "A" <= c <= "Z" else c for c in s)


def rand_case(rng, s):
    return "".join(c.upper() if rng.random() < 0.3 else c for c in s)


def gen_pattern(rng, hint=None):
    r = rng.random()
    host = hint or rng.choice(HOSTS)
    if r < 0.07:
        return rng.choice(["", "https://", "http://", "HTTPS://", "https:// ", "*", "*.", ":443", "https://:443", "*.*.example.org", "ftp://example.org",
                           "example.org:80:90", "exämple.org", "É.org", "example.org:", "*.org", "https://*.example.org:8443", "http://*", "*.example.org.",
                           "example.org/", "https://example.org/path", " example.org", "*example.org", "[::1]:8080", "[::1]", "*.:80", "://", "http:/example.org"])
    if rng.random() < 0.35:
        parts = host.split(".")
        if len(parts) > 1 and not host.startswith("["):
            host = "*." + ".".join(parts[rng.randrange(1, len(parts)):]) if rng.random() < 0.7 else "*." + host
    host = rand_case(rng, host)
    scheme = rng.choice(["", "", "", "https://", "http://", "HTTPS://", "Http://"])
    port = rng.choice(["", "", "", ":443", ":8080", ":80", ":0080"])
    return scheme + host + port


def gen_uri(rng, pattern=None):
    """a URI, correlated with the pattern when one is given so that both outcomes are frequent"""
    host = rng.choice(HOSTS)
    port = rng.choice(["", "", "", ":443", ":8080", ":80", ":0080"])
    scheme = rng.choice(["https", "https", "http", "HTTP", "HTTPS", "ftp", "foo"])
    if pattern is not None and rng.random() < 0.8:
        p = ascii_lower(pattern)
        m = re.match(r"^(https?://)?(.*?)(:([^:]*))?$", p)
        ph = m.group(2) or host
        if m.group(1) and rng.random() < 0.8:
            scheme = m.group(1)[:-3]
        if rng.random() < 0.75:
            port = (":" + m.group(4)) if m.group(3) is not None else ""
        if ph.startswith("*."):
            suf = ph[2:]
            host = rng.choice(["sub." + suf, "a.b." + suf, suf, "fake" + suf, "." + suf, "sub." + suf + ".", "sub." + suf + ".evil.com", "x" + "." + suf,
                               "sub-" + suf, "SUB." + suf.upper()])
        else:
            host = rng.choice([ph, ph, ph.upper(), rand_case(rng, ph), ph + ".", "sub." + ph, ph + ".evil.com", "x" + ph, ph[:-1] or "e"])
    if not re.fullmatch(r"[A-Za-z0-9.\-\[\]:_~]*", host) or host == "":
        host = "example.org"
    user = rng.choice(["", "", "", "user@", "u:p@", "example.org@"])
    r = rng.random()
    if r < 0.04:
        return rng.choice(["/only/path", "*", host + port])       # origin-form, asterisk-form, authority-form
    return f"{scheme}://{user}{host}{port}" + rng.choice(["/", "/p?q=1", "", "/a/../b"])


def gen_match(rng):
    p = gen_pattern(rng)
    return {"kind": "match", "pattern": p, "uri": gen_uri(rng, p)}


def matching_uri(rng, pattern):
    """a URI the pattern certainly matches (clean patterns only), else None"""
    m = PAT_RE.match(ascii_lower(pattern))
    if not m or not m.group(3):
        return None
    pscheme, wild, phost, pport = m.groups()
    host = (rng.choice(["sub.", "a.b.", "x-1."]) if wild else "") + phost
    return f"{pscheme or rng.choice(['http', 'https'])}://{rand_case(rng, host)}{':' + pport if pport else ''}{rng.choice(['/', '/p?q=1', '/a/b'])}"


def gen_chain(rng):
    base_hosts = rng.sample(["example.org", "cdn.example.net", "contentauthenticity.org", "8.8.8.8", "example.com"], 3)
    allowed = []
    for h in base_hosts[:rng.choice([1, 2, 2, 3])]:
        allowed.append(gen_pattern(rng, hint=h))
    if rng.random() < 0.1:
        allowed.append(rng.choice(["https://", "http://", "", "*."]))
    if rng.random() < 0.05:
        allowed = []
    allowed_opt = None if rng.random() < 0.07 else allowed

    def target(p_ok):
        if allowed and rng.random() < p_ok:
            u = matching_uri(rng, rng.choice(allowed))
            if u:
                return u
        return gen_uri(rng, rng.choice(allowed) if allowed and rng.random() < 0.7 else None)

    start = target(0.85)
    L = rng.choice([0, 1, 1, 2, 2, 3, 4, 6, 10, 11])
    script = []
    for i in range(L):
        if rng.random() < 0.25:
            loc = rng.choice(["/next", "next", "../x", "?q", "//" + rng.choice(base_hosts) + "/p", ""])
        else:
            loc = target(0.9 if L > 3 else 0.7)
        script.append([rng.choice([301, 302, 303, 307, 308]), loc.encode().hex()])
    r = rng.random()
    if r < 0.07:
        script.append("err")
    elif r < 0.8:
        script.append([rng.choice([200, 200, 404, 304]), None])
    return {"kind": "chain", "allowed": allowed_opt, "allow_redirects": rng.random() > 0.1, "uri": start, "method": rng.choice(["GET", "POST"]),
            "headers": [["Authorization", "78"], ["Accept", "79"]] if rng.random() < 0.3 else [], "body": "", "script": script}


def ctx_cases():
    return [dict(c, **{"async": a}) for a in (False, True) for c in _ctx_cases()]


def _ctx_cases():
    """the SDK's own default stack (Context::resolver(), real HTTP client) against a loopback server that redirects"""
    return [{"kind": "ctx", "allowed": ["127.0.0.1:{port}"], "allow_redirects": True, "location": "http://other.example.invalid/x"},
            {"kind": "ctx", "allowed": ["http://127.0.0.1:{port}", "*.example.org"], "allow_redirects": True, "location": "https://example.org/"},
            {"kind": "ctx", "allowed": ["example.org"], "allow_redirects": True, "location": "/relative"},
            {"kind": "ctx", "allowed": [], "allow_redirects": True, "location": "/relative"}]


def oracle_ctx(ctx, c, r, stats):
    if r["r"] == "no_loopback":
        stats["ctx_skipped"] = stats.get("ctx_skipped", 0) + 1
        return
    stats["ctx_runs"] = stats.get("ctx_runs", 0) + 1
    hop0_ok = any("127.0.0.1:{port}" in p for p in c["allowed"])
    want_served = 1 if hop0_ok else 0
    if not (r["r"] == "err" and r.get("kind") == "UriDisallowed" and len(r["served"]) == want_served):
        ctx.report_violation(c, f"default {'async' if c.get('async') else 'sync'} resolver stack (Context::resolver{'_async' if c.get('async') else ''}()) with allow-list {c['allowed']}: the request chain /start -> {c['location']!r} ended with "
                                f"{r['r']}:{r.get('kind') or r.get('status')} after {len(r['served'])} requests to the local server "
                                f"(expected UriDisallowed after {want_served})")


def corpus():
    p = os.path.join(common.VERIF, "corpus", "C26.jsonl")
    if not os.path.exists(p):
        return []
    return [json.loads(l) for l in open(p) if l.strip()]


def facts(ctx):
    ctx.facts = H.gen_facts()


# ------------------------------------------------------------------ oracle: the documented rules, independently

PAT_RE = re.compile(r"^(?:(https?)://)?(?:(\*\.)?([a-z0-9](?:[a-z0-9.\-]*[a-z0-9])?))?(?::([0-9]+))?$")


def doc_match(pattern, scheme, host, port):
    """True / False per the HostPattern documentation; None where the documentation does not decide."""
    m = PAT_RE.match(ascii_lower(pattern))
    if not m or pattern == "":
        return None
    pscheme, wild, phost, pport = m.groups()
    if phost is None:
        if wild or pport is not None or pscheme is None:
            return None
        return scheme is not None and scheme == pscheme            # scheme-only pattern
    if host is None:
        return False
    hl = ascii_lower(host)
    if wild:
        if hl.endswith("." + phost):
            label = hl[: -len(phost) - 1]
            if label == "":
                return None                                         # ".example.org": no label in place of the wildcard
            host_ok = True
        else:
            host_ok = False
    else:
        host_ok = hl == phost
    if pport is None or port is None:
        port_ok = pport is None and port is None
    elif pport == port:
        port_ok = True
    elif int(pport) == int(port):
        return None if host_ok else False                           # 080 vs 80: same number, different text
    else:
        port_ok = False
    scheme_ok = pscheme is None or (scheme is not None and scheme == pscheme)
    return host_ok and port_ok and scheme_ok


def doc_allowed(patterns, u):
    """True if some pattern certainly matches, False if all certainly do not, None otherwise"""
    rs = [doc_match(p, u["scheme"], u["host"], u["port"]) for p in patterns]
    if any(r is True for r in rs):
        return True
    if all(r is False for r in rs):
        return False
    return None


def oracle_chain(ctx, c, r, stats):
    if c["allowed"] is None:
        return
    pats = c["allowed"]
    tr = r["trace"]
    for i, q in enumerate(tr):
        a = doc_allowed(pats, q)
        stats["requests_checked"] += 1
        if a is False:
            ctx.report_violation(c, f"hop {i}: request to {q['uri']!r} reached the transport but matches none of {pats}")
        elif a is None:
            stats["requests_unspecified"] += 1
    if doc_allowed(pats, r["start"]) is False and not (r["r"] == "err" and r["kind"] == "UriDisallowed" and not tr):
        ctx.report_violation(c, f"initial URI {r['start']['uri']!r} matches none of {pats} but the result is {r['r']}:{r.get('kind') or r.get('status')} "
                                f"with {len(tr)} requests sent")
    # the next hop, when there is one, was refused iff it is not allowed
    if tr and len(tr) < 11 and c["allow_redirects"]:
        j = [x for x in r["joins"] if x["hop"] == len(tr) - 1]
        s = c["script"][len(tr) - 1] if len(tr) - 1 < len(c["script"]) else None
        if j and s and not isinstance(s, str) and 300 <= s[0] < 400 and "err" not in j[0]["target"] and not j[0]["target"]["non_global"]:
            if doc_allowed(pats, j[0]["target"]) is False and not (r["r"] == "err" and r["kind"] == "UriDisallowed"):
                ctx.report_violation(c, f"redirect target {j[0]['target']['uri']!r} matches none of {pats} but the result is "
                                        f"{r['r']}:{r.get('kind') or r.get('status')}")


def evaluate(ctx, cases, with_model=True):
    impl = common.run_harness("c26", cases)
    stats = {"kinds": {}, "match_true": 0, "match_false": 0, "match_unspecified": 0, "outcomes": {}, "chain_len": {},
             "requests_checked": 0, "requests_unspecified": 0, "uri_err": 0, "pattern_shapes": {}}
    exprs, meta = [], []
    distinct = set()
    for c in cases:
        r = impl[c["id"]]
        k = c["kind"]
        stats["kinds"][k] = stats["kinds"].get(k, 0) + 1
        if r["r"] in ("panic", "crash"):
            ctx.report_violation(c, f"implementation panicked: {r.get('msg')}")
            continue
        if k == "match":
            p = c["pattern"]
            shape = ("scheme+" if re.match(r"(?i)https?://", p) else "") + ("wild" if "*" in p else "exact") + ("+port" if re.search(r":\d+$", p) else "")
            stats["pattern_shapes"][shape] = stats["pattern_shapes"].get(shape, 0) + 1
            if r["r"] == "uri_err":
                stats["uri_err"] += 1
                exprs.append(f"let p := parse_pattern {H.cb(p)} in (p_pattern p, p_scheme p, p_host p, p_port p, false)")
                meta.append((c, r, "fields"))
                continue
            u = r["uri"]
            want = doc_match(p, u["scheme"], u["host"], u["port"])
            if want is None:
                stats["match_unspecified"] += 1
            else:
                stats["match_true" if want else "match_false"] += 1
                if want != r["matches"]:
                    ctx.report_violation(c, f"pattern {p!r} {'matches' if r['matches'] else 'does not match'} {u['uri']!r} "
                                            f"(scheme={u['scheme']!r} host={u['host']!r} port={u['port']!r}), the documented rules say the opposite")
            if not (r["list_same"] and r["serde_same"]):
                ctx.report_violation(c, "is_uri_allowed([p]) / the deserialised pattern disagree with HostPattern::matches")
            distinct.add("m:" + p + "|" + c["uri"])
            exprs.append(f"let p := parse_pattern {H.cb(p)} in (p_pattern p, p_scheme p, p_host p, p_port p, "
                         f"matches p {H.copt(u['scheme'])} {H.copt(u['host'])} {H.copt(u['port'])})")
            meta.append((c, r, "fields"))
        elif k == "ctx":
            oracle_ctx(ctx, c, r, stats)
        elif k == "chain":
            if r["r"] in ("uri_err", "bad_case"):
                stats["uri_err"] += 1
                continue
            key = r["r"] + ":" + str(r.get("kind") or r.get("status"))
            stats["outcomes"][key] = stats["outcomes"].get(key, 0) + 1
            stats["chain_len"][len(r["trace"])] = stats["chain_len"].get(len(r["trace"]), 0) + 1
            if not r.get("async_same", True):
                ctx.report_violation(c, "sync and async resolver stacks behave differently on the same script")
            oracle_chain(ctx, c, r, stats)
            if c["allowed"] is not None:
                distinct.add("c:" + json.dumps([c["allowed"], c["uri"], c["script"]]))
            e, ids = H.chain_model_expr(c, r)
            exprs.append(e)
            meta.append((c, r, ids))
    if with_model and exprs:
        model = common.coq_eval("C26", H.IMPORTS, exprs, shard_size=max(40, len(exprs) // 16 + 1))
        for (c, r, tag), mo in zip(meta, model):
            if tag == "fields":
                def ob(x):
                    return None if x == "None" else bytes(H._lst(x[1])).decode("utf-8", "replace")
                a = list(r["fields"]) + [r.get("matches", False)]
                b = [bytes(H._lst(mo[0])).decode("utf-8", "replace"), ob(mo[1]), ob(mo[2]), ob(mo[3]), mo[4] == "true"]
            else:
                a, b = H.chain_compare(c, r, mo, tag)
            if a != b:
                ctx.disagreements.append({"case": c, "impl": a, "model": b})
    return stats, len(distinct)


def run(ctx):
    if not getattr(ctx, "no_build", False):
        common.build_harness()
    if ctx.replay:
        cases = [ctx.replay["case"]] if "case" in ctx.replay else [d["case"] for d in ctx.replay.get("disagreements", [])]
    else:
        q = ctx.quick()
        cases = corpus() + ctx_cases()
        cases += [gen_match(ctx.rng) for _ in range(1500 if q else 8000)]
        cases += [gen_chain(ctx.rng) for _ in range(600 if q else 4000)]
    for i, c in enumerate(cases):
        c["id"] = i
    stats, distinct = evaluate(ctx, cases)
    ctx.coverage.update({
        "evaluations": len(cases), "distinct_nontrivial": distinct,
        "rule": "corpus + seeded (pattern, URI) pairs (URI derived from the pattern: case, sub/fake/bare/dotted hosts, ports, schemes, userinfo, "
                "authority/origin forms; odd patterns: empty, scheme-only, IPv6, non-ASCII, several colons) + seeded redirect chains of length 0-11 "
                "under 0-4 patterns; non-trivial = URI parsed / allow-list configured; distinct by content",
        "distribution": stats,
        "samples": [{k: (v if len(json.dumps(v)) < 300 else json.dumps(v)[:300] + "...") for k, v in c.items()}
                    for c in cases[:2] + cases[-2:]],
    })


def search(ctx):
    common.build_harness()
    cases = ctx_cases() + [gen_match(ctx.rng) for _ in range(20000)] + [gen_chain(ctx.rng) for _ in range(8000)]
    for i, c in enumerate(cases):
        c["id"] = i
    evaluate(ctx, cases, with_model=False)
    ctx.coverage["search_evaluations"] = len(cases)
