"""C18 — JUMBF manifest stores round-trip canonically."""
import json, os, re
from .. import common
from ..common import TieBroken, coq_bytes, coq_list

PROP_FILE = "Properties/C18.v"
TRUSTED = ["brotli is not modelled: compress/decompress are Section variables with decompress (compress x) = Some x as a hypothesis "
           "(c18_compressed_manifest_roundtrip); the real codec is exercised by the run only",
           "std::io::Cursor read/read_exact/seek and ReaderUtils::read_to_vec modelled as slices of an immutable buffer at a position",
           "std::str::from_utf8 modelled by Model/Jumbf.v valid_utf8 (checked by correspondence on generated labels)",
           "Store layer (claim CBOR, assertion re-serialisation, box order) is covered by the run (oracle), not by the theorems"]
ASSUMPTIONS = ["debug-profile harness; 64-bit usize; boxes below 4 GiB (the u32 size arithmetic of the writer is modelled without the debug overflow panic)"]

BOXES_RS = "sdk/src/jumbf/boxes.rs"

# writer struct -> reader BoxType variant
WRITER_OF = {"JUMBFSuperBox": "Jumb", "JUMBFDescriptionBox": "Jumd", "JUMBFPaddingContentBox": "Padding",
             "CAISaltContentBox": "SaltHash", "JUMBFJSONContentBox": "Json", "JUMBFUUIDContentBox": "Uuid",
             "JUMBFCodestreamContentBox": "Jp2c", "JUMBFCBORContentBox": "Cbor",
             "JUMBFEmbeddedFileDescriptionBox": "EmbedMediaDesc", "JUMBFEmbeddedFileContentBox": "EmbedContent",
             "JUMBFBrotliContentBox": "Brotli"}
COQ_NAME = {"Jumb": "JUMB", "Jumd": "JUMD", "Padding": "FREE", "SaltHash": "C2SH", "Json": "JSON", "Uuid": "UUID",
            "Jp2c": "JP2C", "Cbor": "CBOR", "EmbedMediaDesc": "BFDB", "EmbedContent": "BIDB", "Brotli": "BROB"}


def facts(ctx):
    t = common.strip_tests(common.src(BOXES_RS))
    m = common.fact(r"boxtype!\s*\{(.*?)\n\}", t, "boxtype! table")
    table = {k: common.rust_int(v) for k, v in re.findall(r"(\w+)\s*=>\s*(0x[0-9A-Fa-f_]+)", m.group(1))}
    for v in COQ_NAME:
        if v not in table:
            raise TieBroken(f"srcfacts: BoxType::{v} is gone from the boxtype! table")
    if table.get("Empty") != 0:
        raise TieBroken("srcfacts: BoxType::Empty is no longer 0")
    extra = sorted(set(table) - set(COQ_NAME) - {"Empty"})
    if extra:
        raise TieBroken(f"srcfacts: new box types in the reader that the model does not know: {extra}")
    writers = {}
    for name in WRITER_OF:
        mm = common.fact(r"impl\s+BMFFBox\s+for\s+" + name + r"\s*\{\s*fn\s+box_type\(&self\)\s*->\s*&'static\s*\[u8;\s*4\]\s*\{\s*b\"(.{4})\"", t,
                         f"box_type of {name}")
        writers[name] = int.from_bytes(mm.group(1).encode("latin1"), "big")
    depth = common.rust_int(common.fact(r"const\s+MAX_JUMB_DEPTH\s*:\s*usize\s*=\s*([^;]+);", t, "MAX_JUMB_DEPTH").group(1))
    hdr = common.rust_int(common.fact(r"const\s+HEADER_SIZE\s*:\s*u64\s*=\s*([^;]+);", t, "HEADER_SIZE").group(1))
    tog = common.rust_int(common.fact(r"const\s+TOGGLE_SIZE\s*:\s*u64\s*=\s*([^;]+);", t, "TOGGLE_SIZE").group(1))

    def cexpr(name):
        e = common.fact(r"const\s+" + name + r"\s*:\s*u64\s*=\s*([^;]+);", t, name).group(1)
        return common.rust_int(e.replace("HEADER_SIZE", str(hdr)).replace("TOGGLE_SIZE", str(tog)))
    jumd_min, bfdb_min = cexpr("JUMD_MIN_SIZE"), cexpr("BFDB_MIN_SIZE")
    body = common.fn_body(t, r"fn\s+read_super_box_impl\s*<", "read_super_box_impl")
    if "depth >= BoxReader::MAX_JUMB_DEPTH" not in body or "depth + 1" not in body:
        raise TieBroken("srcfacts: read_super_box_impl no longer checks `depth >= MAX_JUMB_DEPTH` / recurses with depth + 1")
    desc = common.fn_body(t, r"fn\s+read_desc_box\s*<", "read_desc_box")
    for frag in ("togs[0] & 0x03 == 0x03", "togs[0] & 0x04 == 0x04", "togs[0] & 0x08 == 0x08", "togs[0] & 0x10 == 0x10",
                 "bytes_left != HEADER_SIZE"):
        if frag not in desc:
            raise TieBroken(f"srcfacts: read_desc_box no longer contains `{frag}`")
    lines = ["(* generated from sdk/src/jumbf/boxes.rs on every run — do not edit *)",
             "From Coq Require Import NArith List.", "Import ListNotations.", "Open Scope N_scope.",
             f"Definition MAX_JUMB_DEPTH : N := {depth}.", f"Definition HEADER_SIZE : N := {hdr}.",
             f"Definition TOGGLE_SIZE : N := {tog}.", f"Definition JUMD_MIN_SIZE : N := {jumd_min}.",
             f"Definition BFDB_MIN_SIZE : N := {bfdb_min}.",
             "(* reader: boxtype! table *)"]
    for v, cn in COQ_NAME.items():
        lines.append(f"Definition T_{cn} : N := {table[v]}.")
    cm = common.fact(r'const\s+CAI_COMPRESSED_MANIFEST_UUID\s*:\s*&str\s*=\s*"([0-9A-Fa-f]{32})"', t, "CAI_COMPRESSED_MANIFEST_UUID").group(1)
    lines.append("Definition CAI_COMPRESSED_MANIFEST_UUID : list N := [" + ";".join(str(b) for b in bytes.fromhex(cm)) + "].")
    lines.append("(* writer: BMFFBox::box_type of the struct that is read back as that type *)")
    for w, v in WRITER_OF.items():
        lines.append(f"Definition W_{COQ_NAME[v]} : N := {writers[w]}.")
    common.write_if_changed(os.path.join(common.COQ, "Generated", "C18_facts.v"), "\n".join(lines) + "\n")
    ctx.facts = {"MAX_JUMB_DEPTH": depth, "HEADER_SIZE": hdr, "JUMD_MIN_SIZE": jumd_min, "BFDB_MIN_SIZE": bfdb_min,
                 "types": {COQ_NAME[v]: table[v] for v in COQ_NAME}}
