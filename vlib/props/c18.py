"""C18 — JUMBF manifest stores round-trip canonically."""
import json, os, re
from .. import common
from ..common import TieBroken, coq_bytes, coq_list

PROP_FILE = "Properties/C18.v"
TRUSTED = ["brotli is not modelled: compress/decompress are Section variables with decompress (compress x) = Some x as a hypothesis "
           "(c18_compressed_manifest_roundtrip); the real codec is exercised by the run only",
           "std::io::Cursor read/read_exact/seek and ReaderUtils::read_to_vec modelled as slices of an immutable buffer at a position",
           "std::str::from_utf8 modelled by Model/Jumbf.v valid_utf8 (checked by correspondence on generated labels)",
           "Store layer (claim CBOR, assertion re-serialisation, box order) is covered by the run (oracle), not by the theorems"]
ASSUMPTIONS = ["debug-profile harness; 64-bit usize; boxes below 4 GiB (the u32 size arithmetic of the writer is modelled without the debug overflow panic)"]

BOXES_RS = "sdk/src/jumbf/boxes.rs"
COMPACT_ABOVE = 3000     # bytes: longer inputs are compared through (length, checksum) of the printed tree and of the bytes

# writer struct -> reader BoxType variant
WRITER_OF = {"JUMBFSuperBox": "Jumb", "JUMBFDescriptionBox": "Jumd", "JUMBFPaddingContentBox": "Padding",
             "CAISaltContentBox": "SaltHash", "JUMBFJSONContentBox": "Json", "JUMBFUUIDContentBox": "Uuid",
             "JUMBFCodestreamContentBox": "Jp2c", "JUMBFCBORContentBox": "Cbor",
             "JUMBFEmbeddedFileDescriptionBox": "EmbedMediaDesc", "JUMBFEmbeddedFileContentBox": "EmbedContent",
             "JUMBFBrotliContentBox": "Brotli"}
COQ_NAME = {"Jumb": "JUMB", "Jumd": "JUMD", "Padding": "FREE", "SaltHash": "C2SH", "Json": "JSON", "Uuid": "UUID",
            "Jp2c": "JP2C", "Cbor": "CBOR", "EmbedMediaDesc": "BFDB", "EmbedContent": "BIDB", "Brotli": "BROB"}


def facts(ctx):
    t = common.strip_tests(common.src(BOXES_RS))
    m = common.fact(r"boxtype!\s*\{(.*?)\n\}", t, "boxtype! table")
    table = {k: common.rust_int(v) for k, v in re.findall(r"(\w+)\s*=>\s*(0x[0-9A-Fa-f_]+)", m.group(1))}
    for v in COQ_NAME:
        if v not in table:
            raise TieBroken(f"srcfacts: BoxType::{v} is gone from the boxtype! table")
    if table.get("Empty") != 0:
        raise TieBroken("srcfacts: BoxType::Empty is no longer 0")
    extra = sorted(set(table) - set(COQ_NAME) - {"Empty"})
    if extra:
        raise TieBroken(f"srcfacts: new box types in the reader that the model does not know: {extra}")
    writers = {}
    for name in WRITER_OF:
        mm = common.fact(r"impl\s+BMFFBox\s+for\s+" + name + r"\s*\{\s*fn\s+box_type\(&self\)\s*->\s*&'static\s*\[u8;\s*4\]\s*\{\s*b\"(.{4})\"", t,
                         f"box_type of {name}")
        writers[name] = int.from_bytes(mm.group(1).encode("latin1"), "big")
    depth = common.rust_int(common.fact(r"const\s+MAX_JUMB_DEPTH\s*:\s*usize\s*=\s*([^;]+);", t, "MAX_JUMB_DEPTH").group(1))
    hdr = common.rust_int(common.fact(r"const\s+HEADER_SIZE\s*:\s*u64\s*=\s*([^;]+);", t, "HEADER_SIZE").group(1))
    tog = common.rust_int(common.fact(r"const\s+TOGGLE_SIZE\s*:\s*u64\s*=\s*([^;]+);", t, "TOGGLE_SIZE").group(1))

    def cexpr(name):
        e = common.fact(r"const\s+" + name + r"\s*:\s*u64\s*=\s*([^;]+);", t, name).group(1)
        return common.rust_int(e.replace("HEADER_SIZE", str(hdr)).replace("TOGGLE_SIZE", str(tog)))
    jumd_min, bfdb_min = cexpr("JUMD_MIN_SIZE"), cexpr("BFDB_MIN_SIZE")
    body = common.fn_body(t, r"fn\s+read_super_box_impl\s*<", "read_super_box_impl")
    if "depth >= BoxReader::MAX_JUMB_DEPTH" not in body or "depth + 1" not in body:
        raise TieBroken("srcfacts: read_super_box_impl no longer checks `depth >= MAX_JUMB_DEPTH` / recurses with depth + 1")
    desc = common.fn_body(t, r"fn\s+read_desc_box\s*<", "read_desc_box")
    for frag in ("togs[0] & 0x03 == 0x03", "togs[0] & 0x04 == 0x04", "togs[0] & 0x08 == 0x08", "togs[0] & 0x10 == 0x10",
                 "bytes_left != HEADER_SIZE"):
        if frag not in desc:
            raise TieBroken(f"srcfacts: read_desc_box no longer contains `{frag}`")
    hdr_body = common.fn_body(t, r"fn\s+read_header\s*<", "read_header")
    if "bytes_read < buf.len()" not in hdr_body or "UnexpectedEof" not in hdr_body:
        raise TieBroken("srcfacts: read_header no longer fills the 8 header bytes / reports a truncated header as UnexpectedEof (fix 7b268693b)")
    if "checked_add(jumb_header.size)" not in body:
        raise TieBroken("srcfacts: read_super_box_impl no longer computes dest_pos with checked_add (fix 7b268693b)")
    lines = ["(* generated from sdk/src/jumbf/boxes.rs on every run — do not edit *)",
             "From Coq Require Import NArith List.", "Import ListNotations.", "Open Scope N_scope.",
             f"Definition MAX_JUMB_DEPTH : N := {depth}.", f"Definition HEADER_SIZE : N := {hdr}.",
             f"Definition TOGGLE_SIZE : N := {tog}.", f"Definition JUMD_MIN_SIZE : N := {jumd_min}.",
             f"Definition BFDB_MIN_SIZE : N := {bfdb_min}.",
             "(* reader: boxtype! table *)"]
    for v, cn in COQ_NAME.items():
        lines.append(f"Definition T_{cn} : N := {table[v]}.")
    cm = common.fact(r'const\s+CAI_COMPRESSED_MANIFEST_UUID\s*:\s*&str\s*=\s*"([0-9A-Fa-f]{32})"', t, "CAI_COMPRESSED_MANIFEST_UUID").group(1)
    lines.append("Definition CAI_COMPRESSED_MANIFEST_UUID : list N := [" + ";".join(str(b) for b in bytes.fromhex(cm)) + "].")
    lines.append("(* writer: BMFFBox::box_type of the struct that is read back as that type *)")
    for w, v in WRITER_OF.items():
        lines.append(f"Definition W_{COQ_NAME[v]} : N := {writers[w]}.")
    common.write_if_changed(os.path.join(common.COQ, "Generated", "C18_facts.v"), "\n".join(lines) + "\n")
    ctx.facts = {"MAX_JUMB_DEPTH": depth, "HEADER_SIZE": hdr, "JUMD_MIN_SIZE": jumd_min, "BFDB_MIN_SIZE": bfdb_min,
                 "types": {COQ_NAME[v]: table[v] for v in COQ_NAME}}


# ------------------------------------------------------------------ python-side trees (same JSON shape as the harness prints)

FCC = {"super": b"jumb", "json": b"json", "cbor": b"cbor", "free": b"free", "jp2c": b"jp2c", "brob": b"brob",
       "uuid": b"uuid", "bfdb": b"bfdb", "bidb": b"bidb"}
PLAIN = ("json", "cbor", "free", "jp2c", "brob", "bidb")
KNOWN_UUIDS = ["6332706100110010800000aa00389b71", "63326d6100110010800000aa00389b71", "6332617300110010800000aa00389b71",
               "6a736f6e00110010800000aa00389b71", "63626f7200110010800000aa00389b71", "40cb0c32bb8a489da70b2ad6f47f4369",
               "7575696400110010800000aa00389b71", "6332636c00110010800000aa00389b71", "6332637300110010800000aa00389b71",
               "6332636d00110010800000aa00389b71"]


def valid_text(b):
    try:
        b.decode("utf-8")
    except UnicodeDecodeError:
        return False
    return len(b) > 0


def hdr(size, fcc, xl=False):
    if xl:
        return (1).to_bytes(4, "big") + fcc + (size & (2 ** 64 - 1)).to_bytes(8, "big")
    return (size & 0xFFFFFFFF).to_bytes(4, "big") + fcc


def ser(n):
    """flexible writer used to *generate byte strings* (canonical for plain trees; knobs starting with '_' distort it):
    _size / _dsize: declared size override (absolute), _dsz / _ddsz: delta, _xl / _dxl: XLBox header, _type: fourcc override,
    _label_raw: label bytes written verbatim (no NUL added), _salt_size, _salt_type, k == 'raw': bytes spliced verbatim"""
    k = n["k"]
    if k == "raw":
        return bytes.fromhex(n["d"])
    if k == "super":
        lab = bytes.fromhex(n["label"])
        dp = bytes.fromhex(n["uuid"]) + bytes([n["tog"]])
        if "_label_raw" in n:
            dp += bytes.fromhex(n["_label_raw"])
        elif valid_text(lab):
            dp += lab + b"\0"
        if n.get("id") is not None:
            dp += n["id"].to_bytes(4, "big")
        if n.get("sig") is not None:
            dp += bytes.fromhex(n["sig"])
        if n.get("salt") is not None:
            s = bytes.fromhex(n["salt"])
            dp += hdr(n.get("_salt_size", 8 + len(s)), bytes.fromhex(n["_salt_type"]) if "_salt_type" in n else b"c2sh",
                      n.get("_salt_xl", False)) + s
        dxl = n.get("_dxl", False)
        dsize = n.get("_dsize", 8 + len(dp) + n.get("_ddsz", 0))
        payload = hdr(dsize, bytes.fromhex(n["_dtype"]) if "_dtype" in n else b"jumd", dxl) + dp + b"".join(ser(c) for c in n["c"])
    elif k in PLAIN:
        payload = bytes.fromhex(n["d"])
    elif k == "uuid":
        d = bytes.fromhex(n["d"])
        payload = (bytes.fromhex(n["u"]) + d) if (d or n.get("_keep_uuid")) else b""
        if not d and not n.get("_keep_uuid"):
            # the canonical writer declares 24 and writes nothing
            return hdr(n.get("_size", 24), b"uuid", n.get("_xl", False))
    elif k == "bfdb":
        mt = bytes.fromhex(n["mt"])
        payload = bytes([n["tog"]]) + (bytes.fromhex(n["_mt_raw"]) if "_mt_raw" in n else (mt + b"\0" if valid_text(mt) else b""))
    else:
        raise ValueError(k)
    xl = n.get("_xl", False)
    size = n.get("_size", (16 if xl and n.get("_xl_counts16") else 8) + len(payload) + n.get("_dsz", 0))
    return hdr(size, bytes.fromhex(n["_type"]) if "_type" in n else FCC[k], xl) + payload


def strip_knobs(n):
    o = {k: v for k, v in n.items() if not k.startswith("_")}
    if "c" in o:
        o["c"] = [strip_knobs(c) for c in o["c"] if c["k"] != "raw"]
    return o


def coq_hex(h):
    return coq_bytes(bytes.fromhex(h)) if h else "(@nil N)"


def coq_opt(h):
    return "None" if h is None else f"(Some {coq_hex(h)})"


def coq_tree(n):
    k = n["k"]
    if k == "super":
        d = (f"(mkdesc {coq_hex(n['uuid'])} {n['tog']} {coq_hex(n['label'])} "
             f"{'None' if n.get('id') is None else '(Some %d)' % n['id']} {coq_opt(n.get('sig'))} {coq_opt(n.get('salt'))})")
        return f"(Super {d} {coq_list([coq_tree(c) for c in n['c']])})"
    if k in PLAIN:
        return f"({k.capitalize()} {coq_hex(n['d'])})"
    if k == "uuid":
        return f"(Uuid {coq_hex(n['u'])} {coq_hex(n['d'])})"
    if k == "bfdb":
        return f"(Bfdb {n['tog']} {coq_hex(n['mt'])} {coq_opt(n.get('fn'))})"
    raise ValueError(k)


def coq_big_bytes(b, k=400):
    """long byte strings as a concat of chunks (a flat list literal overflows coqc's stack)"""
    if len(b) <= k:
        return coq_bytes(b) if b else "(@nil N)"
    return "(concat [" + ";".join("[" + ";".join(map(str, b[i:i + k])) + "]" for i in range(0, len(b), k)) + "])%N"


def hx(v):
    if v == "nil" or v == []:
        return ""
    return bytes(v).hex()


def ohx(v):
    return None if v == "None" else hx(v[1])


def tree_of_coq(t):
    """parsed Coq term -> the harness's JSON tree"""
    h = t[0]
    if h == "Super":
        d = t[1]
        return {"k": "super", "uuid": hx(d["d_uuid"]), "tog": d["d_tog"], "label": hx(d["d_label"]),
                "id": None if d["d_id"] == "None" else d["d_id"][1], "sig": ohx(d["d_sig"]), "salt": ohx(d["d_salt"]),
                "c": [tree_of_coq(c) for c in t[2]]}
    k = h.lower()
    if k in PLAIN:
        return {"k": k, "d": hx(t[1])}
    if k == "uuid":
        return {"k": "uuid", "u": hx(t[1]), "d": hx(t[2])}
    if k == "bfdb":
        return {"k": "bfdb", "tog": t[1], "mt": hx(t[2]), "fn": ohx(t[3])}
    raise ValueError(h)


def report_of_coq(r):
    """parsed `report` -> same dict shape as the harness's box op (without ids)"""
    if r == "RepPanic":
        return {"r": "panic"}
    if r == "RepFuel":
        return {"r": "hang"}
    if r[0] == "RepErr":
        return {"r": "err", "kind": r[1][1:]}
    _, t, e, s = r
    out = {"r": "ok", "tree": tree_of_coq(t), "enc": hx(e)}
    if s == "SameTree":
        out.update({"r2": "ok", "tree2_same": True, "enc2_same": True})
    elif s == "SecondPanic":
        out["r2"] = "panic"
    elif s == "SecondFuel":
        out["r2"] = "hang"
    elif s[0] == "SecondErr":
        out.update({"r2": "err", "kind2": s[1][1:]})
    else:
        out.update({"r2": "ok", "tree2_same": False, "tree2": tree_of_coq(s[1]), "enc2_same": hx(s[2]) == out["enc"]})
        if not out["enc2_same"]:
            out["enc2"] = hx(s[2])
    return out


def cksum(b):
    a = 7
    for x in b:
        a = (a * 257 + x + 1) % 4294967291
    return a


def digest(b):
    return [len(b), cksum(b)]


def print_tree(n):
    P = lambda h: len(bytes.fromhex(h)).to_bytes(8, "big") + bytes.fromhex(h)
    O = lambda h: b"\0" if h is None else b"\1" + P(h)
    k = n["k"]
    if k == "super":
        return (b"\1" + P(n["uuid"]) + bytes([n["tog"]]) + P(n["label"]) + (b"\0" if n["id"] is None else b"\1" + n["id"].to_bytes(4, "big"))
                + O(n["sig"]) + O(n["salt"]) + len(n["c"]).to_bytes(4, "big") + b"".join(print_tree(c) for c in n["c"]))
    if k in PLAIN:
        return bytes([{"json": 2, "cbor": 3, "free": 4, "jp2c": 5, "brob": 6, "bidb": 7}[k]]) + P(n["d"])
    if k == "uuid":
        return b"\x08" + P(n["u"]) + P(n["d"])
    return bytes([9, n["tog"]]) + P(n["mt"]) + O(n["fn"])


def digest_of_impl(r):
    """the harness's box result in the shape of the model's compact report"""
    if r["r"] != "ok":
        return {k: v for k, v in r.items() if k in ("r", "kind")}
    out = {"r": "ok", "tree": digest(print_tree(r["tree"])), "enc": digest(bytes.fromhex(r["enc"])), "enc_same_as_input": r["enc_same_as_input"],
           "r2": r["r2"]}
    if r["r2"] == "err":
        out["kind2"] = r["kind2"]
    elif r["r2"] == "ok":
        out["tree2_same"] = r["tree2_same"]
        if not r["tree2_same"]:
            out["tree2"] = digest(print_tree(r["tree2"]))
            out["enc2"] = digest(bytes.fromhex(r["enc2"])) if "enc2" in r else out["enc"]
            out["enc2_same"] = r["enc2_same"]
    return out


def digest_of_coq(o):
    if o == "DPanic":
        return {"r": "panic"}
    if o == "DFuel":
        return {"r": "hang"}
    if o[0] == "DErr":
        return {"r": "err", "kind": o[1][1:]}
    _, t, e, same, s = o
    out = {"r": "ok", "tree": list(t), "enc": list(e), "enc_same_as_input": same == "true"}
    if s == "DSame":
        out.update({"r2": "ok", "tree2_same": True})
    elif s == "DSecondPanic":
        out["r2"] = "panic"
    elif s == "DSecondFuel":
        out["r2"] = "hang"
    elif s[0] == "DSecondErr":
        out.update({"r2": "err", "kind2": s[1][1:]})
    else:
        out.update({"r2": "ok", "tree2_same": False, "tree2": list(s[1]), "enc2": list(s[2]), "enc2_same": s[3] == "true"})
    return out


IMPORTS = ("From C2PA Require Import Base.Bytes Model.Jumbf.\nFrom Coq Require Import NArith List.\n"
           "Import ListNotations.\nOpen Scope N_scope.")


# ------------------------------------------------------------------ generators

LABELS = ["c2pa", "c2pa.assertions", "c2pa.claim", "c2pa.claim.v2", "c2pa.signature", "c2pa.credentials", "c2pa.databoxes",
          "urn:uuid:6a1f7b8e-55aa-4c1d-9d8a-3e7b1a2c4d5e", "contentauth:urn:uuid:123", "c2pa.thumbnail.claim.jpeg",
          "c2pa.hash.data", "c2pa.actions.v2", "c2pa.ingredient__1", "stds.schema-org.CreativeWork", "a", "é", "日本", "x" * 70,
          "\U0001F600ok", "߿ࠀ￿"]


def rbytes(rng, n):
    return bytes(rng.randrange(256) for _ in range(n))


def gen_payload(rng):
    r = rng.random()
    n = 0 if r < 0.08 else rng.randrange(1, 12) if r < 0.7 else rng.randrange(12, 80) if r < 0.97 else rng.randrange(80, 600)
    return rbytes(rng, n).hex()


BOUNDARY_LENS = [254, 255, 256, 257, 258, 300, 511, 512, 1000, 4096]


def long_text(rng, n):
    """valid UTF-8 without NUL of exactly n bytes (some with a multi-byte character across the 255/256 boundary)"""
    if n >= 4 and rng.random() < 0.4:
        k = rng.randrange(0, 3)
        head = b"a" * k + "é".encode() * ((n - k) // 2)
        return (head + b"z" * (n - len(head)))[:n] if len(head) <= n else b"a" * n
    return bytes(rng.choice(b"abcdefghijklmnopqrstuvwxyz._-0123456789") for _ in range(n))


def gen_text(rng):
    if rng.random() < 0.06:
        return long_text(rng, rng.choice(BOUNDARY_LENS))
    if rng.random() < 0.7:
        return rng.choice(LABELS).encode()
    return "".join(rng.choice("abcXYZ.:_-09 é日 \U00010348") for _ in range(rng.randrange(1, 20))).encode()


def gen_desc(rng):
    tog = 3
    d = {"uuid": rng.choice(KNOWN_UUIDS) if rng.random() < 0.7 else rbytes(rng, 16).hex(), "label": gen_text(rng).hex(),
         "id": None, "sig": None, "salt": None}
    if rng.random() < 0.15:
        tog |= 4
        d["id"] = rng.choice([0, 1, 255, 256, 2 ** 31, 2 ** 32 - 1, rng.randrange(2 ** 32)])
    if rng.random() < 0.15:
        tog |= 8
        d["sig"] = rbytes(rng, 32).hex()
    if rng.random() < 0.3:
        tog |= 16
        d["salt"] = rbytes(rng, rng.choice([0, 1, 16, 16, 32, 33, 255, 256, 257, 1000] if rng.random() < 0.15 else [0, 1, 16, 16, 32, 33])).hex()
    if rng.random() < 0.1:
        tog |= rng.choice([32, 64, 128, 224])
    d["tog"] = tog
    return d


def sdk_tree(rng, depth=0, label_len=None, salt_len=None, payload_len=None):
    """a tree the SDK's constructors can build: toggles 3, or 19 with a salt of 16 bytes or more; no box id / signature"""
    lab = long_text(rng, label_len) if label_len else gen_text(rng)
    n = {"k": "super", "uuid": rng.choice(KNOWN_UUIDS), "tog": 3, "label": lab.hex(), "id": None, "sig": None, "salt": None, "c": []}
    if salt_len or rng.random() < 0.3:
        n["tog"] = 19
        n["salt"] = rbytes(rng, salt_len or rng.choice([16, 16, 32, 33, 255, 256, 257])).hex()
    for i in range(rng.choice([1, 1, 2, 3])):
        if depth < 3 and rng.random() < 0.4:
            n["c"].append(sdk_tree(rng, depth + 1, label_len=(rng.choice(BOUNDARY_LENS) if rng.random() < 0.1 else None)))
        else:
            k = rng.choice(["json", "cbor", "cbor", "free", "jp2c", "brob", "uuid", "bfdb", "bidb"])
            if k == "uuid":
                n["c"].append({"k": "uuid", "u": rbytes(rng, 16).hex(), "d": rbytes(rng, rng.randrange(1, 20)).hex()})
            elif k == "bfdb":
                withfn = rng.random() < 0.4
                n["c"].append({"k": "bfdb", "tog": 1 if withfn else 0, "mt": rng.choice([b"image/jpeg", b"image/png", "ü/x".encode()]).hex(),
                               "fn": "00" if withfn else None})
            else:
                ln = payload_len if (payload_len is not None and i == 0) else None
                n["c"].append({"k": k, "d": (rbytes(rng, ln).hex() if ln is not None else gen_payload(rng))})
    return n


def boundary_trees(rng, quick):
    """deterministic family: label / salt lengths around 255..257 and far beyond, box sizes around 2^16"""
    out = [("label:%d" % n, sdk_tree(rng, label_len=n)) for n in ([255, 256, 257, 1000] if quick else [254, 255, 256, 257, 258, 511, 512, 1000, 5000, 65536])]
    out += [("salt:%d" % n, sdk_tree(rng, salt_len=n)) for n in ([255, 256, 257] if quick else [255, 256, 257, 1000, 65535, 65536])]
    # a leaf whose box size is 2^16 - 1, 2^16, 2^16 + 1
    out += [("leafsize:%d" % (n + 8), sdk_tree(rng, payload_len=n)) for n in ([65528] if quick else [65527, 65528, 65529, 255, 256, 257])]
    return out


def gen_leaf(rng):
    k = rng.choice(["json", "cbor", "cbor", "free", "jp2c", "brob", "uuid", "bfdb", "bidb"])
    if k == "uuid":
        return {"k": "uuid", "u": rbytes(rng, 16).hex(), "d": rbytes(rng, rng.randrange(1, 20)).hex()}
    if k == "bfdb":
        r = rng.random()
        if r < 0.15:
            return {"k": "bfdb", "tog": rng.choice([0, 1, 2, 255]), "mt": "", "fn": None}
        if r < 0.45:
            return {"k": "bfdb", "tog": 1, "mt": rng.choice([b"image/jpeg", b"a", "é".encode()]).hex(), "fn": "00"}
        mt = rng.choice([b"image/jpeg", b"image/png", b"a\0", b"\0", b"text/plain\0\0", "ü/x".encode()])
        return {"k": "bfdb", "tog": rng.choice([0, 0, 2, 254]), "mt": mt.hex(), "fn": None}
    return {"k": k, "d": gen_payload(rng)}


def gen_tree(rng, depth=0, maxdepth=4):
    n = dict(gen_desc(rng), k="super", c=[])
    for _ in range(rng.choice([1, 1, 2, 2, 3, 4])):
        if depth < maxdepth and rng.random() < 0.4:
            n["c"].append(gen_tree(rng, depth + 1, maxdepth))
        else:
            n["c"].append(gen_leaf(rng))
    return n


def chain(rng, depth, inner=None):
    """superboxes nested `depth` deep (the root is level 1)"""
    node = inner or {"k": "json", "d": "7b7d"}
    for _ in range(depth):
        node = dict(gen_desc(rng), k="super", c=[node])
    return node


def nodes_of(n, out=None):
    out = [] if out is None else out
    out.append(n)
    for c in n.get("c", []):
        nodes_of(c, out)
    return out


MUTATIONS = ["dsz", "size", "xl", "ddsz", "dxl", "type", "tog", "label", "salt", "empty", "rawchild", "uuid0", "bfdb", "trunc",
             "trail", "deep", "tail", "grow_root", "freebox", "longlabel", "longsalt"]


def mutate(rng, tree, what=None):
    """returns (tree-with-knobs, post) where post(bytes) -> bytes"""
    t = json.loads(json.dumps(tree))
    post = lambda b: b
    what = what or rng.choice(MUTATIONS)
    ns = nodes_of(t)
    supers = [n for n in ns if n["k"] == "super"]
    n = rng.choice(ns)
    s = rng.choice(supers)
    if what == "dsz":
        n["_dsz"] = rng.choice([-9, -8, -7, -1, 1, 7, 8, 9, 16])
    elif what == "size":
        n["_size"] = rng.choice([0, 1, 2, 7, 8, 9, 23, 24, 25, 26, 2 ** 32 - 1, 2 ** 31])
    elif what == "xl":
        n["_xl"] = True
        n["_xl_counts16"] = rng.random() < 0.5
        if rng.random() < 0.2:
            n["_size"] = rng.choice([2 ** 64 - 1, 2 ** 63, 2 ** 32, 0, 1, 8])
    elif what == "ddsz":
        s["_ddsz"] = rng.choice([-8, -1, 1, 8])
    elif what == "dxl":
        s["_dxl"] = True
    elif what == "type":
        n["_type"] = rng.choice(["61626364", "00000000", "6a736f00", "6a756d64", "63327368", "75756964", "66726565"])
    elif what == "tog":
        s["tog"] ^= rng.choice([1, 2, 4, 8, 16, 32, 64, 128])
    elif what == "label":
        s["_label_raw"] = rng.choice(["", "00", "ff00", "c328a000", "61ff6200", "eda08000", "f4908080" + "00", "6162", "e2828200",
                                      "f09f988000"])
    elif what == "salt":
        s["tog"] |= 16
        s["salt"] = s.get("salt") or rbytes(rng, 16).hex()
        r = rng.random()
        if r < 0.4:
            s["_salt_size"] = 8 + len(s["salt"]) // 2 + rng.choice([-8, -1, 1, 8, -24])
        elif r < 0.7:
            s["_salt_type"] = rng.choice(["66726565", "00000000"])
        else:
            s["_salt_xl"] = True
    elif what == "empty":
        s["c"] = []
        if rng.random() < 0.5 and s is not t:
            s["_dsz"] = 8
            s["c"] = [{"k": "raw", "d": "00" * 8}]
    elif what == "rawchild":
        raw = rng.choice(["00" * 8, "0000000861626364", "0000000c6162636401020304", "00000008" + "00000000", "0000000a7879",
                          "000000086a736f6e", "0000000066726565", rbytes(rng, rng.randrange(1, 12)).hex()])
        s["c"].insert(rng.randrange(len(s["c"]) + 1), {"k": "raw", "d": raw})
    elif what == "uuid0":
        u = {"k": "uuid", "u": rbytes(rng, 16).hex(), "d": ""}
        if rng.random() < 0.7:
            u["_keep_uuid"] = True
        s["c"].insert(rng.randrange(len(s["c"]) + 1), u)
    elif what == "bfdb":
        b = {"k": "bfdb", "tog": rng.choice([0, 1, 1, 2]), "mt": "", "fn": None,
             "_mt_raw": rng.choice(["", "00", "6100", "610062", "61006200", "6162", "ff00", "ff", "0000", "610000"])}
        s["c"].insert(rng.randrange(len(s["c"]) + 1), b)
    elif what == "trunc":
        k = rng.choice([1, 2, 3, 4, 5, 7, 8, 9, 16, rng.randrange(1, 60)])
        post = lambda b: b[:max(0, len(b) - k)]
    elif what == "trail":
        tail = rng.choice([b"\0", b"\0" * 8, b"\0\0\0\x08abcd", rbytes(rng, rng.randrange(1, 20))])
        post = lambda b: b + tail
    elif what == "deep":
        d = rng.choice([30, 31, 32, 33])
        t = chain(rng, d - 1, t) if d > 1 else t
    elif what == "tail":
        # a short tail at the end of a box whose declared size reaches past the data: partial header reads
        t["_dsz"] = rng.choice([8, 16, 100])
        tail = rng.choice(["0000000a7879", "000000097800", "0000000b787900", "0000000c78797a", "00000008787a", rbytes(rng, rng.randrange(5, 8)).hex()])
        t["c"].append({"k": "raw", "d": tail})
    elif what == "grow_root":
        t["_dsz"] = rng.choice([1, 8, 9, 1000])
    elif what == "longlabel":
        s["label"] = long_text(rng, rng.choice(BOUNDARY_LENS)).hex()
    elif what == "longsalt":
        s["tog"] |= 16
        s["salt"] = rbytes(rng, rng.choice([65536 - 8, 65536] if rng.random() < 0.08 else [255, 256, 257, 1000])).hex()
    elif what == "freebox":
        s["c"].insert(rng.randrange(len(s["c"]) + 1), {"k": "free", "d": "00" * rng.choice([0, 1, 8, 30])})
    return t, post, what


def shrink(n, keep=40):
    """structure-preserving reduction of a real store: long leaf payloads are cut"""
    o = dict(n)
    if "c" in o:
        o["c"] = [shrink(c, keep) for c in o["c"]]
    if "d" in o and len(o["d"]) > 2 * 200:
        o["d"] = o["d"][:2 * keep]
    return o


# ------------------------------------------------------------------ classes of the known fixed-point failures (on a printed tree)

def classes_of(tree):
    """which of the known non-canonical shapes a parsed tree contains (mirrors `known` in Proofs/JumbfProofs.v)"""
    out = set()
    for n in nodes_of(tree):
        if n["k"] == "uuid" and n["d"] == "":
            out.add("uuid_empty")
        if n["k"] == "super" and not n["c"]:
            out.add("empty_super")
        if n["k"] == "bfdb":
            mt = bytes.fromhex(n["mt"])
            if mt and not valid_text(mt):
                out.add("bfdb_not_utf8")
            elif mt and n["tog"] == 1 and 0 in mt:
                out.add("bfdb_nul")
            elif (mt and n["tog"] == 1 and n["fn"] != "00") or ((not mt or n["tog"] != 1) and n["fn"] is not None):
                out.add("bfdb_fn")
    return sorted(out)


MANIFEST_BOXES = (b"c2pa.assertions", b"c2pa.claim", b"c2pa.signature", b"c2pa.credentials", b"c2pa.databoxes")


def store_classes_of(tree):
    """store layer: a manifest child whose label is not one of the five box names (before any __instance / .vN suffix handling
    of Claim::box_name_label_instance) is found by its uuid on load but is not in the box order that is written back"""
    out = set(classes_of(tree))
    for man in tree.get("c", []):
        for ch in man.get("c", []) if man["k"] == "super" else []:
            if ch["k"] == "super":
                lab = bytes.fromhex(ch["label"])
                base = lab.split(b"__")[0]
                if not any(base == m or base.startswith(m + b".v") for m in MANIFEST_BOXES):
                    out.add("manifest_box_label_unrecognised")
    return sorted(out)


def full_case(c):
    return {k: v for k, v in c.items() if k not in ("tree", "want_tree")}


def trunc_case(c):
    return {k: (v if not isinstance(v, str) or len(v) < 400 else v[:400] + "...") for k, v in c.items() if k != "tree"}


def evaluate(ctx, cases, with_model=True, stats=None):
    """cases: dicts with id, op ('box'|'store'), data (hex), origin.  Oracle on the implementation, correspondence with the model (box)."""
    stats = stats if stats is not None else {}
    import time
    t0 = time.time()
    impl = common.run_harness("c18", cases)
    common.log(f"[C18]   harness on {len(cases)} cases: {time.time() - t0:.0f}s")
    boxes = [c for c in cases if c["op"] == "box"]
    model, compact = {}, set()
    if with_model and boxes:
        import resource
        try:    # coqc parses long literals recursively
            resource.setrlimit(resource.RLIMIT_STACK, (resource.RLIM_INFINITY, resource.RLIM_INFINITY))
        except (ValueError, OSError):
            pass
        shortc = [c for c in boxes if len(c["data"]) // 2 <= COMPACT_ABOVE]
        longc = [c for c in boxes if len(c["data"]) // 2 > COMPACT_ABOVE]
        medc = [c for c in longc if len(c["data"]) // 2 <= 12000]
        bigc = [c for c in longc if len(c["data"]) // 2 > 12000]
        from concurrent.futures import ThreadPoolExecutor

        def ev(tag, fn, group, shard):
            return common.coq_eval(tag, IMPORTS, [f"{fn} {coq_big_bytes(bytes.fromhex(c['data']))}" for c in group],
                                   shard_size=shard, timeout=1500, jobs=6)
        with ThreadPoolExecutor(3) as ex:      # the three groups side by side
            fs = [ex.submit(ev, f"C18s{os.getpid()}", "box_report", shortc, 40), ex.submit(ev, f"C18m{os.getpid()}", "box_digest", medc, 8),
                  ex.submit(ev, f"C18l{os.getpid()}", "box_digest", bigc, 1)]
            o_short, o_med, o_big = [f.result() for f in fs]
        for c, o in zip(shortc, o_short):
            model[c["id"]] = report_of_coq(o)
        for group, outs in ((medc, o_med), (bigc, o_big)):
            for c, o in zip(group, outs):
                model[c["id"]] = digest_of_coq(o)
                compact.add(c["id"])
        common.log(f"[C18]   model on {len(shortc)} short + {len(longc)} long cases: {time.time() - t0:.0f}s")
    # store cases that fail the oracle: print their box tree to classify them
    bad = [c for c in cases if c["op"] == "store" and impl[c["id"]].get("r") == "ok"
           and (impl[c["id"]].get("r2") != "ok" or not impl[c["id"]].get("enc2_same"))]
    store_trees = {}
    if bad:
        fr = common.run_harness("c18", [{"id": c["id"], "op": "box", "data": c["data"]} for c in bad])
        store_trees = {c["id"]: fr[c["id"]].get("tree") for c in bad}
    distinct = set()
    for c in cases:
        r = impl[c["id"]]
        key = f"{c['op']}:{r['r']}" + (":" + r.get("kind", "") if r["r"] == "err" else "")
        stats.setdefault("outcomes", {})
        stats["outcomes"][key] = stats["outcomes"].get(key, 0) + 1
        stats.setdefault("origins", {})
        stats["origins"][c.get("origin", "?")] = stats["origins"].get(c.get("origin", "?"), 0) + 1
        if r["r"] == "ok":
            distinct.add(c["data"])
        mi = dict(full_case(c))
        mi["classes"] = classes_of(r["tree"]) if r.get("tree") else []
        if store_trees.get(c["id"]):
            mi["classes"] = store_classes_of(store_trees[c["id"]])
        mi["impl"] = {k: v for k, v in r.items() if k in ("r", "r2", "kind", "kind2", "enc2_same", "tree2_same", "same_as_input")}
        # ---- oracle: the property text on the implementation alone
        if r["r"] in ("panic", "crash"):
            pass    # robustness of the parser on hostile input is not this property; compared with the model below
        elif r["r"] == "hang":
            # since fix 7b268693b (complete header reads) no input is known to do this; the model would have to run
            # out of fuel on the same input, otherwise it is a disagreement
            stats["parser_hangs"] = stats.get("parser_hangs", 0) + 1
            ctx.report_violation(full_case(c), "parser did not return within its deadline", mi)
        elif r["r"] == "ok":
            sdk = c.get("origin") in ("sdk",)
            if c["op"] == "store" and sdk and not r.get("same_as_input"):
                ctx.report_violation(full_case(c), "a store produced by the SDK does not re-serialise to identical bytes", mi)
            if c["op"] == "box" and sdk and not r.get("enc_same_as_input"):
                ctx.report_violation(full_case(c), "the box tree of a store produced by the SDK does not re-serialise to identical bytes", mi)
            if r.get("r2") != "ok":
                ctx.report_violation(full_case(c), f"accepted input, but its re-serialisation is not accepted again: {r.get('r2')} {r.get('kind2', '')}", mi)
            elif not r.get("enc2_same"):
                ctx.report_violation(full_case(c), "re-serialise + parse is not a fixed point: the second re-serialisation differs from the first", mi)
            for cl in mi["classes"]:
                stats.setdefault("classes", {})
                stats["classes"][cl] = stats["classes"].get(cl, 0) + 1
        # ---- correspondence
        if c["id"] in model:
            m = model[c["id"]]
            ir = digest_of_impl(r) if c["id"] in compact else {k: v for k, v in r.items() if k != "id" and k != "enc_same_as_input"}
            if ir != m:
                diff = sorted(k for k in set(ir) | set(m) if ir.get(k) != m.get(k))
                ctx.disagreements.append({"case": full_case(c), "differs_in": diff,
                                          "impl": {k: str(ir.get(k))[:300] for k in diff}, "model": {k: str(m.get(k))[:300] for k in diff}})
    return stats, len(distinct)


# ------------------------------------------------------------------ inputs

QUICK_FIXTURES = ["dashinit.mp4", "no_alg.jpg", "express-signed.pdf", "legacy.mp4", "C.jpg"]
ALL_FIXTURES = QUICK_FIXTURES + ["CA.jpg", "CACA.jpg", "cloud_manifest.c2pa", "C_with_CAWG_data.jpg", "E-sig-CA.jpg", "boxhash.jpg",
                                 "prerelease.jpg", "CIE-sig-CA.jpg", "ocsp.jpg", "adobe-20220124-E-clm-CAICAI.jpg"]
ACTIONS = {"label": "c2pa.actions", "data": {"actions": [{"action": "c2pa.created",
           "digitalSourceType": "http://cv.iptc.org/newscodes/digitalsourcetype/digitalCapture"}]}}
NOTHUMB = {"builder": {"thumbnail": {"enabled": False}}}


def build_cases(rng, n):
    """manifest definitions for Builder::sign: plain, compressed, extra JSON/CBOR assertions, with a parent ingredient
    (carries the parent's manifests), with thumbnails (embedded-file boxes), different source formats"""
    out = []
    for i in range(n):
        assertions = [ACTIONS]
        for j in range(rng.choice([0, 0, 1, 2, 3])):
            if rng.random() < 0.5:
                assertions.append({"label": f"org.verif.j{j}", "kind": "Json", "data": {"k": rng.randrange(1000), "s": "x" * rng.randrange(40)}})
            else:
                assertions.append({"label": f"org.verif.c{j}", "data": {"v": [rng.randrange(256) for _ in range(rng.randrange(6))]}})
        if i == 5 or rng.random() < 0.2:
            n = [256, 255, 257, 1000][0 if i == 5 else rng.randrange(4)]
            assertions.append({"label": "org.verif." + "l" * (n - 10), "data": {"long": n}})
        if rng.random() < 0.3:
            assertions.append({"label": "org.verif.same", "data": {"n": 1}})
            assertions.append({"label": "org.verif.same", "data": {"n": 2}})      # instance labels __1
        d = {"title": f"verif {i}", "claim_generator_info": [{"name": "verif-harness", "version": "0.1"}], "assertions": assertions}
        settings = {}
        kind = rng.choice(["plain", "plain", "compressed", "thumb", "ingredient", "png"]) if i >= 6 else ["plain", "compressed", "thumb", "ingredient", "png", "plain"][i]
        c = {"op": "build", "kind": kind, "def": json.dumps(d), "src": "earth_apollo17.jpg"}
        if kind != "thumb":
            settings.update(NOTHUMB)
        if kind == "compressed":
            settings["core"] = {"prefer_compress_manifests": True}
        if kind == "ingredient":
            c["ingredients"] = [{"file": rng.choice(["C.jpg", "dashinit.mp4"]) if False else "C.jpg",
                                 "json": json.dumps({"title": "parent", "relationship": rng.choice(["parentOf", "componentOf"])})}]
        if kind == "png":
            c["src"] = "sample1.png"
        c["settings"] = json.dumps(settings) if settings else None
        out.append(c)
    return out


STORE_MUTATIONS = ["longlabel", "longsalt", "freebox", "rawchild", "salt", "xl", "trail", "tog", "type", "label", "dxl", "assert_uuid", "assert_bfdb",
                   "extra_manifest", "swap", "drop"]


def store_mutant(rng, tree):
    """mutants of a real store that keep its claim CBOR: structure around the assertions is changed"""
    w = rng.choice(STORE_MUTATIONS)
    if w not in ("assert_uuid", "assert_bfdb", "extra_manifest", "swap", "drop"):
        m, post, w = mutate(rng, tree, w)
        return post(ser(m)), w
    t = json.loads(json.dumps(tree))
    manifests = [m for m in t["c"] if m["k"] == "super"]
    man = rng.choice(manifests) if manifests else t
    stores = [s for s in man.get("c", []) if s["k"] == "super" and bytes.fromhex(s["label"]) == b"c2pa.assertions"]
    if w == "extra_manifest":
        t["c"].insert(rng.randrange(len(t["c"]) + 1), dict(gen_desc(rng), k="super", c=[{"k": "json", "d": "7b7d"}]))
    elif w == "swap" and len(man.get("c", [])) >= 2:
        i, j = rng.sample(range(len(man["c"])), 2)
        man["c"][i], man["c"][j] = man["c"][j], man["c"][i]
    elif stores and stores[0]["c"]:
        a = rng.choice(stores[0]["c"])
        if w == "drop":
            stores[0]["c"].remove(a)
        elif w == "assert_uuid" and a["k"] == "super":
            a["uuid"] = "7575696400110010800000aa00389b71"
            u = {"k": "uuid", "u": rng.choice(["caa98eee9d4df80e86ad4dffca263973", rbytes(rng, 16).hex()]),
                 "d": rng.choice(["", "", "00" * 8, "0102"])}
            if not u["d"]:
                u["_keep_uuid"] = True
            a["c"] = [u]
        elif w == "assert_bfdb" and a["k"] == "super":
            a["uuid"] = "40cb0c32bb8a489da70b2ad6f47f4369"
            a["c"] = [{"k": "bfdb", "tog": rng.choice([0, 1]), "mt": "", "fn": None,
                       "_mt_raw": rng.choice(["696d6167652f6a70656700", "610062", "61006200", "ff00", "", "6100"])},
                      {"k": "bidb", "d": rbytes(rng, 10).hex()}]
    return ser(t), w


def shrink_media(n, keep=40):
    o = dict(n)
    if "c" in o:
        o["c"] = [shrink_media(c, keep) for c in o["c"]]
    if o["k"] in ("bidb", "jp2c") and len(o.get("d", "")) > 400:
        o["d"] = o["d"][:2 * keep]
    return o


def corpus():
    p = os.path.join(common.VERIF, "corpus", "C18.jsonl")
    if not os.path.exists(p):
        return []
    return [json.loads(l) for l in open(p) if l.strip()]


def sdk_stores(ctx, rng, nbuild, fixtures):
    """manifest stores produced by the SDK: fixtures of the repository and stores built now from generated definitions"""
    reqs = [{"op": "extract", "file": f} for f in fixtures] + build_cases(rng, nbuild)
    for i, c in enumerate(reqs):
        c["id"] = i
    res = common.run_harness("c18", reqs, timeout=900)
    out, failed = [], []
    for c in reqs:
        r = res[c["id"]]
        if r.get("r") == "ok":
            out.append((c.get("file") or ("build:" + c["kind"]), r["jumbf"]))
        else:
            failed.append(f"{c.get('file') or c['kind']}:{r.get('kind') or r.get('r')}")
    return out, failed


def run(ctx):
    if not getattr(ctx, "no_build", False):
        common.build_harness()
    stats = {}
    if ctx.replay:
        cases = [ctx.replay["case"]] if "case" in ctx.replay else [d["case"] for d in ctx.replay.get("disagreements", [])]
        cases = [c for c in cases if "data" in c and not c["data"].endswith("...")]
        for i, c in enumerate(cases):
            c["id"] = i
        st, distinct = evaluate(ctx, cases, stats=stats)
        ctx.coverage.update({"evaluations": len(cases), "distinct_nontrivial": distinct, "rule": "replay", "distribution": stats, "samples": []})
        return
    import time
    t0 = time.time()
    lap = lambda what: common.log(f"[C18] {what}: {time.time() - t0:.0f}s")
    q = ctx.quick()
    rng = ctx.rng
    cases = list(corpus())
    # 1. SDK-produced stores (fixtures + Builder::sign on generated definitions): box layer and store layer
    stores, failed = sdk_stores(ctx, rng, 6 if q else 24, QUICK_FIXTURES if q else ALL_FIXTURES)
    lap("sdk stores")
    stats["sdk_stores"] = len(stores)
    stats["sdk_store_failures"] = failed
    if not stores:
        raise TieBroken("no SDK-produced manifest store could be obtained (fixtures unreadable and Builder::sign failing)")
    model_limit = 25000 if q else 260000
    for name, j in stores:
        cases.append({"op": "store", "data": j, "origin": "sdk", "name": name})
        if len(j) // 2 <= model_limit:
            cases.append({"op": "box", "data": j, "origin": "sdk", "name": name})
    # 1b. box trees built with the SDK's own constructors and written by its writer (boundary family + random):
    #     SDK-produced bytes, so parse + re-serialise must be the identity
    fam = boundary_trees(rng, q) + [("random", sdk_tree(rng)) for _ in range(25 if q else 300)]
    wr = common.run_harness("c18", [{"id": i, "op": "write", "tree": t} for i, (_, t) in enumerate(fam)])
    stats["sdk_written"] = {"n": len(fam), "failed": 0, "python_writer_differs": 0}
    for i, (name, t) in enumerate(fam):
        r = wr[i]
        if r.get("r") != "ok":
            stats["sdk_written"]["failed"] += 1
            continue
        if r["jumbf"] != ser(t).hex():
            stats["sdk_written"]["python_writer_differs"] += 1
        cases.append({"op": "box", "data": r["jumbf"], "origin": "sdk", "name": "sdk-written:" + name})
    # 2. trees of real stores (printed by the implementation), media payloads shortened: canonical re-serialisation + mutants
    small = sorted([s for s in stores if len(s[1]) // 2 <= 70000 and s[0] not in ("no_alg.jpg", "prerelease.jpg")],
                   key=lambda s: len(s[1]))[: (4 if q else 12)]
    pre = [{"id": i, "op": "box", "data": j} for i, (_, j) in enumerate(small)]
    pr = common.run_harness("c18", pre)
    real_trees = [shrink_media(pr[i]["tree"]) for i in range(len(pre)) if pr[i].get("r") == "ok"]
    for t in real_trees:
        cases.append({"op": "box", "data": ser(t).hex(), "origin": "real-shrunk"})
        cases.append({"op": "store", "data": ser(t).hex(), "origin": "real-shrunk"})
    for _ in range(16 if q else 200):
        t = rng.choice(real_trees)
        m, post, w = mutate(rng, t)
        cases.append({"op": "box", "data": post(ser(m)).hex(), "origin": "real-mutant:" + w})
    for _ in range(50 if q else 400):
        b, w = store_mutant(rng, rng.choice(real_trees))
        cases.append({"op": "store", "data": b.hex(), "origin": "store-mutant:" + w})
    # 3. generated trees, parser-accepted (and rejected) structure-aware mutants
    for i in range(120 if q else 1500):
        t = gen_tree(rng)
        m, post, w = mutate(rng, t)
        if rng.random() < 0.3:
            m, post2, w2 = mutate(rng, m)
            w += "+" + w2
            post = (lambda b, p1=post, p2=post2: p2(p1(b)))
        cases.append({"op": "box", "data": post(ser(m)).hex(), "origin": "mutant:" + w})
    for d in ([31, 32, 33] if q else [1, 2, 30, 31, 32, 33, 34, 40]):
        cases.append({"op": "box", "data": ser(chain(rng, d)).hex(), "origin": f"depth:{d}"})
    for i, c in enumerate(cases):
        c["id"] = i
    lap("cases generated")
    # 4. model-generated well-formed trees serialised by the *model's* encoder (evaluated in the background)
    trees = [gen_tree(rng) for _ in range(80 if q else 800)]
    from concurrent.futures import ThreadPoolExecutor
    bg = ThreadPoolExecutor(1)
    fut = bg.submit(common.coq_eval, f"C18t{os.getpid()}", IMPORTS, [f"tree_report {coq_tree(t)}" for t in trees], 20, 1500, 4)
    evaluate(ctx, cases, stats=stats)
    lap("evaluated")
    outs = fut.result()
    bg.shutdown()
    mcases, mreports = [], {}
    stats["model_trees"] = {"n": len(trees), "not_wf": 0, "python_writer_differs": 0}
    for i, (t, o) in enumerate(zip(trees, outs)):
        e, sh, rep = o
        data = hx(e)
        if sh != "true":
            stats["model_trees"]["not_wf"] += 1
        if data != ser(t).hex():
            stats["model_trees"]["python_writer_differs"] += 1
        cid = len(cases) + i
        mcases.append({"id": cid, "op": "box", "data": data, "origin": "model-tree", "want_tree": t})
        mreports[cid] = report_of_coq(rep)
    impl = common.run_harness("c18", [{k: v for k, v in c.items() if k != "want_tree"} for c in mcases])
    for c in mcases:
        r = {k: v for k, v in impl[c["id"]].items() if k not in ("id", "enc_same_as_input")}
        m = mreports[c["id"]]
        stats["outcomes"]["model-tree:" + r["r"]] = stats["outcomes"].get("model-tree:" + r["r"], 0) + 1
        if r != m:
            diff = sorted(k for k in set(r) | set(m) if r.get(k) != m.get(k))
            ctx.disagreements.append({"case": full_case(c), "differs_in": diff, "impl": {k: str(r.get(k))[:300] for k in diff},
                                      "model": {k: str(m.get(k))[:300] for k in diff}})
        # oracle (property text): accepted bytes => re-serialise + parse is a fixed point
        if r["r"] == "ok" and (r.get("r2") != "ok" or not r.get("enc2_same")):
            ctx.report_violation(full_case(c), "re-serialise + parse is not a fixed point on the serialisation of a well-formed tree",
                                 dict(trunc_case(c), classes=classes_of(r["tree"])))
        # correspondence with the generated tree itself (the model's report is compared above)
        elif r["r"] != "ok" or r["tree"] != strip_knobs(c["want_tree"]) or r["enc"] != c["data"]:
            ctx.disagreements.append({"case": full_case(c), "differs_in": ["generated tree"], "impl": {"r": r["r"], "kind": r.get("kind")},
                                      "model": {"r": "ok"}})
    if stats["model_trees"]["not_wf"] or stats["model_trees"]["python_writer_differs"]:
        ctx.tie_errors.append(f"generator/model mismatch: {stats['model_trees']}")
    lap("model trees")
    allc = cases + mcases
    accepted = stats["outcomes"].get("box:ok", 0) + stats["outcomes"].get("store:ok", 0) + stats["outcomes"].get("model-tree:ok", 0)
    ctx.coverage.update({
        "evaluations": len(allc), "distinct_nontrivial": accepted,
        "rule": "corpus + SDK-produced stores (fixtures, Builder::sign on generated definitions: plain/compressed/thumbnail/ingredient/png) at the "
                "store and the box layer + their trees with shortened media + structure-aware mutants (length fields, XLBox, toggles, labels, "
                "salt, empty superboxes, unknown/zero-type boxes, uuid/bfdb shapes, truncation, trailing bytes, nesting to the limit +-1) + "
                "model-generated well-formed trees serialised by the model; non-trivial = accepted by the implementation",
        "distribution": stats,
        "traces_validated_against_impl": len([c for c in allc if c["op"] == "box"]),
        "samples": [trunc_case({k: v for k, v in c.items() if k != "want_tree"}) for c in allc[:2] + allc[len(allc) // 2: len(allc) // 2 + 2]],
    })


def search(ctx):
    """tie broken and nothing found yet: larger biased generator, oracle only"""
    common.build_harness()
    rng = ctx.rng
    cases = []
    stores, _ = sdk_stores(ctx, rng, 8, QUICK_FIXTURES)
    for name, j in stores:
        cases.append({"op": "store", "data": j, "origin": "sdk", "name": name})
        cases.append({"op": "box", "data": j, "origin": "sdk", "name": name})
    for i in range(1500):
        t = gen_tree(rng)
        if i % 3 == 0:
            cases.append({"op": "box", "data": ser(t).hex(), "origin": "canon"})
        else:
            m, post, w = mutate(rng, t, rng.choice([x for x in MUTATIONS if x != "tail"]))
            cases.append({"op": "box", "data": post(ser(m)).hex(), "origin": "mutant:" + w})
    for i, c in enumerate(cases):
        c["id"] = i
    stats = {}
    evaluate(ctx, cases, with_model=False, stats=stats)
    # canonical python-written trees must round-trip byte-identically on the implementation
    ctx.coverage["search_evaluations"] = len(cases)
