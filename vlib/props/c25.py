"""C25 — Settings updates follow JSON-merge semantics and fail atomically."""
import json, os, re
from .. import common
from ..common import TieBroken

PROP_FILE = "Properties/C25.v"
TRUSTED = ["serde's derived (de)serialisation of Settings and SettingsValidate are not modelled (section variables); "
           "the oracle uses the implementation's own typed projection (from_value + validate) of the python-side recursive merge",
           "python TOML emitter used to produce 'equivalent documents' (each pair is confirmed equal by parse_to_value on both texts)",
           "JSON objects are modelled as insertion-ordered key-unique association lists (serde_json preserve_order)"]
ASSUMPTIONS = ["debug-profile harness; serde_json with preserve_order and without arbitrary_precision"]

IMPORTS = ("From C2PA Require Import Model.SettingsTree Generated.C25_facts.\n"
           "From Coq Require Import NArith List.\nImport ListNotations.")


# ------------------------------------------------------------------ facts
def facts(ctx):
    t = common.strip_tests(common.src("sdk/src/settings/mod.rs"))
    m = common.fact(r"const\s+MERGE_MAX_DEPTH\s*:\s*usize\s*=\s*([^;]+);", t, "MERGE_MAX_DEPTH")
    maxd = common.rust_int(m.group(1))
    if not (1 <= maxd <= 100):
        raise TieBroken(f"srcfacts: MERGE_MAX_DEPTH={maxd} outside the range the check generates trees for (1..100)")
    body = common.fn_body(t, r"fn\s+merge_json_depth\s*\(", "merge_json_depth")
    for need, what in [(r"if\s+depth\s*<\s*MERGE_MAX_DEPTH", "guard `depth < MERGE_MAX_DEPTH`"),
                       (r"depth\s*\+\s*1", "recursion at depth + 1"),
                       (r"\.entry\(key\)\s*\.or_insert\(Value::Null\)", "entry(key).or_insert(Value::Null)"),
                       (r"\*target\s*=\s*overlay", "`*target = overlay` fall-through arm")]:
        if not re.search(need, body):
            raise TieBroken(f"srcfacts: merge_json_depth no longer has {what}")
    mj = common.fn_body(t, r"fn\s+merge_json\s*\(", "merge_json")
    if not re.search(r"merge_json_depth\(\s*target\s*,\s*overlay\s*,\s*0\s*\)", mj):
        raise TieBroken("srcfacts: merge_json no longer starts merge_json_depth at depth 0")
    for fn in ("set_at_path", "get_at_path"):
        b = common.fn_body(t, r"fn\s+%s\s*(<[^>]*>)?\s*\(" % fn, fn)
        if "path.split('.')" not in b:
            raise TieBroken(f"srcfacts: {fn} no longer walks path.split('.')")
    ws = common.fn_body(t, r"fn\s+with_string\s*\(", "with_string")
    if not (re.search(r"serde_json::to_value\(self\)", ws) and "merge_json(&mut merged, overlay)" in ws
            and re.search(r"settings\.validate\(\)\?", ws) and "&self" in t[t.find("fn with_string"):t.find("fn with_string") + 80]):
        raise TieBroken("srcfacts: with_string no longer builds a new validated value from to_value(self)")
    wv = common.fn_body(t, r"fn\s+with_value\s*<", "with_value")
    if not (re.search(r"serde_json::to_value\(self\)", wv) and "set_at_path(&mut merged" in wv and "validate()?" in wv):
        raise TieBroken("srcfacts: with_value no longer builds a new validated value from to_value(self)")
    uf = common.fn_body(t, r"fn\s+update_from_str\s*\(", "update_from_str")
    if not re.search(r"\*self\s*=\s*self\.with_string\(settings_str,\s*format\)\?;", uf):
        raise TieBroken("srcfacts: update_from_str is no longer `*self = self.with_string(..)?`")
    sv = common.fn_body(t, r"fn\s+set_value\s*<", "set_value")
    if not re.search(r"\*self\s*=\s*self\.with_value\(path,\s*value\)\?;", sv):
        raise TieBroken("srcfacts: set_value is no longer `*self = self.with_value(..)?`")
    v = ("(* generated from sdk/src/settings/mod.rs on every run — do not edit *)\n"
         f"Definition MERGE_MAX_DEPTH : nat := {maxd}.\n")
    common.write_if_changed(os.path.join(common.COQ, "Generated", "C25_facts.v"), v)
    ctx.facts = {"MERGE_MAX_DEPTH": maxd}


# ------------------------------------------------------------------ python reference (the property text)
def is_obj(x):
    return isinstance(x, dict)


def py_merge(t, o):
    """recursive merge: objects key by key (absent = null), anything else replaces"""
    if is_obj(t) and is_obj(o):
        r = dict(t)
        for k, ov in o.items():
            r[k] = py_merge(r.get(k), ov)
        return r
    return o


def py_set(t, path, v):
    segs = path.split(".")
    root = dict(t) if is_obj(t) else {}
    cur = root
    for s in segs[:-1]:
        nxt = cur.get(s)
        nxt = dict(nxt) if is_obj(nxt) else {}
        cur[s] = nxt
        cur = nxt
    cur[segs[-1]] = v
    return root


MISSING = object()


def py_get(t, path):
    cur = t
    for s in path.split("."):
        if not is_obj(cur) or s not in cur:
            return MISSING
        cur = cur[s]
    return cur


def obj_depth(x):
    return 1 + max([obj_depth(v) for v in x.values()] + [0]) if is_obj(x) else 0


def jeq(a, b):
    """JSON equality: numbers by value (1 == 1.0), bool is not a number, objects as maps"""
    if isinstance(a, bool) or isinstance(b, bool):
        return isinstance(a, bool) and isinstance(b, bool) and a == b
    if isinstance(a, (int, float)) and isinstance(b, (int, float)):
        return a == b
    if type(a) != type(b):
        return False
    if isinstance(a, dict):
        return a.keys() == b.keys() and all(jeq(a[k], b[k]) for k in a)
    if isinstance(a, list):
        return len(a) == len(b) and all(jeq(x, y) for x, y in zip(a, b))
    return a == b


def jeq_ordered(a, b):
    if isinstance(a, dict) and isinstance(b, dict):
        return list(a.keys()) == list(b.keys()) and all(jeq_ordered(a[k], b[k]) for k in a)
    if isinstance(a, list) and isinstance(b, list):
        return len(a) == len(b) and all(jeq_ordered(x, y) for x, y in zip(a, b))
    return jeq(a, b)


# ------------------------------------------------------------------ Coq terms
def cbytes(s):
    b = s.encode("utf-8") if isinstance(s, str) else s
    return "[" + ";".join(str(x) for x in b) + "]%N" if b else "[]"


def cjson(x):
    if x is None:
        return "JNull"
    if isinstance(x, bool):
        return "(JBool true)" if x else "(JBool false)"
    if isinstance(x, (int, float)):
        return f"(JNum {cbytes(json.dumps(x))})"
    if isinstance(x, str):
        return f"(JStr {cbytes(x)})"
    if isinstance(x, list):
        return "(JArr [" + "; ".join(cjson(v) for v in x) + "])"
    return "(JObj [" + "; ".join(f"({cbytes(k)}, {cjson(v)})" for k, v in x.items()) + "])"


def unbytes(l):
    return bytes(l).decode("utf-8", errors="surrogateescape")


def of_coq(t):
    """parsed Coq json term -> python value (objects as dicts in model order)"""
    if t == "JNull":
        return None
    h = t[0]
    if h == "JBool":
        return t[1] == "true"
    if h == "JNum":
        return json.loads(unbytes(t[1]))
    if h == "JStr":
        return unbytes(t[1])
    if h == "JArr":
        return [of_coq(x) for x in t[1]]
    if h == "JObj":
        return {unbytes(k): of_coq(v) for k, v in t[1]}
    raise ValueError(f"unexpected model term {t!r}")


def of_coq_opt(t):
    if t == "None":
        return MISSING
    return of_coq(t[1])


# ------------------------------------------------------------------ generators: raw trees
KEYS = ["a", "b", "c", "d", "", "a.b", "é", "k1", "x"]
PKEYS = ["a", "b", "c", "d", "", "é", "k1", "x"]      # keys addressable by a dotted path


def gen_scalar(rng):
    r = rng.random()
    if r < 0.2:
        return None
    if r < 0.35:
        return rng.random() < 0.5
    if r < 0.6:
        return rng.choice([0, 1, -1, 7, 64, 65, 2 ** 31, 2 ** 53, -2 ** 63, 2 ** 64 - 1, rng.randrange(-1000, 1000)])
    if r < 0.7:
        return rng.choice([1.5, -2.25, 0.125, 1e10 + 0.5])
    return rng.choice(["", "s", "été", "a.b", "null", "x" * rng.randrange(1, 6)])


def gen_tree(rng, depth, keys=KEYS):
    r = rng.random()
    if depth <= 0 or r < 0.3:
        return gen_scalar(rng)
    if r < 0.42:
        return [gen_tree(rng, depth - 1, keys) for _ in range(rng.randrange(0, 3))]
    ks = rng.sample(keys, rng.randrange(0, min(5, len(keys))))
    return {k: gen_tree(rng, depth - 1, keys) for k in ks}


def nest(n, leaf, key="x"):
    for _ in range(n):
        leaf = {key: leaf}
    return leaf


def gen_path(rng, tree):
    r = rng.random()
    if r < 0.08:
        return rng.choice(["", ".", "..", "a.", ".a", "a..b"])
    segs = []
    cur = tree
    for _ in range(rng.randrange(1, 5)):
        if is_obj(cur) and cur and rng.random() < 0.7:
            ks = [k for k in cur.keys() if "." not in k]
            k = rng.choice(ks) if ks else rng.choice(PKEYS)
        else:
            k = rng.choice(PKEYS)
        segs.append(k)
        cur = cur.get(k) if is_obj(cur) else None
    return ".".join(segs)


def gen_tree_case(rng, maxd):
    r = rng.random()
    if r < 0.45:
        if rng.random() < 0.12:
            n = rng.choice([maxd - 2, maxd - 1, maxd, maxd + 1, maxd + 3])
            t = nest(max(n, 0), {"p": 1, "q": {"r": 2}})
            o = nest(max(n + rng.choice([-1, 0, 0, 1]), 0), {"q": {"s": 3}, "t": None})
            return {"op": "tree_merge", "target": t, "overlay": o, "depth": 0}
        t = gen_tree(rng, 4)
        o = gen_tree(rng, 4) if rng.random() < 0.8 else py_merge(t, gen_tree(rng, 3))
        d = rng.choice([0, 0, 0, 0, 1, 5, maxd - 3, maxd - 2, maxd - 1, maxd, maxd + 1])
        return {"op": "tree_merge", "target": t, "overlay": o, "depth": max(d, 0)}
    t = gen_tree(rng, 4, PKEYS) if rng.random() < 0.9 else gen_scalar(rng)
    p = gen_path(rng, t)
    if r < 0.8:
        return {"op": "tree_set", "target": t, "path": p, "value": gen_tree(rng, 2), "probe": gen_path(rng, t)}
    return {"op": "tree_get", "target": t, "path": p}


# --- wide and wide x deep shapes: the depth guard must count nesting levels, not members
def gen_wide_tree_case(rng, maxd):
    """wide objects (about maxd..3*maxd members) merged with overlays that touch late members, and k siblings before a
    nested object repeated over d levels with k*d around and beyond maxd (true nesting stays below maxd)"""
    if rng.random() < 0.5:
        n = rng.randrange(max(2, maxd - 6), 3 * maxd + 10)
        target = {f"k{i:03d}": ({"a": i, "t": {"u": i}} if rng.random() < 0.8 else gen_scalar(rng)) for i in range(n)}
        keys = list(target.keys())
        lo = rng.choice([0, 0, maxd // 2, maxd - 3])
        overlay = {}
        for i in range(lo, n):
            r = rng.random()
            if r < 0.55:
                overlay[keys[i]] = {"b": i} if rng.random() < 0.7 else {"t": {"v": i}, "a": None}
            elif r < 0.8:
                overlay[f"f{i:03d}"] = rng.choice([1, "s", None, [i], {"z": i}])
        if rng.random() < 0.3:
            items = list(overlay.items())
            rng.shuffle(items)
            overlay = dict(items)
        return {"op": "tree_merge", "target": target, "overlay": overlay, "depth": 0, "shape": "wide"}
    d = rng.randrange(2, min(28, maxd - 2))
    k = max(1, rng.choice([maxd // d - 1, maxd // d, maxd // d + 1, 2 * maxd // d, rng.randrange(1, 12)]))
    t, o = {"a": 1, "leaf": {"x": 0}}, {"b": 2, "leaf": {"y": 1}}
    for lvl in range(d):
        before = rng.random() < 0.85          # fillers before the nested member (what the miscount needs) or after it
        fill = {f"s{j}": rng.choice([j, "v", None, {"w": j}]) for j in range(k)}
        o = dict(fill, n=o) if before else dict({"n": o}, **fill)
        t = {"keep": lvl, "n": t, "s0": {"old": lvl}}
    return {"op": "tree_merge", "target": t, "overlay": o, "depth": 0, "shape": "wide_deep"}


def gen_wide_settings_case(rng, maxd):
    """the same shapes through the public API, in the free-form members of builder.claim_generator_info"""
    def wrap(x):
        return {"builder": {"claim_generator_info": x}}
    if rng.random() < 0.6:
        n = rng.randrange(maxd - 6, 3 * maxd)
        first = {"name": "gen"}
        first.update({f"k{i:03d}": {"a": i, "t": {"u": i}} for i in range(n)})
        lo = rng.choice([0, maxd // 2, maxd - 8])
        second = {}
        for i in range(lo, n):
            r = rng.random()
            if r < 0.6:
                second[f"k{i:03d}"] = {"b": i} if rng.random() < 0.7 else {"t": {"v": i}}
            elif r < 0.8:
                second[f"f{i:03d}"] = rng.choice([1, "s", [i], {"z": i}])
    else:
        d = rng.randrange(2, 24)
        k = max(1, rng.choice([maxd // d - 1, maxd // d, maxd // d + 1, 2 * maxd // d]))
        t, o = {"a": 1, "leaf": {"x": 0}}, {"b": 2, "leaf": {"y": 1}}
        for lvl in range(d):
            o = dict({f"s{j}": rng.choice([j, "v", {"w": j}]) for j in range(k)}, n=o)
            t = {"keep": lvl, "n": t, "s0": {"old": lvl}}
        first, second = {"name": "gen", "chain": t}, {"chain": o}
    d1, d2 = wrap(first), wrap(second)
    steps = [{"k": "with_json", "format": "json", "text": json.dumps(d1), "doc": d1}]
    kind = rng.choice(["with_json", "update", "with_toml", "pair"])
    if kind == "pair":
        steps.append({"k": "pair", "text": json.dumps(d2), "toml": toml_doc(d2, rng), "doc": d2})
    elif kind == "with_toml":
        steps.append({"k": "with_toml", "format": "toml", "text": toml_doc(d2, rng), "doc": d2})
    else:
        steps.append({"k": kind, "format": "json", "text": json.dumps(d2), "doc": d2})
    return {"op": "settings", "steps": steps, "shape": "wide"}


def tree_expr(c):
    if c["op"] == "tree_merge":
        return f"merge MERGE_MAX_DEPTH {c['depth']} {cjson(c['target'])} {cjson(c['overlay'])}"
    if c["op"] == "tree_set":
        return f"set_at_path {cjson(c['target'])} {cbytes(c['path'])} {cjson(c['value'])}"
    return f"get_at_path {cjson(c['target'])} {cbytes(c['path'])}"


def all_paths(t, prefix=()):
    """dotted spellings of every node below the root that a path can address (keys without '.')"""
    out = []
    if is_obj(t):
        for k, v in t.items():
            if "." not in k:
                out.append(".".join(prefix + (k,)))
                out += all_paths(v, prefix + (k,))
    return out


def diverges(p, q):
    a, b = p.split("."), q.split(".")
    n = min(len(a), len(b))
    return a[:n] != b[:n]


# ------------------------------------------------------------------ generators: settings documents
def leaves(v, prefix=()):
    if is_obj(v) and v:
        for k, x in v.items():
            yield from leaves(x, prefix + (k,))
    else:
        yield prefix, v


OPT_TYPES = {   # Option<T> fields (default null): a type-correct sample
    "core.merkle_tree_chunk_size_in_kb": [1, 64, 1024],
    "core.allowed_network_hosts": [[], ["example.com"], ["*.example.com", "https://a.b:443"]],
    "cawg_trust.trusted_ica_issuers": [[], ["did:web:example.com"]],
    "builder.vendor": ["acme", "x"],
    "builder.created_assertion_labels": [[], ["c2pa.actions", "x.y"]],
    "soft_binding.soft_binding_algorithms": [[], ["alg.a", "alg.b"]],
    "builder.certificate_status_fetch": ["all", "active"],
    "builder.certificate_status_should_override": [True, False],
    "trust.trust_config": ["1.3.6.1.5.5.7.3.4\n", "//comment\n1.2.3\n"],
}


def pem_sample():
    try:
        return common.src("sdk/tests/fixtures/certs/es256.pub")
    except Exception:
        return None


def gen_value_for(rng, path, default, pem):
    """a value for a schema leaf: mostly type-correct, sometimes wrong type / boundary / null / case-changed"""
    r = rng.random()
    p = ".".join(path)
    if r < 0.12:
        return None
    if r < 0.27:
        return rng.choice([True, 0, -1, 1.5, "x", "TRUE", [], [1], {}, {"a": 1}, 2 ** 64 - 1, 2 ** 40])
    if isinstance(default, bool):
        return rng.random() < 0.5
    if isinstance(default, int):
        if p == "version":
            return rng.choice([1, 1, 0, 2, 7])
        return rng.choice([0, 1, 2, 5, 32, 100, 512, 1024, 1025, 4096, 2 ** 31, rng.randrange(0, 2000)])
    if isinstance(default, str):
        return rng.choice([default, default.upper(), default.capitalize(), "low", "high", "medium", "all", "active", "nonsense"])
    if default is None:
        if p in OPT_TYPES:
            return rng.choice(OPT_TYPES[p])
        if p.endswith(("user_anchors", "trust_anchors", "allowed_list")):
            return rng.choice([pem, "not a pem", "aGVsbG8=\n", ""]) if pem else "not a pem"
        return rng.choice(["s", 3, True, ["a"], {"enabled": True}])
    return default


def put(doc, path, v):
    cur = doc
    for s in path[:-1]:
        if not is_obj(cur.get(s)):
            cur[s] = {}
        cur = cur[s]
    cur[path[-1]] = v


def gen_doc(rng, schema_leaves, pem, nulls=True):
    doc = {}
    for _ in range(rng.choice([0, 1, 1, 2, 3, 5])):
        path, default = rng.choice(schema_leaves)
        v = gen_value_for(rng, path, default, pem)
        if v is None and not nulls:
            continue
        put(doc, path, v)
    r = rng.random()
    if r < 0.15:      # unknown keys
        put(doc, rng.choice([("zzz",), ("core", "nosuch"), ("verify", "x", "y"), ("builder", "thumbnail", "extra")]), gen_scalar(rng) if nulls else 1)
    elif r < 0.22:    # a whole section replaced by a scalar / partial object
        put(doc, (rng.choice(["core", "verify", "trust", "builder", "soft_binding"]),), rng.choice([1, "x", [], True]))
    elif r < 0.27:
        put(doc, ("signer",), rng.choice([{"local": {"alg": "es256"}}, {"remote": {"url": "u"}}, "x", 1]))
    return doc


def strip_nulls(x):
    if is_obj(x):
        return {k: strip_nulls(v) for k, v in x.items() if v is not None}
    if isinstance(x, list):
        return [strip_nulls(v) for v in x if v is not None]
    return x


# --- TOML emitter (values restricted to what TOML can spell: no null, ints within i64, finite floats)
def toml_key(k):
    return k if re.fullmatch(r"[A-Za-z0-9_-]+", k) else json.dumps(k, ensure_ascii=False)


def toml_val(v):
    if isinstance(v, bool):
        return "true" if v else "false"
    if isinstance(v, int):
        return str(v)
    if isinstance(v, float):
        s = repr(v)
        return s if any(c in s for c in ".en") else s + ".0"
    if isinstance(v, str):
        return json.dumps(v, ensure_ascii=False)
    if isinstance(v, list):
        return "[" + ", ".join(toml_val(x) for x in v) + "]"
    return "{" + ", ".join(f"{toml_key(k)} = {toml_val(x)}" for k, x in v.items()) + "}"


def toml_ok(v):
    if v is None:
        return False
    if isinstance(v, bool):
        return True
    if isinstance(v, int):
        return -2 ** 63 <= v < 2 ** 63
    if isinstance(v, float):
        return v == v and abs(v) != float("inf")
    if isinstance(v, str):
        return "\x7f" not in v
    if isinstance(v, list):
        return all(toml_ok(x) for x in v)
    return all(toml_ok(x) for x in v.values())


def toml_doc(doc, rng):
    """top-level scalars first, then object-valued keys as [tables] (or inline, or dotted keys)"""
    lines, tables = [], []
    for k, v in doc.items():
        style = rng.random()
        if is_obj(v) and v and style < 0.6:
            tables.append((k, v))
        elif is_obj(v) and v and style < 0.8:
            for k2, v2 in v.items():
                lines.append(f"{toml_key(k)}.{toml_key(k2)} = {toml_val(v2)}")
        else:
            lines.append(f"{toml_key(k)} = {toml_val(v)}")
    for k, v in tables:
        lines.append(f"\n[{toml_key(k)}]")
        for k2, v2 in v.items():
            lines.append(f"{toml_key(k2)} = {toml_val(v2)}")
    return "\n".join(lines) + "\n"


def gen_settings_case(rng, schema_leaves, pem):
    steps = []
    for _ in range(rng.choice([1, 1, 2, 3, 4])):
        r = rng.random()
        if r < 0.3:
            doc = gen_doc(rng, schema_leaves, pem)
            text = json.dumps(doc)
            bad = rng.random() < 0.08
            if bad:
                text = rng.choice([text[:-1], text + "}", "", "[1,2", "nul"])
            k = rng.choice(["with_json", "update"])
            steps.append({"k": k, "format": rng.choice(["json", "json", "JSON", "Json"]), "text": text, "doc": None if bad else doc})
        elif r < 0.42:
            doc = strip_nulls(gen_doc(rng, schema_leaves, pem, nulls=False))
            if not toml_ok(doc):
                continue
            text = toml_doc(doc, rng)
            bad = rng.random() < 0.08
            if bad:
                text = rng.choice([text + "[", "a = ", "= 1", text + "\nx = 1\nx = 2\n"])
            k = rng.choice(["with_toml", "update"])
            steps.append({"k": k, "format": rng.choice(["toml", "toml", "TOML"]), "text": text, "doc": None if bad else doc})
        elif r < 0.47:
            steps.append({"k": "update", "format": rng.choice(["yaml", "", "xml", "json5"]), "text": "{}", "doc": None, "unsupported": True})
        elif r < 0.62:
            doc = strip_nulls(gen_doc(rng, schema_leaves, pem, nulls=False))
            if not toml_ok(doc):
                continue
            steps.append({"k": "pair", "text": json.dumps(doc), "toml": toml_doc(doc, rng), "doc": doc})
        else:
            if rng.random() < 0.8:
                path, default = rng.choice(schema_leaves)
                v = gen_value_for(rng, path, default, pem)
                p = ".".join(path)
            else:
                p = rng.choice(["zzz", "core.nosuch", "verify.x.y", "", "core..x", "core.", "builder.thumbnail.nosuch",
                                "version.x", "core.merkle_tree_max_proofs.deep", "signer", "signer.local.alg"])
                v = gen_scalar(rng)
            steps.append({"k": rng.choice(["with_value", "set_value"]), "path": p, "value": v})
    if not steps:
        steps.append({"k": "with_json", "format": "json", "text": "{}", "doc": {}})
    return {"op": "settings", "steps": steps}


def corpus():
    p = os.path.join(common.VERIF, "corpus", "C25.jsonl")
    if not os.path.exists(p):
        return []
    return [json.loads(l) for l in open(p) if l.strip()]


# ------------------------------------------------------------------ evaluation
def trunc(x, n=300):
    s = json.dumps(x, default=str)
    return s if len(s) <= n else s[:n] + "..."


def eval_trees(ctx, cases, stats, with_model=True):
    impl = common.run_harness("c25", cases)
    # the wide shapes are expensive to spell as Coq terms: the model runs on a sample of them, the oracle on all
    mcases = [c for c in cases if not c.get("nomodel")] if with_model else []
    mlist = common.coq_eval("C25", IMPORTS, [tree_expr(c) for c in mcases], shard_size=60) if mcases else []
    model = {c["id"]: mlist[j] for j, c in enumerate(mcases)}
    maxd = ctx.facts["MERGE_MAX_DEPTH"] if getattr(ctx, "facts", None) else 64
    for i, c in enumerate(cases):
        r = impl[c["id"]]
        op = c["op"]
        stats["tree_ops"][op] = stats["tree_ops"].get(op, 0) + 1
        if c.get("shape"):
            stats["shapes"]["tree_" + c["shape"]] = stats["shapes"].get("tree_" + c["shape"], 0) + 1
        if r["r"] in ("panic", "crash"):
            ctx.report_violation(c, f"implementation panicked: {r.get('msg')}")
            continue
        # ---- oracle
        if op == "tree_merge":
            deep = c["depth"] + obj_depth(c["overlay"]) > maxd
            if c["depth"] == 0 and not deep:
                want = py_merge(c["target"], c["overlay"])
                if not jeq(r["v"], want):
                    ctx.report_violation(c, f"merge_json result {trunc(r['v'])} is not the recursive merge {trunc(want)}")
            else:
                stats["merge_at_or_past_cutoff" if deep else "merge_at_inner_depth"] += 1
        elif op == "tree_set":
            if r["r"] != "ok":
                ctx.report_violation(c, "set_at_path failed on a dotted path")
            else:
                got = py_get(r["v"], c["path"])
                if got is MISSING or not jeq(got, c["value"]):
                    ctx.report_violation(c, f"reading {c['path']!r} after setting it gives {'nothing' if got is MISSING else trunc(got)}, not {trunc(c['value'])}")
                # frame: every addressable path of the old tree (and the random probe) that diverges from the written one
                qs = ([c["probe"]] if c.get("probe") is not None else []) + all_paths(c["target"])
                for q in qs:
                    if diverges(c["path"], q):
                        stats["frame_probes"] += 1
                        a, b = py_get(c["target"], q), py_get(r["v"], q)
                        if (a is MISSING) != (b is MISSING) or (a is not MISSING and not jeq(a, b)):
                            ctx.report_violation(c, f"setting {c['path']!r} changed the unrelated path {q!r}")
                            break
        else:
            want = py_get(c["target"], c["path"])
            if (r["r"] == "none") != (want is MISSING) or (want is not MISSING and not jeq(r["v"], want)):
                ctx.report_violation(c, f"get_at_path({c['path']!r}) = {trunc(r)} but the tree holds {'nothing' if want is MISSING else trunc(want)}")
        # ---- correspondence (ordered: the model keeps IndexMap's insertion order)
        if c["id"] in model:
            mo = model[c["id"]]
            stats["tree_model_cases"] += 1
            if op == "tree_merge":
                ok = jeq_ordered(of_coq(mo), r["v"])
            elif op == "tree_set":
                mv = of_coq_opt(mo)
                ok = (mv is MISSING and r["r"] == "err") or (mv is not MISSING and r["r"] == "ok" and jeq_ordered(mv, r["v"]))
            else:
                mv = of_coq_opt(mo)
                ok = (mv is MISSING and r["r"] == "none") or (mv is not MISSING and r["r"] == "some" and jeq_ordered(mv, r["v"]))
            if not ok:
                ctx.disagreements.append({"case": c, "impl": trunc(r, 600), "model": trunc(mo, 600)})


def eval_settings(ctx, cases, stats, with_model=True):
    impl = common.run_harness("c25", cases)
    # second pass: the typed projection of the python-side merge / set
    proj_cases, index = [], {}
    for c in cases:
        r = impl[c["id"]]
        if r["r"] != "ok":
            continue
        for si, (st, o) in enumerate(zip(c["steps"], r["steps"])):
            if st["k"] in ("with_json", "with_toml", "update", "pair") and st.get("doc") is not None:
                want = py_merge(o["before"], st["doc"])
            elif st["k"] in ("with_value", "set_value"):
                want = py_set(o["before"], st["path"], st["value"])
            else:
                continue
            index[(c["id"], si)] = len(proj_cases)
            proj_cases.append({"id": len(proj_cases), "op": "project", "value": want})
    proj = common.run_harness("c25", proj_cases) if proj_cases else {}
    # model-side merge of the same step, projected by the implementation (a sample)
    msample = []
    if with_model:
        for c in cases:
            r = impl[c["id"]]
            if r["r"] != "ok":
                continue
            for si, (st, o) in enumerate(zip(c["steps"], r["steps"])):
                if (c["id"], si) in index and len(msample) < stats["model_budget"]:
                    if st["k"] in ("with_value", "set_value"):
                        e = f"set_at_path {cjson(o['before'])} {cbytes(st['path'])} {cjson(st['value'])}"
                    else:
                        e = f"Some (merge_json MERGE_MAX_DEPTH {cjson(o['before'])} {cjson(st['doc'])})"
                    msample.append(((c["id"], si), e))
        mres = common.coq_eval("C25s", IMPORTS, [e for _, e in msample], shard_size=20) if msample else []
        mproj_cases = []
        for j, ((cid, si), _) in enumerate(msample):
            mv = of_coq_opt(mres[j])
            mproj_cases.append({"id": j, "op": "project", "value": None if mv is MISSING else mv})
        mproj = common.run_harness("c25", mproj_cases) if mproj_cases else {}
        mmap = {key: mproj[j] for j, (key, _) in enumerate(msample)}
    else:
        mmap = {}

    for c in cases:
        r = impl[c["id"]]
        if r["r"] in ("panic", "crash"):
            ctx.report_violation(c, f"implementation panicked: {r.get('msg')}")
            continue
        if c.get("shape"):
            stats["shapes"]["settings_" + c["shape"]] = stats["shapes"].get("settings_" + c["shape"], 0) + 1
            if all(o["res"] == "ok" for o in r["steps"]):
                stats["shapes"]["settings_wide_all_steps_ok"] = stats["shapes"].get("settings_wide_all_steps_ok", 0) + 1
        for si, (st, o) in enumerate(zip(c["steps"], r["steps"])):
            k = st["k"]
            stats["steps"][k] = stats["steps"].get(k, 0) + 1
            stats["results"][o["res"]] = stats["results"].get(o["res"], 0) + 1
            mi = {"step": st, "res": o["res"], "kind": o.get("kind")}
            where = f"step {si} ({k})"
            # (a) atomic failure
            if o["res"] == "err":
                stats["errors"][o.get("kind", "?")] = stats["errors"].get(o.get("kind", "?"), 0) + 1
                if not jeq(o["before"], o["after"]):
                    ctx.report_violation(c, f"{where} failed ({o.get('kind')}) but the settings changed", mi)
            if o.get("receiver_untouched") is False:
                ctx.report_violation(c, f"{where}: with_* modified its receiver", mi)
            # (b) merge / set semantics through the typed projection
            if (c["id"], si) in index:
                p = proj[index[(c["id"], si)]]
                if p["r"] == "ok":
                    if o["res"] != "ok":
                        ctx.report_violation(c, f"{where} failed ({o.get('kind')}: {o.get('detail')}) although the merged document is a valid settings value", mi)
                    elif not jeq(o["after"], p["v"]):
                        ctx.report_violation(c, f"{where}: resulting settings are not the recursive merge of the current settings with the document", mi)
                    else:
                        stats["merge_checked"] += 1
                elif p["r"] == "err":
                    if o["res"] == "ok":
                        ctx.report_violation(c, f"{where} succeeded although the merged document is rejected ({p.get('stage')})", mi)
                    else:
                        stats["rejected_" + p.get("stage", "?")] += 1
                else:
                    ctx.report_violation(c, f"{where}: projection crashed: {p.get('msg')}", mi)
                # correspondence: the model's merge/set of the same step, projected the same way
                if (c["id"], si) in mmap:
                    mp = mmap[(c["id"], si)]
                    same = (mp["r"] == "ok" and o["res"] == "ok" and jeq(mp["v"], o["after"])) or (mp["r"] == "err" and o["res"] == "err")
                    stats["model_steps"] += 1
                    if not same:
                        ctx.disagreements.append({"case": c, "step": si, "impl": trunc(o.get("after"), 400), "model": trunc(mp, 400)})
            elif k in ("with_json", "with_toml", "update"):
                # unparsable text or unsupported format: must fail
                if o["res"] != "err":
                    ctx.report_violation(c, f"{where}: an unparsable document / unsupported format was accepted", mi)
                else:
                    stats["parse_errors"] += 1
            # (c) read-after-write
            if k in ("with_value", "set_value") and o["res"] == "ok":
                g = o["get"]
                v = st["value"]
                exact = g["r"] == "ok" and jeq(g["v"], v)
                if exact:
                    stats["read_after_write_exact"] += 1
                else:
                    in_schema = py_get(o["before"], st["path"]) is not MISSING
                    scalar = isinstance(v, (bool, int, float, str))
                    folded = g["r"] == "ok" and isinstance(v, str) and isinstance(g["v"], str) and g["v"].lower() == v.lower()
                    if folded:
                        stats["unspecified"]["case_folded_enum"] += 1
                    elif not in_schema:
                        stats["unspecified"]["unknown_path_dropped"] += 1
                    elif not scalar:
                        stats["unspecified"]["null_or_structured_value_normalised"] += 1
                    else:
                        ctx.report_violation(c, f"{where}: set {st['path']!r} = {trunc(v)} succeeded but reading it gives {trunc(g)}", mi)
            # (d) JSON == TOML
            if k == "pair":
                if o["pj"]["r"] == "ok" and o["pt"]["r"] == "ok" and jeq(o["pj"]["v"], o["pt"]["v"]):
                    stats["pairs"] += 1
                    if not jeq(o["pj"]["v"], st["doc"]):
                        stats["pair_doc_mismatch"] += 1
                    j, t = o["json"], o["toml"]
                    if j["res"] != t["res"] or (j["res"] == "ok" and not jeq(j["after"], t["after"])):
                        ctx.report_violation(c, f"{where}: equivalent JSON and TOML documents gave different results ({j['res']} vs {t['res']})", mi)
                else:
                    stats["toml_emit_mismatch"] += 1


def sample(c):
    def cut(x, depth=0):
        if isinstance(x, str):
            return x if len(x) <= 120 else x[:120] + "..."
        if isinstance(x, list):
            return [cut(v, depth + 1) for v in x[:6]]
        if isinstance(x, dict):
            return {k: cut(v, depth + 1) for k, v in list(x.items())[:8]} if depth < 6 else "{...}"
        return x
    return cut({k: v for k, v in c.items() if k != "id"})


def new_stats(model_budget):
    return {"tree_ops": {}, "tree_model_cases": 0, "shapes": {}, "merge_at_or_past_cutoff": 0, "merge_at_inner_depth": 0, "frame_probes": 0,
            "steps": {}, "results": {}, "errors": {}, "merge_checked": 0, "rejected_typed": 0, "rejected_validate": 0,
            "parse_errors": 0, "read_after_write_exact": 0, "pairs": 0, "pair_doc_mismatch": 0, "toml_emit_mismatch": 0,
            "model_steps": 0, "model_budget": model_budget,
            "unspecified": {"case_folded_enum": 0, "unknown_path_dropped": 0, "null_or_structured_value_normalised": 0}}


def schema(ctx):
    r = common.run_harness("c25", [{"id": 0, "op": "default"}])[0]
    if r.get("r") != "ok":
        raise TieBroken(f"harness could not serialise Settings::new(): {r}")
    return r["v"]


def run(ctx):
    if not getattr(ctx, "no_build", False):
        common.build_harness()
    if not getattr(ctx, "facts", None):
        ctx.facts = {"MERGE_MAX_DEPTH": 64}
    maxd = ctx.facts["MERGE_MAX_DEPTH"]
    default = schema(ctx)
    sl = list(leaves(default))
    pem = pem_sample()
    stats = new_stats(40 if ctx.quick() else 300)
    if ctx.replay:
        cases = [ctx.replay["case"]] if "case" in ctx.replay else [d["case"] for d in ctx.replay.get("disagreements", [])]
    else:
        cases = corpus()
        ntree, nset = (500, 350) if ctx.quick() else (5000, 3000)
        nwide, nwset = (70, 40) if ctx.quick() else (500, 250)
        cases += [gen_tree_case(ctx.rng, maxd) for _ in range(ntree)]
        wide = [gen_wide_tree_case(ctx.rng, maxd) for _ in range(nwide)]
        for c in wide[(12 if ctx.quick() else 60):]:
            c["nomodel"] = True
        cases += wide
        cases += [gen_settings_case(ctx.rng, sl, pem) for _ in range(nset)]
        cases += [gen_wide_settings_case(ctx.rng, maxd) for _ in range(nwset)]
    for i, c in enumerate(cases):
        c["id"] = i
    trees = [c for c in cases if c["op"].startswith("tree_")]
    sets = [c for c in cases if c["op"] == "settings"]
    if trees:
        eval_trees(ctx, trees, stats)
    if sets:
        eval_settings(ctx, sets, stats)
    if stats["toml_emit_mismatch"] or stats["pair_doc_mismatch"]:
        ctx.tie_errors.append(f"generator: {stats['toml_emit_mismatch']} JSON/TOML pairs did not parse to equal values, "
                              f"{stats['pair_doc_mismatch']} parsed to something else than the generated document")
    distinct = len({json.dumps({k: v for k, v in c.items() if k != "id"}, sort_keys=True, default=str) for c in cases
                    if c["op"] != "tree_get" and (c["op"] != "settings" or any(s.get("doc") or s.get("path") for s in c["steps"]))})
    stats.pop("model_budget")
    ctx.coverage.update({
        "evaluations": len(trees) + sum(len(c["steps"]) for c in sets),
        "distinct_nontrivial": distinct,
        "rule": "corpus + seeded random value trees (merge at depths 0..MERGE_MAX_DEPTH+1 incl. nests around the limit, wide objects of "
                "MERGE_MAX_DEPTH..3*MERGE_MAX_DEPTH members with overlays touching late members, k siblings x d levels with k*d around and beyond "
                "the limit, set/get on dotted paths incl. empty segments) through the guarded hooks, the same wide shapes through the public API "
                "in builder.claim_generator_info, + seeded sequences of Settings updates over the schema read from "
                "Settings::new() (valid/invalid types, nulls, unknown keys, boundary numbers, bad text, unsupported formats, JSON/TOML pairs, "
                "path/value pairs); non-trivial = a merge/set tree case or a settings case with a non-empty document or a path; distinct by content",
        "distribution": stats,
        "schema_leaves": len(sl),
        "traces_validated_against_impl": stats["tree_model_cases"] + stats["model_steps"],
        "samples": [sample(c) for c in (trees[:2] + sets[:2])],
    })


def search(ctx):
    common.build_harness()
    maxd = (getattr(ctx, "facts", None) or {"MERGE_MAX_DEPTH": 64})["MERGE_MAX_DEPTH"]
    ctx.facts = {"MERGE_MAX_DEPTH": maxd}
    default = schema(ctx)
    sl = list(leaves(default))
    pem = pem_sample()
    stats = new_stats(0)
    cases = ([gen_tree_case(ctx.rng, maxd) for _ in range(5000)] + [gen_wide_tree_case(ctx.rng, maxd) for _ in range(600)]
             + [gen_settings_case(ctx.rng, sl, pem) for _ in range(2500)] + [gen_wide_settings_case(ctx.rng, maxd) for _ in range(300)])
    for i, c in enumerate(cases):
        c["id"] = i
    eval_trees(ctx, [c for c in cases if c["op"].startswith("tree_")], stats, with_model=False)
    eval_settings(ctx, [c for c in cases if c["op"] == "settings"], stats, with_model=False)
    ctx.coverage["search_evaluations"] = len(cases)
